"""A deterministic scheduler for REAL threads (C12, C13).

Every operation on a shared harness object (semaphore acquire/release, a call on the shared
target, queue put/get, thread join) is a *yield point*: the calling thread parks there, before
performing the operation, and only the scheduler decides which parked thread goes on.  Exactly
one thread runs between two yield points.  A schedule is a list of task indices; when the task
named by the next entry is blocked or finished, the next runnable one (cyclically) runs instead;
when the schedule is used up the lowest-numbered runnable task runs, until none is runnable.
"No task runnable while one is unfinished" is reported as a deadlock - the threads are then
released with an Abort exception so that nothing is left hanging (all threads are daemons).

The scheduler itself uses the genuine `threading` module; the code under test only ever sees the
objects below (or, for C13, a namespace object standing in for `threading`)."""
import threading
import time


class Abort(BaseException):
    """Raised inside parked threads when the scheduler gives up (deadlock, hang, end of case)."""


class Task:
    def __init__(self, sched, tid, fn, name):
        self.sched = sched
        self.tid = tid
        self.fn = fn
        self.name = name
        self.go = threading.Semaphore(0)
        self.enabled = None          # callable: may the pending operation be performed now?
        self.idle_ok = False         # a timed wait: may also go on when NO task is runnable (its timeout expires)
        self.finished = False
        self.exc = None              # exception that ended the task's function, if any
        self.thread = None

    def is_alive_for_join(self):
        return not self.finished


class Scheduler:
    def __init__(self, schedule, step_timeout=10.0, max_steps=100000):
        self.schedule = list(schedule)
        self.tasks = []
        self.by_ident = {}
        self.back = threading.Semaphore(0)
        self.waiter = self.back       # who is told when the running task parks or finishes
        self.aborting = False
        self.deadlock = False
        self.hung = False
        self.steps = 0
        self.step_timeout = step_timeout
        self.max_steps = max_steps
        self.trace = []               # tids in the order they were actually run

    # ---- called from task threads -------------------------------------------------------
    def current(self):
        return self.by_ident.get(threading.get_ident())

    def current_tid(self):
        t = self.current()
        return t.tid if t is not None else -1

    def park(self, enabled=None, or_when_idle=False):
        """Yield point: returns when the scheduler lets this task perform its operation.  With or_when_idle a
        task whose operation is not enabled is also let go when no task at all is runnable (a timed wait whose
        timeout expires: virtual time only passes when nothing else can happen)."""
        task = self.current()
        if task is None:              # not one of ours (e.g. the harness thread itself): no scheduling
            return
        if self.aborting:
            raise Abort()
        task.enabled = enabled or _always
        task.idle_ok = or_when_idle
        self.waiter.release()
        task.go.acquire()
        task.enabled = None
        task.idle_ok = False
        if self.aborting:
            raise Abort()

    # ---- task creation -----------------------------------------------------------------
    def spawn(self, fn, name=None):
        """Create a task and run it up to its first yield point (or to its end).  May be called
        from the harness thread before run() or from a running task."""
        task = Task(self, len(self.tasks), fn, name or "task%d" % len(self.tasks))
        self.tasks.append(task)
        ready = threading.Semaphore(0)
        prev = self.waiter
        self.waiter = ready
        th = threading.Thread(target=self._body, args=(task,), name=task.name, daemon=True)
        task.thread = th
        th.start()
        ok = ready.acquire(timeout=self.step_timeout)
        self.waiter = prev
        if not ok:
            self.hung = True
            raise Abort()
        return task

    def _body(self, task):
        self.by_ident[threading.get_ident()] = task
        try:
            task.fn()
        except Abort:
            pass
        except BaseException as e:  # noqa - recorded, the observation decides what it means
            task.exc = e
        finally:
            task.finished = True
            task.enabled = None
            self.waiter.release()

    # ---- the scheduling loop (harness thread) ------------------------------------------------
    def _runnable(self):
        out = []
        for t in self.tasks:
            if not t.finished and t.enabled is not None:
                try:
                    if t.enabled():
                        out.append(t)
                except Exception:
                    pass
        return out

    def run(self):
        pos = 0
        try:
            while True:
                if all(t.finished for t in self.tasks):
                    break
                ready = self._runnable()
                if not ready:                 # nothing can happen: timed waits expire
                    ready = [t for t in self.tasks if not t.finished and t.enabled is not None and t.idle_ok]
                if not ready:
                    self.deadlock = True
                    break
                n = len(self.tasks)
                if pos < len(self.schedule):
                    want = self.schedule[pos] % n
                    pos += 1
                    ready_ids = set(t.tid for t in ready)
                    pick = None
                    for j in range(n):
                        if (want + j) % n in ready_ids:
                            pick = self.tasks[(want + j) % n]
                            break
                else:
                    pick = ready[0]
                self.steps += 1
                if self.steps > self.max_steps:
                    self.hung = True
                    break
                self.trace.append(pick.tid)
                pick.go.release()
                if not self.back.acquire(timeout=self.step_timeout):
                    self.hung = True
                    break
        finally:
            self.shutdown()

    def shutdown(self):
        self.aborting = True
        for t in self.tasks:
            if not t.finished:
                t.go.release()
        deadline = time.time() + 2.0
        for t in self.tasks:
            if t.thread is not None:
                t.thread.join(max(0.0, deadline - time.time()))


def _always():
    return True


# ---------------------------------------------------------------------------------------
# scheduler-aware shared objects
# ---------------------------------------------------------------------------------------
class SchedSemaphore:
    """A counting semaphore whose acquire and release are yield points; logs both."""

    def __init__(self, sched, value=1, log=None):
        self.sched = sched
        self.count = value
        self.initial = value
        self.log = log
        self.n_failed_tries = 0

    def acquire(self, blocking=True, timeout=None):
        """threading.Semaphore.acquire: a blocking acquire is enabled only while the counter is positive.
        A non-blocking acquire (blocking=False) or one with a timeout is a yield point that is ALWAYS
        enabled: whether it obtains the semaphore depends on the counter at the moment the scheduler
        lets it go (a timeout expiring = being scheduled while the semaphore is still held).  A failed
        attempt changes nothing on the shared object and is not logged."""
        if not blocking and timeout is not None:
            raise ValueError("can't specify timeout for non-blocking acquire")
        if blocking and timeout is None:
            self.sched.park(lambda: self.count > 0)
        else:
            self.sched.park()
            if self.count <= 0:
                self.n_failed_tries += 1
                return False
        self.count -= 1
        if self.log is not None:
            self.log.append((self.sched.current_tid(), "acq"))
        return True

    def release(self, n=1):
        self.sched.park()
        self.count += n
        if self.log is not None:
            self.log.append((self.sched.current_tid(), "rel"))

    __enter__ = acquire

    def __exit__(self, *a):
        self.release()


class SchedQueue:
    """queue.Queue stand-in: put and get are yield points, get is enabled only when non-empty.

    `invisible(item)` marks items that are neither scheduled nor logged (attachment-only stream
    events whose number depends on traceback formatting): a put of such an item is held back and
    enqueued, in order, together with the putting thread's next visible item; a scheduled get hands
    the leading invisible items and then the one visible item to the caller as one step."""

    def __init__(self, sched, log=None, get_faults=(), exc=KeyboardInterrupt, describe=None, invisible=None):
        self.sched = sched
        self.items = []
        self.log = log
        self.ngets = 0
        self.get_faults = set(get_faults)
        self.exc = exc
        self.describe = describe or (lambda item: item)
        self.invisible = invisible or (lambda item: False)
        self.held = {}
        self.carry = False
        self.n_invisible = 0

    def put(self, item, block=True, timeout=None):
        tid = self.sched.current_tid()
        if self.invisible(item):
            self.held.setdefault(tid, []).append(item)
            return
        self.sched.park()
        self.items.extend(self.held.pop(tid, []))
        self.items.append(item)
        if self.log is not None:
            self.log.append((tid, "put", self.describe(item)))

    def get(self, block=True, timeout=None):
        """A blocking get is enabled only when the queue is non-empty.  A timed get may also go on when NO task is
        runnable (then it raises queue.Empty: polling loops terminate); a non-blocking get is always enabled and
        raises queue.Empty when there is nothing.  Only blocking gets count for `get_faults`."""
        if not self.carry:
            if block:
                k = self.ngets
                self.ngets += 1
                if k in self.get_faults:       # an interrupt arriving while blocked in get()
                    self.sched.park()
                    if self.log is not None:
                        self.log.append((self.sched.current_tid(), "getintr"))
                    raise self.exc()
            if block and timeout is None:
                self.sched.park(lambda: len(self.items) > 0)
            else:
                self.sched.park(lambda: len(self.items) > 0, or_when_idle=True) if block else self.sched.park()
                if not self.items:
                    import queue as _queue
                    raise _queue.Empty()
        item = self.items.pop(0)
        if self.invisible(item):
            self.carry = True
            self.n_invisible += 1
            return item
        self.carry = False
        if self.log is not None:
            self.log.append((self.sched.current_tid(), "get", self.describe(item)))
        return item


def _queue_extras():
    def get_nowait(self):
        return self.get(False)

    def put_nowait(self, item):
        return self.put(item, False)

    def empty(self):
        return not self.items

    def qsize(self):
        return len(self.items)

    def full(self):
        return False

    def task_done(self):
        pass
    return dict(get_nowait=get_nowait, put_nowait=put_nowait, empty=empty, qsize=qsize, full=full, task_done=task_done)


for _name, _fn in _queue_extras().items():
    setattr(SchedQueue, _name, _fn)


class SchedThread:
    """threading.Thread stand-in: start() is a yield point of the parent and then creates a scheduler
    task (which runs up to its first yield point); join() is a yield point enabled only when that
    task has finished."""

    sched = None     # set on the subclass made by ThreadingNamespace
    registry = None
    log = None

    def __init__(self, group=None, target=None, name=None, args=(), kwargs=None, daemon=None):
        self._target = target
        self._args = args
        self._kwargs = kwargs or {}
        self.task = None
        self.name = name
        self.daemon = daemon
        self.index = len(self.registry)
        self.registry.append(self)

    def run(self):
        if self._target is not None:
            self._target(*self._args, **self._kwargs)

    def start(self):
        self.sched.park()
        if self.log is not None:
            self.log.append((self.sched.current_tid(), "spawn", self.index))
        self.task = self.sched.spawn(self.run, name=self.name)

    join_hook = None   # optional callable(thread): runs first in join() (fault injection: may park, log and raise)

    def join(self, timeout=None):
        if self.join_hook is not None:
            type(self).join_hook(self)
        done = lambda: self.task is None or self.task.finished
        if timeout is None:
            self.sched.park(done)
        else:                         # a timed join returns when the thread has ended or nothing else can happen
            self.sched.park(done, or_when_idle=True)
            if not done():
                return
        if self.log is not None:
            self.log.append((self.sched.current_tid(), "join", self.index))

    @property
    def ident(self):
        return None if self.task is None else 1000 + self.task.tid

    def getName(self):
        return self.name

    def setName(self, name):
        self.name = name

    def isDaemon(self):
        return bool(self.daemon)

    def setDaemon(self, daemonic):
        self.daemon = daemonic

    def is_alive(self):
        return self.task is not None and not self.task.finished


class SchedBoundedSemaphore(SchedSemaphore):
    def release(self, n=1):
        if self.count + n > self.initial:
            raise ValueError("Semaphore released too many times")
        SchedSemaphore.release(self, n)


class SchedLock(SchedSemaphore):
    """threading.Lock stand-in: a binary semaphore (same yield points, same log entries) that knows whether it is
    locked and refuses to be released when it is not."""

    def __init__(self, sched, log=None):
        SchedSemaphore.__init__(self, sched, 1, log)

    def locked(self):
        return self.count == 0

    def release(self):
        if self.count != 0:
            raise RuntimeError("release unlocked lock")
        SchedSemaphore.release(self, 1)


class SchedRLock:
    """threading.RLock stand-in: only the outermost acquire / release of the owning task touch the shared state
    (and are yield points, logged like a semaphore's)."""

    def __init__(self, sched, log=None):
        self.sched = sched
        self.inner = SchedSemaphore(sched, 1, log)
        self.owner = None
        self.depth = 0

    @property
    def count(self):
        return self.inner.count

    initial = 1

    def acquire(self, blocking=True, timeout=-1):
        me = self.sched.current_tid()
        if self.owner == me and self.depth > 0:
            self.depth += 1
            return True
        ok = self.inner.acquire(blocking, None if timeout in (-1, None) else timeout)
        if ok:
            self.owner, self.depth = me, 1
        return ok

    def release(self):
        if self.owner != self.sched.current_tid() or self.depth == 0:
            raise RuntimeError("cannot release un-acquired lock")
        self.depth -= 1
        if self.depth == 0:
            self.owner = None
            self.inner.release()

    __enter__ = acquire

    def __exit__(self, *a):
        self.release()


class SchedEvent:
    """threading.Event stand-in: wait() is a yield point enabled when the flag is set (a timed wait also when
    nothing else can happen); set() / clear() are yield points too."""

    def __init__(self, sched):
        self.sched = sched
        self.flag = False

    def is_set(self):
        return self.flag

    isSet = is_set

    def set(self):
        self.sched.park()
        self.flag = True

    def clear(self):
        self.sched.park()
        self.flag = False

    def wait(self, timeout=None):
        self.sched.park(lambda: self.flag, or_when_idle=timeout is not None)
        return self.flag


class SchedCondition:
    """threading.Condition stand-in over a scheduler-aware lock: wait() releases the lock, parks until notified
    (a timed wait also when nothing else can happen) and re-acquires it."""

    def __init__(self, sched, lock):
        self.sched = sched
        self.lock = lock
        self.tickets = []
        self.acquire = lock.acquire
        self.release = lock.release

    def __enter__(self):
        return self.lock.acquire()

    def __exit__(self, *a):
        self.lock.release()

    def wait(self, timeout=None):
        ticket = [False]
        self.tickets.append(ticket)
        self.lock.release()
        self.sched.park(lambda: ticket[0], or_when_idle=timeout is not None)
        if ticket in self.tickets:
            self.tickets.remove(ticket)
        self.lock.acquire()
        return ticket[0]

    def wait_for(self, predicate, timeout=None):
        result = predicate()
        while not result:
            if not self.wait(timeout) and timeout is not None:
                return predicate()
            result = predicate()
        return result

    def notify(self, n=1):
        for ticket in self.tickets[:n]:
            ticket[0] = True
        del self.tickets[:n]

    def notify_all(self):
        self.notify(len(self.tickets))

    notifyAll = notify_all


class ThreadingNamespace:
    """What C13 binds to `testtools.testsuite.threading`."""

    def __init__(self, sched, sem_log=None):
        self.sched = sched
        self.threads = []
        ns = self

        class Thread(SchedThread):
            pass
        Thread.sched = sched
        Thread.registry = self.threads
        Thread.log = sem_log
        self.Thread = Thread
        self.semaphores = []

        def Semaphore(value=1):
            s = SchedSemaphore(sched, value, sem_log)
            ns.semaphores.append(s)
            return s
        self.Semaphore = Semaphore

        # the rest of the small vocabulary a rewrite of the code under test may use; every mutual exclusion
        # object is registered in `semaphores` (count / initial) and logs acquire / release like a semaphore
        def BoundedSemaphore(value=1):
            s = SchedBoundedSemaphore(sched, value, sem_log)
            ns.semaphores.append(s)
            return s

        def Lock():
            s = SchedLock(sched, sem_log)
            ns.semaphores.append(s)
            return s

        def RLock():
            s = SchedRLock(sched, sem_log)
            ns.semaphores.append(s)
            return s

        def Event():
            return SchedEvent(sched)

        def Condition(lock=None):
            return SchedCondition(sched, lock if lock is not None else RLock())
        self.BoundedSemaphore, self.Lock, self.RLock, self.Event, self.Condition = \
            BoundedSemaphore, Lock, RLock, Event, Condition

        def current_thread():
            task = sched.current()
            for th in ns.threads:
                if th.task is not None and th.task is task:
                    return th
            return threading.current_thread()

        def get_ident():
            task = sched.current()
            return threading.get_ident() if task is None else 1000 + task.tid
        self.current_thread = current_thread
        self.get_ident = get_ident
        self.main_thread = threading.main_thread
        self.active_count = lambda: 1 + sum(1 for th in ns.threads if th.is_alive())
        self.enumerate = lambda: [threading.current_thread()] + [th for th in ns.threads if th.is_alive()]
        self.TIMEOUT_MAX = threading.TIMEOUT_MAX
