(* Byte strings as stdlib [string] (a list of 8-bit characters): what the stream
   models use for file_bytes, mime strings and skip reasons.  Stdlib only. *)
From Coq Require Export String.
From Coq Require Import Ascii List Arith Bool.
Import ListNotations.
Open Scope string_scope.

(* literal helper used by the Gallina printer for anything that is not printable ASCII *)
Fixpoint bs (l : list nat) : string :=
  match l with
  | [] => EmptyString
  | n :: r => String (ascii_of_nat n) (bs r)
  end.

(* Python: `not b` for a bytes object *)
Definition sempty (s : string) : bool :=
  match s with EmptyString => true | String _ _ => false end.

(* b"".join(chunks) *)
Definition sjoin (l : list string) : string := fold_right append "" l.

Lemma sempty_true s : sempty s = true <-> s = "".
Proof. destruct s; simpl; split; congruence. Qed.

Lemma sapp_nil_r s : s ++ "" = s.
Proof. induction s as [|c s IH]; simpl; [reflexivity|]. rewrite IH. reflexivity. Qed.

Lemma sapp_assoc a b c : (a ++ b) ++ c = a ++ (b ++ c).
Proof. induction a as [|x a IH]; simpl; [reflexivity|]. rewrite IH. reflexivity. Qed.

Lemma sjoin_app l m : sjoin (l ++ m) = sjoin l ++ sjoin m.
Proof.
  induction l as [|x l IH]; simpl; [reflexivity|]. rewrite IH, sapp_assoc. reflexivity.
Qed.

Lemma sempty_app a b : sempty (a ++ b) = (sempty a && sempty b)%bool.
Proof. destruct a; simpl; reflexivity. Qed.

(* compact literal for arbitrary bytes: hx "e29c93" is the 3-byte string E2 9C 93 (lower-case hex digits) *)
Definition hexval (c : ascii) : nat :=
  let n := nat_of_ascii c in if Nat.leb 97 n then n - 87 else n - 48.
Fixpoint hx (s : string) : string :=
  match s with
  | String a (String b r) => String (ascii_of_nat (16 * hexval a + hexval b)) (hx r)
  | _ => EmptyString
  end.
