(* Stable insertion sort with the two facts every user needs. *)
From Coq Require Import List Bool Permutation Sorted.
Import ListNotations.

Section ISort.
  Context {A : Type} (leb : A -> A -> bool).

  Fixpoint insert (x : A) (l : list A) : list A :=
    match l with
    | [] => [x]
    | y :: r => if leb y x then y :: insert x r else x :: l   (* after equal elements: stable *)
    end.

  Definition isort (l : list A) : list A := fold_left (fun acc x => insert x acc) l [].

  Lemma insert_perm x l : Permutation (x :: l) (insert x l).
  Proof.
    induction l as [|y r IH]; simpl; [reflexivity|].
    destruct (leb y x); [|reflexivity].
    etransitivity; [apply perm_swap|]. apply perm_skip. exact IH.
  Qed.

  Lemma fold_insert_perm l acc : Permutation (acc ++ l) (fold_left (fun a x => insert x a) l acc).
  Proof.
    revert acc; induction l as [|x l IH]; intro acc; simpl.
    - rewrite app_nil_r. reflexivity.
    - etransitivity; [|apply IH].
      etransitivity; [symmetry; apply Permutation_middle|].
      change (x :: acc ++ l) with ((x :: acc) ++ l).
      apply Permutation_app_tail. apply insert_perm.
  Qed.

  Lemma isort_perm l : Permutation l (isort l).
  Proof. exact (fold_insert_perm l []). Qed.

  Hypothesis leb_total : forall a b, leb a b = true \/ leb b a = true.

  Definition le (a b : A) : Prop := leb a b = true.

  Lemma insert_hdrel x a l : le a x -> HdRel le a l -> HdRel le a (insert x l).
  Proof.
    intros Hax H. destruct l as [|y r]; simpl; [constructor; exact Hax|].
    inversion H; subst. destruct (leb y x); constructor; assumption.
  Qed.

  Lemma insert_sorted x l : Sorted le l -> Sorted le (insert x l).
  Proof.
    induction 1 as [|y r Hs IH Hh]; simpl; [repeat constructor|].
    destruct (leb y x) eqn:E.
    - constructor; [exact IH|]. apply insert_hdrel; assumption.
    - constructor; [constructor; assumption|]. constructor.
      destruct (leb_total x y) as [H|H]; [exact H|congruence].
  Qed.

  Lemma isort_sorted l : Sorted le (isort l).
  Proof.
    unfold isort. assert (H : Sorted le []) by constructor. revert H. generalize (@nil A).
    induction l as [|x l IH]; intros acc H; simpl; [exact H|].
    apply IH. apply insert_sorted. exact H.
  Qed.
End ISort.
