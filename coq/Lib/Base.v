(* Shared basics: results, generic decidable-equality helpers, the correspondence
   report function used by every generated case shard. Stdlib only. *)
From Coq Require Export List Bool Arith NArith ZArith Lia.
Export ListNotations.

(* ---------- results of running something that may raise ---------- *)
Inductive res (A E : Type) := Ok (a : A) | Raised (e : E).
Arguments Ok {A E} a.
Arguments Raised {A E} e.

Definition res_eqb {A E} (ea : A -> A -> bool) (ee : E -> E -> bool) (x y : res A E) : bool :=
  match x, y with
  | Ok a, Ok b => ea a b
  | Raised e, Raised f => ee e f
  | _, _ => false
  end.

(* ---------- boolean equality on the usual containers ---------- *)
Fixpoint list_eqb {A} (eqb : A -> A -> bool) (l1 l2 : list A) : bool :=
  match l1, l2 with
  | [], [] => true
  | x :: r, y :: s => eqb x y && list_eqb eqb r s
  | _, _ => false
  end.

Definition option_eqb {A} (eqb : A -> A -> bool) (a b : option A) : bool :=
  match a, b with
  | None, None => true
  | Some x, Some y => eqb x y
  | _, _ => false
  end.

Definition pair_eqb {A B} (ea : A -> A -> bool) (eb : B -> B -> bool) (p q : A * B) : bool :=
  ea (fst p) (fst q) && eb (snd p) (snd q).

Lemma list_eqb_spec {A} (eqb : A -> A -> bool) :
  (forall a b, eqb a b = true <-> a = b) ->
  forall l1 l2, list_eqb eqb l1 l2 = true <-> l1 = l2.
Proof.
  intros H l1; induction l1 as [|x r IH]; intros [|y s]; simpl; split; intro E;
    try reflexivity; try discriminate.
  - apply andb_true_iff in E as [E1 E2]. apply H in E1. apply IH in E2. congruence.
  - injection E as -> ->. apply andb_true_iff; split; [apply H | apply IH]; reflexivity.
Qed.

Lemma list_eqb_spec_in {A} (eqb : A -> A -> bool) l1 :
  (forall a, In a l1 -> forall b, eqb a b = true <-> a = b) ->
  forall l2, list_eqb eqb l1 l2 = true <-> l1 = l2.
Proof.
  induction l1 as [|x r IH]; intros H [|y s]; simpl; split; intro E;
    try reflexivity; try discriminate.
  - apply andb_true_iff in E as [E1 E2]. apply H in E1; [|left; reflexivity].
    apply IH in E2; [congruence|]. intros a Ha. apply H. right; exact Ha.
  - injection E as -> ->. apply andb_true_iff; split.
    + apply H; [left|]; reflexivity.
    + apply IH; [|reflexivity]. intros a Ha. apply H. right; exact Ha.
Qed.

Lemma option_eqb_spec {A} (eqb : A -> A -> bool) :
  (forall a b, eqb a b = true <-> a = b) ->
  forall a b, option_eqb eqb a b = true <-> a = b.
Proof.
  intros H [a|] [b|]; simpl; split; intro E; try reflexivity; try discriminate.
  - apply H in E; congruence.
  - injection E as ->; apply H; reflexivity.
Qed.

Lemma pair_eqb_spec {A B} (ea : A -> A -> bool) (eb : B -> B -> bool) :
  (forall a b, ea a b = true <-> a = b) ->
  (forall a b, eb a b = true <-> a = b) ->
  forall p q, pair_eqb ea eb p q = true <-> p = q.
Proof.
  intros HA HB [a b] [c d]; unfold pair_eqb; simpl; split; intro E.
  - apply andb_true_iff in E as [E1 E2]. apply HA in E1. apply HB in E2. congruence.
  - injection E as -> ->. apply andb_true_iff; split; [apply HA|apply HB]; reflexivity.
Qed.

Lemma res_eqb_spec {A E} (ea : A -> A -> bool) (ee : E -> E -> bool) :
  (forall a b, ea a b = true <-> a = b) ->
  (forall a b, ee a b = true <-> a = b) ->
  forall x y, res_eqb ea ee x y = true <-> x = y.
Proof.
  intros HA HE [a|e] [b|f]; simpl; split; intro H; try discriminate.
  - apply HA in H; congruence.
  - injection H as ->; apply HA; reflexivity.
  - apply HE in H; congruence.
  - injection H as ->; apply HE; reflexivity.
Qed.

Lemma bool_eqb_spec a b : Bool.eqb a b = true <-> a = b.
Proof. destruct a, b; simpl; split; congruence. Qed.

(* ---------- the correspondence report ----------
   A shard is a list of (input, observation of the implementation).  The
   report lists: how many cases Coq saw, the indices where the model's
   observation differs from the implementation's (compared by obs_eqb), the
   indices whose *implementation* observation fails the executable statement
   spec_okb, and for each index the ids of the known findings whose delimiting
   predicate holds of the input. *)
Section Report.
  Context {I O : Type}.
  Variable model : I -> O.
  Variable obs_eqb : O -> O -> bool.
  Variable spec_okb : I -> O -> bool.
  Variable findings : I -> list nat.

  Fixpoint idx_where (p : I * O -> bool) (k : nat) (cs : list (I * O)) : list nat :=
    match cs with
    | [] => []
    | c :: r => if p c then k :: idx_where p (S k) r else idx_where p (S k) r
    end.

  Fixpoint idx_findings (k : nat) (cs : list (I * O)) : list (nat * list nat) :=
    match cs with
    | [] => []
    | c :: r => match findings (fst c) with
                | [] => idx_findings (S k) r
                | fs => (k, fs) :: idx_findings (S k) r
                end
    end.

  Definition report (cs : list (I * O)) :=
    (length cs,
     idx_where (fun c => negb (obs_eqb (model (fst c)) (snd c))) 0 cs,
     idx_where (fun c => negb (spec_okb (fst c) (snd c))) 0 cs,
     idx_findings 0 cs).

  (* for replay files: what the model says and whether the model itself meets the statement *)
  Definition model_at (cs : list (I * O)) (k : nat) : option (O * bool * bool) :=
    match nth_error cs k with
    | None => None
    | Some c => Some (model (fst c), spec_okb (fst c) (model (fst c)), spec_okb (fst c) (snd c))
    end.
End Report.
