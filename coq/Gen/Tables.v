(* GENERATED on every run by harness/vcheck/tables.py from the imported code. Do not edit. *)
From Coq Require Import List String.
Import ListNotations.
Open Scope string_scope.
