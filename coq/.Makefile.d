Lib/Base.vo Lib/Base.glob Lib/Base.v.beautified Lib/Base.required_vo: Lib/Base.v 
Lib/Base.vio: Lib/Base.v 
Lib/Base.vos Lib/Base.vok Lib/Base.required_vos: Lib/Base.v 
Lib/Bytestr.vo Lib/Bytestr.glob Lib/Bytestr.v.beautified Lib/Bytestr.required_vo: Lib/Bytestr.v 
Lib/Bytestr.vio: Lib/Bytestr.v 
Lib/Bytestr.vos Lib/Bytestr.vok Lib/Bytestr.required_vos: Lib/Bytestr.v 
Lib/Sort.vo Lib/Sort.glob Lib/Sort.v.beautified Lib/Sort.required_vo: Lib/Sort.v 
Lib/Sort.vio: Lib/Sort.v 
Lib/Sort.vos Lib/Sort.vok Lib/Sort.required_vos: Lib/Sort.v 
Gen/Bytest.vo Gen/Bytest.glob Gen/Bytest.v.beautified Gen/Bytest.required_vo: Gen/Bytest.v 
Gen/Bytest.vio: Gen/Bytest.v 
Gen/Bytest.vos Gen/Bytest.vok Gen/Bytest.required_vos: Gen/Bytest.v 
Gen/Ctc16.vo Gen/Ctc16.glob Gen/Ctc16.v.beautified Gen/Ctc16.required_vo: Gen/Ctc16.v Lib/Base.vo Model/MimeCt.vo
Gen/Ctc16.vio: Gen/Ctc16.v Lib/Base.vio Model/MimeCt.vio
Gen/Ctc16.vos Gen/Ctc16.vok Gen/Ctc16.required_vos: Gen/Ctc16.v Lib/Base.vos Model/MimeCt.vos
Gen/Failfast.vo Gen/Failfast.glob Gen/Failfast.v.beautified Gen/Failfast.required_vo: Gen/Failfast.v 
Gen/Failfast.vio: Gen/Failfast.v 
Gen/Failfast.vos Gen/Failfast.vok Gen/Failfast.required_vos: Gen/Failfast.v 
Gen/Handlers.vo Gen/Handlers.glob Gen/Handlers.v.beautified Gen/Handlers.required_vo: Gen/Handlers.v 
Gen/Handlers.vio: Gen/Handlers.v 
Gen/Handlers.vos Gen/Handlers.vok Gen/Handlers.required_vos: Gen/Handlers.v 
Gen/Resulttabs.vo Gen/Resulttabs.glob Gen/Resulttabs.v.beautified Gen/Resulttabs.required_vo: Gen/Resulttabs.v 
Gen/Resulttabs.vio: Gen/Resulttabs.v 
Gen/Resulttabs.vos Gen/Resulttabs.vok Gen/Resulttabs.required_vos: Gen/Resulttabs.v 
Gen/Spinnertabs.vo Gen/Spinnertabs.glob Gen/Spinnertabs.v.beautified Gen/Spinnertabs.required_vo: Gen/Spinnertabs.v 
Gen/Spinnertabs.vio: Gen/Spinnertabs.v 
Gen/Spinnertabs.vos Gen/Spinnertabs.vok Gen/Spinnertabs.required_vos: Gen/Spinnertabs.v 
Gen/Streamtabs.vo Gen/Streamtabs.glob Gen/Streamtabs.v.beautified Gen/Streamtabs.required_vo: Gen/Streamtabs.v 
Gen/Streamtabs.vio: Gen/Streamtabs.v 
Gen/Streamtabs.vos Gen/Streamtabs.vok Gen/Streamtabs.required_vos: Gen/Streamtabs.v 
Model/Adapters.vo Model/Adapters.glob Model/Adapters.v.beautified Model/Adapters.required_vo: Model/Adapters.v Lib/Base.vo Lib/Sort.vo Gen/Bytest.vo
Model/Adapters.vio: Model/Adapters.v Lib/Base.vio Lib/Sort.vio Gen/Bytest.vio
Model/Adapters.vos Model/Adapters.vok Model/Adapters.required_vos: Model/Adapters.v Lib/Base.vos Lib/Sort.vos Gen/Bytest.vos
Model/Assertions.vo Model/Assertions.glob Model/Assertions.v.beautified Model/Assertions.required_vo: Model/Assertions.v Lib/Base.vo
Model/Assertions.vio: Model/Assertions.v Lib/Base.vio
Model/Assertions.vos Model/Assertions.vok Model/Assertions.required_vos: Model/Assertions.v Lib/Base.vos
Model/AsyncRun.vo Model/AsyncRun.glob Model/AsyncRun.v.beautified Model/AsyncRun.required_vo: Model/AsyncRun.v Lib/Base.vo Gen/Spinnertabs.vo
Model/AsyncRun.vio: Model/AsyncRun.v Lib/Base.vio Gen/Spinnertabs.vio
Model/AsyncRun.vos Model/AsyncRun.vok Model/AsyncRun.required_vos: Model/AsyncRun.v Lib/Base.vos Gen/Spinnertabs.vos
Model/Concur.vo Model/Concur.glob Model/Concur.v.beautified Model/Concur.required_vo: Model/Concur.v Lib/Base.vo Model/Tfr.vo
Model/Concur.vio: Model/Concur.v Lib/Base.vio Model/Tfr.vio
Model/Concur.vos Model/Concur.vok Model/Concur.required_vos: Model/Concur.v Lib/Base.vos Model/Tfr.vos
Model/Content.vo Model/Content.glob Model/Content.v.beautified Model/Content.required_vo: Model/Content.v Lib/Base.vo Model/Utf8.vo Model/MimeCt.vo Gen/Ctc16.vo
Model/Content.vio: Model/Content.v Lib/Base.vio Model/Utf8.vio Model/MimeCt.vio Gen/Ctc16.vio
Model/Content.vos Model/Content.vok Model/Content.required_vos: Model/Content.v Lib/Base.vos Model/Utf8.vos Model/MimeCt.vos Gen/Ctc16.vos
Model/Deferred.vo Model/Deferred.glob Model/Deferred.v.beautified Model/Deferred.required_vo: Model/Deferred.v Lib/Base.vo
Model/Deferred.vio: Model/Deferred.v Lib/Base.vio
Model/Deferred.vos Model/Deferred.vok Model/Deferred.required_vos: Model/Deferred.v Lib/Base.vos
Model/DeferredMatchers.vo Model/DeferredMatchers.glob Model/DeferredMatchers.v.beautified Model/DeferredMatchers.required_vo: Model/DeferredMatchers.v Lib/Base.vo Model/Deferred.vo
Model/DeferredMatchers.vio: Model/DeferredMatchers.v Lib/Base.vio Model/Deferred.vio
Model/DeferredMatchers.vos Model/DeferredMatchers.vok Model/DeferredMatchers.required_vos: Model/DeferredMatchers.v Lib/Base.vos Model/Deferred.vos
Model/Matchers.vo Model/Matchers.glob Model/Matchers.v.beautified Model/Matchers.required_vo: Model/Matchers.v Lib/Base.vo Lib/Sort.vo
Model/Matchers.vio: Model/Matchers.v Lib/Base.vio Lib/Sort.vio
Model/Matchers.vos Model/Matchers.vok Model/Matchers.required_vos: Model/Matchers.v Lib/Base.vos Lib/Sort.vos
Model/Mime.vo Model/Mime.glob Model/Mime.v.beautified Model/Mime.required_vo: Model/Mime.v Lib/Base.vo Lib/Sort.vo Lib/Bytestr.vo
Model/Mime.vio: Model/Mime.v Lib/Base.vio Lib/Sort.vio Lib/Bytestr.vio
Model/Mime.vos Model/Mime.vok Model/Mime.required_vos: Model/Mime.v Lib/Base.vos Lib/Sort.vos Lib/Bytestr.vos
Model/MimeCt.vo Model/MimeCt.glob Model/MimeCt.v.beautified Model/MimeCt.required_vo: Model/MimeCt.v Lib/Base.vo Lib/Sort.vo
Model/MimeCt.vio: Model/MimeCt.v Lib/Base.vio Lib/Sort.vio
Model/MimeCt.vos Model/MimeCt.vok Model/MimeCt.required_vos: Model/MimeCt.v Lib/Base.vos Lib/Sort.vos
Model/Reactor.vo Model/Reactor.glob Model/Reactor.v.beautified Model/Reactor.required_vo: Model/Reactor.v Lib/Base.vo
Model/Reactor.vio: Model/Reactor.v Lib/Base.vio
Model/Reactor.vos Model/Reactor.vok Model/Reactor.required_vos: Model/Reactor.v Lib/Base.vos
Model/Result.vo Model/Result.glob Model/Result.v.beautified Model/Result.required_vo: Model/Result.v Lib/Base.vo Gen/Resulttabs.vo
Model/Result.vio: Model/Result.v Lib/Base.vio Gen/Resulttabs.vio
Model/Result.vos Model/Result.vok Model/Result.required_vos: Model/Result.v Lib/Base.vos Gen/Resulttabs.vos
Model/Router.vo Model/Router.glob Model/Router.v.beautified Model/Router.required_vo: Model/Router.v Lib/Base.vo
Model/Router.vio: Model/Router.v Lib/Base.vio
Model/Router.vos Model/Router.vok Model/Router.required_vos: Model/Router.v Lib/Base.vos
Model/Run.vo Model/Run.glob Model/Run.v.beautified Model/Run.required_vo: Model/Run.v Lib/Base.vo Gen/Handlers.vo
Model/Run.vio: Model/Run.v Lib/Base.vio Gen/Handlers.vio
Model/Run.vos Model/Run.vok Model/Run.required_vos: Model/Run.v Lib/Base.vos Gen/Handlers.vos
Model/Spinner.vo Model/Spinner.glob Model/Spinner.v.beautified Model/Spinner.required_vo: Model/Spinner.v Lib/Base.vo Model/Reactor.vo Gen/Spinnertabs.vo
Model/Spinner.vio: Model/Spinner.v Lib/Base.vio Model/Reactor.vio Gen/Spinnertabs.vio
Model/Spinner.vos Model/Spinner.vok Model/Spinner.required_vos: Model/Spinner.v Lib/Base.vos Model/Reactor.vos Gen/Spinnertabs.vos
Model/StreamConv.vo Model/StreamConv.glob Model/StreamConv.v.beautified Model/StreamConv.required_vo: Model/StreamConv.v Lib/Base.vo Lib/Bytestr.vo Gen/Streamtabs.vo Model/Mime.vo Model/StreamRec.vo
Model/StreamConv.vio: Model/StreamConv.v Lib/Base.vio Lib/Bytestr.vio Gen/Streamtabs.vio Model/Mime.vio Model/StreamRec.vio
Model/StreamConv.vos Model/StreamConv.vok Model/StreamConv.required_vos: Model/StreamConv.v Lib/Base.vos Lib/Bytestr.vos Gen/Streamtabs.vos Model/Mime.vos Model/StreamRec.vos
Model/StreamDecor.vo Model/StreamDecor.glob Model/StreamDecor.v.beautified Model/StreamDecor.required_vo: Model/StreamDecor.v Lib/Base.vo Model/Router.vo Gen/Failfast.vo
Model/StreamDecor.vio: Model/StreamDecor.v Lib/Base.vio Model/Router.vio Gen/Failfast.vio
Model/StreamDecor.vos Model/StreamDecor.vok Model/StreamDecor.required_vos: Model/StreamDecor.v Lib/Base.vos Model/Router.vos Gen/Failfast.vos
Model/StreamRec.vo Model/StreamRec.glob Model/StreamRec.v.beautified Model/StreamRec.required_vo: Model/StreamRec.v Lib/Base.vo Lib/Bytestr.vo Gen/Streamtabs.vo
Model/StreamRec.vio: Model/StreamRec.v Lib/Base.vio Lib/Bytestr.vio Gen/Streamtabs.vio
Model/StreamRec.vos Model/StreamRec.vok Model/StreamRec.required_vos: Model/StreamRec.v Lib/Base.vos Lib/Bytestr.vos Gen/Streamtabs.vos
Model/Suites.vo Model/Suites.glob Model/Suites.v.beautified Model/Suites.required_vo: Model/Suites.v Lib/Base.vo Lib/Sort.vo
Model/Suites.vio: Model/Suites.v Lib/Base.vio Lib/Sort.vio
Model/Suites.vos Model/Suites.vok Model/Suites.required_vos: Model/Suites.v Lib/Base.vos Lib/Sort.vos
Model/Tags.vo Model/Tags.glob Model/Tags.v.beautified Model/Tags.required_vo: Model/Tags.v Lib/Base.vo
Model/Tags.vio: Model/Tags.v Lib/Base.vio
Model/Tags.vos Model/Tags.vok Model/Tags.required_vos: Model/Tags.v Lib/Base.vos
Model/TextRepr.vo Model/TextRepr.glob Model/TextRepr.v.beautified Model/TextRepr.required_vo: Model/TextRepr.v Lib/Base.vo
Model/TextRepr.vio: Model/TextRepr.v Lib/Base.vio
Model/TextRepr.vos Model/TextRepr.vok Model/TextRepr.required_vos: Model/TextRepr.v Lib/Base.vos
Model/Tfr.vo Model/Tfr.glob Model/Tfr.v.beautified Model/Tfr.required_vo: Model/Tfr.v Lib/Base.vo
Model/Tfr.vio: Model/Tfr.v Lib/Base.vio
Model/Tfr.vos Model/Tfr.vok Model/Tfr.required_vos: Model/Tfr.v Lib/Base.vos
Model/Utf8.vo Model/Utf8.glob Model/Utf8.v.beautified Model/Utf8.required_vo: Model/Utf8.v Lib/Base.vo
Model/Utf8.vio: Model/Utf8.v Lib/Base.vio
Model/Utf8.vos Model/Utf8.vok Model/Utf8.required_vos: Model/Utf8.v Lib/Base.vos
Spec/C01.vo Spec/C01.glob Spec/C01.v.beautified Spec/C01.required_vo: Spec/C01.v Lib/Base.vo Gen/Handlers.vo Model/Run.vo Spec/Run.vo
Spec/C01.vio: Spec/C01.v Lib/Base.vio Gen/Handlers.vio Model/Run.vio Spec/Run.vio
Spec/C01.vos Spec/C01.vok Spec/C01.required_vos: Spec/C01.v Lib/Base.vos Gen/Handlers.vos Model/Run.vos Spec/Run.vos
Spec/C02.vo Spec/C02.glob Spec/C02.v.beautified Spec/C02.required_vo: Spec/C02.v Lib/Base.vo Gen/Handlers.vo Model/Run.vo Spec/Run.vo
Spec/C02.vio: Spec/C02.v Lib/Base.vio Gen/Handlers.vio Model/Run.vio Spec/Run.vio
Spec/C02.vos Spec/C02.vok Spec/C02.required_vos: Spec/C02.v Lib/Base.vos Gen/Handlers.vos Model/Run.vos Spec/Run.vos
Spec/C03.vo Spec/C03.glob Spec/C03.v.beautified Spec/C03.required_vo: Spec/C03.v Lib/Base.vo Gen/Handlers.vo Model/Run.vo Spec/Run.vo
Spec/C03.vio: Spec/C03.v Lib/Base.vio Gen/Handlers.vio Model/Run.vio Spec/Run.vio
Spec/C03.vos Spec/C03.vok Spec/C03.required_vos: Spec/C03.v Lib/Base.vos Gen/Handlers.vos Model/Run.vos Spec/Run.vos
Spec/C04.vo Spec/C04.glob Spec/C04.v.beautified Spec/C04.required_vo: Spec/C04.v Lib/Base.vo Model/Result.vo
Spec/C04.vio: Spec/C04.v Lib/Base.vio Model/Result.vio
Spec/C04.vos Spec/C04.vok Spec/C04.required_vos: Spec/C04.v Lib/Base.vos Model/Result.vos
Spec/C05.vo Spec/C05.glob Spec/C05.v.beautified Spec/C05.required_vo: Spec/C05.v Lib/Base.vo Gen/Handlers.vo Model/Run.vo Spec/Run.vo
Spec/C05.vio: Spec/C05.v Lib/Base.vio Gen/Handlers.vio Model/Run.vio Spec/Run.vio
Spec/C05.vos Spec/C05.vok Spec/C05.required_vos: Spec/C05.v Lib/Base.vos Gen/Handlers.vos Model/Run.vos Spec/Run.vos
Spec/C06.vo Spec/C06.glob Spec/C06.v.beautified Spec/C06.required_vo: Spec/C06.v Lib/Base.vo Lib/Sort.vo Model/Matchers.vo
Spec/C06.vio: Spec/C06.v Lib/Base.vio Lib/Sort.vio Model/Matchers.vio
Spec/C06.vos Spec/C06.vok Spec/C06.required_vos: Spec/C06.v Lib/Base.vos Lib/Sort.vos Model/Matchers.vos
Spec/C07.vo Spec/C07.glob Spec/C07.v.beautified Spec/C07.required_vo: Spec/C07.v Lib/Base.vo Lib/Sort.vo Model/TextRepr.vo Model/Assertions.vo
Spec/C07.vio: Spec/C07.v Lib/Base.vio Lib/Sort.vio Model/TextRepr.vio Model/Assertions.vio
Spec/C07.vos Spec/C07.vok Spec/C07.required_vos: Spec/C07.v Lib/Base.vos Lib/Sort.vos Model/TextRepr.vos Model/Assertions.vos
Spec/C08.vo Spec/C08.glob Spec/C08.v.beautified Spec/C08.required_vo: Spec/C08.v Lib/Base.vo Model/Adapters.vo
Spec/C08.vio: Spec/C08.v Lib/Base.vio Model/Adapters.vio
Spec/C08.vos Spec/C08.vok Spec/C08.required_vos: Spec/C08.v Lib/Base.vos Model/Adapters.vos
Spec/C09.vo Spec/C09.glob Spec/C09.v.beautified Spec/C09.required_vo: Spec/C09.v Lib/Base.vo Lib/Sort.vo Lib/Bytestr.vo Model/Mime.vo Model/StreamRec.vo Model/StreamConv.vo
Spec/C09.vio: Spec/C09.v Lib/Base.vio Lib/Sort.vio Lib/Bytestr.vio Model/Mime.vio Model/StreamRec.vio Model/StreamConv.vio
Spec/C09.vos Spec/C09.vok Spec/C09.required_vos: Spec/C09.v Lib/Base.vos Lib/Sort.vos Lib/Bytestr.vos Model/Mime.vos Model/StreamRec.vos Model/StreamConv.vos
Spec/C10.vo Spec/C10.glob Spec/C10.v.beautified Spec/C10.required_vo: Spec/C10.v Lib/Base.vo Lib/Bytestr.vo Model/StreamRec.vo
Spec/C10.vio: Spec/C10.v Lib/Base.vio Lib/Bytestr.vio Model/StreamRec.vio
Spec/C10.vos Spec/C10.vok Spec/C10.required_vos: Spec/C10.v Lib/Base.vos Lib/Bytestr.vos Model/StreamRec.vos
Spec/C11.vo Spec/C11.glob Spec/C11.v.beautified Spec/C11.required_vo: Spec/C11.v Lib/Base.vo Model/Router.vo Model/StreamDecor.vo Gen/Failfast.vo
Spec/C11.vio: Spec/C11.v Lib/Base.vio Model/Router.vio Model/StreamDecor.vio Gen/Failfast.vio
Spec/C11.vos Spec/C11.vok Spec/C11.required_vos: Spec/C11.v Lib/Base.vos Model/Router.vos Model/StreamDecor.vos Gen/Failfast.vos
Spec/C12.vo Spec/C12.glob Spec/C12.v.beautified Spec/C12.required_vo: Spec/C12.v Lib/Base.vo Model/Tfr.vo
Spec/C12.vio: Spec/C12.v Lib/Base.vio Model/Tfr.vio
Spec/C12.vos Spec/C12.vok Spec/C12.required_vos: Spec/C12.v Lib/Base.vos Model/Tfr.vos
Spec/C13.vo Spec/C13.glob Spec/C13.v.beautified Spec/C13.required_vo: Spec/C13.v Lib/Base.vo Model/Tfr.vo Model/Concur.vo Spec/C12.vo
Spec/C13.vio: Spec/C13.v Lib/Base.vio Model/Tfr.vio Model/Concur.vio Spec/C12.vio
Spec/C13.vos Spec/C13.vok Spec/C13.required_vos: Spec/C13.v Lib/Base.vos Model/Tfr.vos Model/Concur.vos Spec/C12.vos
Spec/C14.vo Spec/C14.glob Spec/C14.v.beautified Spec/C14.required_vo: Spec/C14.v Lib/Base.vo Model/AsyncRun.vo
Spec/C14.vio: Spec/C14.v Lib/Base.vio Model/AsyncRun.vio
Spec/C14.vos Spec/C14.vok Spec/C14.required_vos: Spec/C14.v Lib/Base.vos Model/AsyncRun.vos
Spec/C15.vo Spec/C15.glob Spec/C15.v.beautified Spec/C15.required_vo: Spec/C15.v Lib/Base.vo Lib/Sort.vo Model/Reactor.vo Model/Spinner.vo
Spec/C15.vio: Spec/C15.v Lib/Base.vio Lib/Sort.vio Model/Reactor.vio Model/Spinner.vio
Spec/C15.vos Spec/C15.vok Spec/C15.required_vos: Spec/C15.v Lib/Base.vos Lib/Sort.vos Model/Reactor.vos Model/Spinner.vos
Spec/C16.vo Spec/C16.glob Spec/C16.v.beautified Spec/C16.required_vo: Spec/C16.v Lib/Base.vo Model/Utf8.vo Model/MimeCt.vo Model/Content.vo
Spec/C16.vio: Spec/C16.v Lib/Base.vio Model/Utf8.vio Model/MimeCt.vio Model/Content.vio
Spec/C16.vos Spec/C16.vok Spec/C16.required_vos: Spec/C16.v Lib/Base.vos Model/Utf8.vos Model/MimeCt.vos Model/Content.vos
Spec/C17.vo Spec/C17.glob Spec/C17.v.beautified Spec/C17.required_vo: Spec/C17.v Lib/Base.vo Model/Tags.vo
Spec/C17.vio: Spec/C17.v Lib/Base.vio Model/Tags.vio
Spec/C17.vos Spec/C17.vok Spec/C17.required_vos: Spec/C17.v Lib/Base.vos Model/Tags.vos
Spec/C18.vo Spec/C18.glob Spec/C18.v.beautified Spec/C18.required_vo: Spec/C18.v Lib/Base.vo Model/Router.vo
Spec/C18.vio: Spec/C18.v Lib/Base.vio Model/Router.vio
Spec/C18.vos Spec/C18.vok Spec/C18.required_vos: Spec/C18.v Lib/Base.vos Model/Router.vos
Spec/C19.vo Spec/C19.glob Spec/C19.v.beautified Spec/C19.required_vo: Spec/C19.v Lib/Base.vo Lib/Sort.vo Model/Suites.vo
Spec/C19.vio: Spec/C19.v Lib/Base.vio Lib/Sort.vio Model/Suites.vio
Spec/C19.vos Spec/C19.vok Spec/C19.required_vos: Spec/C19.v Lib/Base.vos Lib/Sort.vos Model/Suites.vos
Spec/C20.vo Spec/C20.glob Spec/C20.v.beautified Spec/C20.required_vo: Spec/C20.v Lib/Base.vo Model/Deferred.vo Model/DeferredMatchers.vo
Spec/C20.vio: Spec/C20.v Lib/Base.vio Model/Deferred.vio Model/DeferredMatchers.vio
Spec/C20.vos Spec/C20.vok Spec/C20.required_vos: Spec/C20.v Lib/Base.vos Model/Deferred.vos Model/DeferredMatchers.vos
Spec/Run.vo Spec/Run.glob Spec/Run.v.beautified Spec/Run.required_vo: Spec/Run.v Lib/Base.vo Gen/Handlers.vo Model/Run.vo
Spec/Run.vio: Spec/Run.v Lib/Base.vio Gen/Handlers.vio Model/Run.vio
Spec/Run.vos Spec/Run.vok Spec/Run.required_vos: Spec/Run.v Lib/Base.vos Gen/Handlers.vos Model/Run.vos
Corr/C01.vo Corr/C01.glob Corr/C01.v.beautified Corr/C01.required_vo: Corr/C01.v Lib/Base.vo Gen/Handlers.vo Model/Run.vo Spec/Run.vo Spec/C01.vo
Corr/C01.vio: Corr/C01.v Lib/Base.vio Gen/Handlers.vio Model/Run.vio Spec/Run.vio Spec/C01.vio
Corr/C01.vos Corr/C01.vok Corr/C01.required_vos: Corr/C01.v Lib/Base.vos Gen/Handlers.vos Model/Run.vos Spec/Run.vos Spec/C01.vos
Corr/C02.vo Corr/C02.glob Corr/C02.v.beautified Corr/C02.required_vo: Corr/C02.v Lib/Base.vo Gen/Handlers.vo Model/Run.vo Spec/Run.vo Spec/C02.vo
Corr/C02.vio: Corr/C02.v Lib/Base.vio Gen/Handlers.vio Model/Run.vio Spec/Run.vio Spec/C02.vio
Corr/C02.vos Corr/C02.vok Corr/C02.required_vos: Corr/C02.v Lib/Base.vos Gen/Handlers.vos Model/Run.vos Spec/Run.vos Spec/C02.vos
Corr/C03.vo Corr/C03.glob Corr/C03.v.beautified Corr/C03.required_vo: Corr/C03.v Lib/Base.vo Gen/Handlers.vo Model/Run.vo Spec/Run.vo Spec/C03.vo
Corr/C03.vio: Corr/C03.v Lib/Base.vio Gen/Handlers.vio Model/Run.vio Spec/Run.vio Spec/C03.vio
Corr/C03.vos Corr/C03.vok Corr/C03.required_vos: Corr/C03.v Lib/Base.vos Gen/Handlers.vos Model/Run.vos Spec/Run.vos Spec/C03.vos
Corr/C04.vo Corr/C04.glob Corr/C04.v.beautified Corr/C04.required_vo: Corr/C04.v Lib/Base.vo Model/Result.vo Spec/C04.vo
Corr/C04.vio: Corr/C04.v Lib/Base.vio Model/Result.vio Spec/C04.vio
Corr/C04.vos Corr/C04.vok Corr/C04.required_vos: Corr/C04.v Lib/Base.vos Model/Result.vos Spec/C04.vos
Corr/C05.vo Corr/C05.glob Corr/C05.v.beautified Corr/C05.required_vo: Corr/C05.v Lib/Base.vo Gen/Handlers.vo Model/Run.vo Spec/Run.vo Spec/C05.vo
Corr/C05.vio: Corr/C05.v Lib/Base.vio Gen/Handlers.vio Model/Run.vio Spec/Run.vio Spec/C05.vio
Corr/C05.vos Corr/C05.vok Corr/C05.required_vos: Corr/C05.v Lib/Base.vos Gen/Handlers.vos Model/Run.vos Spec/Run.vos Spec/C05.vos
Corr/C06.vo Corr/C06.glob Corr/C06.v.beautified Corr/C06.required_vo: Corr/C06.v Lib/Base.vo Lib/Sort.vo Model/Matchers.vo Spec/C06.vo
Corr/C06.vio: Corr/C06.v Lib/Base.vio Lib/Sort.vio Model/Matchers.vio Spec/C06.vio
Corr/C06.vos Corr/C06.vok Corr/C06.required_vos: Corr/C06.v Lib/Base.vos Lib/Sort.vos Model/Matchers.vos Spec/C06.vos
Corr/C07.vo Corr/C07.glob Corr/C07.v.beautified Corr/C07.required_vo: Corr/C07.v Lib/Base.vo Lib/Sort.vo Model/TextRepr.vo Model/Assertions.vo Spec/C07.vo
Corr/C07.vio: Corr/C07.v Lib/Base.vio Lib/Sort.vio Model/TextRepr.vio Model/Assertions.vio Spec/C07.vio
Corr/C07.vos Corr/C07.vok Corr/C07.required_vos: Corr/C07.v Lib/Base.vos Lib/Sort.vos Model/TextRepr.vos Model/Assertions.vos Spec/C07.vos
Corr/C08.vo Corr/C08.glob Corr/C08.v.beautified Corr/C08.required_vo: Corr/C08.v Lib/Base.vo Model/Adapters.vo Spec/C08.vo
Corr/C08.vio: Corr/C08.v Lib/Base.vio Model/Adapters.vio Spec/C08.vio
Corr/C08.vos Corr/C08.vok Corr/C08.required_vos: Corr/C08.v Lib/Base.vos Model/Adapters.vos Spec/C08.vos
Corr/C09.vo Corr/C09.glob Corr/C09.v.beautified Corr/C09.required_vo: Corr/C09.v Lib/Base.vo Lib/Sort.vo Lib/Bytestr.vo Model/Mime.vo Model/StreamRec.vo Model/StreamConv.vo Spec/C09.vo
Corr/C09.vio: Corr/C09.v Lib/Base.vio Lib/Sort.vio Lib/Bytestr.vio Model/Mime.vio Model/StreamRec.vio Model/StreamConv.vio Spec/C09.vio
Corr/C09.vos Corr/C09.vok Corr/C09.required_vos: Corr/C09.v Lib/Base.vos Lib/Sort.vos Lib/Bytestr.vos Model/Mime.vos Model/StreamRec.vos Model/StreamConv.vos Spec/C09.vos
Corr/C10.vo Corr/C10.glob Corr/C10.v.beautified Corr/C10.required_vo: Corr/C10.v Lib/Base.vo Lib/Bytestr.vo Model/StreamRec.vo Spec/C10.vo
Corr/C10.vio: Corr/C10.v Lib/Base.vio Lib/Bytestr.vio Model/StreamRec.vio Spec/C10.vio
Corr/C10.vos Corr/C10.vok Corr/C10.required_vos: Corr/C10.v Lib/Base.vos Lib/Bytestr.vos Model/StreamRec.vos Spec/C10.vos
Corr/C11.vo Corr/C11.glob Corr/C11.v.beautified Corr/C11.required_vo: Corr/C11.v Lib/Base.vo Model/Router.vo Model/StreamDecor.vo Spec/C11.vo
Corr/C11.vio: Corr/C11.v Lib/Base.vio Model/Router.vio Model/StreamDecor.vio Spec/C11.vio
Corr/C11.vos Corr/C11.vok Corr/C11.required_vos: Corr/C11.v Lib/Base.vos Model/Router.vos Model/StreamDecor.vos Spec/C11.vos
Corr/C12.vo Corr/C12.glob Corr/C12.v.beautified Corr/C12.required_vo: Corr/C12.v Lib/Base.vo Model/Tfr.vo Spec/C12.vo
Corr/C12.vio: Corr/C12.v Lib/Base.vio Model/Tfr.vio Spec/C12.vio
Corr/C12.vos Corr/C12.vok Corr/C12.required_vos: Corr/C12.v Lib/Base.vos Model/Tfr.vos Spec/C12.vos
Corr/C13.vo Corr/C13.glob Corr/C13.v.beautified Corr/C13.required_vo: Corr/C13.v Lib/Base.vo Model/Tfr.vo Model/Concur.vo Spec/C12.vo Spec/C13.vo
Corr/C13.vio: Corr/C13.v Lib/Base.vio Model/Tfr.vio Model/Concur.vio Spec/C12.vio Spec/C13.vio
Corr/C13.vos Corr/C13.vok Corr/C13.required_vos: Corr/C13.v Lib/Base.vos Model/Tfr.vos Model/Concur.vos Spec/C12.vos Spec/C13.vos
Corr/C14.vo Corr/C14.glob Corr/C14.v.beautified Corr/C14.required_vo: Corr/C14.v Lib/Base.vo Model/AsyncRun.vo Spec/C14.vo
Corr/C14.vio: Corr/C14.v Lib/Base.vio Model/AsyncRun.vio Spec/C14.vio
Corr/C14.vos Corr/C14.vok Corr/C14.required_vos: Corr/C14.v Lib/Base.vos Model/AsyncRun.vos Spec/C14.vos
Corr/C15.vo Corr/C15.glob Corr/C15.v.beautified Corr/C15.required_vo: Corr/C15.v Lib/Base.vo Lib/Sort.vo Model/Reactor.vo Model/Spinner.vo Gen/Spinnertabs.vo Spec/C15.vo
Corr/C15.vio: Corr/C15.v Lib/Base.vio Lib/Sort.vio Model/Reactor.vio Model/Spinner.vio Gen/Spinnertabs.vio Spec/C15.vio
Corr/C15.vos Corr/C15.vok Corr/C15.required_vos: Corr/C15.v Lib/Base.vos Lib/Sort.vos Model/Reactor.vos Model/Spinner.vos Gen/Spinnertabs.vos Spec/C15.vos
Corr/C16.vo Corr/C16.glob Corr/C16.v.beautified Corr/C16.required_vo: Corr/C16.v Lib/Base.vo Lib/Sort.vo Model/Utf8.vo Model/MimeCt.vo Gen/Ctc16.vo Model/Content.vo Spec/C16.vo
Corr/C16.vio: Corr/C16.v Lib/Base.vio Lib/Sort.vio Model/Utf8.vio Model/MimeCt.vio Gen/Ctc16.vio Model/Content.vio Spec/C16.vio
Corr/C16.vos Corr/C16.vok Corr/C16.required_vos: Corr/C16.v Lib/Base.vos Lib/Sort.vos Model/Utf8.vos Model/MimeCt.vos Gen/Ctc16.vos Model/Content.vos Spec/C16.vos
Corr/C17.vo Corr/C17.glob Corr/C17.v.beautified Corr/C17.required_vo: Corr/C17.v Lib/Base.vo Model/Tags.vo Spec/C17.vo
Corr/C17.vio: Corr/C17.v Lib/Base.vio Model/Tags.vio Spec/C17.vio
Corr/C17.vos Corr/C17.vok Corr/C17.required_vos: Corr/C17.v Lib/Base.vos Model/Tags.vos Spec/C17.vos
Corr/C18.vo Corr/C18.glob Corr/C18.v.beautified Corr/C18.required_vo: Corr/C18.v Lib/Base.vo Model/Router.vo Spec/C18.vo
Corr/C18.vio: Corr/C18.v Lib/Base.vio Model/Router.vio Spec/C18.vio
Corr/C18.vos Corr/C18.vok Corr/C18.required_vos: Corr/C18.v Lib/Base.vos Model/Router.vos Spec/C18.vos
Corr/C19.vo Corr/C19.glob Corr/C19.v.beautified Corr/C19.required_vo: Corr/C19.v Lib/Base.vo Lib/Sort.vo Model/Suites.vo Spec/C19.vo
Corr/C19.vio: Corr/C19.v Lib/Base.vio Lib/Sort.vio Model/Suites.vio Spec/C19.vio
Corr/C19.vos Corr/C19.vok Corr/C19.required_vos: Corr/C19.v Lib/Base.vos Lib/Sort.vos Model/Suites.vos Spec/C19.vos
Corr/C20.vo Corr/C20.glob Corr/C20.v.beautified Corr/C20.required_vo: Corr/C20.v Lib/Base.vo Model/Deferred.vo Model/DeferredMatchers.vo Spec/C20.vo
Corr/C20.vio: Corr/C20.v Lib/Base.vio Model/Deferred.vio Model/DeferredMatchers.vio Spec/C20.vio
Corr/C20.vos Corr/C20.vok Corr/C20.required_vos: Corr/C20.v Lib/Base.vos Model/Deferred.vos Model/DeferredMatchers.vos Spec/C20.vos
Proof/C01.vo Proof/C01.glob Proof/C01.v.beautified Proof/C01.required_vo: Proof/C01.v Lib/Base.vo Gen/Handlers.vo Model/Run.vo Spec/Run.vo Spec/C01.vo Corr/C01.vo Proof/RunCore.vo
Proof/C01.vio: Proof/C01.v Lib/Base.vio Gen/Handlers.vio Model/Run.vio Spec/Run.vio Spec/C01.vio Corr/C01.vio Proof/RunCore.vio
Proof/C01.vos Proof/C01.vok Proof/C01.required_vos: Proof/C01.v Lib/Base.vos Gen/Handlers.vos Model/Run.vos Spec/Run.vos Spec/C01.vos Corr/C01.vos Proof/RunCore.vos
Proof/C02.vo Proof/C02.glob Proof/C02.v.beautified Proof/C02.required_vo: Proof/C02.v Lib/Base.vo Gen/Handlers.vo Model/Run.vo Spec/Run.vo Spec/C02.vo Corr/C02.vo Proof/RunCore.vo
Proof/C02.vio: Proof/C02.v Lib/Base.vio Gen/Handlers.vio Model/Run.vio Spec/Run.vio Spec/C02.vio Corr/C02.vio Proof/RunCore.vio
Proof/C02.vos Proof/C02.vok Proof/C02.required_vos: Proof/C02.v Lib/Base.vos Gen/Handlers.vos Model/Run.vos Spec/Run.vos Spec/C02.vos Corr/C02.vos Proof/RunCore.vos
Proof/C03.vo Proof/C03.glob Proof/C03.v.beautified Proof/C03.required_vo: Proof/C03.v Lib/Base.vo Gen/Handlers.vo Model/Run.vo Spec/Run.vo Spec/C03.vo Corr/C03.vo Proof/RunCore.vo
Proof/C03.vio: Proof/C03.v Lib/Base.vio Gen/Handlers.vio Model/Run.vio Spec/Run.vio Spec/C03.vio Corr/C03.vio Proof/RunCore.vio
Proof/C03.vos Proof/C03.vok Proof/C03.required_vos: Proof/C03.v Lib/Base.vos Gen/Handlers.vos Model/Run.vos Spec/Run.vos Spec/C03.vos Corr/C03.vos Proof/RunCore.vos
Proof/C04.vo Proof/C04.glob Proof/C04.v.beautified Proof/C04.required_vo: Proof/C04.v Lib/Base.vo Gen/Resulttabs.vo Model/Result.vo Spec/C04.vo Corr/C04.vo
Proof/C04.vio: Proof/C04.v Lib/Base.vio Gen/Resulttabs.vio Model/Result.vio Spec/C04.vio Corr/C04.vio
Proof/C04.vos Proof/C04.vok Proof/C04.required_vos: Proof/C04.v Lib/Base.vos Gen/Resulttabs.vos Model/Result.vos Spec/C04.vos Corr/C04.vos
Proof/C05.vo Proof/C05.glob Proof/C05.v.beautified Proof/C05.required_vo: Proof/C05.v Lib/Base.vo Gen/Handlers.vo Model/Run.vo Spec/Run.vo Spec/C05.vo Corr/C05.vo Proof/RunCore.vo
Proof/C05.vio: Proof/C05.v Lib/Base.vio Gen/Handlers.vio Model/Run.vio Spec/Run.vio Spec/C05.vio Corr/C05.vio Proof/RunCore.vio
Proof/C05.vos Proof/C05.vok Proof/C05.required_vos: Proof/C05.v Lib/Base.vos Gen/Handlers.vos Model/Run.vos Spec/Run.vos Spec/C05.vos Corr/C05.vos Proof/RunCore.vos
Proof/C06.vo Proof/C06.glob Proof/C06.v.beautified Proof/C06.required_vo: Proof/C06.v Lib/Base.vo Lib/Sort.vo Model/Matchers.vo Spec/C06.vo Corr/C06.vo Proof/C06Setwise.vo Proof/C06Leaves.vo
Proof/C06.vio: Proof/C06.v Lib/Base.vio Lib/Sort.vio Model/Matchers.vio Spec/C06.vio Corr/C06.vio Proof/C06Setwise.vio Proof/C06Leaves.vio
Proof/C06.vos Proof/C06.vok Proof/C06.required_vos: Proof/C06.v Lib/Base.vos Lib/Sort.vos Model/Matchers.vos Spec/C06.vos Corr/C06.vos Proof/C06Setwise.vos Proof/C06Leaves.vos
Proof/C06Leaves.vo Proof/C06Leaves.glob Proof/C06Leaves.v.beautified Proof/C06Leaves.required_vo: Proof/C06Leaves.v Lib/Base.vo Lib/Sort.vo Model/Matchers.vo Spec/C06.vo
Proof/C06Leaves.vio: Proof/C06Leaves.v Lib/Base.vio Lib/Sort.vio Model/Matchers.vio Spec/C06.vio
Proof/C06Leaves.vos Proof/C06Leaves.vok Proof/C06Leaves.required_vos: Proof/C06Leaves.v Lib/Base.vos Lib/Sort.vos Model/Matchers.vos Spec/C06.vos
Proof/C06Setwise.vo Proof/C06Setwise.glob Proof/C06Setwise.v.beautified Proof/C06Setwise.required_vo: Proof/C06Setwise.v Lib/Base.vo Lib/Sort.vo Model/Matchers.vo Spec/C06.vo
Proof/C06Setwise.vio: Proof/C06Setwise.v Lib/Base.vio Lib/Sort.vio Model/Matchers.vio Spec/C06.vio
Proof/C06Setwise.vos Proof/C06Setwise.vok Proof/C06Setwise.required_vos: Proof/C06Setwise.v Lib/Base.vos Lib/Sort.vos Model/Matchers.vos Spec/C06.vos
Proof/C07.vo Proof/C07.glob Proof/C07.v.beautified Proof/C07.required_vo: Proof/C07.v Lib/Base.vo Lib/Sort.vo Model/TextRepr.vo Model/Assertions.vo Spec/C07.vo Corr/C07.vo Proof/C07Repr.vo Proof/C07Names.vo
Proof/C07.vio: Proof/C07.v Lib/Base.vio Lib/Sort.vio Model/TextRepr.vio Model/Assertions.vio Spec/C07.vio Corr/C07.vio Proof/C07Repr.vio Proof/C07Names.vio
Proof/C07.vos Proof/C07.vok Proof/C07.required_vos: Proof/C07.v Lib/Base.vos Lib/Sort.vos Model/TextRepr.vos Model/Assertions.vos Spec/C07.vos Corr/C07.vos Proof/C07Repr.vos Proof/C07Names.vos
Proof/C07Names.vo Proof/C07Names.glob Proof/C07Names.v.beautified Proof/C07Names.required_vo: Proof/C07Names.v Lib/Base.vo Model/Assertions.vo
Proof/C07Names.vio: Proof/C07Names.v Lib/Base.vio Model/Assertions.vio
Proof/C07Names.vos Proof/C07Names.vok Proof/C07Names.required_vos: Proof/C07Names.v Lib/Base.vos Model/Assertions.vos
Proof/C07Repr.vo Proof/C07Repr.glob Proof/C07Repr.v.beautified Proof/C07Repr.required_vo: Proof/C07Repr.v Lib/Base.vo Model/TextRepr.vo
Proof/C07Repr.vio: Proof/C07Repr.v Lib/Base.vio Model/TextRepr.vio
Proof/C07Repr.vos Proof/C07Repr.vok Proof/C07Repr.required_vos: Proof/C07Repr.v Lib/Base.vos Model/TextRepr.vos
Proof/C08.vo Proof/C08.glob Proof/C08.v.beautified Proof/C08.required_vo: Proof/C08.v Lib/Base.vo Lib/Sort.vo Model/Adapters.vo Spec/C08.vo Corr/C08.vo
Proof/C08.vio: Proof/C08.v Lib/Base.vio Lib/Sort.vio Model/Adapters.vio Spec/C08.vio Corr/C08.vio
Proof/C08.vos Proof/C08.vok Proof/C08.required_vos: Proof/C08.v Lib/Base.vos Lib/Sort.vos Model/Adapters.vos Spec/C08.vos Corr/C08.vos
Proof/C09.vo Proof/C09.glob Proof/C09.v.beautified Proof/C09.required_vo: Proof/C09.v Lib/Base.vo Lib/Sort.vo Lib/Bytestr.vo Gen/Streamtabs.vo Model/Mime.vo Model/StreamRec.vo Model/StreamConv.vo Spec/C10.vo Proof/C10.vo Spec/C09.vo Corr/C09.vo
Proof/C09.vio: Proof/C09.v Lib/Base.vio Lib/Sort.vio Lib/Bytestr.vio Gen/Streamtabs.vio Model/Mime.vio Model/StreamRec.vio Model/StreamConv.vio Spec/C10.vio Proof/C10.vio Spec/C09.vio Corr/C09.vio
Proof/C09.vos Proof/C09.vok Proof/C09.required_vos: Proof/C09.v Lib/Base.vos Lib/Sort.vos Lib/Bytestr.vos Gen/Streamtabs.vos Model/Mime.vos Model/StreamRec.vos Model/StreamConv.vos Spec/C10.vos Proof/C10.vos Spec/C09.vos Corr/C09.vos
Proof/C10.vo Proof/C10.glob Proof/C10.v.beautified Proof/C10.required_vo: Proof/C10.v Lib/Base.vo Lib/Bytestr.vo Gen/Streamtabs.vo Model/StreamRec.vo Spec/C10.vo Corr/C10.vo
Proof/C10.vio: Proof/C10.v Lib/Base.vio Lib/Bytestr.vio Gen/Streamtabs.vio Model/StreamRec.vio Spec/C10.vio Corr/C10.vio
Proof/C10.vos Proof/C10.vok Proof/C10.required_vos: Proof/C10.v Lib/Base.vos Lib/Bytestr.vos Gen/Streamtabs.vos Model/StreamRec.vos Spec/C10.vos Corr/C10.vos
Proof/C11.vo Proof/C11.glob Proof/C11.v.beautified Proof/C11.required_vo: Proof/C11.v Lib/Base.vo Model/Router.vo Model/StreamDecor.vo Gen/Failfast.vo Spec/C11.vo Corr/C11.vo
Proof/C11.vio: Proof/C11.v Lib/Base.vio Model/Router.vio Model/StreamDecor.vio Gen/Failfast.vio Spec/C11.vio Corr/C11.vio
Proof/C11.vos Proof/C11.vok Proof/C11.required_vos: Proof/C11.v Lib/Base.vos Model/Router.vos Model/StreamDecor.vos Gen/Failfast.vos Spec/C11.vos Corr/C11.vos
Proof/C12.vo Proof/C12.glob Proof/C12.v.beautified Proof/C12.required_vo: Proof/C12.v Lib/Base.vo Model/Tfr.vo Spec/C12.vo Corr/C12.vo
Proof/C12.vio: Proof/C12.v Lib/Base.vio Model/Tfr.vio Spec/C12.vio Corr/C12.vio
Proof/C12.vos Proof/C12.vok Proof/C12.required_vos: Proof/C12.v Lib/Base.vos Model/Tfr.vos Spec/C12.vos Corr/C12.vos
Proof/C13.vo Proof/C13.glob Proof/C13.v.beautified Proof/C13.required_vo: Proof/C13.v Lib/Base.vo Model/Tfr.vo Model/Concur.vo Spec/C12.vo Spec/C13.vo Corr/C13.vo Proof/C12.vo
Proof/C13.vio: Proof/C13.v Lib/Base.vio Model/Tfr.vio Model/Concur.vio Spec/C12.vio Spec/C13.vio Corr/C13.vio Proof/C12.vio
Proof/C13.vos Proof/C13.vok Proof/C13.required_vos: Proof/C13.v Lib/Base.vos Model/Tfr.vos Model/Concur.vos Spec/C12.vos Spec/C13.vos Corr/C13.vos Proof/C12.vos
Proof/C14.vo Proof/C14.glob Proof/C14.v.beautified Proof/C14.required_vo: Proof/C14.v Lib/Base.vo Model/AsyncRun.vo Spec/C14.vo Corr/C14.vo
Proof/C14.vio: Proof/C14.v Lib/Base.vio Model/AsyncRun.vio Spec/C14.vio Corr/C14.vio
Proof/C14.vos Proof/C14.vok Proof/C14.required_vos: Proof/C14.v Lib/Base.vos Model/AsyncRun.vos Spec/C14.vos Corr/C14.vos
Proof/C15.vo Proof/C15.glob Proof/C15.v.beautified Proof/C15.required_vo: Proof/C15.v Lib/Base.vo Lib/Sort.vo Model/Reactor.vo Model/Spinner.vo Gen/Spinnertabs.vo Spec/C15.vo Corr/C15.vo
Proof/C15.vio: Proof/C15.v Lib/Base.vio Lib/Sort.vio Model/Reactor.vio Model/Spinner.vio Gen/Spinnertabs.vio Spec/C15.vio Corr/C15.vio
Proof/C15.vos Proof/C15.vok Proof/C15.required_vos: Proof/C15.v Lib/Base.vos Lib/Sort.vos Model/Reactor.vos Model/Spinner.vos Gen/Spinnertabs.vos Spec/C15.vos Corr/C15.vos
Proof/C16.vo Proof/C16.glob Proof/C16.v.beautified Proof/C16.required_vo: Proof/C16.v Lib/Base.vo Lib/Sort.vo Model/Utf8.vo Model/MimeCt.vo Model/Content.vo Spec/C16.vo Corr/C16.vo Proof/Utf8Sweep.vo
Proof/C16.vio: Proof/C16.v Lib/Base.vio Lib/Sort.vio Model/Utf8.vio Model/MimeCt.vio Model/Content.vio Spec/C16.vio Corr/C16.vio Proof/Utf8Sweep.vio
Proof/C16.vos Proof/C16.vok Proof/C16.required_vos: Proof/C16.v Lib/Base.vos Lib/Sort.vos Model/Utf8.vos Model/MimeCt.vos Model/Content.vos Spec/C16.vos Corr/C16.vos Proof/Utf8Sweep.vos
Proof/C17.vo Proof/C17.glob Proof/C17.v.beautified Proof/C17.required_vo: Proof/C17.v Lib/Base.vo Model/Tags.vo Spec/C17.vo Corr/C17.vo
Proof/C17.vio: Proof/C17.v Lib/Base.vio Model/Tags.vio Spec/C17.vio Corr/C17.vio
Proof/C17.vos Proof/C17.vok Proof/C17.required_vos: Proof/C17.v Lib/Base.vos Model/Tags.vos Spec/C17.vos Corr/C17.vos
Proof/C18.vo Proof/C18.glob Proof/C18.v.beautified Proof/C18.required_vo: Proof/C18.v Lib/Base.vo Model/Router.vo Spec/C18.vo Corr/C18.vo
Proof/C18.vio: Proof/C18.v Lib/Base.vio Model/Router.vio Spec/C18.vio Corr/C18.vio
Proof/C18.vos Proof/C18.vok Proof/C18.required_vos: Proof/C18.v Lib/Base.vos Model/Router.vos Spec/C18.vos Corr/C18.vos
Proof/C19.vo Proof/C19.glob Proof/C19.v.beautified Proof/C19.required_vo: Proof/C19.v Lib/Base.vo Lib/Sort.vo Model/Suites.vo Spec/C19.vo Corr/C19.vo
Proof/C19.vio: Proof/C19.v Lib/Base.vio Lib/Sort.vio Model/Suites.vio Spec/C19.vio Corr/C19.vio
Proof/C19.vos Proof/C19.vok Proof/C19.required_vos: Proof/C19.v Lib/Base.vos Lib/Sort.vos Model/Suites.vos Spec/C19.vos Corr/C19.vos
Proof/C20.vo Proof/C20.glob Proof/C20.v.beautified Proof/C20.required_vo: Proof/C20.v Lib/Base.vo Model/Deferred.vo Model/DeferredMatchers.vo Spec/C20.vo Corr/C20.vo
Proof/C20.vio: Proof/C20.v Lib/Base.vio Model/Deferred.vio Model/DeferredMatchers.vio Spec/C20.vio Corr/C20.vio
Proof/C20.vos Proof/C20.vok Proof/C20.required_vos: Proof/C20.v Lib/Base.vos Model/Deferred.vos Model/DeferredMatchers.vos Spec/C20.vos Corr/C20.vos
Proof/RunCore.vo Proof/RunCore.glob Proof/RunCore.v.beautified Proof/RunCore.required_vo: Proof/RunCore.v Lib/Base.vo Gen/Handlers.vo Model/Run.vo Spec/Run.vo
Proof/RunCore.vio: Proof/RunCore.v Lib/Base.vio Gen/Handlers.vio Model/Run.vio Spec/Run.vio
Proof/RunCore.vos Proof/RunCore.vok Proof/RunCore.required_vos: Proof/RunCore.v Lib/Base.vos Gen/Handlers.vos Model/Run.vos Spec/Run.vos
Proof/Utf8Sweep.vo Proof/Utf8Sweep.glob Proof/Utf8Sweep.v.beautified Proof/Utf8Sweep.required_vo: Proof/Utf8Sweep.v Lib/Base.vo Model/Utf8.vo
Proof/Utf8Sweep.vio: Proof/Utf8Sweep.v Lib/Base.vio Model/Utf8.vio
Proof/Utf8Sweep.vos Proof/Utf8Sweep.vok Proof/Utf8Sweep.required_vos: Proof/Utf8Sweep.v Lib/Base.vos Model/Utf8.vos
Props/C01.vo Props/C01.glob Props/C01.v.beautified Props/C01.required_vo: Props/C01.v Lib/Base.vo Gen/Handlers.vo Model/Run.vo Spec/Run.vo Spec/C01.vo Corr/C01.vo Proof/RunCore.vo Proof/C01.vo
Props/C01.vio: Props/C01.v Lib/Base.vio Gen/Handlers.vio Model/Run.vio Spec/Run.vio Spec/C01.vio Corr/C01.vio Proof/RunCore.vio Proof/C01.vio
Props/C01.vos Props/C01.vok Props/C01.required_vos: Props/C01.v Lib/Base.vos Gen/Handlers.vos Model/Run.vos Spec/Run.vos Spec/C01.vos Corr/C01.vos Proof/RunCore.vos Proof/C01.vos
Props/C02.vo Props/C02.glob Props/C02.v.beautified Props/C02.required_vo: Props/C02.v Lib/Base.vo Gen/Handlers.vo Model/Run.vo Spec/Run.vo Spec/C02.vo Corr/C02.vo Proof/RunCore.vo Proof/C02.vo
Props/C02.vio: Props/C02.v Lib/Base.vio Gen/Handlers.vio Model/Run.vio Spec/Run.vio Spec/C02.vio Corr/C02.vio Proof/RunCore.vio Proof/C02.vio
Props/C02.vos Props/C02.vok Props/C02.required_vos: Props/C02.v Lib/Base.vos Gen/Handlers.vos Model/Run.vos Spec/Run.vos Spec/C02.vos Corr/C02.vos Proof/RunCore.vos Proof/C02.vos
Props/C03.vo Props/C03.glob Props/C03.v.beautified Props/C03.required_vo: Props/C03.v Lib/Base.vo Gen/Handlers.vo Model/Run.vo Spec/Run.vo Spec/C03.vo Corr/C03.vo Proof/RunCore.vo Proof/C03.vo
Props/C03.vio: Props/C03.v Lib/Base.vio Gen/Handlers.vio Model/Run.vio Spec/Run.vio Spec/C03.vio Corr/C03.vio Proof/RunCore.vio Proof/C03.vio
Props/C03.vos Props/C03.vok Props/C03.required_vos: Props/C03.v Lib/Base.vos Gen/Handlers.vos Model/Run.vos Spec/Run.vos Spec/C03.vos Corr/C03.vos Proof/RunCore.vos Proof/C03.vos
Props/C04.vo Props/C04.glob Props/C04.v.beautified Props/C04.required_vo: Props/C04.v Lib/Base.vo Model/Result.vo Spec/C04.vo Corr/C04.vo Proof/C04.vo
Props/C04.vio: Props/C04.v Lib/Base.vio Model/Result.vio Spec/C04.vio Corr/C04.vio Proof/C04.vio
Props/C04.vos Props/C04.vok Props/C04.required_vos: Props/C04.v Lib/Base.vos Model/Result.vos Spec/C04.vos Corr/C04.vos Proof/C04.vos
Props/C05.vo Props/C05.glob Props/C05.v.beautified Props/C05.required_vo: Props/C05.v Lib/Base.vo Gen/Handlers.vo Model/Run.vo Spec/Run.vo Spec/C05.vo Corr/C05.vo Proof/C05.vo
Props/C05.vio: Props/C05.v Lib/Base.vio Gen/Handlers.vio Model/Run.vio Spec/Run.vio Spec/C05.vio Corr/C05.vio Proof/C05.vio
Props/C05.vos Props/C05.vok Props/C05.required_vos: Props/C05.v Lib/Base.vos Gen/Handlers.vos Model/Run.vos Spec/Run.vos Spec/C05.vos Corr/C05.vos Proof/C05.vos
Props/C06.vo Props/C06.glob Props/C06.v.beautified Props/C06.required_vo: Props/C06.v Lib/Base.vo Model/Matchers.vo Spec/C06.vo Corr/C06.vo Proof/C06Setwise.vo Proof/C06Leaves.vo Proof/C06.vo
Props/C06.vio: Props/C06.v Lib/Base.vio Model/Matchers.vio Spec/C06.vio Corr/C06.vio Proof/C06Setwise.vio Proof/C06Leaves.vio Proof/C06.vio
Props/C06.vos Props/C06.vok Props/C06.required_vos: Props/C06.v Lib/Base.vos Model/Matchers.vos Spec/C06.vos Corr/C06.vos Proof/C06Setwise.vos Proof/C06Leaves.vos Proof/C06.vos
Props/C07.vo Props/C07.glob Props/C07.v.beautified Props/C07.required_vo: Props/C07.v Lib/Base.vo Model/TextRepr.vo Model/Assertions.vo Spec/C07.vo Corr/C07.vo Proof/C07Repr.vo Proof/C07Names.vo Proof/C07.vo
Props/C07.vio: Props/C07.v Lib/Base.vio Model/TextRepr.vio Model/Assertions.vio Spec/C07.vio Corr/C07.vio Proof/C07Repr.vio Proof/C07Names.vio Proof/C07.vio
Props/C07.vos Props/C07.vok Props/C07.required_vos: Props/C07.v Lib/Base.vos Model/TextRepr.vos Model/Assertions.vos Spec/C07.vos Corr/C07.vos Proof/C07Repr.vos Proof/C07Names.vos Proof/C07.vos
Props/C08.vo Props/C08.glob Props/C08.v.beautified Props/C08.required_vo: Props/C08.v Lib/Base.vo Model/Adapters.vo Spec/C08.vo Corr/C08.vo Proof/C08.vo
Props/C08.vio: Props/C08.v Lib/Base.vio Model/Adapters.vio Spec/C08.vio Corr/C08.vio Proof/C08.vio
Props/C08.vos Props/C08.vok Props/C08.required_vos: Props/C08.v Lib/Base.vos Model/Adapters.vos Spec/C08.vos Corr/C08.vos Proof/C08.vos
Props/C09.vo Props/C09.glob Props/C09.v.beautified Props/C09.required_vo: Props/C09.v Lib/Base.vo Lib/Sort.vo Lib/Bytestr.vo Gen/Streamtabs.vo Model/Mime.vo Model/StreamRec.vo Model/StreamConv.vo Spec/C09.vo Corr/C09.vo Proof/C09.vo
Props/C09.vio: Props/C09.v Lib/Base.vio Lib/Sort.vio Lib/Bytestr.vio Gen/Streamtabs.vio Model/Mime.vio Model/StreamRec.vio Model/StreamConv.vio Spec/C09.vio Corr/C09.vio Proof/C09.vio
Props/C09.vos Props/C09.vok Props/C09.required_vos: Props/C09.v Lib/Base.vos Lib/Sort.vos Lib/Bytestr.vos Gen/Streamtabs.vos Model/Mime.vos Model/StreamRec.vos Model/StreamConv.vos Spec/C09.vos Corr/C09.vos Proof/C09.vos
Props/C10.vo Props/C10.glob Props/C10.v.beautified Props/C10.required_vo: Props/C10.v Lib/Base.vo Lib/Bytestr.vo Gen/Streamtabs.vo Model/StreamRec.vo Spec/C10.vo Corr/C10.vo Proof/C10.vo
Props/C10.vio: Props/C10.v Lib/Base.vio Lib/Bytestr.vio Gen/Streamtabs.vio Model/StreamRec.vio Spec/C10.vio Corr/C10.vio Proof/C10.vio
Props/C10.vos Props/C10.vok Props/C10.required_vos: Props/C10.v Lib/Base.vos Lib/Bytestr.vos Gen/Streamtabs.vos Model/StreamRec.vos Spec/C10.vos Corr/C10.vos Proof/C10.vos
Props/C11.vo Props/C11.glob Props/C11.v.beautified Props/C11.required_vo: Props/C11.v Lib/Base.vo Model/Router.vo Model/StreamDecor.vo Gen/Failfast.vo Spec/C11.vo Corr/C11.vo Proof/C11.vo
Props/C11.vio: Props/C11.v Lib/Base.vio Model/Router.vio Model/StreamDecor.vio Gen/Failfast.vio Spec/C11.vio Corr/C11.vio Proof/C11.vio
Props/C11.vos Props/C11.vok Props/C11.required_vos: Props/C11.v Lib/Base.vos Model/Router.vos Model/StreamDecor.vos Gen/Failfast.vos Spec/C11.vos Corr/C11.vos Proof/C11.vos
Props/C12.vo Props/C12.glob Props/C12.v.beautified Props/C12.required_vo: Props/C12.v Lib/Base.vo Model/Tfr.vo Spec/C12.vo Corr/C12.vo Proof/C12.vo
Props/C12.vio: Props/C12.v Lib/Base.vio Model/Tfr.vio Spec/C12.vio Corr/C12.vio Proof/C12.vio
Props/C12.vos Props/C12.vok Props/C12.required_vos: Props/C12.v Lib/Base.vos Model/Tfr.vos Spec/C12.vos Corr/C12.vos Proof/C12.vos
Props/C13.vo Props/C13.glob Props/C13.v.beautified Props/C13.required_vo: Props/C13.v Lib/Base.vo Model/Tfr.vo Model/Concur.vo Spec/C12.vo Spec/C13.vo Corr/C13.vo Proof/C13.vo
Props/C13.vio: Props/C13.v Lib/Base.vio Model/Tfr.vio Model/Concur.vio Spec/C12.vio Spec/C13.vio Corr/C13.vio Proof/C13.vio
Props/C13.vos Props/C13.vok Props/C13.required_vos: Props/C13.v Lib/Base.vos Model/Tfr.vos Model/Concur.vos Spec/C12.vos Spec/C13.vos Corr/C13.vos Proof/C13.vos
Props/C14.vo Props/C14.glob Props/C14.v.beautified Props/C14.required_vo: Props/C14.v Lib/Base.vo Model/AsyncRun.vo Spec/C14.vo Corr/C14.vo Proof/C14.vo
Props/C14.vio: Props/C14.v Lib/Base.vio Model/AsyncRun.vio Spec/C14.vio Corr/C14.vio Proof/C14.vio
Props/C14.vos Props/C14.vok Props/C14.required_vos: Props/C14.v Lib/Base.vos Model/AsyncRun.vos Spec/C14.vos Corr/C14.vos Proof/C14.vos
Props/C15.vo Props/C15.glob Props/C15.v.beautified Props/C15.required_vo: Props/C15.v Lib/Base.vo Lib/Sort.vo Model/Reactor.vo Model/Spinner.vo Gen/Spinnertabs.vo Spec/C15.vo Corr/C15.vo Proof/C15.vo
Props/C15.vio: Props/C15.v Lib/Base.vio Lib/Sort.vio Model/Reactor.vio Model/Spinner.vio Gen/Spinnertabs.vio Spec/C15.vio Corr/C15.vio Proof/C15.vio
Props/C15.vos Props/C15.vok Props/C15.required_vos: Props/C15.v Lib/Base.vos Lib/Sort.vos Model/Reactor.vos Model/Spinner.vos Gen/Spinnertabs.vos Spec/C15.vos Corr/C15.vos Proof/C15.vos
Props/C16.vo Props/C16.glob Props/C16.v.beautified Props/C16.required_vo: Props/C16.v Lib/Base.vo Lib/Sort.vo Model/Utf8.vo Model/MimeCt.vo Model/Content.vo Spec/C16.vo Corr/C16.vo Proof/Utf8Sweep.vo Proof/C16.vo
Props/C16.vio: Props/C16.v Lib/Base.vio Lib/Sort.vio Model/Utf8.vio Model/MimeCt.vio Model/Content.vio Spec/C16.vio Corr/C16.vio Proof/Utf8Sweep.vio Proof/C16.vio
Props/C16.vos Props/C16.vok Props/C16.required_vos: Props/C16.v Lib/Base.vos Lib/Sort.vos Model/Utf8.vos Model/MimeCt.vos Model/Content.vos Spec/C16.vos Corr/C16.vos Proof/Utf8Sweep.vos Proof/C16.vos
Props/C17.vo Props/C17.glob Props/C17.v.beautified Props/C17.required_vo: Props/C17.v Lib/Base.vo Model/Tags.vo Spec/C17.vo Corr/C17.vo Proof/C17.vo
Props/C17.vio: Props/C17.v Lib/Base.vio Model/Tags.vio Spec/C17.vio Corr/C17.vio Proof/C17.vio
Props/C17.vos Props/C17.vok Props/C17.required_vos: Props/C17.v Lib/Base.vos Model/Tags.vos Spec/C17.vos Corr/C17.vos Proof/C17.vos
Props/C18.vo Props/C18.glob Props/C18.v.beautified Props/C18.required_vo: Props/C18.v Lib/Base.vo Model/Router.vo Spec/C18.vo Corr/C18.vo Proof/C18.vo
Props/C18.vio: Props/C18.v Lib/Base.vio Model/Router.vio Spec/C18.vio Corr/C18.vio Proof/C18.vio
Props/C18.vos Props/C18.vok Props/C18.required_vos: Props/C18.v Lib/Base.vos Model/Router.vos Spec/C18.vos Corr/C18.vos Proof/C18.vos
Props/C19.vo Props/C19.glob Props/C19.v.beautified Props/C19.required_vo: Props/C19.v Lib/Base.vo Lib/Sort.vo Model/Suites.vo Spec/C19.vo Corr/C19.vo Proof/C19.vo
Props/C19.vio: Props/C19.v Lib/Base.vio Lib/Sort.vio Model/Suites.vio Spec/C19.vio Corr/C19.vio Proof/C19.vio
Props/C19.vos Props/C19.vok Props/C19.required_vos: Props/C19.v Lib/Base.vos Lib/Sort.vos Model/Suites.vos Spec/C19.vos Corr/C19.vos Proof/C19.vos
Props/C20.vo Props/C20.glob Props/C20.v.beautified Props/C20.required_vo: Props/C20.v Lib/Base.vo Model/Deferred.vo Model/DeferredMatchers.vo Spec/C20.vo Corr/C20.vo Proof/C20.vo
Props/C20.vio: Props/C20.v Lib/Base.vio Model/Deferred.vio Model/DeferredMatchers.vio Spec/C20.vio Corr/C20.vio Proof/C20.vio
Props/C20.vos Props/C20.vok Props/C20.required_vos: Props/C20.v Lib/Base.vos Model/Deferred.vos Model/DeferredMatchers.vos Spec/C20.vos Corr/C20.vos Proof/C20.vos
