Lib/Base.vo Lib/Base.glob Lib/Base.v.beautified Lib/Base.required_vo: Lib/Base.v 
Lib/Base.vio: Lib/Base.v 
Lib/Base.vos Lib/Base.vok Lib/Base.required_vos: Lib/Base.v 
Lib/Sort.vo Lib/Sort.glob Lib/Sort.v.beautified Lib/Sort.required_vo: Lib/Sort.v 
Lib/Sort.vio: Lib/Sort.v 
Lib/Sort.vos Lib/Sort.vok Lib/Sort.required_vos: Lib/Sort.v 
Model/Suites.vo Model/Suites.glob Model/Suites.v.beautified Model/Suites.required_vo: Model/Suites.v Lib/Base.vo Lib/Sort.vo
Model/Suites.vio: Model/Suites.v Lib/Base.vio Lib/Sort.vio
Model/Suites.vos Model/Suites.vok Model/Suites.required_vos: Model/Suites.v Lib/Base.vos Lib/Sort.vos
Spec/C19.vo Spec/C19.glob Spec/C19.v.beautified Spec/C19.required_vo: Spec/C19.v Lib/Base.vo Lib/Sort.vo Model/Suites.vo
Spec/C19.vio: Spec/C19.v Lib/Base.vio Lib/Sort.vio Model/Suites.vio
Spec/C19.vos Spec/C19.vok Spec/C19.required_vos: Spec/C19.v Lib/Base.vos Lib/Sort.vos Model/Suites.vos
Corr/C19.vo Corr/C19.glob Corr/C19.v.beautified Corr/C19.required_vo: Corr/C19.v Lib/Base.vo Lib/Sort.vo Model/Suites.vo Spec/C19.vo
Corr/C19.vio: Corr/C19.v Lib/Base.vio Lib/Sort.vio Model/Suites.vio Spec/C19.vio
Corr/C19.vos Corr/C19.vok Corr/C19.required_vos: Corr/C19.v Lib/Base.vos Lib/Sort.vos Model/Suites.vos Spec/C19.vos
Proof/C19.vo Proof/C19.glob Proof/C19.v.beautified Proof/C19.required_vo: Proof/C19.v Lib/Base.vo Lib/Sort.vo Model/Suites.vo Spec/C19.vo Corr/C19.vo
Proof/C19.vio: Proof/C19.v Lib/Base.vio Lib/Sort.vio Model/Suites.vio Spec/C19.vio Corr/C19.vio
Proof/C19.vos Proof/C19.vok Proof/C19.required_vos: Proof/C19.v Lib/Base.vos Lib/Sort.vos Model/Suites.vos Spec/C19.vos Corr/C19.vos
Props/C19.vo Props/C19.glob Props/C19.v.beautified Props/C19.required_vo: Props/C19.v Lib/Base.vo Lib/Sort.vo Model/Suites.vo Spec/C19.vo Corr/C19.vo Proof/C19.vo
Props/C19.vio: Props/C19.v Lib/Base.vio Lib/Sort.vio Model/Suites.vio Spec/C19.vio Corr/C19.vio Proof/C19.vio
Props/C19.vos Props/C19.vok Props/C19.required_vos: Props/C19.v Lib/Base.vos Lib/Sort.vos Model/Suites.vos Spec/C19.vos Corr/C19.vos Proof/C19.vos
