Lib/Base.vo Lib/Base.glob Lib/Base.v.beautified Lib/Base.required_vo: Lib/Base.v 
Lib/Base.vio: Lib/Base.v 
Lib/Base.vos Lib/Base.vok Lib/Base.required_vos: Lib/Base.v 
Lib/Bytestr.vo Lib/Bytestr.glob Lib/Bytestr.v.beautified Lib/Bytestr.required_vo: Lib/Bytestr.v 
Lib/Bytestr.vio: Lib/Bytestr.v 
Lib/Bytestr.vos Lib/Bytestr.vok Lib/Bytestr.required_vos: Lib/Bytestr.v 
Lib/Sort.vo Lib/Sort.glob Lib/Sort.v.beautified Lib/Sort.required_vo: Lib/Sort.v 
Lib/Sort.vio: Lib/Sort.v 
Lib/Sort.vos Lib/Sort.vok Lib/Sort.required_vos: Lib/Sort.v 
Gen/Handlers.vo Gen/Handlers.glob Gen/Handlers.v.beautified Gen/Handlers.required_vo: Gen/Handlers.v 
Gen/Handlers.vio: Gen/Handlers.v 
Gen/Handlers.vos Gen/Handlers.vok Gen/Handlers.required_vos: Gen/Handlers.v 
Gen/Spinnertabs.vo Gen/Spinnertabs.glob Gen/Spinnertabs.v.beautified Gen/Spinnertabs.required_vo: Gen/Spinnertabs.v 
Gen/Spinnertabs.vio: Gen/Spinnertabs.v 
Gen/Spinnertabs.vos Gen/Spinnertabs.vok Gen/Spinnertabs.required_vos: Gen/Spinnertabs.v 
Gen/Streamtabs.vo Gen/Streamtabs.glob Gen/Streamtabs.v.beautified Gen/Streamtabs.required_vo: Gen/Streamtabs.v 
Gen/Streamtabs.vio: Gen/Streamtabs.v 
Gen/Streamtabs.vos Gen/Streamtabs.vok Gen/Streamtabs.required_vos: Gen/Streamtabs.v 
Model/Reactor.vo Model/Reactor.glob Model/Reactor.v.beautified Model/Reactor.required_vo: Model/Reactor.v Lib/Base.vo
Model/Reactor.vio: Model/Reactor.v Lib/Base.vio
Model/Reactor.vos Model/Reactor.vok Model/Reactor.required_vos: Model/Reactor.v Lib/Base.vos
Model/Router.vo Model/Router.glob Model/Router.v.beautified Model/Router.required_vo: Model/Router.v Lib/Base.vo
Model/Router.vio: Model/Router.v Lib/Base.vio
Model/Router.vos Model/Router.vok Model/Router.required_vos: Model/Router.v Lib/Base.vos
Model/Spinner.vo Model/Spinner.glob Model/Spinner.v.beautified Model/Spinner.required_vo: Model/Spinner.v Lib/Base.vo Model/Reactor.vo Gen/Spinnertabs.vo
Model/Spinner.vio: Model/Spinner.v Lib/Base.vio Model/Reactor.vio Gen/Spinnertabs.vio
Model/Spinner.vos Model/Spinner.vok Model/Spinner.required_vos: Model/Spinner.v Lib/Base.vos Model/Reactor.vos Gen/Spinnertabs.vos
Model/StreamRec.vo Model/StreamRec.glob Model/StreamRec.v.beautified Model/StreamRec.required_vo: Model/StreamRec.v Lib/Base.vo Lib/Bytestr.vo Gen/Streamtabs.vo
Model/StreamRec.vio: Model/StreamRec.v Lib/Base.vio Lib/Bytestr.vio Gen/Streamtabs.vio
Model/StreamRec.vos Model/StreamRec.vok Model/StreamRec.required_vos: Model/StreamRec.v Lib/Base.vos Lib/Bytestr.vos Gen/Streamtabs.vos
Model/Suites.vo Model/Suites.glob Model/Suites.v.beautified Model/Suites.required_vo: Model/Suites.v Lib/Base.vo Lib/Sort.vo
Model/Suites.vio: Model/Suites.v Lib/Base.vio Lib/Sort.vio
Model/Suites.vos Model/Suites.vok Model/Suites.required_vos: Model/Suites.v Lib/Base.vos Lib/Sort.vos
Model/Tags.vo Model/Tags.glob Model/Tags.v.beautified Model/Tags.required_vo: Model/Tags.v Lib/Base.vo
Model/Tags.vio: Model/Tags.v Lib/Base.vio
Model/Tags.vos Model/Tags.vok Model/Tags.required_vos: Model/Tags.v Lib/Base.vos
Model/Utf8.vo Model/Utf8.glob Model/Utf8.v.beautified Model/Utf8.required_vo: Model/Utf8.v Lib/Base.vo
Model/Utf8.vio: Model/Utf8.v Lib/Base.vio
Model/Utf8.vos Model/Utf8.vok Model/Utf8.required_vos: Model/Utf8.v Lib/Base.vos
Spec/C10.vo Spec/C10.glob Spec/C10.v.beautified Spec/C10.required_vo: Spec/C10.v Lib/Base.vo Lib/Bytestr.vo Model/StreamRec.vo
Spec/C10.vio: Spec/C10.v Lib/Base.vio Lib/Bytestr.vio Model/StreamRec.vio
Spec/C10.vos Spec/C10.vok Spec/C10.required_vos: Spec/C10.v Lib/Base.vos Lib/Bytestr.vos Model/StreamRec.vos
Spec/C15.vo Spec/C15.glob Spec/C15.v.beautified Spec/C15.required_vo: Spec/C15.v Lib/Base.vo Lib/Sort.vo Model/Reactor.vo Model/Spinner.vo
Spec/C15.vio: Spec/C15.v Lib/Base.vio Lib/Sort.vio Model/Reactor.vio Model/Spinner.vio
Spec/C15.vos Spec/C15.vok Spec/C15.required_vos: Spec/C15.v Lib/Base.vos Lib/Sort.vos Model/Reactor.vos Model/Spinner.vos
Spec/C17.vo Spec/C17.glob Spec/C17.v.beautified Spec/C17.required_vo: Spec/C17.v Lib/Base.vo Model/Tags.vo
Spec/C17.vio: Spec/C17.v Lib/Base.vio Model/Tags.vio
Spec/C17.vos Spec/C17.vok Spec/C17.required_vos: Spec/C17.v Lib/Base.vos Model/Tags.vos
Spec/C18.vo Spec/C18.glob Spec/C18.v.beautified Spec/C18.required_vo: Spec/C18.v Lib/Base.vo Model/Router.vo
Spec/C18.vio: Spec/C18.v Lib/Base.vio Model/Router.vio
Spec/C18.vos Spec/C18.vok Spec/C18.required_vos: Spec/C18.v Lib/Base.vos Model/Router.vos
Spec/C19.vo Spec/C19.glob Spec/C19.v.beautified Spec/C19.required_vo: Spec/C19.v Lib/Base.vo Lib/Sort.vo Model/Suites.vo
Spec/C19.vio: Spec/C19.v Lib/Base.vio Lib/Sort.vio Model/Suites.vio
Spec/C19.vos Spec/C19.vok Spec/C19.required_vos: Spec/C19.v Lib/Base.vos Lib/Sort.vos Model/Suites.vos
Corr/C10.vo Corr/C10.glob Corr/C10.v.beautified Corr/C10.required_vo: Corr/C10.v Lib/Base.vo Lib/Bytestr.vo Model/StreamRec.vo Spec/C10.vo
Corr/C10.vio: Corr/C10.v Lib/Base.vio Lib/Bytestr.vio Model/StreamRec.vio Spec/C10.vio
Corr/C10.vos Corr/C10.vok Corr/C10.required_vos: Corr/C10.v Lib/Base.vos Lib/Bytestr.vos Model/StreamRec.vos Spec/C10.vos
Corr/C15.vo Corr/C15.glob Corr/C15.v.beautified Corr/C15.required_vo: Corr/C15.v Lib/Base.vo Lib/Sort.vo Model/Reactor.vo Model/Spinner.vo Gen/Spinnertabs.vo Spec/C15.vo
Corr/C15.vio: Corr/C15.v Lib/Base.vio Lib/Sort.vio Model/Reactor.vio Model/Spinner.vio Gen/Spinnertabs.vio Spec/C15.vio
Corr/C15.vos Corr/C15.vok Corr/C15.required_vos: Corr/C15.v Lib/Base.vos Lib/Sort.vos Model/Reactor.vos Model/Spinner.vos Gen/Spinnertabs.vos Spec/C15.vos
Corr/C17.vo Corr/C17.glob Corr/C17.v.beautified Corr/C17.required_vo: Corr/C17.v Lib/Base.vo Model/Tags.vo Spec/C17.vo
Corr/C17.vio: Corr/C17.v Lib/Base.vio Model/Tags.vio Spec/C17.vio
Corr/C17.vos Corr/C17.vok Corr/C17.required_vos: Corr/C17.v Lib/Base.vos Model/Tags.vos Spec/C17.vos
Corr/C18.vo Corr/C18.glob Corr/C18.v.beautified Corr/C18.required_vo: Corr/C18.v Lib/Base.vo Model/Router.vo Spec/C18.vo
Corr/C18.vio: Corr/C18.v Lib/Base.vio Model/Router.vio Spec/C18.vio
Corr/C18.vos Corr/C18.vok Corr/C18.required_vos: Corr/C18.v Lib/Base.vos Model/Router.vos Spec/C18.vos
Corr/C19.vo Corr/C19.glob Corr/C19.v.beautified Corr/C19.required_vo: Corr/C19.v Lib/Base.vo Lib/Sort.vo Model/Suites.vo Spec/C19.vo
Corr/C19.vio: Corr/C19.v Lib/Base.vio Lib/Sort.vio Model/Suites.vio Spec/C19.vio
Corr/C19.vos Corr/C19.vok Corr/C19.required_vos: Corr/C19.v Lib/Base.vos Lib/Sort.vos Model/Suites.vos Spec/C19.vos
Proof/C10.vo Proof/C10.glob Proof/C10.v.beautified Proof/C10.required_vo: Proof/C10.v Lib/Base.vo Lib/Bytestr.vo Model/StreamRec.vo Spec/C10.vo Corr/C10.vo
Proof/C10.vio: Proof/C10.v Lib/Base.vio Lib/Bytestr.vio Model/StreamRec.vio Spec/C10.vio Corr/C10.vio
Proof/C10.vos Proof/C10.vok Proof/C10.required_vos: Proof/C10.v Lib/Base.vos Lib/Bytestr.vos Model/StreamRec.vos Spec/C10.vos Corr/C10.vos
Proof/C15.vo Proof/C15.glob Proof/C15.v.beautified Proof/C15.required_vo: Proof/C15.v Lib/Base.vo Lib/Sort.vo Model/Reactor.vo Model/Spinner.vo Gen/Spinnertabs.vo Spec/C15.vo Corr/C15.vo
Proof/C15.vio: Proof/C15.v Lib/Base.vio Lib/Sort.vio Model/Reactor.vio Model/Spinner.vio Gen/Spinnertabs.vio Spec/C15.vio Corr/C15.vio
Proof/C15.vos Proof/C15.vok Proof/C15.required_vos: Proof/C15.v Lib/Base.vos Lib/Sort.vos Model/Reactor.vos Model/Spinner.vos Gen/Spinnertabs.vos Spec/C15.vos Corr/C15.vos
Proof/C17.vo Proof/C17.glob Proof/C17.v.beautified Proof/C17.required_vo: Proof/C17.v Lib/Base.vo Model/Tags.vo Spec/C17.vo Corr/C17.vo
Proof/C17.vio: Proof/C17.v Lib/Base.vio Model/Tags.vio Spec/C17.vio Corr/C17.vio
Proof/C17.vos Proof/C17.vok Proof/C17.required_vos: Proof/C17.v Lib/Base.vos Model/Tags.vos Spec/C17.vos Corr/C17.vos
Proof/C18.vo Proof/C18.glob Proof/C18.v.beautified Proof/C18.required_vo: Proof/C18.v Lib/Base.vo Model/Router.vo Spec/C18.vo Corr/C18.vo
Proof/C18.vio: Proof/C18.v Lib/Base.vio Model/Router.vio Spec/C18.vio Corr/C18.vio
Proof/C18.vos Proof/C18.vok Proof/C18.required_vos: Proof/C18.v Lib/Base.vos Model/Router.vos Spec/C18.vos Corr/C18.vos
Proof/C19.vo Proof/C19.glob Proof/C19.v.beautified Proof/C19.required_vo: Proof/C19.v Lib/Base.vo Lib/Sort.vo Model/Suites.vo Spec/C19.vo Corr/C19.vo
Proof/C19.vio: Proof/C19.v Lib/Base.vio Lib/Sort.vio Model/Suites.vio Spec/C19.vio Corr/C19.vio
Proof/C19.vos Proof/C19.vok Proof/C19.required_vos: Proof/C19.v Lib/Base.vos Lib/Sort.vos Model/Suites.vos Spec/C19.vos Corr/C19.vos
Props/C10.vo Props/C10.glob Props/C10.v.beautified Props/C10.required_vo: Props/C10.v Lib/Base.vo Lib/Bytestr.vo Model/StreamRec.vo Spec/C10.vo Corr/C10.vo Proof/C10.vo
Props/C10.vio: Props/C10.v Lib/Base.vio Lib/Bytestr.vio Model/StreamRec.vio Spec/C10.vio Corr/C10.vio Proof/C10.vio
Props/C10.vos Props/C10.vok Props/C10.required_vos: Props/C10.v Lib/Base.vos Lib/Bytestr.vos Model/StreamRec.vos Spec/C10.vos Corr/C10.vos Proof/C10.vos
Props/C15.vo Props/C15.glob Props/C15.v.beautified Props/C15.required_vo: Props/C15.v Lib/Base.vo Lib/Sort.vo Model/Reactor.vo Model/Spinner.vo Gen/Spinnertabs.vo Spec/C15.vo Corr/C15.vo Proof/C15.vo
Props/C15.vio: Props/C15.v Lib/Base.vio Lib/Sort.vio Model/Reactor.vio Model/Spinner.vio Gen/Spinnertabs.vio Spec/C15.vio Corr/C15.vio Proof/C15.vio
Props/C15.vos Props/C15.vok Props/C15.required_vos: Props/C15.v Lib/Base.vos Lib/Sort.vos Model/Reactor.vos Model/Spinner.vos Gen/Spinnertabs.vos Spec/C15.vos Corr/C15.vos Proof/C15.vos
Props/C17.vo Props/C17.glob Props/C17.v.beautified Props/C17.required_vo: Props/C17.v Lib/Base.vo Model/Tags.vo Spec/C17.vo Corr/C17.vo Proof/C17.vo
Props/C17.vio: Props/C17.v Lib/Base.vio Model/Tags.vio Spec/C17.vio Corr/C17.vio Proof/C17.vio
Props/C17.vos Props/C17.vok Props/C17.required_vos: Props/C17.v Lib/Base.vos Model/Tags.vos Spec/C17.vos Corr/C17.vos Proof/C17.vos
Props/C18.vo Props/C18.glob Props/C18.v.beautified Props/C18.required_vo: Props/C18.v Lib/Base.vo Model/Router.vo Spec/C18.vo Corr/C18.vo Proof/C18.vo
Props/C18.vio: Props/C18.v Lib/Base.vio Model/Router.vio Spec/C18.vio Corr/C18.vio Proof/C18.vio
Props/C18.vos Props/C18.vok Props/C18.required_vos: Props/C18.v Lib/Base.vos Model/Router.vos Spec/C18.vos Corr/C18.vos Proof/C18.vos
Props/C19.vo Props/C19.glob Props/C19.v.beautified Props/C19.required_vo: Props/C19.v Lib/Base.vo Lib/Sort.vo Model/Suites.vo Spec/C19.vo Corr/C19.vo Proof/C19.vo
Props/C19.vio: Props/C19.v Lib/Base.vio Lib/Sort.vio Model/Suites.vio Spec/C19.vio Corr/C19.vio Proof/C19.vio
Props/C19.vos Props/C19.vok Props/C19.required_vos: Props/C19.v Lib/Base.vos Lib/Sort.vos Model/Suites.vos Spec/C19.vos Corr/C19.vos Proof/C19.vos
