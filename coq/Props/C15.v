(* C15 - Spinner returns the function's own result within the timeout and restores process state (PARTIAL:
   the reactor, Twisted's Deferred and signal delivery are modelled).  Only statements; every proof is
   `exact <lemma of Proof/C15.v>`.  "idle w": the reactor is stopped and empty, reactor.stop is the real
   stop, the re-entrancy flag is down - the state of a fresh spinner and, by C15_clean, of a used one. *)
From Coq Require Import Permutation.
From TT Require Import Lib.Base Lib.Sort Model.Reactor Model.Spinner Gen.Spinnertabs Spec.C15 Corr.C15 Proof.C15.

(* The model meets the whole statement, for every history of runs on one spinner, every function, every
   timing, every stop instant, every tie-break oracle, every set of pre-installed handlers. *)
Theorem C15_holds : forall i : input, wf i -> spec_okb i (model i) = true.
Proof. exact model_meets_spec. Qed.
Print Assumptions C15_holds.

Theorem C15_statement : forall i o, spec_okb i o = true -> Spec i o.
Proof. exact (fun i o => proj1 (spec_okb_iff i o)). Qed.
Print Assumptions C15_statement.

Theorem C15_obs_eqb : forall a b, obs_eqb a b = true <-> a = b.
Proof. exact obs_eqb_spec. Qed.
Print Assumptions C15_obs_eqb.

(* run returns v / raises e / raises TimeoutError / raises NoResultError exactly as the timing dictates:
   a synchronous result is the result; otherwise the earliest of "the Deferred fires", "the timeout elapses",
   "a stop is requested" decides, and among simultaneous ones any (whatever the tie-break oracle says). *)
Theorem C15_result : forall T f w, idle w -> sp_junk (w_sp w) = [] ->
  Allowed T f (fst (run spinner_iterations T f w)).
Proof. exact result_as_timing. Qed.
Print Assumptions C15_result.

(* ... spelled out: a Deferred against the timeout (t < T, t > T, t = T), never firing, stopped first *)
Theorem C15_result_cases : forall T f w t o, idle w -> sp_junk (w_sp w) = [] ->
  f_shape f = Later t o -> f_stop f = None -> f_stop_now f = false ->
  let r := fst (run spinner_iterations T f w) in
  (t < T -> r = result_of o) /\ (T < t -> r = Raised ETimeout)
  /\ (t = T -> r = result_of o \/ r = Raised ETimeout).
Proof. exact result_cases. Qed.
Print Assumptions C15_result_cases.

Theorem C15_result_never : forall T f w, idle w -> sp_junk (w_sp w) = [] ->
  f_shape f = Never -> f_stop f = None -> f_stop_now f = false ->
  fst (run spinner_iterations T f w) = Raised ETimeout.
Proof. exact result_never. Qed.
Print Assumptions C15_result_never.

Theorem C15_result_stopped_first : forall T f w s, idle w -> sp_junk (w_sp w) = [] ->
  (forall h o, f_shape f <> Sync h o) -> f_stop f = Some s -> s < T ->
  (forall t o, f_shape f = Later t o -> s < t) ->
  fst (run spinner_iterations T f w) = Raised ENoResult.
Proof. exact result_stopped_first. Qed.
Print Assumptions C15_result_stopped_first.

(* the two refusals: nothing happens at all *)
Theorem C15_reentry : forall iters T f w, w_flag w = true -> run iters T f w = (Raised EReentry, w).
Proof. exact reentry_refused. Qed.
Print Assumptions C15_reentry.

(* ... and the flag is up while the function runs: a call from inside it is refused *)
Theorem C15_reentry_inside : forall T f w, idle w -> sp_junk (w_sp w) = [] -> f_reenter f = true ->
  w_reentry (snd (run spinner_iterations T f w)) = Some true.
Proof. exact reentry_from_function. Qed.
Print Assumptions C15_reentry_inside.

Theorem C15_stale_junk : forall iters T f w, w_flag w = false -> sp_junk (w_sp w) <> [] ->
  run iters T f w = (Raised EStaleJunk, w).
Proof. exact run_stale. Qed.
Print Assumptions C15_stale_junk.

(* on every exit the reactor is not running and its queues are empty (idle again) ... *)
Theorem C15_clean : forall T f w, idle w -> idle (snd (run spinner_iterations T f w)).
Proof. exact run_keeps_idle. Qed.
Print Assumptions C15_clean.

(* ... and everything the function left with the reactor either ran or is in junk, once *)
Theorem C15_clean_junk : forall T f w, idle w -> sp_junk (w_sp w) = [] ->
  let w' := snd (run spinner_iterations T f w) in
  Permutation (w_ran w' ++ filter not_timeout_tok (sp_junk (w_sp w'))) (w_ran w ++ sched_tokens f).
Proof. exact junk_accounts. Qed.
Print Assumptions C15_clean_junk.

(* reactor.stop and the preserved signal handlers equal their values before the call, on every path;
   the signals the statement names are among the preserved ones of the live table *)
Theorem C15_restored : forall T f w, idle w ->
  let w' := snd (run spinner_iterations T f w) in
  w_stop w' = SReal /\ really_stopped (w_r w') = false
  /\ forall s, In s preserved_signals -> getsig s (w_sig w') = getsig s (w_sig w).
Proof. exact run_restores. Qed.
Print Assumptions C15_restored.

Theorem C15_preserved_table :
  In sig_int preserved_signals /\ In sig_term preserved_signals /\ In sig_chld preserved_signals.
Proof. exact named_signals_preserved. Qed.
Print Assumptions C15_preserved_table.

Theorem C15_iterations_table : spinner_iterations = 0.
Proof. exact spinner_iterations_0. Qed.
Print Assumptions C15_iterations_table.

(* the same for the n-th run of one spinner after clear_junk, whatever the earlier runs were *)
Theorem C15_histories : forall orc rss T f, Forall wf_run rss ->
  let w := clear_junk (world_after (new_world orc) rss) in
  Allowed T f (fst (run spinner_iterations T f w))
  /\ idle (snd (run spinner_iterations T f w))
  /\ (forall s, In s preserved_signals ->
        getsig s (w_sig (snd (run spinner_iterations T f w))) = getsig s (w_sig w)).
Proof. exact nth_run_like_first. Qed.
Print Assumptions C15_histories.

(* non-vacuity: a failing run, then a run that must not see that failure (F10), then a tie at the timeout
   decided by the oracle, with leftovers and a stop request *)
Example C15_example :
  let f1 := mkFn (Sync 0 (Fail 1)) [] 0 None false false None in
  let f2 := mkFn (Sync 0 (Succeed 4)) [0] 1 None false true (Some (sig_int, 8)) in
  let f3 := mkFn (Later 5 (Succeed 6)) [5; 9] 0 (Some 7) false false None in
  map o_res (model (mkInput [2] [mkRun true [3; 1; 4] 5 f1; mkRun true [0; 0; 0] 5 f2; mkRun true [0; 2; 0] 5 f3]))
  = [Raised (EUser 1); Ok 4; Ok 6]
  /\ map o_res (model (mkInput [] [mkRun true [0; 0; 0] 5 f3])) = [Raised ETimeout]
  /\ map o_junk (model (mkInput [1] [mkRun true [0; 0; 0] 5 f2; mkRun false [0; 0; 0] 5 f3])) = [[10; 100]; [10; 100]]
  /\ wf (mkInput [1] [mkRun true [3; 1; 4] 5 f1]).
Proof. vm_compute. repeat split. repeat constructor. Qed.
