(* C15 - Spinner.run returns the function's own result within the timeout and restores
   process state (partial: the reactor, Twisted's Deferred and signal delivery are modelled).
   Only statements; every proof is `exact <lemma of Proof/C15*.v>`. *)
From Coq Require Import Permutation.
From TT Require Import Lib.Base Lib.Sort Model.Reactor Model.Spinner Gen.Spinnertabs Spec.C15 Corr.C15
                       Proof.C15Spec Proof.C15.

(* The model meets the whole statement for EVERY history of runs on one Spinner: any number of runs, any
   function program (shape, delays, leftovers, selectables, stop request at any instant, synchronous stop,
   re-entrant call, handler installed by the function), any timeout, any pre-installed handlers, with or
   without clear_junk, any tie-break oracle, both reactor modes.  Invariant over the event loop + induction
   over the list of runs. *)
Theorem C15_holds : forall i : input, wf i -> spec_okb i (model i) = true.
Proof. exact model_meets_spec. Qed.
Print Assumptions C15_holds.

(* the executable statement implies the readable one *)
Theorem C15_statement : forall i o, spec_okb i o = true -> Spec i o.
Proof. exact spec_okb_sound. Qed.
Print Assumptions C15_statement.

(* the correspondence compares observations exactly *)
Theorem C15_obs_eqb : forall a b, obs_eqb a b = true <-> a = b.
Proof. exact obs_eqb_spec. Qed.
Print Assumptions C15_obs_eqb.

(* ---- the clauses, stated on the model's own state.  Ready w: the reactor is at rest (not running, no
   pending calls, no selectables, never really stopped, no run() in progress) and the harness's log of
   executed calls and of re-entrant attempts is empty.  hs: the start-up hooks (reactor.callWhenRunning) somebody
   registered before run() is entered - each calls reactor.stop(), schedules a delayed call, or does nothing.  WHO reactor.stop is (the stock method or any instance-level override) and
   which handlers are installed (SIG_DFL, SIG_IGN, any callable, or the disposition getsignal() reports as
   None) is arbitrary. ---- *)

(* the result is the one the timing dictates: a synchronous result is returned / raised; otherwise at least
   one of {timeout call, Deferred fires, stop request} ran, each of those that ran was due at the earliest of
   their three instants (simultaneous ones in the order the reactor chose), and run() reports TimeoutError
   if the timeout call ran, else the Deferred's own result if it fired, else NoResultError *)
Theorem C15_result : forall hs batch T f w, Ready w -> sp_junk (w_sp w) = [] ->
  Allowed (stopped_early hs) T f (w_ran (snd (run1 hs batch T f w))) (fst (run1 hs batch T f w)).
Proof. exact clause_result. Qed.
Print Assumptions C15_result.

(* without ties and without a stop request: value / failure before the timeout, TimeoutError after it or never *)
Theorem C15_result_untied : forall hs batch T f w r, Ready w -> sp_junk (w_sp w) = [] -> stopped_early hs = false ->
  f_stop f = None -> f_stop_now f = false -> r = fst (run1 hs batch T f w) ->
  (forall how o, f_shape f = Sync how o -> r = result_of o)
  /\ (forall t o, f_shape f = Later t o -> t < T -> r = result_of o)
  /\ (forall t o, f_shape f = Later t o -> T < t -> r = Raised ETimeout)
  /\ (f_shape f = Never -> r = Raised ETimeout).
Proof. exact clause_result_untied. Qed.
Print Assumptions C15_result_untied.

(* the reactor is stopped strictly before the timeout and before the Deferred fires: NoResultError *)
Theorem C15_result_stopped : forall hs batch T f w s, Ready w -> sp_junk (w_sp w) = [] -> stopped_early hs = false ->
  is_sync f = false -> f_stop_now f = false -> f_stop f = Some s -> s < T ->
  (forall t o, f_shape f = Later t o -> s < t) ->
  fst (run1 hs batch T f w) = Raised ENoResult.
Proof. exact clause_result_stopped. Qed.
Print Assumptions C15_result_stopped.

(* interrupt point "while the reactor starts up, before the function has been called": a start-up hook registered
   before run() calls reactor.stop().  Every start-up hook still fires and the function is still called: what it
   returns synchronously is the result; a Deferred never gets to fire - NoResultError, whatever its timing *)
Theorem C15_result_early : forall hs batch T f w, Ready w -> sp_junk (w_sp w) = [] -> stopped_early hs = true ->
  (forall how o, f_shape f = Sync how o -> fst (run1 hs batch T f w) = result_of o)
  /\ (is_sync f = false -> fst (run1 hs batch T f w) = Raised ENoResult).
Proof. exact clause_result_early. Qed.
Print Assumptions C15_result_early.

(* re-entrant use is refused and changes nothing, whatever the state ... *)
Theorem C15_reentry : forall iters batch T f w, w_flag w = true -> run iters batch T f w = (Raised EReentry, w).
Proof. exact run_reentrant. Qed.
Print Assumptions C15_reentry.

(* ... in particular EVERY call made while the run is in progress - any number of them by the function itself (the
   caller swallows the refusal and tries again), and those made by its delayed calls at any instant of the spin,
   through the same or another Spinner: each is refused and changes nothing; all the function's own attempts
   are accounted for; the flag is reset afterwards *)
Theorem C15_reentry_inside : forall hs batch T f w, Ready w -> sp_junk (w_sp w) = [] ->
  (forall b, In b (w_reentry (snd (run1 hs batch T f w))) -> b = true)
  /\ length (f_reenter f) <= length (w_reentry (snd (run1 hs batch T f w)))
  /\ w_flag (snd (run1 hs batch T f w)) = false.
Proof. exact clause_reentry. Qed.
Print Assumptions C15_reentry_inside.

(* junk that has not been cleared: refused, nothing happens *)
Theorem C15_stale_junk : forall hs batch T f w, Ready w -> sp_junk (w_sp w) <> [] ->
  run1 hs batch T f w = (Raised EStaleJunk, reg_hooks 0 hs w).
Proof. exact clause_stale. Qed.
Print Assumptions C15_stale_junk.

(* on every exit the reactor is not running, holds no delayed call and no selectable, the re-entrancy flag
   is reset; every call / selectable the function left either ran or is in junk, exactly once; the
   spinner's own timeout call is junk only when the reactor was stopped first *)
Theorem C15_clean : forall hs batch T f w, Ready w ->
  let w' := snd (run1 hs batch T f w) in
  running (w_r w') = false /\ queue (w_r w') = [] /\ readers (w_r w') = [] /\ w_flag w' = false
  /\ (sp_junk (w_sp w) = [] ->
      Permutation (filter nt (w_ran w') ++ filter nt (sp_junk (w_sp w'))) (hook_tokens 0 hs ++ sched_tokens f)
      /\ (In tok_timeout (sp_junk (w_sp w')) -> fst (run1 hs batch T f w) = Raised ENoResult)).
Proof. exact clause_clean. Qed.
Print Assumptions C15_clean.

(* reactor.stop is who it was before the call - the stock method or ANY override installed on the instance
   before - and the stock stop was never really called; the handlers of SIGINT, SIGTERM, SIGCHLD are what they
   were before the call, whatever they were and whatever the reactor and the function installed meanwhile.
   The one exception is a disposition that getsignal() reported as None: signal.signal() refuses to install
   None, nobody can put it back once the reactor has taken the signal over, and nothing is claimed for it *)
Theorem C15_restored : forall hs batch T f w, Ready w ->
  let w' := snd (run1 hs batch T f w) in
  w_stop w' = w_stop w /\ really_stopped (w_r w') = false
  /\ forall s, In s reactor_signals -> getsig s (w_sig w) <> h_none -> getsig s (w_sig w') = getsig s (w_sig w).
Proof. exact clause_restored. Qed.
Print Assumptions C15_restored.

(* the same for the n-th run of one spinner, with or without clear_junk between the runs *)
Theorem C15_histories : forall i, wf i -> Spec i (model i).
Proof. exact clause_histories. Qed.
Print Assumptions C15_histories.

(* the event loop itself: from the state in which it is entered it always ends by a crash (never hangs,
   never runs out of the fuel run() supplies) and preserves the invariant - which includes "the re-entrancy flag
   is set" and "every re-entrant attempt so far was refused" - whatever a refused nested call is (inn) *)
Theorem C15_loop_terminates : forall x batch inn, refuses inn -> forall fuel w,
  Inv x w -> length (queue (w_r w)) < fuel ->
  exists w', loop w_r set_r (exec_call inn) batch fuel w = (LDone, w') /\ Inv x w' /\ running (w_r w') = false.
Proof. exact loop_ok. Qed.
Print Assumptions C15_loop_terminates.

(* ---- table obligations: Gen/Spinnertabs.v is printed from the imported code on every run ---- *)
(* Spinner._PRESERVED_SIGNALS covers the three signals the statement names (and the reactor installs) *)
Theorem C15_table_preserved : forall s, In s [sig_int; sig_term; sig_chld] -> In s preserved_signals.
Proof. exact tab_preserved. Qed.
Print Assumptions C15_table_preserved.

(* Spinner._OBLIGATORY_REACTOR_ITERATIONS = 0: _clean runs no leftover call (with > 0 a leftover stop request
   due at once would call the REAL reactor.stop) *)
Theorem C15_table_iterations : spinner_iterations = 0.
Proof. exact tab_iterations. Qed.
Print Assumptions C15_table_iterations.

Theorem C15_table_signals_distinct : NoDup [sig_int; sig_term; sig_chld].
Proof. exact tab_signals_distinct. Qed.
Print Assumptions C15_table_signals_distinct.

(* non-vacuity: a failing run, then a Deferred firing exactly at the timeout tick (the oracle lets it win),
   then a run that leaves junk and is stopped, a refused run, and a run after clear_junk; the function re-enters
   twice in run 2 and three times in run 5 (same / another Spinner), a delayed call re-enters in run 3 (in run 2 the
   re-entering delayed call is due at the timeout tick and is cancelled as junk instead); start-up hooks: run 5 is
   stopped while starting up but returns its synchronous value, run 6 is stopped while starting up with a Deferred
   that would have fired in time: NoResultError, everything left is junk (the refused run 4 never fires its hook);
   reactor.stop is overridden on the instance before the 2nd run, reset before the 4th, overridden before the 5th;
   in the 5th SIGTERM has a handler getsignal() reports as None: the run is unaffected, the other two are restored *)
Example C15_example :
  let f0 := mkFn (Sync 0 (Fail 1)) [] 0 None false [] None in
  let f1 := mkFn (Later 5 (Succeed 6)) [(5, Some true)] 0 None false [false; false] None in
  let f2 := mkFn Never [(1, Some false); (9, None)] 2 (Some 3) false [] (Some (sig_int, 8)) in
  let f3 := mkFn (Sync 0 (Succeed 4)) [] 0 None false [true; false; true] None in
  let i := mkInput [2] false
             [mkRun true [0;0;0] [] None 5 f0; mkRun true [3;1;4] [HNoop] (Some 2) 5 f1;
              mkRun true [2;0;0] [] None 5 f2; mkRun false [0;0;0] [HStop] (Some 0) 5 f3;
              mkRun true [1;h_none;3] [HSched 9; HStop] (Some 1) 5 f3;
              mkRun true [0;0;0] [HSched 1; HStop; HNoop] None 5 f1] in
  wf i /\ spec_okb i (model i) = true
  /\ map o_res (model i) = [Raised (EUser 1); Ok 6; Raised ENoResult; Raised EStaleJunk; Ok 4; Raised ENoResult]
  /\ map o_junk (model i) = [[]; [10]; [0; 11; 100; 101]; [0; 11; 100; 101]; [200]; [0; 1; 10; 200]]
  /\ map o_sigs (model i) = [[0;0;0]; [3;1;4]; [2;0;0]; [0;0;0]; [1;9;3]; [0;0;0]]
  /\ map o_reentry (model i) = [[]; [true; true]; [true]; []; [true; true; true]; [true; true]]
  /\ map o_stop (model i) = [0; 2; 2; 0; 1; 1]
  /\ map o_stopped (model i) = [false; false; false; false; false; false].
Proof. vm_compute. repeat split; repeat constructor. Qed.
