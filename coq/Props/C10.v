(* C10 - stream consumers account for every test exactly once.
   Only statements; every proof is `exact <lemma of Proof/C10.v>`.
   event / rcd / consume / summarize / s2e_log are the model (Model/StreamRec.v);
   segments / seg_record / tests / bracket are the specification (Spec/C10.v, DESIGN Appendix A.2).
   The theorems hold for every representation M of mime types, CT of content types and every
   parse : option M -> CT; C10's correspondence instantiates them with codes (parse10). *)
From Coq Require Import String Permutation.
From TT Require Import Lib.Base Lib.Bytestr Gen.Streamtabs Model.StreamRec Spec.C10 Corr.C10 Proof.C10.
Open Scope list_scope.

(* The observation separates what is reported by the status() calls (o_dicts, o_pre, o_ext) from what
   stopTestRun adds (o_flush, o_sum, o_extflush).  The statement fixes the first part exactly and the second
   part as a multiset of whole tests: it does not say in which order stopTestRun reports several incomplete
   tests.  The model reports them in dict.popitem order, one of the allowed orders.

   The model meets the whole statement for every event stream: dicts of StreamToDict, attributes of
   StreamSummary, log of StreamToExtendedDecorator. *)
Theorem C10_holds : forall i : input, spec_okb i (model i) = true.
Proof. exact model_meets_spec. Qed.
Print Assumptions C10_holds.

(* ... and the executable statement is equivalent to the readable one (Spec.C10.Spec). *)
Theorem C10_statement : forall i o, spec_okb i o = true <-> Spec i o.
Proof. exact spec_okb_spec. Qed.
Print Assumptions C10_statement.

(* The correspondence compares observations up to Corr.C10.obs_equiv: equal before stopTestRun (the tags()
   calls on the extended result forgotten); what stopTestRun adds - dicts, entries of each StreamSummary list,
   per-test blocks of the extended log - equal as multisets. *)
Theorem C10_obs_eqb : forall a b, obs_eqb a b = true <-> obs_equiv a b.
Proof. exact obs_eqb_spec. Qed.
Print Assumptions C10_obs_eqb.

Theorem C10_obs_equiv_equivalence :
  (forall a, obs_equiv a a) /\ (forall a b, obs_equiv a b -> obs_equiv b a)
  /\ (forall a b c, obs_equiv a b -> obs_equiv b c -> obs_equiv a c).
Proof. exact (conj obs_equiv_refl (conj obs_equiv_sym obs_equiv_trans)). Qed.
Print Assumptions C10_obs_equiv_equivalence.

(* The comparison forgets exactly what the statement leaves open: two observations it identifies get the
   same verdict (an implementation that flushes in another order cannot be told from the model by either). *)
Theorem C10_statement_respects_obs_eqb : forall i a b, obs_eqb a b = true -> spec_okb i a = spec_okb i b.
Proof. exact spec_okb_respects_eqb. Qed.
Print Assumptions C10_statement_respects_obs_eqb.

(* Refinement: over ALL event streams the callbacks of _StreamToTestRecord are the tests of the segment
   specification - one per final status at the position of that status among the callbacks, the
   unfinished ones at stopTestRun (in the model: last opened first, dict.popitem). *)
Theorem C10_refines : forall M CT (parse : option M -> CT) (es : list (event M)),
  consume parse es = tests parse es.
Proof. exact consume_refines. Qed.
Print Assumptions C10_refines.

(* ... split at stopTestRun: the status() calls report exactly the completed tests, in the order of their final
   events; stopTestRun reports exactly the tests that never completed; together these are all tests. *)
Theorem C10_reports : forall M CT (parse : option M -> CT) (es : list (event M)),
  consume_from parse false [] es = done_tests parse es
  /\ flush (tbl_after parse [] es) = hung_tests parse es
  /\ tests parse es = done_tests parse es ++ hung_tests parse es.
Proof. exact (fun M CT parse es => conj (consume_done M CT parse es) (conj (flush_hung M CT parse es) (tests_split M CT parse es))). Qed.
Print Assumptions C10_reports.

(* Exactly once, part 1 (partition): for every key (test id, route code) the events of the tests reported for
   that key, concatenated in report order, are exactly the events of that key in stream order. *)
Theorem C10_partition : forall M (es : list (event M)) (k : key),
  List.concat (map g_events (filter (of_key k) (segments [] es))) = filter (has_key k) es.
Proof. exact partition. Qed.
Print Assumptions C10_partition.

(* Exactly once, part 2 (shape): every reported test has at least one event, all of its own key; a test
   reported on the way ends with a final status and contains no other; a test reported at stopTestRun
   contains none; and there is one test of the first kind per id-carrying final-status event. *)
Theorem C10_shape : forall M (es : list (event M)),
  Forall seg_ok (segments [] es)
  /\ List.length (filter (fun g => negb (g_hung g)) (segments [] es))
     = List.length (filter (fun e => has_id e && is_final (e_status e)) es).
Proof. exact shape_and_count. Qed.
Print Assumptions C10_shape.

(* The record of a test, field by field (the model's fold of _update_case equals the declarative record):
   last status given else unknown; latest tags given else none; timestamp of the first event and of the
   last one (None when hung); per file name the non-empty chunks joined in arrival order, typed by the first. *)
Theorem C10_record : forall M CT (parse : option M -> CT) i (seg : list (event M)),
  let r := fold_left (upd parse) seg (create i (match seg with e :: _ => e_ts e | [] => None end)) in
  r_id r = i
  /\ r_status r = last (somes e_status seg) Unknown
  /\ r_tags r = last (somes e_tags seg) []
  /\ r_first r = match seg with e :: _ => e_ts e | [] => None end
  /\ r_last r = last (map e_ts seg) None
  /\ r_details r = map (file_of parse (chunks seg)) (firsts [] (map (fun c => fst (fst c)) (chunks seg)))
  /\ hung r = seg_record parse i true seg.
Proof. exact record_fields. Qed.
Print Assumptions C10_record.

(* Reported when its final status arrives: the callbacks made while a prefix of the stream is consumed do
   not depend on the rest of the stream; the rest is consumed from the table the prefix left behind, and only
   stopTestRun (stop = true) flushes what is still in progress. *)
Theorem C10_online : forall M CT (parse : option M -> CT) (a b : list (event M)) tbl stop,
  consume_from parse stop tbl (a ++ b)
  = consume_from parse false tbl a ++ consume_from parse stop (tbl_after parse tbl a) b.
Proof. exact consume_online. Qed.
Print Assumptions C10_online.

(* events with test_id None change nothing *)
Theorem C10_none_ignored : forall M CT (parse : option M -> CT) (es : list (event M)),
  consume parse es = consume parse (filter has_id es).
Proof. exact consume_ignores_none. Qed.
Print Assumptions C10_none_ignored.

(* StreamSummary over any stream: testsRun counts the reported tests that are not 'exists'; each test is in
   exactly the list its status names; a fail / inprogress / unknown test makes wasSuccessful false. *)
Theorem C10_summary : forall M CT (parse : option M -> CT) (es : list (event M)),
  let s := summarize parse es in
  let ts := tests parse es in
  let ids p := map r_id (filter (fun r => p (r_status r)) ts) in
  s_run s = List.length (filter (fun r => negb (status_eqb (r_status r) Exists)) ts)
  /\ s_errors s = ids failing /\ s_failures s = []
  /\ s_skipped s = ids (status_eqb Skip) /\ s_xfail s = ids (status_eqb Xfail)
  /\ s_uxsuccess s = ids (status_eqb Uxsuccess)
  /\ s_keyerror s = false
  /\ ((exists r, In r ts /\ failing (r_status r) = true) -> was_successful s = false).
Proof. exact summary_fields. Qed.
Print Assumptions C10_summary.

(* StreamToExtendedDecorator = the same consumer after dropping 'exists' events, each test replayed as one
   time/startTest/time/outcome/stopTest bracket with the tags current at the outcome and its details. *)
Theorem C10_s2e : forall M CT (parse : option M -> CT) (es : list (event M)),
  strip (s2e_log parse es) = [LStartRun] ++ flat_map bracket (tests parse (filter not_exists es)) ++ [LStopRun].
Proof. exact s2e_refines. Qed.
Print Assumptions C10_s2e.

(* facts about the live tables the model reads (Gen/Streamtabs.v): 'test_status not in INTERIM_STATES' is
   "a status other than inprogress was given"; _status_map replays 'fail' (and incomplete tests) as addFailure
   and has an entry for every status but 'exists'; every status has a StreamSummary handler and the list it
   appends to is the one the statement names. *)
Theorem C10_tables :
  (forall st, final st = is_final st)
  /\ (forall st, outcome_of st = spec_outcome st)
  /\ (forall st, bucket_of st = Some (spec_bucket st))
  /\ forallb (fun s => existsb (String.eqb s) summary_keys) ("inprogress"%string :: final_states) = true
  /\ (forall s, In s final_states <-> exists st, st <> Inprogress /\ status_name st = s).
Proof. exact tables_ok. Qed.
Print Assumptions C10_tables.

(* non-vacuity: two tests interleaved, the same id on two routes, an attachment split over three events
   (one of them empty), an event without id, an event after a final status that opens a new (hung) test *)
Example C10_example :
  let e i r s t f ts := @Ev nat (Some i) r s t f (option_map (fun _ => "ab"%string) f) false (Some 1) ts in
  let es := [ e 1 None (Some Inprogress) None None (Some 1);
              e 1 (Some 7) (Some Inprogress) (Some [2]) None (Some 2);
              e 1 None None None (Some 5) (Some 3);
              @Ev nat None None (Some Fail) None None None false None (Some 9);
              @Ev nat (Some 1) None None None (Some 5) (Some ""%string) false None None;
              e 1 None (Some Fail) (Some [3]) (Some 5) (Some 4);
              e 1 None None None None (Some 5) ] in
  consume parse10 es
  = [ Rcd 1 [3] [(5, (1, "abab"%string))] Fail (Some 1) (Some 4);
      Rcd 1 [] [] Unknown (Some 5) None;
      Rcd 1 [2] [] Inprogress (Some 2) None ]
  /\ s_run (summarize parse10 es) = 3 /\ s_errors (summarize parse10 es) = [1; 1; 1]
  /\ was_successful (summarize parse10 es) = false.
Proof. vm_compute. repeat split. Qed.

(* the statement accepts either order of the flush at stopTestRun (two incomplete tests), and rejects a
   flush that loses or duplicates one *)
Example C10_flush_order_free :
  let e i := @Ev nat (Some i) None None None None None false None None in
  let i := {| evs := [e 1; e 2] |} in
  let swap (o : obs) :=
    {| o_dicts := o_dicts o; o_flush := rev (o_flush o); o_pre := o_pre o;
       o_sum := {| sl_run := 2; sl_failures := []; sl_errors := rev (sl_errors (o_sum o)); sl_skipped := [];
                   sl_xfail := []; sl_uxs := [] |};
       o_ok := o_ok o; o_ext := o_ext o;
       o_extflush := [LStartTest 1; LOutcome AddFailure 1 [] []; LStopTest 1;
                      LStartTest 2; LOutcome AddFailure 2 [] []; LStopTest 2; LStopRun] |} in
  let lose (o : obs) :=
    {| o_dicts := o_dicts o; o_flush := tl (o_flush o); o_pre := o_pre o; o_sum := o_sum o;
       o_ok := o_ok o; o_ext := o_ext o; o_extflush := o_extflush o |} in
  o_flush (model i) = [Rcd 2 [] [] Unknown None None; Rcd 1 [] [] Unknown None None]
  /\ spec_okb i (model i) = true /\ spec_okb i (swap (model i)) = true
  /\ obs_eqb (model i) (swap (model i)) = true
  /\ spec_okb i (lose (model i)) = false /\ obs_eqb (model i) (lose (model i)) = false.
Proof. vm_compute. repeat split. Qed.
