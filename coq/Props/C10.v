(* C10 - placeholder while the model is validated against the implementation *)
From TT Require Import Lib.Base Lib.Bytestr Model.StreamRec Spec.C10 Corr.C10 Proof.C10.
