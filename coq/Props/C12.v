From TT Require Import Lib.Base Model.Tfr Spec.C12 Corr.C12 Proof.C12.
