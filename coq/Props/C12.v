(* C12 - ThreadsafeForwardingResult: per-test atomicity under every interleaving.  PARTIAL: every
   interleaving at the granularity of operations on the shared objects (semaphore.acquire/release,
   each method of the target); preemption inside the bytecode between two such operations is not
   in the model.  Only statements; every proof is `exact <lemma of Proof/C12.v>`.

   Throughout: l = per thread (script of calls on its own forwarder, which of its target calls
   raise); sched = any list of thread numbers; step' c t = thread t performs its pending operation
   on a shared object if it can (no-op when blocked or finished). *)
From TT Require Import Lib.Base Model.Tfr Spec.C12 Corr.C12 Proof.C12.

(* The model meets the whole statement for every number of threads, every script, every fault plan
   and every schedule given to the harness scheduler (which then runs the threads to their end). *)
Theorem C12_holds : forall i : input, spec_okb i (model i) = true.
Proof. exact model_meets_spec. Qed.
Print Assumptions C12_holds.

(* ... and the executable statement implies the readable one (Spec.C12.Spec): no deadlock, semaphore
   free at the end, the log is a concatenation of single-owner sections acquire, calls, release, and
   the part of every well-formed thread is exactly the expected sequence of its blocks. *)
Theorem C12_statement : forall i o, spec_okb i o = true -> Spec i o.
Proof. exact spec_okb_sound. Qed.
Print Assumptions C12_statement.

(* mutual exclusion: after ANY schedule, thread t holds the semaphore iff its next operation is a
   target call or the release; at most one thread is in that position *)
Theorem C12_mutex : forall l sched,
  let c := fold_left step' sched (init l) in
  (forall t th, nth_error (ths c) t = Some th -> (sem c = Some t <-> in_block th = true))
  /\ (forall t u tht thu, nth_error (ths c) t = Some tht -> nth_error (ths c) u = Some thu ->
        in_block tht = true -> in_block thu = true -> t = u).
Proof. exact mutex_all_schedules. Qed.
Print Assumptions C12_mutex.

(* blocks: after ANY schedule the log of the shared objects is a concatenation of complete sections
   (acquire by t, target calls by t only, release by t), followed - iff somebody holds the semaphore -
   by that thread's open section; and each thread's own part of the log (completed by what it has
   still to do) is a sequence of sections each of which has the shape of a block: a guarded call, or
   time startTest time tags{0..2} outcome stopTest, cut short only at a raising call of the prefix
   (nothing follows) - stopTest still follows a raising outcome.  For every script, well-formed or not. *)
Theorem C12_blocks : forall l sched,
  let c := fold_left step' sched (init l) in
  (exists secs tail, glog c = flat_map render secs ++ tail
                     /\ Forall (sec_ok (length l)) secs /\ open_tail (length l) (sem c) tail)
  /\ (forall t sc fl, nth_error l t = Some (sc, fl) ->
        exists rest bodies, proj t (glog c) ++ rest = flat_map section bodies /\ Forall block_shape bodies).
Proof. exact blocks_all_schedules. Qed.
Print Assumptions C12_blocks.

(* per thread: after ANY schedule the part of the log made by a thread that reports well-formed tests
   is a prefix of the expected log of that thread alone (its tests in its order, each with its own
   start time, the run-level and its own tags, its outcome, cut by its own faults) - the whole of it
   once the thread has finished.  The schedule and the other threads have no influence on it. *)
Theorem C12_per_thread : forall l sched t sc fl,
  nth_error l t = Some (sc, fl) -> wf_script Out sc = true ->
  let c := fold_left step' sched (init l) in
  exists rest, proj t (glog c) ++ rest = expected fl sc sst0 0
               /\ (forall th, nth_error (ths c) t = Some th -> finished th = true -> rest = []).
Proof. exact per_thread_all_schedules. Qed.
Print Assumptions C12_per_thread.

(* ... and, without faults, that expected log contains every outcome of the script exactly once, in order *)
Theorem C12_outcomes_once : forall sc k,
  wf_script Out sc = true -> outcomes_of_log (expected [] sc sst0 k) = outcomes_of_script sc.
Proof. exact (fun sc k H => expected_outcomes_once sc Out sst0 k H I). Qed.
Print Assumptions C12_outcomes_once.

(* release: after ANY schedule, if no thread is inside a block (all are between forwarder calls, whether
   the calls returned or raised) the semaphore is free *)
Theorem C12_release : forall l sched,
  let c := fold_left step' sched (init l) in
  (forall t th, nth_error (ths c) t = Some th -> in_block th = false) -> sem c = None.
Proof. exact release_all_schedules. Qed.
Print Assumptions C12_release.

(* no deadlock: after ANY schedule, if some thread is unfinished some thread can move; every move
   decreases a natural-number measure, so every scheduler that picks an enabled thread terminates *)
Theorem C12_no_deadlock : forall l sched,
  let c := fold_left step' sched (init l) in
  (exists t th, nth_error (ths c) t = Some th /\ finished th = false) -> exists t, step c t <> None.
Proof. exact no_deadlock_all_schedules. Qed.
Print Assumptions C12_no_deadlock.

Theorem C12_progress : forall c t c', step c t = Some c' -> cmeasure c' < cmeasure c.
Proof. exact step_measure. Qed.
Print Assumptions C12_progress.

(* the run of the harness scheduler is one of the schedules, ends with every thread finished and
   the semaphore free *)
Theorem C12_terminates : forall l sched,
  all_finished (run l sched) = true /\ sem (run l sched) = None
  /\ exists s, run l sched = fold_left step' s (init l).
Proof. exact run_terminates. Qed.
Print Assumptions C12_terminates.

(* the correspondence compares observations through Corr.C12.alpha: everything when every thread reports
   well-formed tests; otherwise (a thread using its forwarder in a way the statement does not fix the log of)
   the own logs of the well-formed threads, the semaphore and the deadlock flag - the section structure of the
   implementation's whole log is judged by spec_okb in either case *)
Theorem C12_obs_eqb : forall a b, obs_eqb a b = true <-> alpha a = alpha b.
Proof. exact obs_eqb_spec. Qed.
Print Assumptions C12_obs_eqb.

Theorem C12_obs_exact : forall a b, forallb (fun x => x) (o_wf a) = true -> alpha a = alpha b -> a = b.
Proof. exact alpha_exact. Qed.
Print Assumptions C12_obs_exact.

(* non-vacuity: two threads, tags, a fault in thread 0's tags call (call number 3) under a schedule
   that switches in the middle of thread 0's first block: thread 1 cannot get in *)
Example C12_example :
  let l := [([RTime (Some 1); RStartTest 1; RTags [5; 4] [2]; RTime (Some 2); ROutcome KError 1; RStopTest 1;
              RStartTest 2; ROutcome KSuccess 2; RStopTest 2], [3]);
            ([RStartTest 7; ROutcome KSkip 7; RStopTest 7; RGuard GStop], [4])] in
  let o := model {| threads := l; sched := [0; 0; 1; 1; 0; 1; 1; 1; 1] |} in
  firstn 8 (o_log o) =
    [(0, EAcq); (0, ECall (TTime (TvAt 1)) false); (0, ECall (TStartTest 1) false); (0, ECall (TTime (TvAt 2)) false);
     (0, ECall (TTags ([4; 5], [2])) true); (0, ERel); (1, EAcq); (1, ECall (TTime TvWall) false)]
  /\ proj 1 (o_log o) =
       section [ECall (TTime TvWall) false; ECall (TStartTest 7) false; ECall (TTime TvWall) false;
                ECall (TOutcome KSkip 7) false; ECall (TStopTest 7) true]
       ++ section [ECall (TGuard GStop) false]
  /\ o_sem_free o = true /\ o_deadlock o = false
  /\ wf_script Out (fst (nth 0 l ([], []))) = true.
Proof. vm_compute. repeat split. Qed.
