(* C05 - placeholder while the correspondence is being validated. *)
From TT Require Import Lib.Base Gen.Handlers Model.Run Spec.Run Spec.C05 Corr.C05 Proof.C05.
