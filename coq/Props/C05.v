(* C05 - all details and every traceback reach the result; none is dropped or overwritten; handlers
   are called once per exception before the outcome.
   Only statements; every proof is `exact <lemma of Proof/C05.v>`. *)
From TT Require Import Lib.Base Gen.Handlers Model.Run Spec.Run Spec.C05 Corr.C05 Proof.RunCore Proof.RunExtra Proof.C05.

(* The model meets the whole statement for every finite program (any number of statements, cleanups
   registering cleanups to any depth, any exceptions, fixtures, mismatches, any detail names but
   the reserved 'reason') outside the known finding F14. *)
Theorem C05_holds : forall i : input, wf i = true -> finding_F14 i = false -> spec_okb i (model i) = true.
Proof. exact model_meets_spec. Qed.
Print Assumptions C05_holds.

(* The correspondence also runs programs on cases configured with a RunTest factory of their own (class
   attribute run_tests_with, the runTest= constructor argument, @run_test_with; RunTest subclasses and functions
   with explicit / star / keyword-only / ** signatures, functools.partial, callable objects, bound methods,
   factories written for the API before last_resort - Model.Run.factory).  The Gallina input leaves the
   configuration out: the run of such a case IS the run with the default RunTest. *)
Theorem C05_factory_irrelevant : forall r p s, run_from_runner r p s = run_from p s.
Proof. exact factory_irrelevant. Qed.
Print Assumptions C05_factory_irrelevant.

(* ... and inside F14 (the test attaches a detail under a base name a generated detail may hold:
   TestCase.addDetail replaces the generated traceback) the full statement is false of the model *)
Theorem C05_refuted_F14 : exists i, wf i = true /\ finding_F14 i = true /\ spec_okb i (model i) = false.
Proof. exact refuted_F14. Qed.
Print Assumptions C05_refuted_F14.

Theorem C05_statement : forall i o, spec_okb i o = true -> Spec i o.
Proof. exact spec_okb_sound. Qed.
Print Assumptions C05_statement.

(* the correspondence compares the number of outcome calls, the handler calls and their position
   exactly, and the details as a multiset of (base name, content read at the outcome) *)
Theorem C05_obs_eqb : forall a b, obs_eqb a b = true <-> obs_equiv a b.
Proof. exact obs_eqb_spec. Qed.
Print Assumptions C05_obs_eqb.

(* C05_unique_fresh: addDetailUniqueName/gather_details and _report_traceback always find a name
   that is not in the dict, within the [length dict] (+1) tries the loops are given (pigeonhole;
   for _report_traceback on the strictly growing label), and keep the base name *)
Theorem C05_unique_fresh :
  (forall n d, dmem (unique_name n d) d = false /\ fst (unique_name n d) = fst n)
  /\ (forall d id, dmem (fst (tb_label (length d) id n_traceback d)) d = false
                   /\ fst (fst (tb_label (length d) id n_traceback d)) = fst n_traceback).
Proof. exact unique_fresh. Qed.
Print Assumptions C05_unique_fresh.

(* C05_carried: the dict passed with the outcome contains every expected detail (the test's own by
   name, every mismatch, expectation and fixture detail, the reason) as often as expected, and
   exactly one traceback detail per exception that is not one of the exact signal classes and per
   assertion behind an expected failure *)
Theorem C05_carried : forall i, wf i = true -> finding_F14 i = false ->
  (forall d, count d (expected_details (i_prog i)) <= count d (o_details (model i)))
  /\ length (filter is_tb (o_details (model i))) = length (filter tbev (events (i_prog i))).
Proof. exact carried. Qed.
Print Assumptions C05_carried.

(* C05_no_clobber: in ANY state of the dict a generated detail is appended, never assigned over
   an existing entry *)
Theorem C05_no_clobber : forall d e, generated_ev e = true -> exists l, d_dets (papply d e) = d_dets d ++ l.
Proof. exact no_clobber. Qed.
Print Assumptions C05_no_clobber.

(* C05_on_exception: for EVERY program (no side condition): exactly one outcome call; the handler
   calls are those of the declarative reading (each handler once per constituent exception caught
   after its registration, in order); none comes after the outcome *)
Theorem C05_on_exception : forall i,
  o_outs (model i) = 1 /\ o_calls (model i) = x_calls (xrun (i_prog i)) /\ o_late (model i) = 0.
Proof. exact on_exception. Qed.
Print Assumptions C05_on_exception.

(* C05_bytes_at_report: the result reads the dict when the outcome is reported: a lazy content
   yields what its cell holds at the end of the run, a gathered one what it held at gathering *)
Theorem C05_bytes_at_report :
  (forall i, o_details (model i) = map (fun nc => (fst (fst nc), snd nc)) (delivered (i_prog i)))
  /\ (forall p, p_skip p = None ->
        delivered p = map (fun nc => (fst nc, dresolve (dreport p) (snd nc))) (d_dets (dreport p))
        /\ d_cells (dreport p) = d_cells (dfinal p))
  /\ (forall D loc v, dresolve D (CLazy loc) = OBytes (dcell loc D) /\ dresolve D (CSnap v) = OBytes v)
  /\ (forall d n loc, In (unique_name n (d_dets d), CSnap (dcell loc d)) (d_dets (papply d (DFx n loc)))).
Proof. exact bytes_at_report. Qed.
Print Assumptions C05_bytes_at_report.

(* non-vacuity: user details colliding with generated names (attached first, so outside F14), a
   mismatch and a failing old-style fixture carrying a detail of the same name, a cell changed after
   attachment and after gathering, MultipleExceptions incl. a KeyboardInterrupt, two handlers *)
Example C05_example :
  let fx := {| fx_tok := 20; fx_old := true; fx_details := [((4, []), 2)]; fx_cleanups := [];
               fx_fail := Some (Exc CValueError None); fx_bad := None |} in
  let i := {| i_prog := {| p_skip := None; p_xfail := false;
                p_setup := (1, [ADetail n_traceback 1; ADetail (0, [1]) 1; AOnExc 0; ASetCell 2 3]); p_up_setup := true;
                p_body := (2, [ADetail (4, []) 2; AExpect [((4, []), 2)]; AOnExc 1; AFixture fx]);
                p_teardown := (3, [ASetCell 2 5; ARaise (Multi [Exc CFail None; Exc CSkip (Some 1); Exc CKbd None])]);
                p_up_teardown := true; p_handlers := [] |} |} in
  wf i = true /\ finding_F14 i = false
  /\ model i = {| o_outs := 1;
                  o_details := [(0, OBytes 0); (0, OBytes 0); (4, OBytes 5); (4, OBytes 5); (1, OStack); (4, OBytes 3);
                                (0, OTb); (0, OTb); (0, OTb); (0, OTb)];
                  o_calls := [(0, CValueError); (1, CValueError); (0, CFail); (1, CFail); (0, CSkip); (1, CSkip);
                              (0, CKbd); (1, CKbd); (0, CFail); (1, CFail)];
                  o_late := 0 |}
  /\ expected_details (i_prog i) = [(0, OBytes 0); (0, OBytes 0); (4, OBytes 5); (4, OBytes 5); (1, OStack); (4, OBytes 3)].
Proof. vm_compute. repeat split. Qed.

(* non-vacuity for fixtures with a detail that cannot be evaluated: what getDetails() lists before it
   arrives, the evaluation error gets its traceback - gathered by the cleanup (set-up succeeded) and
   at once with the traceback of the set-up error (set-up failed) *)
Example C05_example_unevaluable_detail :
  let fx f := {| fx_tok := 20; fx_old := true; fx_details := [((5, []), 1); ((4, []), 2); ((3, []), 1)]; fx_cleanups := [];
                 fx_fail := f; fx_bad := Some (1, Exc CValueError None) |} in
  let i f := {| i_prog := {| p_skip := None; p_xfail := false; p_setup := (1, []); p_up_setup := true;
                             p_body := (2, [ASetCell 1 3; AFixture (fx f)]); p_teardown := (3, []); p_up_teardown := true;
                             p_handlers := [] |} |} in
  wf (i None) = true /\ finding_F14 (i None) = false
  /\ o_details (model (i None)) = [(5, OBytes 3); (0, OTb)]
  /\ o_details (model (i (Some (Exc CFail None)))) = [(5, OBytes 3); (0, OTb); (0, OTb)].
Proof. vm_compute. repeat split. Qed.
