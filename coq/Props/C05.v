(* C05 - provisional while the correspondence is being validated. *)
From TT Require Import Lib.Base Gen.Handlers Model.Run Spec.Run Spec.C05 Corr.C05 Proof.RunCore Proof.C05.

Theorem C05_statement : forall i o, spec_okb i o = true -> Spec i o.
Proof. exact spec_okb_sound. Qed.
Print Assumptions C05_statement.

Theorem C05_obs_eqb : forall a b, obs_eqb a b = true <-> obs_equiv a b.
Proof. exact obs_eqb_spec. Qed.
Print Assumptions C05_obs_eqb.
