(* C09 - TestResult -> StreamResult -> TestResult conversion preserves every test.
   Only statements; every proof is `exact <lemma of Proof/C09.v>`.
   mid_stream / final_log are the model (Model/StreamConv.v over Model/StreamRec.v and Model/Mime.v):
   the events ExtendedToStreamDecorator sends on, and the log of the extended result behind
   StreamToExtendedDecorator.  expected / match_mid / match_fin / group / norm_log / wf are the
   specification (Spec/C09.v): what an independent reading of the history says must be seen. *)
From Coq Require Import String.
From TT Require Import Lib.Base Lib.Sort Lib.Bytestr Gen.Streamtabs Model.Mime Model.StreamRec Model.StreamConv.
From TT Require Import Spec.C09 Corr.C09 Proof.C09.
Open Scope list_scope.

(* The model meets the whole statement for every well-formed history. *)
Theorem C09_holds : forall i : input, wf i = true -> spec_okb i (model i) = true.
Proof. exact model_meets_spec. Qed.
Print Assumptions C09_holds.

(* ... and the executable statement implies the readable one (Spec.C09.Spec). *)
Theorem C09_statement : forall i o, spec_okb i o = true -> Spec i o.
Proof. exact spec_okb_sound. Qed.
Print Assumptions C09_statement.

(* the correspondence compares observations up to alpha: file events collapsed per detail (joined bytes,
   parsed content type, eof on the last event only), tags() calls on the final result dropped, content
   type parameters sorted by name *)
Theorem C09_obs_eqb : forall a b, obs_eqb a b = true <-> alpha a = alpha b.
Proof. exact obs_eqb_spec. Qed.
Print Assumptions C09_obs_eqb.

(* The stream in between is well formed: per test 'inprogress' at startTest (with the time current then),
   then for each detail in dict order one closed group of file events carrying its joined bytes and content
   type - eof on the last event of the group and on no other, a group of one empty eof event when the
   content yields nothing -, the reason file if any, then exactly one final status with the current tags. *)
Theorem C09_stream_wf : forall h, wf_from PNot h = true ->
  Forall2 (fun x a => match_mid x a = true) (fst (expected ss0 h)) (group (mid_stream h)).
Proof. exact stream_wf. Qed.
Print Assumptions C09_stream_wf.

(* Feeding those events to StreamToExtendedDecorator yields for each test one bracket
   time(start) startTest time(outcome) outcome stopTest with the same id, the same outcome (error as
   failure), the tags current at the outcome, the supplied times (0 = none supplied: a wall-clock value; a
   time supplied before a startTest that starts the run itself counts, one before an explicit startTestRun
   does not: startTestRun resets it),
   and as details exactly the details with non-empty bytes (same joined bytes, equal content type) plus
   the non-empty skip reason; startTestRun / stopTestRun pass through. *)
Theorem C09_roundtrip : forall h, wf_from PNot h = true ->
  Forall2 (fun y l => match_fin y l = true) (snd (expected ss0 h)) (norm_log (final_log h)).
Proof. exact roundtrip. Qed.
Print Assumptions C09_roundtrip.

(* the look-ahead loop of _convert: every chunk in order with eof=False except the last, which has
   eof=True; a single empty eof chunk when there is none *)
Theorem C09_chunks : forall (emit : string -> bool -> mev) (cs : list string),
  (let (pending, out) := chunk_loop emit None cs [] in
   out ++ [emit (match pending with Some p => p | None => ""%string end) true])
  = map (fun c => emit c false) (fst (split_last cs)) ++ [emit (snd (split_last cs)) true].
Proof. exact chunk_loop_spec. Qed.
Print Assumptions C09_chunks.

(* repr(ContentType) parsed back by _make_content_type is the same content type (parameters in rendered
   order, equal as a dict), for content types in the validated domain wf_ct *)
Theorem C09_mime_roundtrip : forall ct, wf_ct ct = true ->
  parse (render ct) = CType (ct_type ct) (ct_sub ct) (isort item_leb (ct_params ct))
  /\ ct_same (parse (render ct)) ct = true /\ ct_same (norm_ct (parse (render ct))) ct = true.
Proof. exact (fun ct H => conj (mime_roundtrip ct H) (mime_roundtrip_same ct H)). Qed.
Print Assumptions C09_mime_roundtrip.

(* the live tables: each add* sends the status word the statement names (error and failure both 'fail'),
   that word is final, and _status_map replays it as the same outcome with error turned into failure *)
Theorem C09_tables :
  (forall k, word_of k = final_word k)
  /\ (forall k, final (Some (final_word k)) = true)
  /\ (forall k, outcome_of (final_word k) = Some (replayed k))
  /\ final None = false /\ final (Some Inprogress) = false.
Proof. exact (conj word_table (conj final_word_final (conj outcome_of_final_word (conj final_none final_inprogress)))). Qed.
Print Assumptions C09_tables.

(* time() before the run is started (wf accepts it): any number of time() calls, the last being time(t),
   then a startTest that starts the run itself - the 'inprogress' event carries t, and the statement demands t;
   time() calls, then an explicit startTestRun - startTestRun resets the supplied time: the wall clock (0) *)
Theorem C09_time_before_start : forall ts t i h,
  (exists rest, mid_stream (map OTime ts ++ OTime t :: OStartTest i :: h)
                = MStartRun :: status_ev i Inprogress None (Some t) :: rest)
  /\ (exists xs, fst (expected ss0 (map OTime ts ++ OTime t :: OStartTest i :: h))
                 = XStartRun :: XStatus i Inprogress None t :: xs)
  /\ (exists rest, mid_stream (map OTime ts ++ OStartRun :: OStartTest i :: h)
                   = MStartRun :: status_ev i Inprogress None (Some wall) :: rest)
  /\ (exists xs, fst (expected ss0 (map OTime ts ++ OStartRun :: OStartTest i :: h))
                 = XStartRun :: XStatus i Inprogress None wall :: xs).
Proof. exact time_before_start. Qed.
Print Assumptions C09_time_before_start.

(* non-vacuity of it: two time() calls, the implicit start, a later time() for the outcome; the replayed
   bracket has time(9) startTest time(11) outcome; with an explicit startTestRun in between, time(0) startTest *)
Example C09_example_time :
  let h := [OTime 7; OTime 9; OStartTest 1; OTime 11; OOutcome AddSuccess 1 None None; OStopTest 1; OStopRun] in
  let h' := [OTime 7; OStartRun; OStartTest 1; OOutcome AddSuccess 1 None None; OStopTest 1] in
  wf_from PNot h = true /\ wf_from PNot h' = true
  /\ norm_log (final_log h)
     = [LStartRun; LTime 9; LStartTest 1; LTime 11; LOutcome AddSuccess 1 [] []; LStopTest 1; LStopRun]
  /\ norm_log (final_log h')
     = [LStartRun; LTime 0; LStartTest 1; LTime 0; LOutcome AddSuccess 1 [] []; LStopTest 1]
  /\ spec_okb {| hist := h |} (model {| hist := h |}) = true
  (* the behaviour before the repair (wall clock on every event) is rejected by the statement *)
  /\ spec_okb {| hist := h |} (model {| hist := OStartRun :: tl (tl h) |}) = false.
Proof. vm_compute. repeat split. Qed.

(* tags() before the run is started (wf accepts it): any tags() calls, then a startTest that starts the run
   itself - they are run-level tags: the test's final status carries what those calls leave (tags_after: through
   the converter's TagContext; tags_wanted: added then removed, call by call, read off the history; the same
   set), and the statement demands it; tags() calls, then an explicit startTestRun - reset: no tags *)
Theorem C09_tags_before_start : forall chs i h,
  (exists rest, mid_stream (tags_ops chs ++ OStartTest i :: OOutcome AddSuccess i None None :: h)
                = MStartRun :: status_ev i Inprogress None (Some wall)
                  :: status_ev i Success (Some (tags_after chs [])) (Some wall) :: rest)
  /\ (exists xs, fst (expected ss0 (tags_ops chs ++ OStartTest i :: OOutcome AddSuccess i None None :: h))
                 = XStartRun :: XStatus i Inprogress None wall
                   :: XStatus i Success (Some (tags_wanted chs [])) wall :: xs)
  /\ (forall x, In x (tags_after chs []) <-> In x (tags_wanted chs []))
  /\ (exists rest, mid_stream (tags_ops chs ++ OStartRun :: OStartTest i :: OOutcome AddSuccess i None None :: h)
                   = MStartRun :: status_ev i Inprogress None (Some wall)
                     :: status_ev i Success (Some []) (Some wall) :: rest)
  /\ (exists xs, fst (expected ss0 (tags_ops chs ++ OStartRun :: OStartTest i :: OOutcome AddSuccess i None None :: h))
                 = XStartRun :: XStatus i Inprogress None wall :: XStatus i Success (Some []) wall :: xs).
Proof. exact tags_before_start. Qed.
Print Assumptions C09_tags_before_start.

(* non-vacuity of it: tags 1,2 added, 3 added and 1 removed before the implicit start; a test-local change in
   the first test; the second test sees the run-level tags again; with an explicit startTestRun they are gone *)
Example C09_example_tags :
  let h := [OTags [1; 2] []; OTime 5; OTags [3] [1]; OStartTest 1; OTags [4] [2]; OOutcome AddSuccess 1 None None;
            OStopTest 1; OStartTest 2; OOutcome AddSuccess 2 None None; OStopTest 2; OStopRun] in
  let h' := [OTags [1] []; OStartRun; OStartTest 1; OOutcome AddSuccess 1 None None; OStopTest 1] in
  wf_from PNot h = true /\ wf_from PNot h' = true
  /\ norm_log (final_log h)
     = [LStartRun; LTime 5; LStartTest 1; LTime 5; LOutcome AddSuccess 1 [3; 4] []; LStopTest 1;
        LTime 5; LStartTest 2; LTime 5; LOutcome AddSuccess 2 [2; 3] []; LStopTest 2; LStopRun]
  /\ norm_log (final_log h')
     = [LStartRun; LTime 0; LStartTest 1; LTime 0; LOutcome AddSuccess 1 [] []; LStopTest 1]
  /\ spec_okb {| hist := h |} (model {| hist := h |}) = true
  (* losing the tags at the implicit start is rejected by the statement *)
  /\ spec_okb {| hist := h |} (model {| hist := OStartRun :: OTime 5 :: skipn 3 h |}) = false.
Proof. vm_compute. repeat split. Qed.

(* non-vacuity: run-level and test-level tags, a supplied time, a failure with a two-chunk text detail, an
   empty detail and a parameterised binary one, then a skip with a reason *)
Example C09_example :
  let h := [OStartRun; OTags [1] []; OTime 3; OStartTest 7; OTags [2] [1]; OTime 5;
            OOutcome AddError 7 (Some [Detail 2 (CType "text" "plain" [("charset", "utf8")]%string) ["ab"; ""; "c"]%string;
                                       Detail 3 (CType "image" "png" []) [];
                                       Detail 4 (CType "application" "x-t" [("b", "2"); ("a", "x; y")]%string) ["z"%string]])
                     None;
            OStopTest 7; OStartTest 8; OOutcome AddSkip 8 None (Some "why"%string); OStopTest 8; OStopRun] in
  wf_from PNot h = true
  /\ List.length (mid_stream h) = 12
  /\ norm_log (final_log h)
     = [LStartRun; LTime 3; LStartTest 7; LTime 5;
        LOutcome AddFailure 7 [2]
          [(2, (CType "text" "plain" [("charset", "utf8")]%string, "abc"%string));
           (4, (CType "application" "x-t" [("a", "x; y"); ("b", "2")]%string, "z"%string))];
        LStopTest 7; LTime 5; LStartTest 8; LTime 5;
        LOutcome AddSkip 8 [1] [(0, (CType "text" "plain" [("charset", "utf8")]%string, "why"%string))];
        LStopTest 8; LStopRun].
Proof. vm_compute. repeat split. Qed.
