(* C09 - placeholder while the model is validated against the implementation *)
From TT Require Import Lib.Base Lib.Bytestr Model.Mime Model.StreamRec Model.StreamConv Spec.C09 Corr.C09 Proof.C09.
