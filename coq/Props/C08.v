(* C08 - placeholder while the correspondence is validated *)
From TT Require Import Lib.Base Model.Adapters Spec.C08 Corr.C08 Proof.C08.
Example C08_example : spec_okb {| stack := E2O (Target py26); hist := [] |} (model {| stack := E2O (Target py26); hist := [] |}) = true.
Proof. vm_compute. reflexivity. Qed.
Print Assumptions C08_example.
