(* C08 - result adapters deliver each call once, at the richest protocol the target has.
   Only statements; every proof is `exact <lemma of Proof/C08.v>`.

   input  = an adapter stack (tree of ExtendedToOriginalDecorator / MultiTestResult / TestResultDecorator /
            Tagger over targets given by ANY capability set, and TestByTestResult, each with the set of tests its
            on_test callback raises for) and a history of calls;
   model  = Model/Adapters.v run on it: the log of every innermost result, the on_test callbacks, the
            calls that raised;
   wf     = the stack is well-formed (a TestResultDecorator/Tagger decorates something that speaks the
            extended protocol), the history is bracketed, detail names (arbitrary strings) are distinct, an on_test
            raises only where no result comes after its TestByTestResult (Spec.C08.wfb). *)
From TT Require Import Lib.Base Model.Adapters Spec.C08 Corr.C08 Proof.C08.

(* The model meets the whole statement, for every stack, every capability set, every history and whatever
   tests the on_test callbacks raise for (wf: no result is dispatched to after a TestByTestResult whose on_test
   raises - a wrapped result that raises in front of others is outside the statement). *)
Theorem C08_holds : forall i : input, wf i -> spec_okb i (model i) = true.
Proof. exact model_meets_spec. Qed.
Print Assumptions C08_holds.

(* ... and the executable statement (the oracle applied to the implementation's observations)
   implies the readable one, Spec.C08.Spec. *)
Theorem C08_statement : forall i o, spec_okb i o = true -> Spec i o.
Proof. exact spec_okb_sound. Qed.
Print Assumptions C08_statement.

(* The correspondence compares observations up to the wording of synthetic texts and skip reasons
   (Corr.C08.alpha), and exactly otherwise. *)
Theorem C08_obs_eqb : forall a b, obs_eqb a b = true <-> alpha a = alpha b.
Proof. exact obs_eqb_spec. Qed.
Print Assumptions C08_obs_eqb.

(* One observation per innermost result, a log for a logging result and callbacks for a TestByTestResult. *)
Theorem C08_leaves : forall i, wf i ->
  Forall2 (fun lt lo => match fst lt, lo with LfTarget _, OLog _ | LfByTest _, OCbs _ => True | _, _ => False end)
          (spec_leaves (stack i)) (o_leaves (model i)).
Proof. exact model_leaves. Qed.
Print Assumptions C08_leaves.

(* Every startTest, outcome and stopTest of the history arrives at every innermost result exactly once
   and in order: the log's projection to these calls (slot and test) is the history's. *)
Theorem C08_once_in_order : forall i, wf i -> forall k c tg,
  nth_error (spec_leaves (stack i)) k = Some (LfTarget c, tg) ->
  exists l, nth_error (o_leaves (model i)) k = Some (OLog l)
            /\ map shape (bracket l) = map shape (bracket (hist i)).
Proof. exact model_once_in_order. Qed.
Print Assumptions C08_once_in_order.

(* What arrives is what the degradation table (Spec.C08.Delivered) names for the capabilities of that
   result: skip / expected failure -> success without addSkip / addExpectedFailure, unexpected success ->
   failure, details -> _StringException whose text contains every non-blank text detail, skip reason =
   details['reason'] text. *)
Theorem C08_degradation : forall i, wf i -> forall k c tg,
  nth_error (spec_leaves (stack i)) k = Some (LfTarget c, tg) ->
  exists l, nth_error (o_leaves (model i)) k = Some (OLog l)
            /\ Forall2 (Delivered c) (bracket (hist i)) (bracket l).
Proof. exact model_degradation. Qed.
Print Assumptions C08_degradation.

(* The substring lemma on the model of _details_to_str - for ANY distinct names (strings), in particular names
   that extend the special name ('traceback-1', 'tracebackx') - and the reason taken from details['reason']. *)
Theorem C08_details_text : forall d special, NoDup (map fst d) -> ContainsAll d (details_to_str d special).
Proof. exact details_text. Qed.
Print Assumptions C08_details_text.

Theorem C08_skip_reason : forall d r, lookup n_reason d = Some (DText r) -> skip_reason d = r.
Proof. exact skip_reason_key. Qed.
Print Assumptions C08_skip_reason.

(* Error, failure and unexpected success arrive as error, failure or unexpected success. *)
Theorem C08_no_pass_from_fail : forall i, wf i -> forall k c tg,
  nth_error (spec_leaves (stack i)) k = Some (LfTarget c, tg) ->
  exists l, nth_error (o_leaves (model i)) k = Some (OLog l)
            /\ Forall2 (fun hc lc => is_fail hc = true -> is_fail lc = true) (bracket (hist i)) (bracket l).
Proof. exact model_no_pass_from_fail. Qed.
Print Assumptions C08_no_pass_from_fail.

(* TestByTestResult: one callback per test, in order, with the times in force at startTest / stopTest,
   the tags current before the pop (two-level reading, the Taggers' changes first), the details and the
   documented status word (Spec.C08.expected_cbs) - whatever tests its on_test raises for (bad): a report that
   failed does not disturb the following ones, each still carries its own times, tags and details. *)
Theorem C08_bytest : forall i, wf i -> forall k bad tg,
  nth_error (spec_leaves (stack i)) k = Some (LfByTest bad, tg) ->
  exists cbs, nth_error (o_leaves (model i)) k = Some (OCbs cbs)
              /\ Forall2 CbSpec (expected_cbs tg sst_init (hist i)) cbs
              /\ map cb_test cbs = stop_tests (hist i)
              /\ stop_tests (hist i) = start_tests (hist i).
Proof. exact model_bytest. Qed.
Print Assumptions C08_bytest.

(* Table obligation: the status words probed from the live TestByTestResult (Gen/Bytest.v) are the
   documented ones. *)
Theorem C08_bytest_words :
  (forall k t a, Some (bt_word_err k) = word_of (AddErr k t a))
  /\ (forall t a, Some Gen.Bytest.bt_word_addSkip = word_of (AddSkip t a))
  /\ (forall k t d, Some (bt_word_ok k) = word_of (AddOk k t d)).
Proof. exact bt_words_documented. Qed.
Print Assumptions C08_bytest_words.

(* What comes out of the calls of a history: AttributeError from done() / progress(), and from the stopTest of a
   test what the on_test of some TestByTestResult raises for that test; nothing else. *)
Theorem C08_raised : forall i, wf i ->
  RaisedSpec (map fst (spec_leaves (stack i))) (hist i) (o_raised (model i)).
Proof. exact model_raised. Qed.
Print Assumptions C08_raised.

(* Of themselves only done() / progress() can raise, and only AttributeError. *)
Theorem C08_raises : forall a c e, raises a c = Some e ->
  e = AttributeError /\ (c = Done \/ exists o w, c = Progress o w).
Proof. exact raises_only. Qed.
Print Assumptions C08_raises.

(* ... and a call that raises reaches no log and no TestByTestResult (Proof.C08.silent), which is why the
   model may push the whole history through every path. *)
Theorem C08_raise_delivers_nothing : forall a c e, raises a c = Some e ->
  forall p, In p (paths a) -> silent (snd p) (through (fst p) (snd p) [c]).
Proof. exact raising_call_delivers_nothing. Qed.
Print Assumptions C08_raise_delivers_nothing.

(* non-vacuity: a MultiTestResult over a 2.6-style result and a tagged TestByTestResult whose on_test raises
   for test 1; an unexpected success of a PlaceHolder with details, a skip with a 'reason' detail *)
Example C08_example :
  let d := [(n_reason, DText [97; 32]); ([97], DText [32; 98; 32])] in
  let i := {| stack := Multi [Target py26; Tagger [1] [] (ByTest [1])];
              hist := [StartTestRun; Tags [2] []; Time 3; StartTest (th 1); AddOk KUxSuccess (th 1) (Some d);
                       Time 5; StopTest (th 1); StartTest (tc 0); AddSkip (tc 0) (inr d); StopTest (tc 0);
                       Progress 1 1; Done] |} in
  wf i
  /\ model i =
     {| o_leaves :=
          [OLog [StartTest (th 1); AddErr KFailure (th 1) (inl Fresh); StopTest (th 1);
                 StartTest (tc 0); AddOk KSuccess (tc 0) None; StopTest (tc 0)];
           OCbs [{| cb_test := th 1; cb_status := Some w_success; cb_start := Some 3; cb_stop := Some 5;
                    cb_tags := [1; 2]; cb_details := Some d |};
                 {| cb_test := tc 0; cb_status := Some w_skip; cb_start := Some 5; cb_stop := Some 5;
                    cb_tags := [1; 2]; cb_details := Some d |}]];
        o_raised := [(6, CallbackError); (10, AttributeError)] |}
  /\ substringb [98] (details_to_str d (Some n_traceback)) = true.
Proof. vm_compute. repeat split. Qed.

(* a failed test whose cleanup failed too ('traceback' and 'traceback-1'), and a look-alike name, towards a
   2.7-style result: "traceback-1: {{{b}}}\ntracebackx: {{{c}}}\n\na\n" - the special one last, the others sorted *)
Example C08_example_tracebacks :
  let d := [(n_traceback ++ [45; 49], DText [98]); (n_traceback ++ [120], DText [99]); (n_traceback, DText [97])] in
  details_okb d = true
  /\ details_to_str d (Some n_traceback)
     = n_traceback ++ [45; 49] ++ t_open ++ [98] ++ t_close ++ [10]
       ++ n_traceback ++ [120] ++ t_open ++ [99] ++ t_close ++ [10; 10; 97; 10]
  /\ e2o_conv py27 (AddErr KError (tc 0) (inr d))
     = [AddErr KError (tc 0) (inl (Str (details_to_str d (Some n_traceback))))].
Proof. vm_compute. repeat split. Qed.

(* Outside wf, for the record (what the model, faithful to the code, shows): MultiTestResult._dispatch stops at
   the member that raised - with a TestByTestResult whose on_test raises for test 0 in FRONT of a 2.6-style result,
   that result never gets stopTest(test 0). *)
Example C08_example_fault_reaches_sibling :
  let i := {| stack := Multi [ByTest [0]; Target py26];
              hist := [StartTest (tc 0); AddOk KSuccess (tc 0) None; StopTest (tc 0)] |} in
  fault_reaches_sibling i = true /\ wfb i = false
  /\ o_leaves (model i) =
     [OCbs [{| cb_test := tc 0; cb_status := Some w_success; cb_start := None; cb_stop := None;
               cb_tags := []; cb_details := None |}];
      OLog [StartTest (tc 0); AddOk KSuccess (tc 0) None]]
  /\ o_raised (model i) = [(2, CallbackError)].
Proof. vm_compute. repeat split. Qed.
