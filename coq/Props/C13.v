(* C13 - concurrent suites run every test once, deliver every event, terminate.  PARTIAL: every
   interleaving at the granularity of operations on the shared objects (Thread.start, queue.put/get,
   Thread.join, semaphore.acquire/release, each call on the caller's result); preemption inside the
   bytecode between two such operations is not in the model.  Only statements; every proof is
   `exact <lemma of Proof/C13*.v>`.

   Throughout: i = an input of the classic suite (cinput: per sub-suite the calls its run(result) makes,
   RRaise = run() raises there, and which of that worker's calls on the caller's result raise; where
   make_tests raises; which queue.get() is interrupted; which of main's own stop() calls raise; whether
   what is raised is an Exception) or of the stream suite (sinput); sched = ANY list of thread numbers
   (0 = the caller of run(), w+1 = the worker of sub-suite w); creach i sched / sreach i sched = the
   configuration after that schedule (an entry naming a blocked or finished thread is a no-op).
   Stream: worker w = the StreamToQueue object of the w-th sub-suite; the route codes make_tests assigns
   (si_routes, `sroute i w`) are arbitrary - None, equal for several sub-suites - and identify nobody. *)
From TT Require Import Lib.Base Model.Tfr Model.Concur Spec.C12 Spec.C13 Corr.C13 Proof.C12 Proof.C13 Proof.C13Classic Proof.C13Thms.

(* The model meets the whole statement for every number of sub-suites, every script, every route-code
   assignment (None, equal codes for several sub-suites), every fault placement and every schedule given to
   the harness scheduler (which then runs all threads to their end). *)
Theorem C13_holds : forall i : input, spec_okb i (model i) = true.
Proof. exact model_meets_spec. Qed.
Print Assumptions C13_holds.

(* a worker puts on the queue exactly the events the statement expects from its sub-suite, whatever its route
   code is - under None the event's own route code travels unchanged (F26, repaired by 866c44b) *)
Theorem C13_sends : forall rt w base s, ev_of (emits rt w base s) = sent_events rt base s.
Proof. exact emits_clean. Qed.
Print Assumptions C13_sends.

(* ... and the executable statement implies the readable one (Spec.C13.Spec). *)
Theorem C13_statement : forall i o, spec_okb i o = true -> Spec i o.
Proof. exact spec_okb_sound. Qed.
Print Assumptions C13_statement.

(* the correspondence compares observations through Corr.C13.alpha, i.e. as far as the statement fixes them whatever
   synchronisation primitives the suite uses and whether or not it has a queue: per started worker its own calls
   on the caller's result and (normal return) what main passed on from it; which sub-suites were started; raised;
   deadlock; semaphore free; live flags for a normal return; the workers told to stop when make_tests raised.
   Queue events, joins, main's stop() calls and the global interleaving are forgotten. *)
Theorem C13_obs_eqb : forall a b, obs_eqb a b = true <-> alpha a = alpha b.
Proof. exact obs_eqb_spec. Qed.
Print Assumptions C13_obs_eqb.

(* each_once: after ANY schedule the sub-suites started are 0, 1, ..., each once, never more than make_tests
   yields; thread w+1's part of the caller's-result log is a run of sub-suite w's own thread and of nothing else *)
Theorem C13_each_once : forall i sched, let c := creach i sched in
  spawns (k_log c) = seq 0 (length (k_workers c))
  /\ length (k_workers c) <= started (length (ci_suites i)) (ci_mt_raise i)
  /\ forall w wk, nth_error (k_workers c) w = Some wk ->
       exists s fl, nth_error (ci_suites i) w = Some (s, fl)
         /\ tpath (init_thread s fl (worker_fb (ci_base i))) (proj (S w) (cg_log (k_log c))) (cw_th wk).
Proof. exact classic_each_once. Qed.
Print Assumptions C13_each_once.

(* ... stream: what worker w has put on the queue so far plus what it has still to put is exactly
   startTestRun, the events of sub-suite w (cut at a raise, then the broken-runner test), stopTestRun *)
Theorem C13_each_once_stream : forall i sched, let c := sreach i sched in
  spawns (s_log c) = seq 0 (length (s_workers c))
  /\ length (s_workers c) <= started (length (si_suites i)) (si_mt_raise i)
  /\ forall w todo, nth_error (s_workers c) w = Some todo ->
       exists s, nth_error (si_suites i) w = Some s /\ fw w (putsq (s_log c)) ++ todo = worker_puts (sroute i w) w (si_base i) s.
Proof. exact stream_each_once. Qed.
Print Assumptions C13_each_once_stream.

(* returns_after_all: after ANY schedule, if run() has returned normally no worker was alive at that moment *)
Theorem C13_returns_after_all : forall i sched, let c := creach i sched in
  k_main c = CMDone -> k_raised c = false ->
  length (k_live c) = started (length (ci_suites i)) (ci_mt_raise i) /\ forallb negb (k_live c) = true.
Proof. exact classic_returns_after_all. Qed.
Print Assumptions C13_returns_after_all.

Theorem C13_returns_after_all_stream : forall i sched, let c := sreach i sched in
  s_main c = SMDone -> s_raised c = false ->
  length (s_live c) = started (length (si_suites i)) (si_mt_raise i) /\ forallb negb (s_live c) = true.
Proof. exact stream_returns_after_all. Qed.
Print Assumptions C13_returns_after_all_stream.

(* delivery, classic: after ANY schedule worker w's part of the caller's-result log is a prefix of what w
   does when it runs alone (ctrace: its script up to the first forwarder call that raises, then the
   broken-runner fallback), all of it once w has finished: nothing lost, nothing twice, w's order *)
Theorem C13_delivery : forall i sched w wk, let c := creach i sched in
  nth_error (k_workers c) w = Some wk ->
  exists s fl fbs rest, nth_error (ci_suites i) w = Some (s, fl) /\ worker_fb (ci_base i) = Some fbs
     /\ proj (S w) (cg_log (k_log c)) ++ rest = ctrace fl PEnd s fbs fwd0 0
     /\ (finished (cw_th wk) = true -> rest = []).
Proof. exact classic_delivery. Qed.
Print Assumptions C13_delivery.

(* ... and the caller's result sees one test at a time (C12 corollary): after ANY schedule its log is a
   sequence of complete single-owner sections acquire, calls, release, plus the holder's open section *)
Theorem C13_one_at_a_time : forall i sched, let c := creach i sched in
  let K := started (length (ci_suites i)) (ci_mt_raise i) in
  exists secs tail, cg_log (k_log c) = flat_map render secs ++ tail
     /\ Forall (sec_ok (S K)) secs /\ open_tail (S K) (k_sem c) tail.
Proof. exact classic_one_at_a_time. Qed.
Print Assumptions C13_one_at_a_time.

(* delivery, stream: after ANY schedule what main has passed to the caller's result with route code w is a
   prefix of what sub-suite w emits, event for event (own route code kept), each with a timestamp (the
   worker's own where it supplied one; one assigned on the way where it left the keyword out or passed
   timestamp=None explicitly); all of it when run() has returned normally *)
Theorem C13_delivery_stream : forall i sched w s, let c := sreach i sched in
  nth_error (si_suites i) w = Some s -> w < length (s_workers c) ->
  (forall x, In x (delivered w (s_log c)) -> has_ts (snd (fst x)) = true)
  /\ exists rest, map to3 (delivered w (s_log c)) ++ rest = ev_of (emits (sroute i w) w (si_base i) s)
       /\ (s_main c = SMDone -> s_raised c = false -> rest = []).
Proof. exact stream_delivery. Qed.
Print Assumptions C13_delivery_stream.

(* timestamps: whatever a stream worker emits - keyword left out, timestamp=None passed explicitly, or its own
   datetime - is queued with a timestamp (its own one kept), so by C13_delivery_stream reaches the caller so *)
Theorem C13_stamped : forall rt w base s,
  Forall (fun e : nat * nat * rcode * tstamp => has_ts (snd e) = true) (ev_of (emits rt w base s)).
Proof. exact emits_has_ts. Qed.
Print Assumptions C13_stamped.

(* broken_runner, classic: the log of a worker alone (caller's result not raising, well-formed reporting
   before the raise) is the expected log of its tests; when run() raised an Exception it is followed by
   exactly one errored broken-runner test; when it raised something else the thread just ends *)
Theorem C13_broken_runner : forall s fbs, wf_script Out (fst (before_raise s)) = true ->
  let pre := fst (before_raise s) in
  (snd (before_raise s) = false -> ctrace [] PEnd s fbs fwd0 0 = expected [] pre sst0 0)
  /\ (snd (before_raise s) = true -> ctrace [] PEnd s [] fwd0 0 = expected [] pre sst0 0)
  /\ (snd (before_raise s) = true ->
        exists body, ctrace [] PEnd s [br_script] fwd0 0 = expected [] pre sst0 0 ++ section body
                     /\ BrokenRunnerBlock body).
Proof. exact classic_worker_meaning. Qed.
Print Assumptions C13_broken_runner.

(* broken_runner, stream: a sub-suite whose run() raises an Exception emits its events so far and then the
   broken-runner test (inprogress, fail); nothing more if it was not an Exception *)
Theorem C13_broken_runner_stream : forall rt w pre rest, (forall x, In x pre -> x <> SRaise) ->
  emits rt w false (pre ++ SRaise :: rest)
    = emits rt w false pre ++ [QStatus w br_id st_inprogress (rt, None) TNow; QStatus w br_id st_fail (rt, None) TNow]
  /\ emits rt w true (pre ++ SRaise :: rest) = emits rt w true pre.
Proof. exact stream_broken_runner. Qed.
Print Assumptions C13_broken_runner_stream.

(* abort: after ANY schedule, once run() has ended: it raised iff make_tests raised, a queue.get() was
   interrupted or the caller's result raised; if it raised, stop() was called on the process results of the
   workers started and not yet joined (cU), in order - all of them unless a stop() of the caller's result
   itself raised, then up to and including that one; otherwise on none.  (The abort path does not join.)
   This is what the CURRENT code does; the statement (Spec.Common) only demands that every started, unjoined
   worker is told to stop when no stop() raised, and that no never-started worker is - order and whether
   joined workers are told too are open. *)
Theorem C13_abort : forall i sched, let c := creach i sched in k_main c = CMDone ->
  k_raised c = craise_exp i (k_log c)
  /\ (k_raised c = true -> k_stops c = firstn (stops_expected (main_stops (k_log c)) (length (cU i c))) (cU i c))
  /\ (k_raised c = false -> k_stops c = []).
Proof. exact classic_abort. Qed.
Print Assumptions C13_abort.

Theorem C13_abort_stream : forall i sched, let c := sreach i sched in s_main c = SMDone ->
  s_raised c = raise_expected i (s_log c)
  /\ s_stops c = (if s_raised c
                  then unreaped_of (started (length (si_suites i)) (si_mt_raise i)) (joins (s_log c)) else []).
Proof. exact stream_abort. Qed.
Print Assumptions C13_abort_stream.

(* terminates: no reachable configuration is deadlocked (while main or a worker is unfinished somebody can
   move), every move decreases a natural-number measure, and the harness scheduler's run is one of the
   schedules and ends with everything finished and the semaphore free *)
Theorem C13_no_deadlock : forall i sched, let c := creach i sched in
  call_done c = false -> exists t, t < cnthr c /\ cstep i c t <> None.
Proof. exact classic_no_deadlock. Qed.
Print Assumptions C13_no_deadlock.

Theorem C13_no_deadlock_stream : forall i sched, let c := sreach i sched in
  sall_done c = false -> exists t, t < snthr c /\ sstep i c t <> None.
Proof. exact stream_no_deadlock. Qed.
Print Assumptions C13_no_deadlock_stream.

Theorem C13_progress : forall i c t c', cstep i c t = Some c' -> cmeas i c' < cmeas i c.
Proof. exact cstep_measure. Qed.
Print Assumptions C13_progress.

Theorem C13_progress_stream : forall i c t c', sstep i c t = Some c' -> smeasure i c' < smeasure i c.
Proof. exact sstep_measure. Qed.
Print Assumptions C13_progress_stream.

Theorem C13_terminates : forall i,
  call_done (crun i) = true /\ k_sem (crun i) = None /\ exists s, crun i = creach i s.
Proof. exact classic_terminates. Qed.
Print Assumptions C13_terminates.

Theorem C13_terminates_stream : forall i, sall_done (srun i) = true /\ exists s, srun i = sreach i s.
Proof. exact stream_terminates. Qed.
Print Assumptions C13_terminates_stream.

(* non-vacuity: (1) classic, two sub-suites, the second one's run() raises: its worker reports the
   broken-runner error, run() returns with nobody alive; (2) stream, the caller's result raises at its third
   event (the second event of worker 0): run() raises, both unreaped workers are told to stop;
   two sub-suites with the SAME route code 4 are told apart;
   (3) classic, the first queue.get() is interrupted: stop() is called for both workers *)
Example C13_example :
  let ci := {| ci_suites := [([RStartTest 1; ROutcome KSuccess 1; RStopTest 1], []); ([RStartTest 2; RRaise], [])];
               ci_mt_raise := None; ci_get_intr := None; ci_main_faults := []; ci_base := false;
               ci_sched := [1; 2; 2; 1; 0; 2] |} in
  let o := model (IClassic ci) in
  let si := {| si_suites := [[SEv 1 0 None TsOmit; SEv 1 1 None TsNone]; [SEv 2 0 (Some 1) (TsAt 7); SRaise]];
               si_routes := [Some 4; Some 4]; si_mt_raise := None;
               si_get_intr := None; si_main_faults := [2]; si_base := false;
               si_sched := [0; 0; 1; 2; 0; 0; 1; 2; 0; 0; 2; 2] |} in
  let o2 := model (IStream si) in
  let ci3 := {| ci_suites := [([RStartTest 1; ROutcome KSuccess 1; RStopTest 1], []);
                              ([RStartTest 2; ROutcome KFailure 2; RStopTest 2], [])];
                ci_mt_raise := None; ci_get_intr := Some 0; ci_main_faults := []; ci_base := true;
                ci_sched := [0; 0; 0; 1; 1] |} in
  let o3 := model (IClassic ci3) in
  (o_raised o, o_deadlock o, o_live o, o_stops o, spawns (o_trace o), joins (o_trace o))
    = (false, false, [false; false], [], [0; 1], [0; 1])
  /\ outcomes_of_log (proj 1 (cg_log (o_trace o))) = [(KSuccess, 1)]
  /\ outcomes_of_log (proj 2 (cg_log (o_trace o))) = [(KError, br_id)]
  /\ (o_raised o2, o_deadlock o2, o_stops o2) = (true, false, [0; 1])
  /\ delivered 0 (o_trace o2) = [(1, 0, (Some 4, None), TNow, false); (1, 1, (Some 4, None), TNow, true)]
  /\ delivered 1 (o_trace o2) = [(2, 0, (Some 4, Some 1), TOwn 7, false)]
  /\ (o_raised o3, o_deadlock o3, o_stops o3, main_stops (o_trace o3)) = (true, false, [0; 1], [false; false]).
Proof. vm_compute. repeat split. Qed.
