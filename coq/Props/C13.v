From TT Require Import Lib.Base Model.Tfr Model.Concur Spec.C12 Spec.C13 Corr.C13 Proof.C13.

Theorem C13_stream_holds : forall i, spec_okb (IStream i) (model (IStream i)) = true.
Proof. exact stream_meets_spec. Qed.
Print Assumptions C13_stream_holds.
