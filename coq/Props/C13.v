From TT Require Import Lib.Base Model.Tfr Model.Concur Spec.C12 Spec.C13 Corr.C13 Proof.C13.
