(* C04 - run verdict and stop control are consistent with the outcomes reported.
   Only statements; every proof is `exact <lemma of Proof/C04.v>`. *)
From TT Require Import Lib.Base Model.Result Spec.C04 Corr.C04 Proof.C04.

(* The model meets the whole statement for every stack (any nesting of MultiTestResult,
   ThreadsafeForwardingResult, ExtendedToOriginalDecorator, TestResultDecorator/Tagger over TestResult /
   TextTestResult / ExtendedToStreamDecorator results and over ExtendedToOriginalDecorator-wrapped foreign results
   of ANY capability record: unittest.TestResult, 2.6 / 2.7 / extended / Twisted-style objects), every failfast
   configuration outside known finding F18, and every history of calls - outcomes reported with a details dict or
   the original way - made one after the other, or made by several threads, each through its own
   ThreadsafeForwardingResult over the same target and semaphore, under EVERY schedule. *)
Theorem C04_holds : forall i : input, wf i -> finding_F18 i = false -> spec_okb i (model i) = true.
Proof. exact model_meets_spec. Qed.
Print Assumptions C04_holds.

(* ... and the executable statement implies the readable one (Spec.C04.Spec). *)
Theorem C04_statement : forall i o, spec_okb i o = true -> Spec i o.
Proof. exact spec_okb_sound. Qed.
Print Assumptions C04_statement.

(* F18 (known finding): with failfast assigned on a ThreadsafeForwardingResult after wrapping, or a
   failfast=True result put into a MultiTestResult, the faithful model violates the full statement. *)
Theorem C04_refuted_F18 :
  (wf witness_F18a /\ finding_F18 witness_F18a = true /\ spec_okb witness_F18a (model witness_F18a) = false)
  /\ (wf witness_F18b /\ finding_F18 witness_F18b = true /\ spec_okb witness_F18b (model witness_F18b) = false).
Proof. exact refuted_F18. Qed.
Print Assumptions C04_refuted_F18.

(* ... and F18 is confined to the two situations it names: failfast assigned on the outermost object of a stack
   that contains a ThreadsafeForwardingResult / TestResultDecorator / Tagger, or a failfast=True result inside a
   MultiTestResult.  Everywhere else C04_holds applies. *)
Theorem C04_F18_confined : forall i, finding_F18 i = true ->
  set_on_wrapper_stack i = true \/ ff_ctor_in_multi (stack i) = true.
Proof. exact finding_F18_confined. Qed.
Print Assumptions C04_F18_confined.

(* verdict: wasSuccessful() after any calls = no error / failure / unexpected success since the last startTestRun *)
Theorem C04_verdict : forall i pre, wf i -> finding_F18 i = false -> has_e2s i = false -> has_foreign i = false ->
  was_ok (fold_left do_op pre (init (stack i) (set_after i))) = want_ok pre.
Proof. exact (fun i pre W => was_ok_after i pre (proj1 W)). Qed.
Print Assumptions C04_verdict.

(* summaries: every TextTestResult in the stack, at every stopTestRun: test count, OK / FAILED (failures=n),
   one section per problem - all computed from the calls since the last startTestRun *)
Theorem C04_summary : forall i, finding_F18 i = false ->
  Forall2 (fun li sums => (if li_text li
                           then forall2b (summary_okb (li_tfr li)) (before_stop_runs [] (hist i)) sums
                           else match sums with [] => true | _ => false end) = true)
          (leaf_infos (stack i))
          (leaf_outs (fold_left do_op (hist i) (init (stack i) (set_after i)))).
Proof. exact sums_after. Qed.
Print Assumptions C04_summary.

(* failfast / stop: shouldStop of every underlying result after any calls = stop() was called on it or on
   something above it, or failfast is set and a bad outcome was reported - since the last startTestRun
   (Spec.C04.scope: for a foreign result, which never clears shouldStop, since it was created);
   in particular not before the first bad outcome *)
Theorem C04_failfast : forall i pre, finding_F18 i = false ->
  leaf_stops (fold_left do_op pre (init (stack i) (set_after i)))
  = map (want_leaf_stop i pre) (leaf_infos (stack i)).
Proof. exact leaf_stops_after. Qed.
Print Assumptions C04_failfast.

(* stop() on any node sets shouldStop on every result below it; the outermost shouldStop is the
   disjunction over the underlying results (what a suite consults) *)
Theorem C04_stop_reaches : forall p n,
  Forall2 (fun pa b => is_prefix p pa = true -> b = true) (fpaths (frame n)) (leaf_stops (stop_at p n))
  /\ Forall (fun b => b = true) (leaf_stops (stop n))
  /\ should_stop n = existsb (fun b => b) (leaf_stops n).
Proof. exact (fun p n => conj (stop_at_reaches p n) (conj (stop_reaches_all n) (should_stop_any n))). Qed.
Print Assumptions C04_stop_reaches.

(* several ThreadsafeForwardingResults over one target, one thread each, any programs, any schedule: the
   scheduler never deadlocks and every call of every thread takes effect exactly once, per thread in program order
   (in particular a stop() made while a sibling holds the semaphore waits and then reaches the target) ... *)
Theorem C04_conc_complete : forall ths sch,
  exists h, merge ths (linear_order ths sch) = Some h /\ length h = length (concat ths).
Proof.
  exact (fun ths sch => match linear_order_complete ths sch with
                        | ex_intro _ h H => ex_intro _ h (conj H (proj2 (merge_length _ _ _ H))) end).
Qed.
Print Assumptions C04_conc_complete.

(* ... and what is observed is what the calls give when made one after the other in that order, to which
   C04_verdict / C04_summary / C04_failfast / C04_stop_reaches apply *)
Theorem C04_conc_model : forall i ths sch, conc i = Some (ths, sch) ->
  exists h, merge ths (linear_order ths sch) = Some h
            /\ model i = model_seq (with_hist i (hist i ++ h)) (linear_order ths sch).
Proof. exact conc_model. Qed.
Print Assumptions C04_conc_model.

(* ExtendedToOriginalDecorator over a foreign result, every path of its outcome methods (the object has / lacks
   addUnexpectedSuccess, accepts / refuses details=, has a failfast attribute or the decorator keeps _failfast,
   acts on failfast itself or not, has stop() or the decorator keeps _shouldStop; details passed or not): the
   target's shouldStop becomes true exactly when failfast is set and the outcome is an error, a failure or an
   unexpected success; stop() reaches it; assigning failfast on the decorator is what it then reads *)
Theorem C04_foreign_paths : forall (f : fo) (k : kind) (d : bool),
  fo_stopped (fo_outcome f k d) = fo_stopped f || (bad k && fo_ff f).
Proof. exact fo_stopped_outcome. Qed.
Print Assumptions C04_foreign_paths.

Theorem C04_foreign_control : forall (f : fo) (b : bool),
  should_stop (stop (NFor f)) = true /\ get_ff (set_ff b (NFor f)) = b
  /\ should_stop (set_ff b (NFor f)) = should_stop (NFor f).
Proof. exact (fun f b => conj eq_refl (conj eq_refl eq_refl)). Qed.
Print Assumptions C04_foreign_control.

(* one call, seen from the underlying results: each receives it (as a whole test below a forwarder) and is
   stopped exactly when the call is a bad outcome and the stack's failfast reaches it - for EVERY state *)
Theorem C04_step : forall n o, lvs (do_op n o) = map2 (fun s l => leaf_do s l o) (statics (frame n)) (lvs n)
                               /\ frame (do_op n o) = frame n.
Proof. exact (fun n o => conj (do_op_ok n o) (frame_do_op n o)). Qed.
Print Assumptions C04_step.

(* run.py: sys.exit(not result.wasSuccessful()).  exit_status is what the operating system reports: the argument
   of sys.exit modulo 256.  It is 0 exactly for a successful run; the argument is a truth value, so the truncation
   loses nothing - whereas any status that grows with the number of problems is reported as 0 (success) whenever
   that number is a multiple of 256. *)
Theorem C04_exit : forall ok, exit_status ok = 0 <-> ok = true.
Proof. exact exit_status_ok. Qed.
Print Assumptions C04_exit.
(* ... and for the run as a whole: the status is 0 exactly when no error / failure / unexpected success was
   reported since the last startTestRun - independently of how many tests were started: none at all (an empty
   selection, tests skipped without startTest) gives 0, a problem reported without any startTest (a failing
   setUpClass) gives non-zero *)
Theorem C04_exit_history : forall i pre, wf i -> finding_F18 i = false -> has_e2s i = false -> has_foreign i = false ->
  (exit_status (was_ok (fold_left do_op pre (init (stack i) (set_after i)))) = 0
   <-> existsb is_problem (since_run pre) = false).
Proof. exact (fun i pre W => exit_after i pre (proj1 W)). Qed.
Print Assumptions C04_exit_history.
Theorem C04_exit_no_truncation : forall ok, exit_arg ok < 256 /\ exit_status ok = exit_arg ok.
Proof. exact (fun ok => conj (exit_arg_small ok) (Nat.mod_small _ _ (exit_arg_small ok))). Qed.
Print Assumptions C04_exit_no_truncation.
Theorem C04_exit_counting_wraps : forall n, os_status (256 * n) = 0.
Proof. exact counting_status_wraps. Qed.
Print Assumptions C04_exit_counting_wraps.

(* table obligation, re-stated against Gen/Resulttabs.v on every run: StreamFailFast reacts exactly to the
   status words ExtendedToStreamDecorator emits for addError / addFailure / addUnexpectedSuccess *)
Theorem C04_table_failfast : forall k, in_words (status_of k) Gen.Resulttabs.failfast_statuses = bad k.
Proof. exact table_failfast. Qed.
Print Assumptions C04_table_failfast.

(* the correspondence compares observations exactly *)
Theorem C04_obs_eqb : forall a b, obs_eqb a b = true <-> a = b.
Proof. exact obs_eqb_spec. Qed.
Print Assumptions C04_obs_eqb.

(* non-vacuity: failfast set after wrapping on a MultiTestResult over a forwarder and an explicit decorator;
   a failure stops both results at once, the summary counts it, a second run starts clean, stop() on the
   forwarder reaches its TextTestResult only *)
Example C04_example :
  let i := {| stack := AMulti [ATFR (ATR false true); AE2O (ATR false false)]; set_after := Some true;
              hist := [StartRun; StartTest 1; Outcome KSuccess true 1; StopTest 1; StartTest 2; Outcome KFailure false 2;
                       StopTest 2; StopRun; StartRun; StopAt [0]]; conc := None |} in
  wf i /\ finding_F18 i = false
  /\ o_ok (model i) = [true; true; true; true; true; false; false; false; true; true]
  /\ o_stop (model i) = [false; false; false; false; false; true; true; true; false; true]
  /\ nth 9 (o_leaf_stop (model i)) [] = [true; false]
  /\ o_sums (model i) = [[{| s_ran := 2; s_failed := Some 1; s_sections := [(1, 2)] |}]; []].
Proof. vm_compute. repeat split. Qed.

(* non-vacuity, foreign results: failfast assigned on a MultiTestResult over a decorated extended-API object (has a
   failfast attribute, does not act on it, accepts details) and a decorated 2.6-style object (no failfast, no
   addUnexpectedSuccess); an expected failure does not stop, the unexpected success reported with details stops
   both, and a new startTestRun does not clear a foreign result's shouldStop *)
Example C04_example_foreign :
  let ext := {| fc_uxs := true; fc_uxs_details := true; fc_details := true; fc_failfast := true; fc_acts := false;
                fc_stop := true; fc_uxs_counts := true; fc_resets := true |} in
  let py26 := {| fc_uxs := false; fc_uxs_details := false; fc_details := false; fc_failfast := false;
                 fc_acts := false; fc_stop := true; fc_uxs_counts := false; fc_resets := false |} in
  let i := {| stack := AMulti [AFor ext; AFor py26]; set_after := Some true;
              hist := [StartRun; StartTest 1; Outcome KXfail true 1; StopTest 1; StartTest 2;
                       Outcome KUxsuccess true 2; StopTest 2; StartRun]; conc := None |} in
  wf i /\ finding_F18 i = false
  /\ o_leaf_stop (model i) = [[false; false]; [false; false]; [false; false]; [false; false]; [false; false];
                              [true; true]; [true; true]; [true; true]]
  /\ o_ok (model i) = [true; true; true; true; true; false; false; false]
  /\ spec_okb i (model i) = true.
Proof. vm_compute. repeat split. Qed.

(* non-vacuity, threads: thread 0 reports a success through its adapter; while it holds the semaphore (parked at
   its release) thread 1 calls stop() on its own adapter: the scheduler cannot run thread 1, thread 0 finishes,
   then the stop() takes effect and the shared TextTestResult is stopped; an unstarted run's verdict stays OK *)
Example C04_example_threads :
  let i := {| stack := ATFR (ATR false true); set_after := None; hist := [StartRun];
              conc := Some ([[Outcome KSuccess false 12]; [StopAt []; StopRun]], [0; 1; 1]) |} in
  wf i /\ finding_F18 i = false
  /\ o_order (model i) = [0; 1; 1]
  /\ o_leaf_stop (model i) = [[false]; [false]; [true]; [true]]
  /\ o_sums (model i) = [[{| s_ran := 1; s_failed := None; s_sections := [] |}]]
  /\ spec_okb i (model i) = true.
Proof. vm_compute. repeat split. Qed.
