(* C04 - placeholder while the correspondence is being validated *)
From TT Require Import Lib.Base Model.Result Spec.C04 Corr.C04 Proof.C04.
Example C04_example :
  let i := {| stack := AMulti [ATFR (ATR false true); AE2O (ATR false false)]; set_after := Some true;
              hist := [StartRun; StartTest 1; Outcome KFailure 1; StopTest 1; StopRun; StartRun; StopAt [0]] |} in
  spec_okb i (model i) = true /\ finding_F18 i = false.
Proof. vm_compute. split; reflexivity. Qed.
