(* C02 - stages run in order; every cleanup runs exactly once, LIFO, whatever failed; nothing is
   left; patched attributes are restored; a second run repeats the first.
   Only statements; every proof is `exact <lemma of Proof/C02.v, Proof/RunCore.v or Proof/RunExtra.v>`. *)
From Coq Require Import Permutation.
From TT Require Import Lib.Base Gen.Handlers Model.Run Spec.Run Spec.C02 Corr.C02 Proof.RunCore Proof.RunExtra Proof.C02.

(* The model meets the whole statement for every finite program (any number of statements per
   body, cleanups registering cleanups to any depth, any exception values, fixtures, patches of
   attributes of an instance, of its class and of the class's base class - held by the target itself,
   inherited, missing, served by a property or a slot), every initial state of the namespaces of the
   patched objects, on both runs of the instance. *)
Theorem C02_holds : forall i : input, wf i = true -> spec_okb i (model i) = true.
Proof. exact model_meets_spec. Qed.
Print Assumptions C02_holds.

(* The correspondence also runs programs on cases configured with a RunTest factory of their own (class
   attribute run_tests_with, the runTest= constructor argument, @run_test_with; RunTest subclasses and functions
   with explicit / star / keyword-only / ** signatures, functools.partial, callable objects, bound methods,
   factories written for the API before last_resort - Model.Run.factory).  The Gallina input leaves the
   configuration out: the run of such a case IS the run with the default RunTest. *)
Theorem C02_factory_irrelevant : forall r p s, run_from_runner r p s = run_from p s.
Proof. exact factory_irrelevant. Qed.
Print Assumptions C02_factory_irrelevant.

Theorem C02_statement : forall i o, spec_okb i o = true -> Spec i o.
Proof. exact spec_okb_sound. Qed.
Print Assumptions C02_statement.

(* the correspondence compares logs, leftovers and the namespaces of the patched objects (as a mapping over
   the harness's keys) of both runs exactly, and of the
   outcomes whether the second run repeats the first (Corr.C02.alpha) *)
Theorem C02_obs_eqb : forall a b, obs_eqb a b = true <-> alpha a = alpha b.
Proof. exact obs_eqb_spec. Qed.
Print Assumptions C02_obs_eqb.

(* C02_order - for a run() of the instance in ANY state s0 (fresh or used): the log is setUp,
   then test and tearDown iff setUp returned, then the cleanup phase [cleanup_entries]
   (Spec/Run.v: DESIGN Appendix A.1); no cleanup is left (the fuel supplied suffices);
   vars(scratch) is what it was before *)
Theorem C02_order : forall p s0,
  exists r s, observe p s0 = (r, s) /\ r_left r = 0 /\ r_attrs r = attrs s0
              /\ map shape (r_log r) = expected_log p.
Proof. exact run_restores. Qed.
Print Assumptions C02_order.

(* C02_once: what the cleanup phase calls is, counted with multiplicity, exactly what the
   executed statements registered - functions, patch undo actions, fixture cleanUps and detail
   gatherings - whatever any body raised *)
Theorem C02_once : forall p, Permutation (cleanup_entries p) (registered p).
Proof. exact once. Qed.
Print Assumptions C02_once.

(* C02_lifo: the precise reading of "reverse registration order" under dynamic registration.
   (1) later registrations of one body run first, and nothing after a raising statement is
   registered; (2) what a cleanup registers while it runs comes right after it, before every
   cleanup still pending; (3) of two registrations in one body the later runs first, each followed
   at once by its own registrations; (4) the literal pop-run-repeat machine realises exactly this
   order on any stack, given fuel for the size of the stack: log, exceptions caught, nothing left,
   and the patched attributes are what the pending undo actions make of them. *)
Theorem C02_lifo :
  (forall l1 l2, acts_raise l1 = None -> pending (l1 ++ l2) = pending l2 ++ pending l1)
  /\ (forall l1 x l2 e, acts_raise l1 = None -> act_raise x = Some e -> pending (l1 ++ x :: l2) = pending l1)
  /\ (forall t b, act_entries (ACleanup t b) = EUser t b :: pending b)
  /\ (forall l1 a1 l2 a2 l3, acts_raise (l1 ++ a1 :: l2 ++ [a2]) = None ->
        pending (l1 ++ a1 :: l2 ++ a2 :: l3) = pending l3 ++ act_entries a2 ++ pending l2 ++ act_entries a1 ++ pending l1)
  /\ (forall fuel s, stack_size (stack s) <= fuel ->
        exists s' failing, run_cleanups fuel s = (s', failing, false)
          /\ map shape (log s') = map shape (log s) ++ flat_map entry_log (entries_of (stack s))
          /\ excs s' = excs s ++ flat_map (fun e => caught (entry_raise e)) (entries_of (stack s))
          /\ stack s' = [] /\ attrs s' = undo_all (stack s) (attrs s)).
Proof.
  exact (conj pending_app (conj pending_stop (conj act_entries_cleanup (conj lifo_pair cleanups_lifo)))).
Qed.
Print Assumptions C02_lifo.

(* C02_stack_empty: after run() on an instance in any state, _cleanups is empty *)
Theorem C02_stack_empty : forall p s0, stack (snd (observe p s0)) = [] /\ r_left (fst (observe p s0)) = 0.
Proof. exact stack_empty. Qed.
Print Assumptions C02_stack_empty.

(* C02_patch_restored: every attribute in the namespace of every patched object (instance, class, base
   class; property and slot attributes) has its value from before the run, or is absent again (attributes
   are changed only through patch()) *)
Theorem C02_patch_restored : forall p s0 k, aget k (r_attrs (fst (observe p s0))) = aget k (attrs s0).
Proof. exact patch_restored. Qed.
Print Assumptions C02_patch_restored.

(* ... so that no target is left with a shadow of a value it only inherited (the repair of F25: patching
   Base.x and then Sub.x leaves Sub without an x of its own again), and getattr(obj, name) finds for every
   target what it found before the run *)
Theorem C02_namespaces_restored : forall p s0,
  attrs (snd (observe p s0)) = attrs s0
  /\ forall k, getattr k (attrs (snd (observe p s0))) = getattr k (attrs s0).
Proof. exact namespaces_restored. Qed.
Print Assumptions C02_namespaces_restored.

(* C02_rerun: the second run() of the same instance repeats the sequence and the outcome
   (force_failure and inserted exception handlers are not reset by _reset, but what set them in
   the first run sets them again) *)
Theorem C02_rerun : forall i,
  let o := model i in
  map shape (r_log (o_second o)) = map shape (r_log (o_first o))
  /\ r_outs (o_second o) = r_outs (o_first o)
  /\ r_attrs (o_second o) = i_attrs i /\ r_attrs (o_first o) = i_attrs i.
Proof. exact rerun. Qed.
Print Assumptions C02_rerun.

(* non-vacuity: nested registration, nested patches of one attribute (existing and missing), a
   KeyboardInterrupt in the test, a failing fixture cleanup *)
Example C02_example :
  let fx := {| fx_tok := 20; fx_old := false; fx_details := []; fx_cleanups := [(21, None); (22, Some (Exc CValueError None))];
               fx_fail := None; fx_bad := None |} in
  let p := {| p_skip := None; p_xfail := false;
              p_setup := (1, [APatch 0 5; ACleanup 10 [APatch 0 6; ACleanup 11 [APatch 3 7]]; AFixture fx]);
              p_up_setup := true;
              p_body := (2, [ACleanup 12 []; ARaise (Exc CKbd None); ACleanup 13 []]);
              p_teardown := (3, [APatch 0 8]); p_up_teardown := true; p_handlers := [] |} in
  wf {| i_prog := p; i_attrs := [(0, 1)] |} = true
  /\ r_log (o_first (model {| i_prog := p; i_attrs := [(0, 1)] |}))
  = [LTok 1; LSet 0 5; LTok 20; LTok 2; LTok 3; LSet 0 8; LSet 0 5; LTok 12; LTok 22; LTok 21; LTok 10; LSet 0 6;
     LTok 11; LSet 3 7; LDel 3; LSet 0 5; LSet 0 1]
  /\ r_attrs (o_second (model {| i_prog := p; i_attrs := [(0, 1)] |})) = [(0, 1)]
  /\ r_outs (o_first (model {| i_prog := p; i_attrs := [(0, 1)] |})) = [OErr]
  /\ registered p = [ERestore 0; EUser 10 [APatch 0 6; ACleanup 11 [APatch 3 7]]; ERestore 0; EUser 11 [APatch 3 7];
                     ERestore 3; EFx fx; EGather fx; EUser 12 []; ERestore 0].
Proof. vm_compute. repeat split. Qed.

(* non-vacuity for fixtures with a detail that cannot be evaluated when it is gathered: the gathering
   cleanup raises (error outcome), the fixture's cleanUp and the patch undo still run, once *)
Example C02_example_unevaluable_detail :
  let fx := {| fx_tok := 20; fx_old := false; fx_details := [((5, []), 1); ((4, []), 2)]; fx_cleanups := [(21, None)];
               fx_fail := None; fx_bad := Some (0, Exc CValueError None) |} in
  let p := {| p_skip := None; p_xfail := false; p_setup := (1, []); p_up_setup := true;
              p_body := (2, [APatch 0 5; AFixture fx]); p_teardown := (3, []); p_up_teardown := true; p_handlers := [] |} in
  r_log (o_first (model {| i_prog := p; i_attrs := [] |})) = [LTok 1; LTok 2; LSet 0 5; LTok 20; LTok 3; LTok 21; LDel 0]
  /\ r_outs (o_first (model {| i_prog := p; i_attrs := [] |})) = [OErr]
  /\ cleanup_entries p = [EGather fx; EFx fx; ERestore 0].
Proof. vm_compute. repeat split. Qed.

(* non-vacuity for the kinds of patch targets: a property-backed attribute (key 30), an unset inherited slot
   (key 33), a missing class attribute (key 7); the base class's attribute 0 (key 2) and then the class's
   (key 1, inherited: the old F25 input) - the class is left without an attribute of its own; an attribute
   the instance inherits from its class (key 3 over key 4): the shadow is deleted again *)
Example C02_example_targets :
  let p := {| p_skip := None; p_xfail := false; p_setup := (1, [APatch 30 5; APatch 33 6]); p_up_setup := true;
              p_body := (2, [APatch 7 2; APatch 2 5; APatch 1 6; APatch 3 4; ARaise (Exc CKbd None)]);
              p_teardown := (3, []); p_up_teardown := true; p_handlers := [] |} in
  let i := {| i_prog := p; i_attrs := [(30, 1); (4, 2); (2, 1)] |} in
  wf i = true
  /\ r_log (o_first (model i)) = [LTok 1; LSet 30 5; LSet 33 6; LTok 2; LSet 7 2; LSet 2 5; LSet 1 6; LSet 3 4; LTok 3;
                                   LDel 3; LDel 1; LSet 2 1; LDel 7; LDel 33; LSet 30 1]
  /\ r_attrs (o_second (model i)) = [(30, 1); (4, 2); (2, 1)]
  /\ map (fun k => getattr k (r_attrs (o_first (model i)))) [0; 1; 2; 3] = [Some 1; Some 1; Some 1; Some 2].
Proof. vm_compute. repeat split. Qed.
