(* C02 - placeholder while the correspondence is being validated. *)
From TT Require Import Lib.Base Gen.Handlers Model.Run Spec.Run Spec.C02 Corr.C02 Proof.C02.
