(* C01 - every test run is bracketed and yields exactly one outcome; an exception outside
   Exception is reported as an error and propagates after stopTest.
   Only statements; every proof is `exact <lemma of Proof/C01.v>`. *)
From TT Require Import Lib.Base Gen.Handlers Model.Run Spec.Run Spec.C01 Corr.C01 Proof.RunCore
  Proof.RunExtra Proof.RunTable Proof.RunVerdict Proof.C01.

(* The model meets the whole statement for every finite program (any number of statements per
   stage, cleanups registering cleanups to any depth, any exception values incl. nested and empty
   MultipleExceptions and user subclasses, decorators, fixtures, handlers inserted before or
   during the run for Exception-derived classes), every result flavour, and every history of earlier
   runs of the same instance (i_prev: any number of runs with per-run scripted stages; the observed
   run is the last), and every configuration of the RunTest factory (i_runner: any factory of Model.Run.factory
   - RunTest, subclasses and functions with explicit / star / keyword-only / ** signatures, functools.partial,
   callable objects, bound methods, factories that cannot be called with last_resort= - installed in any way). *)
Theorem C01_holds : forall i : input, wf i = true -> spec_okb i (model i) = true.
Proof. exact model_meets_spec. Qed.
Print Assumptions C01_holds.

(* the configuration is irrelevant: the run of a case with any factory IS the run with the default RunTest, so
   every theorem below about run_from / run holds for it; the model's observation does not depend on it *)
Theorem C01_factory_irrelevant : forall r p s, run_from_runner r p s = run_from p s.
Proof. exact factory_irrelevant. Qed.
Print Assumptions C01_factory_irrelevant.
Theorem C01_model_factory_irrelevant : forall i,
  model i = model {| i_prev := i_prev i; i_prog := i_prog i; i_flavour := i_flavour i; i_runner := default_runner |}.
Proof. exact model_factory_irrelevant. Qed.
Print Assumptions C01_model_factory_irrelevant.

(* why the handler of last resort has to reach the RunTest whichever way it is built (fix F27): with a RunTest
   that has none, on an instance in ANY state, startTest, every body that is to run, the same exception out of
   run(), stopTest last - but NO outcome when something propagates *)
Theorem C01_last_resort_needed : forall p s,
  exists s' o d prop, run_from_with None p s = (s', prop, false)
    /\ calls (tr s') = calls (tr s) ++ [TStart] ++ (match prop with None => [TOut o d] | Some _ => [] end) ++ [TStop]
    /\ map shape (log s') = map shape (log s) ++ expected_log p /\ stack s' = []
    /\ exists s1, run_from p s = (s1, prop, false).
Proof. exact no_last_resort_run. Qed.
Print Assumptions C01_last_resort_needed.

(* ... and the executable statement implies the readable one (Spec.C01.Spec). *)
Theorem C01_statement : forall i o, spec_okb i o = true -> Spec i o.
Proof. exact spec_okb_sound. Qed.
Print Assumptions C01_statement.

Theorem C01_Spec_holds : forall i : input, wf i = true -> Spec i (model i).
Proof. exact model_meets_Spec. Qed.
Print Assumptions C01_Spec_holds.

(* the correspondence compares the calls on the result and what run() raised exactly, and the
   bodies that ran as a set (alpha forgets their order and multiplicity, which are C02's subject) *)
Theorem C01_obs_eqb : forall a b,
  obs_eqb a b = true <->
  o_events a = o_events b /\ o_raised a = o_raised b /\ (forall t, In t (o_ran a) <-> In t (o_ran b)).
Proof. exact obs_eqb_spec. Qed.
Print Assumptions C01_obs_eqb.

(* C01_bracket: for EVERY program (no well-formedness needed) the result receives startTest, one
   outcome, stopTest and nothing else (addOnException handler calls aside); the fuel supplied to
   the cleanup loop always suffices; every body that should run did (tearDown iff setUp returned,
   every cleanup, in the order of Spec.Run.expected_log); no cleanup is left *)
Theorem C01_bracket : forall p a0,
  exists s o d prop, run p a0 = (s, prop, false)
                /\ calls (tr s) = [TStart; TOut o d; TStop]
                /\ map shape (log s) = expected_log p /\ stack s = [].
Proof. exact run_bracket. Qed.
Print Assumptions C01_bracket.

(* the same for run() on an instance in ANY state - whatever it ran before and whatever that left
   behind (force_failure, inserted handlers, registered addOnException handlers, a stale list of caught
   exceptions, cleanups, details): one bracket is appended, and the exceptions the run reports from
   are exactly those THIS run caught *)
Theorem C01_bracket_any_state : forall p s,
  exists s' o d prop, run_from p s = (s', prop, false)
                /\ calls (tr s') = calls (tr s) ++ [TStart; TOut o d; TStop]
                /\ map shape (log s') = map shape (log s) ++ expected_log p /\ stack s' = []
                /\ excs s' = collected_run p (force s).
Proof. exact run_from_bracket. Qed.
Print Assumptions C01_bracket_any_state.

(* per run: an exception outside Exception raised in THIS run is reported as the error and comes out of
   run(); if this run raised none, run() returns - also right after an interrupted run *)
Theorem C01_every_run : forall p s,
  within_Exception (rev (inserted p) ++ uh s) = true ->
  exists s' o d prop, run_from p s = (s', prop, false)
    /\ calls (tr s') = calls (tr s) ++ [TStart; TOut o d; TStop]
    /\ match find (fun e => negb (derives_from_Exception e)) (raised p) with
       | Some e => o = OErr /\ prop = Some e
       | None => prop = None
       end.
Proof. exact run_from_base. Qed.
Print Assumptions C01_every_run.

(* ... and every flavour's result sees exactly that bracket *)
Theorem C01_bracket_delivered : forall i,
  exists o, o_events (model i) = if has_stop (i_flavour i) then [Start; Out o; Stop] else [Start; Out o].
Proof. exact bracket_delivered. Qed.
Print Assumptions C01_bracket_delivered.

(* C01_base_reported: the first exception not derived from Exception is reported as the error,
   all later stages and cleanups still run, and it propagates *)
Theorem C01_base_reported : forall p a0 e,
  handlers_within_Exception p = true ->
  find (fun e => negb (derives_from_Exception e)) (raised p) = Some e ->
  exists s d, run p a0 = (s, Some e, false)
              /\ calls (tr s) = [TStart; TOut OErr d; TStop]
              /\ map shape (log s) = expected_log p /\ stack s = [].
Proof. exact base_reported. Qed.
Print Assumptions C01_base_reported.

(* what comes out of run() is the FIRST exception raised that is outside Exception *)
Theorem C01_first_base_propagates : forall p a0 s e,
  handlers_within_Exception p = true ->
  run p a0 = (s, Some e, false) ->
  exists before after, raised p = before ++ e :: after
                       /\ derives_from_Exception e = false
                       /\ forallb derives_from_Exception before = true.
Proof. exact first_base_propagates. Qed.
Print Assumptions C01_first_base_propagates.

Theorem C01_returns_otherwise : forall p a0,
  handlers_within_Exception p = true ->
  (forall e, In e (raised p) -> derives_from_Exception e = true) ->
  exists s, run p a0 = (s, None, false).
Proof. exact returns_otherwise. Qed.
Print Assumptions C01_returns_otherwise.

(* "does not stop tearDown and the cleanups from running": for every program, the bodies that ran
   are exactly setUp, the test and tearDown iff setUp returned, and every registered cleanup *)
Theorem C01_all_bodies_ran : forall i t, In t (o_ran (model i)) <-> In t (expected_tokens (i_prog i)).
Proof. exact all_bodies_ran. Qed.
Print Assumptions C01_all_bodies_ran.

(* C01_stop_before_raise: whatever propagates, stopTest was delivered last, after exactly one outcome *)
Theorem C01_stop_before_raise : forall p a0,
  let '(s, propagated, oof) := run p a0 in
  oof = false /\ last (calls (tr s)) TStart = TStop
  /\ length (filter (fun e => match e with TOut _ _ => true | _ => false end) (tr s)) = 1.
Proof. exact stop_delivered. Qed.
Print Assumptions C01_stop_before_raise.

(* an unpacked MultipleExceptions is never empty: raising one always leaves something to report (F3) *)
Theorem C01_flatten_nonempty : forall e, flatten e <> [].
Proof. exact flatten_nonempty. Qed.
Print Assumptions C01_flatten_nonempty.

(* the facts about TestCase.exception_handlers of the tree under test that the proofs use
   (re-checked against the regenerated table on every run) *)
Theorem C01_table :
  last_resort = Some OErr
  /\ forallb (fun h => match h_out h with Some _ => true | None => false end) generated_handlers = true
  /\ forallb (fun h => subclass (h_cls h) CException) generated_handlers = true
  /\ match rev generated_handlers with h :: _ => cls_eqb (h_cls h) CException | [] => false end = true
  /\ (run_passes_table = true /\ length generated_handlers = length exception_handlers).
Proof. exact table_facts. Qed.
Print Assumptions C01_table.

(* non-vacuity: KeyboardInterrupt in the test, an ordinary error in a cleanup registered by a
   cleanup, an empty MultipleExceptions in tearDown, a handler inserted while the test runs *)
Example C01_example :
  let p := {| p_skip := None; p_xfail := false;
              p_setup := (1, [ACleanup 10 [ACleanup 11 [ARaise (Exc CValueError None)]]]); p_up_setup := true;
              p_body := (2, [AInsertHandler CValueError OSkip; ARaise (Exc CKbd None)]);
              p_teardown := (3, [ARaise (Multi [])]); p_up_teardown := true; p_handlers := [] |} in
  wf {| i_prev := []; i_prog := p; i_flavour := F26; i_runner := {| r_factory := RT_OldFn; r_via := VDeco |} |} = true
  /\ model {| i_prev := []; i_prog := p; i_flavour := F26; i_runner := {| r_factory := RT_OldFn; r_via := VDeco |} |}
     = {| o_events := [Start; Out OErr; Stop]; o_raised := RKbd; o_ran := [1; 2; 3; 10; 11] |}
  /\ raised p = [Exc CKbd None; Multi []; Exc CValueError None].
Proof. vm_compute. repeat split. Qed.

(* non-vacuity for histories: the first run catches a ValueError (test) and a KeyboardInterrupt (cleanup)
   and is interrupted, the second sets force_failure and inserts a handler, the third - observed - passes
   but for the flag still set: one failure, run() returns *)
Example C01_example_history :
  let mk := fun su b => {| p_skip := None; p_xfail := false; p_setup := (1, su); p_up_setup := true; p_body := (2, b);
                           p_teardown := (3, []); p_up_teardown := true; p_handlers := [] |} in
  let p1 := mk [ACleanup 10 [ARaise (Exc CKbd None)]] [ARaise (Exc CValueError None)] in
  let p2 := mk [] [AForce; AInsertHandler CValueError OSkip] in
  let i := {| i_prev := [p1; p2]; i_prog := mk [ACleanup 10 []] []; i_flavour := FExtended; i_runner := {| r_factory := RT_FnKwargs; r_via := VCtor |} |} in
  wf i = true
  /\ model {| i_prev := []; i_prog := p1; i_flavour := FExtended; i_runner := {| r_factory := RT_FnKwargs; r_via := VCtor |} |}
     = {| o_events := [Start; Out OErr; Stop]; o_raised := RKbd; o_ran := [1; 2; 3; 10] |}
  /\ model i = {| o_events := [Start; Out OFail; Stop]; o_raised := RNone; o_ran := [1; 2; 3; 10] |}
  /\ handlers_before i = [(CValueError, OSkip)].
Proof. vm_compute. repeat split. Qed.
