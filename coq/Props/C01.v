(* C01 - placeholder while the correspondence is being validated. *)
From TT Require Import Lib.Base Gen.Handlers Model.Run Spec.Run Spec.C01 Corr.C01 Proof.C01.
