(* C07 - mismatches are always describable; text_repr output evaluates back; assertThat /
   assert_that / expectThat report faithfully (PARTIAL: describability is sampled, see C07_holds).
   Only statements; every proof is `exact <lemma of Proof/C07*.v>`. *)
From Coq Require Import String.
From TT Require Import Lib.Base Model.TextRepr Model.Assertions Spec.C07 Corr.C07
     Proof.C07Repr Proof.C07Names Proof.C07.

(* The model meets the whole statement, for every input.  For a text_repr case the model runs both formulations
   of text_repr - the literal transliteration text_repr_lit and the per-character text_repr_tok - and observes OBad
   if they differ; they never do (C07_lit_eq_tok).  Remaining gap (why PARTIAL): for IDesc the model's
   str()/describe()/get_details() are total by construction; what is checked is the implementation, by sampling.
   (Former finding F21 - a failed expectThat in a setUp that then raises did not fail the test - was repaired in
   /repo by 889980a; the model has the repaired behaviour and the hypothesis is gone.) *)
Theorem C07_holds : forall i : input, wf i -> spec_okb i (model i) = true.
Proof. exact model_meets_spec. Qed.
Print Assumptions C07_holds.

Theorem C07_statement : forall i o, spec_okb i o = true -> Spec i o.
Proof. exact spec_okb_sound. Qed.
Print Assumptions C07_statement.

Theorem C07_obs_eqb : forall a b, obs_eqb a b = true <-> alpha a = alpha b.
Proof. exact obs_eqb_spec. Qed.
Print Assumptions C07_obs_eqb.

(* text_repr's output evaluates back to the original text: every str / bytes s, every multiline setting
   (None / True / False), every isprintable predicate; stated for the literal transliteration of compat.text_repr
   (split, repr of every line, slice, str.replace, join, the find / insert loop on fuel) *)
Theorem C07_text_repr_roundtrip : forall isb nonprint s ml,
  Forall (valid isb) s -> eval_lit (text_repr_lit isb nonprint s ml) = Some (isb, s).
Proof. exact lit_roundtrip. Qed.
Print Assumptions C07_text_repr_roundtrip.

(* the literal transliteration and the per-character formulation (a quote gets a backslash iff two more quotes
   follow immediately) are the same function: str.replace never matches across an escape boundary; the
   find / insert loop escapes the first k-2 quotes of every run of k >= 3 and stays within its fuel *)
Theorem C07_lit_eq_tok : forall isb nonprint s ml,
  text_repr_lit isb nonprint s ml = text_repr_tok isb nonprint s ml.
Proof. exact lit_eq_tok. Qed.
Print Assumptions C07_lit_eq_tok.

Theorem C07_agree : forall i, agree i = true.
Proof. exact agree_always. Qed.
Print Assumptions C07_agree.

(* the same round trip for the per-character formulation (formerly C07_text_repr_roundtrip_partial) *)
Theorem C07_text_repr_tok_roundtrip : forall isb nonprint s ml,
  Forall (valid isb) s -> eval_lit (text_repr_tok isb nonprint s ml) = Some (isb, s).
Proof. exact tok_roundtrip. Qed.
Print Assumptions C07_text_repr_tok_roundtrip.

Theorem C07_repr_roundtrip : forall isb nonprint s,
  Forall (valid isb) s -> eval_lit (repr isb nonprint s) = Some (isb, s).
Proof. exact repr_roundtrip. Qed.
Print Assumptions C07_repr_roundtrip.

Theorem C07_text_repr_single_line : forall isb nonprint s ml,
  Forall (valid isb) s -> match ml with Some b => b | None => memN NL s end = false ->
  eval_lit (text_repr_lit isb nonprint s ml) = Some (isb, s).
Proof. exact lit_single_line. Qed.
Print Assumptions C07_text_repr_single_line.

(* the unique-name loop of addDetailUniqueName terminates within its fuel (pigeonhole) with a name
   that is not in use and is the requested one or the requested one with a suffix *)
Theorem C07_unique_fresh : forall existing base,
  exists r, unique_name existing base = Some r /\ ~ In r existing /\ IsCand r base.
Proof. exact unique_fresh. Qed.
Print Assumptions C07_unique_fresh.

(* What the model does with a whole test, for every program: setUp, then - unless setUp raised - the test method
   and tearDown, then the cleanups last registered first, each function up to its first statement that raises;
   statement k raises exactly as exp_raised says; the outcome is reported after all of them and is that of the
   exception caught last, the forced failure of a mismatching expectThat being raised after everything else
   (model_outcome); the details are the old ones followed by fresh-named ones, one per request. *)
Theorem C07_run_test : forall p : prog, NoDup (map fst (p_pre p)) ->
  exists tail,
    run_test p = {| r_raised := map exp_raised (phases p); r_after_ran := true;
                    r_outcome := model_outcome p;
                    r_details := Some (p_pre p ++ tail)%list |}
    /\ Inv (p_pre p ++ flat_map requests_of_step (flat_map exec (phases p)))%list (p_pre p ++ tail)%list.
Proof. exact run_test_spec. Qed.
Print Assumptions C07_run_test.

(* ... and that outcome is one the statement allows *)
Theorem C07_outcome : forall p : prog, outcome_okb p (model_outcome p) = true.
Proof. exact model_outcome_ok. Qed.
Print Assumptions C07_outcome.

(* assertThat / assert_that raise exactly when match() returns a mismatch, expectThat never raises, a raise
   statement raises; nothing of the same function runs after a raise (any function of the test, any position) *)
Theorem C07_assert_iff : forall steps k b, nth_error (exp_raised steps) k = Some b ->
  exists s, nth_error steps k = Some s
            /\ b = match s_kind s with
                   | AssertThat | AssertThatFn => is_some (s_mis s)
                   | ExpectThat => false
                   | Raise _ => true
                   end
            /\ (b = true -> List.length (exp_raised steps) = S k).
Proof. exact exp_raised_nth. Qed.
Print Assumptions C07_assert_iff.

(* expectThat: a mismatch makes the test a failure once it has finished, whatever else the test does before or
   afterwards - skip, expected failure, unexpected success, error, in setUp, the test method, tearDown or a
   cleanup, the expectThat itself standing in any of them that ran; and every function that has to run ran *)
Theorem C07_expect : forall p : prog, NoDup (map fst (p_pre p)) -> expect_failed p = true ->
  r_outcome (run_test p) = Failure /\ r_raised (run_test p) = map exp_raised (phases p).
Proof. exact expect_forces_failure. Qed.
Print Assumptions C07_expect.

(* where super().setUp() / super().tearDown() stand among the statements of setUp / tearDown makes no difference:
   the base methods leave the details and force_failure alone (an expectThat before the upcall counts) *)
Theorem C07_upcall_anywhere : forall p u v,
  run_test {| p_pre := p_pre p; p_setup := p_setup p; p_setup_up := u; p_body := p_body p;
              p_teardown := p_teardown p; p_teardown_up := v; p_cleanups := p_cleanups p |} = run_test p.
Proof. exact upcall_anywhere. Qed.
Print Assumptions C07_upcall_anywhere.

(* ... and it never raises, wherever it stands *)
Theorem C07_expect_never_raises : forall steps k s b,
  nth_error steps k = Some s -> s_kind s = ExpectThat -> nth_error (exp_raised steps) k = Some b -> b = false.
Proof. exact expect_never_raises. Qed.
Print Assumptions C07_expect_never_raises.

(* a function of expectThat statements only: every statement runs, none raises *)
Theorem C07_expect_only : forall steps, existsb raises_step steps = false ->
  exp_raised steps = map (fun _ => false) steps /\ exec steps = steps.
Proof. exact exp_raised_expect_only. Qed.
Print Assumptions C07_expect_only.

(* non-vacuity *)
Example C07_example :
  let np := fun c => N.eqb c 133 in
  (* a'''b with a newline and NEL: three quotes, the first escaped *)
  text_repr_tok false np [97; 39; 39; 39; 98; 10; 133]%N None
  = [39; 39; 39; 92; 10; 97; 92; 39; 39; 39; 98; 10; 92; 120; 56; 53; 39; 39; 39]%N
  /\ text_repr_lit false np [97; 39; 39; 39; 98; 10; 133]%N None
     = text_repr_tok false np [97; 39; 39; 39; 98; 10; 133]%N None
  /\ eval_lit (text_repr_lit false np [97; 39; 39; 39; 98; 10; 133]%N None) = Some (false, [97; 39; 39; 39; 98; 10; 133]%N)
  /\ r_details (run_test {| p_pre := [("a", 1)]%string; p_setup := []; p_setup_up := 0;
                            p_body := [{| s_kind := ExpectThat; s_mis := Some [("a", 2); ("a-1", 3)]%string |};
                                       {| s_kind := AssertThat; s_mis := Some [("a", 4)]%string |};
                                       {| s_kind := ExpectThat; s_mis := Some [("b", 5)]%string |}];
                            p_teardown := []; p_teardown_up := 0; p_cleanups := [] |})
     = Some [("a", 1); ("a-1", 2); ("a-1-1", 3); ("Failed expectation", 0); ("a-2", 4)]%string
  (* a failed expectation, then the test skips; a cleanup reaches an expected failure: still a failure *)
  /\ (let p := {| p_pre := []; p_setup := []; p_setup_up := 0;
                  p_body := [{| s_kind := ExpectThat; s_mis := Some [] |}; {| s_kind := Raise XSkip; s_mis := None |};
                             {| s_kind := AssertThat; s_mis := None |}];
                  p_teardown := [{| s_kind := AssertThat; s_mis := None |}]; p_teardown_up := 1;
                  p_cleanups := [[{| s_kind := Raise XXFail; s_mis := None |}]] |} in
      r_outcome (run_test p) = Failure /\ r_raised (run_test p) = [[]; [false; true]; [false]; [true]]
      /\ expect_failed p = true)
  (* the expectation fails in setUp, setUp then skips: the test method does not run, the test is a failure *)
  /\ (r_outcome (run_test witness_F21) = Failure /\ r_raised (run_test witness_F21) = [[false; true]]
      /\ expect_failed witness_F21 = true)
  (* the expectation fails in setUp before the upcall of the base setUp *)
  /\ r_outcome (run_test {| p_pre := []; p_setup := [{| s_kind := ExpectThat; s_mis := Some [] |}]; p_setup_up := 1;
                            p_body := []; p_teardown := []; p_teardown_up := 0; p_cleanups := [] |}) = Failure
  (* without the expectation the exception caught last decides *)
  /\ r_outcome (run_test {| p_pre := []; p_setup := []; p_setup_up := 0; p_body := [{| s_kind := Raise XSkip; s_mis := None |}];
                            p_teardown := []; p_teardown_up := 0; p_cleanups := [[{| s_kind := Raise XXFail; s_mis := None |}]] |}) = ExpFailure.
Proof. vm_compute. repeat split. Qed.
