(* C07 - placeholder while the correspondence is being validated. *)
From TT Require Import Lib.Base Spec.C07 Corr.C07.
