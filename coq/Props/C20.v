(* C20 - Deferred matchers classify fired/failed/unfired without firing anything (PARTIAL: Twisted's
   Deferred and its unhandled-error logging are a model, Model/Deferred.v, validated by correspondence).
   Only statements; every proof is `exact <lemma of Proof/C20.v>`.
   [good d] is the invariant of every Deferred state a history can reach (C20_reachable). *)
From TT Require Import Lib.Base Model.Deferred Model.DeferredMatchers Spec.C20 Corr.C20 Proof.C20.

(* The model meets the whole statement, for every history (any length, any order of match / fire / fail /
   addCallbacks / pause / unpause / chained Deferred firing / extract_result, any callbacks, any nesting of
   inner matchers) and every SynchronousDeferredRunTest stage.  No well-formedness side condition. *)
Theorem C20_holds : forall i : input, spec_okb i (model i) = true.
Proof. exact model_meets_spec. Qed.
Print Assumptions C20_holds.

(* ... and the executable statement implies the readable one (Spec.C20.Spec). *)
Theorem C20_statement : forall i o, spec_okb i o = true -> Spec i o.
Proof. exact spec_okb_sound. Qed.
Print Assumptions C20_statement.

(* the correspondence compares observations exactly up to alpha, which forgets the two whole-test event lists
   of the SynchronousDeferredRunTest cases (keeping whether they are equal) and what a history shows after
   its first extract_result (Corr.C20.cut: the statement does not say what extract_result leaves behind) *)
Theorem C20_obs_eqb : forall a b, obs_eqb a b = true <-> alpha a = alpha b.
Proof. exact obs_eqb_spec. Qed.
Print Assumptions C20_obs_eqb.

(* every state reached by any history from a fresh Deferred satisfies the invariant the clauses assume *)
Theorem C20_reachable : forall ops, good (final_of ops new_deferred []).
Proof. exact reachable_good. Qed.
Print Assumptions C20_reachable.

(* classification: exactly one of has_no_result / succeeded(Always) / failed(Always) matches, the one the state names *)
Theorem C20_trichotomy : forall d lg, good d ->
  let n := verdict MNoResult d lg in
  let s := verdict (MSucceeded IAlways) d lg in
  let f := verdict (MFailed IAlways) d lg in
  match state_of d with
  | SUnfired | SWaiting => n = true /\ s = false /\ f = false
  | SVal _ => n = false /\ s = true /\ f = false
  | SErr _ => n = false /\ s = false /\ f = true
  end.
Proof. exact trichotomy. Qed.
Print Assumptions C20_trichotomy.

(* succeeded(m) / failed(m) match iff in addition m matches the value / the Failure *)
Theorem C20_inner : forall m d lg, good d ->
  (verdict MNoResult d lg = true <-> state_of d = SUnfired \/ state_of d = SWaiting)
  /\ (verdict (MSucceeded m) d lg = true <-> exists v, state_of d = SVal v /\ inner_match m v = true)
  /\ (verdict (MFailed m) d lg = true <-> exists e, state_of d = SErr e /\ inner_match m e = true).
Proof. exact inner_clause. Qed.
Print Assumptions C20_inner.

Theorem C20_extract : forall d lg, good d ->
  fst (fst (extract_result d lg)) = expect_extract (state_of d).
Proof. exact extract_clause. Qed.
Print Assumptions C20_extract.

(* nothing fired: no callback runs during a match, .called is unchanged, and the state is unchanged
   unless succeeded()/failed() looked at a failure *)
Theorem C20_nothing_fired : forall m d lg, good d ->
  log_after_match m d lg = lg
  /\ d_called (after_match m d lg) = d_called d
  /\ (inspects m (state_of d) = false -> state_of (after_match m d lg) = state_of d).
Proof. exact nothing_fired. Qed.
Print Assumptions C20_nothing_fired.

(* non-interference: after a match that did not consume a failure, every later operation (firing, adding
   callbacks, further matches, extract_result ...) observes and produces exactly what it would have
   without the match: same per-operation observations, same values seen by callbacks, same final
   state and unhandled-error flag *)
Theorem C20_passive : forall m d lg rest, good d -> inspects m (state_of d) = false ->
  obs_of rest (after_match m d lg) lg = obs_of rest d lg
  /\ log_of rest (after_match m d lg) lg = log_of rest d lg
  /\ state_of (final_of rest (after_match m d lg) lg) = state_of (final_of rest d lg)
  /\ d_called (final_of rest (after_match m d lg) lg) = d_called (final_of rest d lg)
  /\ unhandled (final_of rest (after_match m d lg) lg) = unhandled (final_of rest d lg).
Proof. exact match_unobservable. Qed.
Print Assumptions C20_passive.

(* ... and in general: a history shows its callbacks the same values and ends in the same state as the
   match-free history [erase] (matches deleted; an errback returning None where a failure was inspected) *)
Theorem C20_passive_history : forall ops d lg, good d ->
  (forall o, In o (erase ops d lg) -> forall m, o <> OMatch m)
  /\ log_of (erase ops d lg) d lg = log_of ops d lg
  /\ state_of (final_of (erase ops d lg) d lg) = state_of (final_of ops d lg)
  /\ d_called (final_of (erase ops d lg) d lg) = d_called (final_of ops d lg)
  /\ unhandled (final_of (erase ops d lg) d lg) = unhandled (final_of ops d lg).
Proof. exact passive. Qed.
Print Assumptions C20_passive_history.

(* a failure inspected by succeeded()/failed() is handled (not on record for the unhandled-error log);
   has_no_result() leaves it as it is *)
Theorem C20_handled : forall m d lg e, good d -> state_of d = SErr e ->
  match m with
  | MNoResult => state_of (after_match m d lg) = SErr e /\ unhandled (after_match m d lg) = unhandled d
  | _ => state_of (after_match m d lg) = SVal 0 /\ handled (after_match m d lg) = true
  end.
Proof. exact failure_handled. Qed.
Print Assumptions C20_handled.

(* SynchronousDeferredRunTest._run_user on a function returning an already-fired Deferred (or returning /
   raising directly, through maybeDeferred) reports what plain RunTest._run_user reports *)
Theorem C20_sync_runner : forall s,
  sync_run_user (fired_stage s) = direct_run_user s
  /\ sync_run_user (match s with inl v => StReturn v | inr e => StRaise e end) = direct_run_user s.
Proof. exact sync_runner. Qed.
Print Assumptions C20_sync_runner.

(* ... for EVERY exception class, including the classes the helpers themselves raise: the runner raises
   DeferredNotFired exactly for a Deferred without a result; a fired Deferred whose failure IS a
   DeferredNotFired (or a stage raising it directly) is a caught user error like any other *)
Theorem C20_sync_notfired_only : forall st, stage_good st ->
  (forall x, sync_run_user st = URaised x -> x = XNotFired /\ exists d, st = StDeferred d /\ idle d)
  /\ (forall d, st = StDeferred d -> idle d -> sync_run_user st = URaised XNotFired)
  /\ (forall e, st = StRaise e \/ st = StDeferred (ready (RErr e)) -> sync_run_user st = UCaught e).
Proof. exact sync_notfired_only. Qed.
Print Assumptions C20_sync_notfired_only.

(* exception identity is not confused with state: a Deferred failed WITH DeferredNotFired is 'failed', not
   'no result'; extract_result raises that failure's exception (class DeferredNotFired) and the runner reports it
   as caught, while on an unfired Deferred the runner itself raises *)
Example C20_example_notfired :
  let d := ready (RErr notfired_tok) in
  verdict MNoResult d [] = false /\ verdict (MFailed (IIs notfired_tok)) d [] = true
  /\ fst (fst (extract_result d [])) = Raised XNotFired
  /\ fst (fst (extract_result new_deferred [])) = Raised XNotFired
  /\ sync_run_user (StDeferred d) = UCaught notfired_tok
  /\ sync_run_user (StRaise notfired_tok) = UCaught notfired_tok
  /\ sync_run_user (StDeferred (ready (RErr impossible_tok))) = UCaught impossible_tok
  /\ sync_run_user (StDeferred new_deferred) = URaised XNotFired
  /\ spec_okb (ISync 1 (inr notfired_tok)) (model (ISync 1 (inr notfired_tok))) = true.
Proof. vm_compute. repeat split. Qed.

(* the class of the failure plays no role (all clauses above quantify over every class token): a failure
   that is a KeyboardInterrupt / SystemExit / GeneratorExit / other non-Exception BaseException is classified,
   consumed and marked handled by succeeded()/failed() like any other, also when a callback raised it or it
   came through a chained Deferred; the runner reports it as caught, like RunTest._run_user *)
Example C20_example_baseexception :
  let d := ready (RErr kbint_tok) in
  verdict (MFailed (IIs kbint_tok)) d [] = true /\ verdict (MSucceeded IAlways) d [] = false
  /\ handled (after_match (MSucceeded IAlways) d []) = true
  /\ state_of (after_match (MFailed INever) (ready (RErr sysexit_tok)) []) = SVal 0
  /\ unhandled (after_match MNoResult (ready (RErr genexit_tok)) []) = true
  /\ sync_run_user (StRaise dbase_tok) = UCaught dbase_tok
  /\ sync_run_user (StDeferred (ready (RErr sysexit_tok))) = UCaught sysexit_tok
  /\ (match model (IHist [OAdd (CRaise kbint_tok) CPass; OAdd CWait CWait; OFire 3; OResume (RErr genexit_tok);
                          OMatch (MFailed (IIs genexit_tok))]) with
      | OHist h => h_unhandled h = false /\ final_state (h_ops h) = SVal 0
                   /\ map p_out (h_ops h) = [OutDone; OutDone; OutDone; OutDone; OutMatch true]
      | _ => False
      end).
Proof. vm_compute. repeat split. Qed.

(* non-vacuity: callbacks before, a match on the unfired Deferred, a chained Deferred, a failure inspected
   behind it, callbacks after; the recorders see the same with and without the matches; nothing unhandled *)
Example C20_example :
  let ops := [OAdd (CRec 1) (CRec 1); OMatch MNoResult; OAdd CWait CPass; OFire 3;
              OMatch (MSucceeded IAlways); OResume (RErr 2); OMatch (MFailed (INot (IIs 1)));
              OAdd (CRec 2) (CRec 2)] in
  match model (IHist ops) with
  | OHist h => map p_out (h_ops h) = [OutDone; OutMatch true; OutDone; OutDone; OutMatch false; OutDone;
                                      OutMatch true; OutDone]
               /\ h_log h = [(1, RVal 3); (2, RVal 0)] /\ h_elog h = h_log h /\ h_unhandled h = false
               /\ h_eops h = [OAdd (CRec 1) (CRec 1); OAdd CWait CPass; OFire 3; OResume (RErr 2);
                              OAdd CPass (CConst 0); OAdd (CRec 2) (CRec 2)]
               /\ spec_okb (IHist ops) (OHist h) = true
  | _ => False
  end.
Proof. vm_compute. repeat split. Qed.
