(* C18 - routing picks exactly one destination; route prefixes push and pop inversely.
   Only statements; every proof is `exact <lemma of Proof/C18.v>`. *)
From TT Require Import Lib.Base Model.Router Spec.C18 Corr.C18 Proof.C18.

(* The model meets the whole statement for every router configuration and every history of
   add_rule (accepted or rejected) / startTestRun / stopTestRun / status calls (any order, any
   number of rules, re-mapped keys and shared sinks included); wf asks that the sinks exist, that no
   route code is the empty string, and that no sink object is registered for startTestRun/stopTestRun
   more than once (there "once per run" is ambiguous - per sink or per registration -: outside the
   quantifier). *)
Theorem C18_holds : forall i : input, wf i -> spec_okb i (model i) = true.
Proof. exact model_meets_spec. Qed.
Print Assumptions C18_holds.

(* ... and the executable statement implies the readable one (Spec.C18.Spec). *)
Theorem C18_statement : forall i o, spec_okb i o = true -> Spec i o.
Proof. exact spec_okb_sound. Qed.
Print Assumptions C18_statement.

(* Exactly one sink per status call, named by the history - for EVERY rule set: keys may be re-mapped
   (a second add_rule for the same route prefix / test id, with another or the same sink) and one sink
   may serve several rules or be the fallback as well.  The k-th call status(e) (through StreamToQueue
   objects with codes via) reaches the sink of the LATEST add_rule made before it for the first segment
   of the route code (no add_rule for that prefix after it: prefix_rules l2 p = []) - so after a
   re-mapping the new sink only -, otherwise the sink of the latest add_rule for its test id, otherwise
   the fallback, otherwise the call raises and nobody receives anything; the event is unchanged except
   that a consuming rule removes exactly the first segment. *)
Theorem C18_one_sink : forall i, wf i -> forall k via e so,
  nth_error (ops i) k = Some (Status via e) -> nth_error (o_steps (model i)) k = Some so ->
  let past := firstn k (ops i) in
  let e0 := pushed via e in
  let n := n_sinks i in
  let no_prefix_rule := forall s p c ss, In (AddPrefix s p c ss) past -> first_seg (e_route e0) <> Some p in
  let no_id_rule := forall s ss, ~ In (AddId s (e_id e0) ss) past in
  (forall l1 l2 s p c ss, past = l1 ++ AddPrefix s p c ss :: l2 -> prefix_rules l2 p = [] ->
     first_seg (e_route e0) = Some p ->
     s_raised so = false
     /\ New_is n (only s (St (if c then set_route e0 (strip_first (e_route e0)) else e0))) (s_new so))
  /\ (no_prefix_rule -> forall l1 l2 s ss, past = l1 ++ AddId s (e_id e0) ss :: l2 -> id_rules l2 (e_id e0) = [] ->
     s_raised so = false /\ New_is n (only s (St e0)) (s_new so))
  /\ (no_prefix_rule -> no_id_rule -> forall f, fb i = Some f ->
     s_raised so = false /\ New_is n (only f (St e0)) (s_new so))
  /\ (no_prefix_rule -> no_id_rule -> fb i = None ->
     s_raised so = true /\ New_is n nobody (s_new so)).
Proof. exact one_sink. Qed.
Print Assumptions C18_one_sink.

(* push/pop: the consuming slice is the inverse of StreamToQueue.route_code, for None and for any
   number of segments; nested through any chain of StreamToQueue objects and consuming routers;
   and through the model's router itself. *)
Theorem C18_push_pop : forall c r, route_wf r = true ->
  first_seg (route_code c r) = Some c /\ strip_first (route_code c r) = r.
Proof. exact push_pop. Qed.
Print Assumptions C18_push_pop.

Theorem C18_push_pop_nested : forall via e, route_wf (e_route e) = true -> roundtrip via e = e.
Proof. exact roundtrip_id. Qed.
Print Assumptions C18_push_pop_nested.

Theorem C18_push_pop_router : forall r c s e,
  get Nat.eqb c (r_prefixes r) = Some (s, true) -> route_wf (e_route e) = true ->
  route_status r (pushed [c] e) = Some (s, e).
Proof. exact router_pops. Qed.
Print Assumptions C18_push_pop_router.

(* the same three operations on '/'-joined strings of character codes, for every naming of the
   segments by non-empty '/'-free strings: split("/")[0], routing_code + "/" + route_code and the
   slice [len(prefix)+1:] commute with rendering *)
Theorem C18_strings : forall name : seg -> str,
  (forall s, name s <> []) -> (forall s, ~ In slash (name s)) ->
  forall r, route_wf r = true ->
    option_map str_head (render name r) = option_map name (first_seg r)
    /\ (forall c, str_route_code (name c) (render name r) = render name (route_code c r))
    /\ str_consume (render name r) = render name (strip_first r)
    /\ (forall c, str_consume (str_route_code (name c) (render name r)) = render name r).
Proof.
  exact (fun name H1 H2 r H =>
           conj (str_first_seg name H2 r H)
             (conj (fun c => str_push name c r H)
                (conj (str_pop name H1 H2 r H) (fun c => str_push_pop name H1 H2 c r H)))).
Qed.
Print Assumptions C18_strings.

(* MODEL-LEVEL, for arbitrary rule sets (wf_base: also sinks registered several times): the start/stop calls
   sink s receives at call k are one startTestRun (stopTestRun) PER REGISTRATION of s made before k when the
   call is startTestRun (stopTestRun); one startTestRun when the call is an add_rule that registers s and a run
   is in progress; nothing in every other case.  The multiplicity for >= 2 registrations of one sink object is
   the current code's choice (one _sinks entry per registration), NOT the statement's: such rule sets are outside
   wf and the check does not judge them.  What this says for every rule set: no add_rule - re-mapping or not -
   ever stops a sink or takes a registration away. *)
Theorem C18_start_stop_count : forall i, wf_base i -> forall k o so s,
  nth_error (ops i) k = Some o -> nth_error (o_steps (model i)) k = Some so -> s < n_sinks i ->
  let past := firstn k (ops i) in
  filter is_start_stop (nth s (s_new so) []) =
    match o with
    | Start => repeat StartRun (count s (registered i past))
    | Stop => repeat StopRun (count s (registered i past))
    | AddPrefix s' _ _ ss | AddId s' _ ss => if Nat.eqb s' s && ss && in_run past then [StartRun] else []
    | Status _ _ => []
    | AddRej _ _ _ => []
    end.
Proof. exact start_stop_count. Qed.
Print Assumptions C18_start_stop_count.

(* "once per run", inside the quantifier (wf: every sink registered at most once; it may serve any number of
   rules, be the fallback as well, and its rules may be re-mapped): exactly one startTestRun (stopTestRun) at
   every startTestRun (stopTestRun) after the sink's registration, one startTestRun at once when it is registered
   during a run, nothing else - in particular a sink whose rule is re-mapped is not stopped and keeps its
   registration, and a sink is never stopped while a rule still routes to it except by the caller's stopTestRun. *)
Theorem C18_start_stop : forall i, wf i -> forall k o so s,
  nth_error (ops i) k = Some o -> nth_error (o_steps (model i)) k = Some so -> s < n_sinks i ->
  let past := firstn k (ops i) in
  filter is_start_stop (nth s (s_new so) []) =
    match o with
    | Start => if memb s (registered i past) then [StartRun] else []
    | Stop => if memb s (registered i past) then [StopRun] else []
    | AddPrefix s' _ _ ss | AddId s' _ ss => if Nat.eqb s' s && ss && in_run past then [StartRun] else []
    | Status _ _ => []
    | AddRej _ _ _ => []
    end.
Proof. exact start_stop. Qed.
Print Assumptions C18_start_stop.

(* the same over the whole history - "exactly once per run": a sink never registered receives no
   startTestRun/stopTestRun at all; the fallback of a router built with do_start_stop_run receives
   exactly the caller's starts and stops, in order; a sink registered by the k-th call receives
   startTestRun at once if a run is in progress and from then on exactly the caller's starts and
   stops, in order (so one start and one stop per run, including the stop of the run it joined) -
   whether or not its rule is re-mapped later and whatever other rules it serves *)
Theorem C18_start_stop_log : forall i, wf i -> forall s, s < n_sinks i ->
  let log := ss_log s (o_steps (model i)) in
  (count s (registered i (ops i)) = 0 -> log = [])
  /\ (fb i = Some s -> fb_ss i = true -> log = flat_map ss_of_op (ops i))
  /\ (forall k o, nth_error (ops i) k = Some o -> In s (registration o) ->
        log = (if in_run (firstn k (ops i)) then [StartRun] else []) ++ flat_map ss_of_op (skipn (S k) (ops i))).
Proof. exact start_stop_log. Qed.
Print Assumptions C18_start_stop_log.

(* wf = the base conditions + every sink registered at most once; the earlier hypothesis (sinks of different
   rules and the fallback distinct, one rule per key) is a special case *)
Theorem C18_wf_once : forall i, wf i -> wf_base i /\ forall s, reg_once i s.
Proof. exact (fun i H => conj (wf_is_base i H) (wf_once i H)). Qed.
Print Assumptions C18_wf_once.
Theorem C18_distinct_once : forall i, wf_distinct i -> forall s, reg_once i s.
Proof. exact distinct_once. Qed.
Print Assumptions C18_distinct_once.

(* a rejected add_rule (ValueError / TypeError, whatever its sink, its do_start_stop_run and the point
   of the history) leaves no trace: the call raises, no sink receives anything, and every other call
   of the history - before and after it - is observed exactly as in the history without that call.
   With C18_start_stop_log (whose `registered` skips rejected calls): the sink of a rejected call is
   not started, never receives start/stop because of it, and a corrected retry registers it once. *)
Theorem C18_rejected : forall n f fs l1 l2 s w ss,
  let os := o_steps (model {| n_sinks := n; fb := f; fb_ss := fs; ops := l1 ++ l2 |}) in
  o_steps (model {| n_sinks := n; fb := f; fb_ss := fs; ops := l1 ++ AddRej s w ss :: l2 |})
  = firstn (length l1) os ++ {| s_raised := true; s_new := repeat [] n |} :: skipn (length l1) os
  /\ o_round (model {| n_sinks := n; fb := f; fb_ss := fs; ops := l1 ++ AddRej s w ss :: l2 |})
     = o_round (model {| n_sinks := n; fb := f; fb_ss := fs; ops := l1 ++ l2 |}).
Proof. exact rejected_no_trace. Qed.
Print Assumptions C18_rejected.

(* a registration lasts: registered at the call after the add_rule, and from then on *)
Theorem C18_registered : forall i j k s o,
  (nth_error (ops i) k = Some o -> In s (registration o) -> memb s (registered i (firstn (S k) (ops i))) = true)
  /\ (j <= k -> memb s (registered i (firstn j (ops i))) = true -> memb s (registered i (firstn k (ops i))) = true).
Proof. exact (fun i j k s o => conj (registered_at i k s o) (registered_mono i j k s)). Qed.
Print Assumptions C18_registered.

(* the correspondence compares observations exactly *)
Theorem C18_obs_eqb : forall a b, obs_eqb a b = true <-> a = b.
Proof. exact obs_eqb_spec. Qed.
Print Assumptions C18_obs_eqb.

(* non-vacuity of the re-mapping / shared-sink clauses: sink 1 serves prefix 0 and test id 1 and is registered
   once; during a run prefix 0 is re-mapped to sink 2: sink 1 is NOT stopped, still gets the test-id events
   and the caller's stopTestRun and the next run's start/stop; prefix-0 events go to sink 2 only *)
Example C18_example_remap :
  let e := Ev (Some 1) (Some 4) None true None None false None (Some [0; 3]) None in
  let e' := Ev (Some 1) (Some 4) None true None None false None None None in
  let i := {| n_sinks := 3; fb := None; fb_ss := false;
              ops := [AddPrefix 1 0 false true; AddId 1 (Some 1) false; Start; Status [] e;
                      AddPrefix 2 0 true true; Status [] e; Status [] e'; Stop; Start; Stop] |} in
  wf i /\ reg_once i 1 /\ reg_once i 2 /\ ~ wf_distinct i
  /\ map s_new (o_steps (model i))
     = [ [[]; []; []]; [[]; []; []]; [[]; [StartRun]; []]; [[]; [St e]; []];
         [[]; []; [StartRun]]; [[]; []; [St (set_route e (Some [3]))]]; [[]; [St e']; []];
         [[]; [StopRun]; [StopRun]]; [[]; [StartRun]; [StartRun]]; [[]; [StopRun]; [StopRun]] ].
Proof.
  repeat split; try (vm_compute; reflexivity); try (vm_compute; lia).
Qed.

(* non-vacuity: a fallback registered for start/stop, an add_rule rejected during a run with
   do_start_stop_run and retried with the same sink (a consuming prefix rule, started once), a
   test-id rule without; an event pushed through StreamToQueue(2) and
   StreamToQueue(0) pops back; the string-level hypotheses are satisfiable *)
Example C18_example :
  let e := Ev (Some 1) (Some 4) None true None None false None (Some [3; 4]) None in
  let i := {| n_sinks := 3; fb := Some 0; fb_ss := true;
              ops := [Start; AddRej 1 4 true; AddPrefix 1 0 true true; AddId 2 (Some 1) false;
                      Status [2; 0] e; Status [] e; Stop] |} in
  wf i /\ wf_distinct i
  /\ o_steps (model i)
     = [ {| s_raised := false; s_new := [[StartRun]; []; []] |};
         {| s_raised := true; s_new := [[]; []; []] |};
         {| s_raised := false; s_new := [[]; [StartRun]; []] |};
         {| s_raised := false; s_new := [[]; []; []] |};
         {| s_raised := false; s_new := [[]; [St (set_route e (Some [2; 3; 4]))]; []] |};
         {| s_raised := false; s_new := [[]; []; [St e]] |};
         {| s_raised := false; s_new := [[StopRun]; [StopRun]; []] |} ]
  /\ o_round (model i) = [Some [3; 4]; Some [3; 4]]
  /\ (forall s, (fun s => [48 + s]) s <> []) /\ (forall s, ~ In slash ((fun s => [48 + s]) s)).
Proof.
  repeat split; try (vm_compute; reflexivity); try discriminate.
  intros s [H|[]]. unfold slash in H. lia.
Qed.

(* add_rule made by a sink from inside its own startTestRun while the run is being opened (the loop of
   StreamResultRouter.startTestRun walks the LIVE _sinks list, start_reentrant): the calls deliver nothing themselves
   and the startTestRun delivers exactly what a startTestRun issued after them delivers - every registered sink,
   old and new, started once.  This is the shape in which the correspondence observes such histories. *)
Theorem C18_reentrant_start : forall r k adds,
  r_in_run r = false -> k < length (r_sinks r) -> forallb is_add adds = true ->
  Forall (fun out => out = (false, [])) (run r adds)
  /\ start_reentrant r k adds = step (apply_adds r adds) Start.
Proof. exact reentrant_start_is_adds_then_start. Qed.
Print Assumptions C18_reentrant_start.

Theorem C18_reentrant_start_once : forall r k adds s,
  r_in_run r = false -> k < length (r_sinks r) -> forallb is_add adds = true ->
  count_occ Nat.eq_dec (map fst (snd (snd (start_reentrant r k adds)))) s
  = count_occ Nat.eq_dec (r_sinks (apply_adds r adds)) s.
Proof. exact reentrant_start_once. Qed.
Print Assumptions C18_reentrant_start_once.

(* non-vacuity: the fallback (sink 0, registered) installs two rules when it is started; sink 1 asks for start/stop *)
Example C18_reentrant_example :
  let r := init (Some 0) true in
  let adds := [AddPrefix 1 0 true true; AddId 2 (Some 0) false] in
  r_in_run r = false /\ 0 < length (r_sinks r) /\ forallb is_add adds = true
  /\ snd (snd (start_reentrant r 0 adds)) = [(0, StartRun); (1, StartRun)].
Proof. vm_compute. repeat split; auto. Qed.
