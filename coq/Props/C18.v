(* C18 - placeholder while the correspondence is being validated. *)
From TT Require Import Lib.Base Model.Router Spec.C18 Corr.C18 Proof.C18.
