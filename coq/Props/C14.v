(* C14 - Deferred-returning tests succeed iff all completed cleanly; reactor left clean (PARTIAL:
   the reactor, Twisted's Deferred sequencing, GC of Deferreds and the log publisher are MODELLED
   (Model/AsyncRun.v), tied to the code by the correspondence check over a virtual-time reactor).
   Only statements; every proof is `exact <lemma of Proof/C14.v>`.  All theorems quantify over
   every program: any stage behaviours, any number of cleanups, any delays relative to the
   timeout, any interrupt instant, both variants, all logging options, any number of observers. *)
From TT Require Import Lib.Base Model.Reactor Model.AsyncRun Spec.C14 Corr.C14 Gen.Spinnertabs Proof.C14.

(* The model meets the whole statement.  wf (ForBrokenTwisted: no stage Deferred due exactly at the cut
   instant) is where the model is claimed to be faithful to the code; the model itself meets the
   statement for every program whatsoever (C14_holds_all). *)
Theorem C14_holds : forall i : input, wf i -> spec_okb i (model i) = true.
Proof. exact model_meets_spec_wf. Qed.
Print Assumptions C14_holds.

Theorem C14_holds_all : forall i : input, spec_okb i (model i) = true.
Proof. exact model_meets_spec. Qed.
Print Assumptions C14_holds_all.

(* the executable statement is the readable one *)
Theorem C14_statement : forall i o, spec_okb i o = true <-> Spec i o.
Proof. exact spec_okb_iff. Qed.
Print Assumptions C14_statement.

(* the correspondence compares exactly what the statement pins down: everything observed except what
   propagates out of run() (C01's clause) and the number of cleanups still registered (see Corr.C14.alpha) *)
Theorem C14_obs_eqb : forall a b, obs_eqb a b = true <-> alpha a = alpha b.
Proof. exact obs_eqb_spec. Qed.
Print Assumptions C14_obs_eqb.

(* sequencing: the stages that ran are an initial segment of the plan; the first starts at 0; each further
   one starts at exactly the instant at which its predecessor fired, and that was before the cut *)
Theorem C14_sequencing : forall p,
  (exists rest, map fst (plan p) = map fst (o_log (model p)) ++ rest)
  /\ (forall k u l, o_log (model p) = (k, u) :: l -> k = id_setup /\ u = 0)
  /\ (forall l1 k1 t1 k2 t2 l2, o_log (model p) = l1 ++ (k1, t1) :: (k2, t2) :: l2 ->
      exists st1, In (k1, st1) (plan p) /\ fires_at (cut_instant p) t1 st1 = Some t2 /\ t1 <= t2).
Proof. exact sequencing_words. Qed.
Print Assumptions C14_sequencing.

(* ... where the plan is setUp, test and tearDown (unless setUp failed), then the cleanups LAST REGISTERED
   FIRST; and when nothing cut the run short every one of them ran and none stays registered *)
Theorem C14_lifo : forall p,
  map fst (plan p) =
    id_setup :: (if stage_raises (i_setup p) then [] else [id_body; id_teardown])
    ++ rev (map id_cleanup (seq 0 (length (i_cleanups p))))
  /\ (completed p = true ->
      o_cleanups_left (model p) = 0 /\ map fst (o_log (model p)) = map fst (plan p)).
Proof. exact (fun p => conj (plan_ids p) (cleanups_all_run p)). Qed.
Print Assumptions C14_lifo.

(* a Deferred-returning stage fires exactly d ticks after it started, strictly before the cut *)
Theorem C14_fires : forall C t st t',
  fires_at C t st = Some t' ->
  t <= t' /\ (forall d f, s_ret st = RLater d f -> t' = t + d /\ t' < C).
Proof. exact fires_at_bounds. Qed.
Print Assumptions C14_fires.

Theorem C14_one_outcome : forall p,
  exists x, o_events (model p) = [StartTest; x; StopTest] /\ In x [AddSuccess; AddError; AddFailure; AddSkip].
Proof. exact one_outcome_holds. Qed.
Print Assumptions C14_one_outcome.

(* success iff every planned stage fired before the cut, none raised / failed / logged an error / dropped
   a failed Deferred / started a poller, and no leftover delayed call was still scheduled at the end *)
Theorem C14_success_iff : forall p,
  In AddSuccess (o_events (model p))
  <-> completed p = true /\ all_clean p = true /\ o_unrun (model p) = 0.
Proof. exact success_iff. Qed.
Print Assumptions C14_success_iff.

(* for programs that leave no delayed call behind, the verdict is decided by the program and the timing alone *)
Theorem C14_success_iff_no_leftovers : forall p,
  no_leftovers p ->
  (In AddSuccess (o_events (model p)) <-> completed p = true /\ all_clean p = true).
Proof. exact success_iff_no_leftovers. Qed.
Print Assumptions C14_success_iff_no_leftovers.

(* timeout or interrupt: an error; result.stop() exactly for an interrupt *)
Theorem C14_cut_is_error : forall p,
  completed p = false ->
  o_events (model p) = [StartTest; AddError; StopTest]
  /\ (o_stop (model p) = true <-> cut_kind p = KInterrupt).
Proof. exact cut_is_error. Qed.
Print Assumptions C14_cut_is_error.

Theorem C14_no_stop_otherwise : forall p, completed p = true -> o_stop (model p) = false.
Proof. exact no_stop_without_interrupt. Qed.
Print Assumptions C14_no_stop_otherwise.

(* after every run the reactor holds no delayed call and the observers are those installed before *)
Theorem C14_clean : forall p, o_pending (model p) = 0 /\ o_observers_same (model p) = true.
Proof. exact left_clean. Qed.
Print Assumptions C14_clean.

(* ... because Spinner._clean cancels every call of a fresh getDelayedCalls() list: whatever the queue *)
Theorem C14_spinner_clean : forall q : list (dcall bool), spinner_clean q = [].
Proof. exact spinner_clean_nil. Qed.
Print Assumptions C14_spinner_clean.

(* ... and the fixtures' cleanups undo, in reverse, what their set-ups did: any number of observers, every
   combination of suppress_twisted_logging / store_twisted_logs *)
Theorem C14_observers : forall p, observers_after p = initial_observers p.
Proof. exact observers_restored. Qed.
Print Assumptions C14_observers.

(* table obligations (coq/Gen/Spinnertabs.v is printed from the imported code on every run) *)
Theorem C14_tab_iterations :
  runner_iterations = spinner_iterations /\ runner_iterations <= broken_runner_iterations.
Proof. exact (conj tab_plain_is_spinner_default tab_iterations_le). Qed.
Print Assumptions C14_tab_iterations.

(* the ForBrokenTwisted variant never finds more junk than the plain one in the same situation *)
Theorem C14_variants : forall p q m,
  i_broken p = true -> i_broken q = false -> incl (junk_of p m) (junk_of q m).
Proof. exact broken_shakes_out. Qed.
Print Assumptions C14_variants.

(* non-vacuity: a failing asynchronous body, an asynchronous tearDown, two cleanups of which the first
   registered raises KeyboardInterrupt (the F11 shape): everything runs, in order, error reported; the same
   program cut by a timeout of 3; a clean asynchronous test that succeeds; a leftover delayed call *)
Example C14_example :
  let st r := mkStage r [] false false false in
  let p T := mkProgram false true true 1 T None (st RReturn) (st (RLater 2 (Some CFail))) (st (RLater 2 None))
                       [st (RRaise CKbd); st (RLater 1 None)] in
  wf (p 9)
  /\ o_log (model (p 9)) = [(0, 0); (1, 0); (2, 2); (11, 4); (10, 5)]
  /\ o_events (model (p 9)) = [StartTest; AddError; StopTest]
  /\ o_raised (model (p 9)) = Some CKbd /\ o_cleanups_left (model (p 9)) = 0
  /\ o_log (model (p 3)) = [(0, 0); (1, 0); (2, 2)]
  /\ o_events (model (p 3)) = [StartTest; AddError; StopTest] /\ o_cleanups_left (model (p 3)) = 2
  /\ o_events (model (mkProgram true false false 0 9 (Some 20) (st RReturn) (st (RLater 8 None)) (st RReturn)
                         [st (RLater 0 None)])) = [StartTest; AddSuccess; StopTest]
  /\ o_events (model (mkProgram false true true 0 9 None (st RReturn) (mkStage RReturn [3] false false false)
                         (st RReturn) [])) = [StartTest; AddError; StopTest].
Proof. vm_compute. repeat split. Qed.
