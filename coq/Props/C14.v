(* C14 - Deferred-returning tests succeed iff all completed cleanly; reactor left clean (PARTIAL:
   the reactor, Twisted's Deferred sequencing, GC of Deferreds and the log publisher are MODELLED
   (Model/AsyncRun.v), tied to the code by the correspondence check over a virtual-time reactor).
   Only statements; every proof is `exact <lemma of Proof/C14.v>`.  All theorems quantify over
   every program: any stage behaviours, any number of cleanups, any delays relative to the
   timeout, any interrupt instant, both variants, all logging options, any number of observers. *)
From TT Require Import Lib.Base Model.Reactor Model.AsyncRun Spec.C14 Corr.C14 Gen.Spinnertabs Proof.C14.

(* The model meets the whole statement, for every program of the input type (wf is trivially true since
   round 3: ties at the cut instant, both reactor disciplines and the obligatory iterations are modelled). *)
Theorem C14_holds : forall i : input, wf i -> spec_okb i (model i) = true.
Proof. exact model_meets_spec_wf. Qed.
Print Assumptions C14_holds.

Theorem C14_holds_all : forall i : input, spec_okb i (model i) = true.
Proof. exact model_meets_spec. Qed.
Print Assumptions C14_holds_all.

(* the executable statement is the readable one *)
Theorem C14_statement : forall i o, spec_okb i o = true <-> Spec i o.
Proof. exact spec_okb_iff. Qed.
Print Assumptions C14_statement.

(* the correspondence compares exactly what the statement pins down: everything observed except what
   propagates out of run() (C01's clause) and the number of cleanups still registered (see Corr.C14.alpha) *)
Theorem C14_obs_eqb : forall a b, obs_eqb a b = true <-> alpha a = alpha b.
Proof. exact obs_eqb_spec. Qed.
Print Assumptions C14_obs_eqb.

(* clause 1, for the model: the stage log is a walk along the plan (Spec.C14.Walk): each logged stage
   started at the instant its predecessor completed; the walk goes on after a stage that completed before
   the cut, stops at one due after it or never, and may go either way at one due exactly at the cut *)
Theorem C14_walk : forall p, Walk (cut_instant p) 0 (plan p) (o_log (model p)).
Proof. exact model_log. Qed.
Print Assumptions C14_walk.

Theorem C14_walk_checker : forall C pl t log, log_okb C t pl log = true <-> Walk C t pl log.
Proof. exact log_okb_walk. Qed.
Print Assumptions C14_walk_checker.

(* ... in words: the stages that ran are an initial segment of the plan; the first starts at 0; each further
   one starts at exactly the instant at which its predecessor completed - at once, or when the chain of the
   Deferred it returned was over, not after the cut instant *)
Theorem C14_sequencing : forall p,
  (exists rest, map fst (plan p) = map fst (o_log (model p)) ++ rest)
  /\ (forall k u l, o_log (model p) = (k, u) :: l -> k = id_setup /\ u = 0)
  /\ (forall l1 k1 t1 k2 t2 l2, o_log (model p) = l1 ++ (k1, t1) :: (k2, t2) :: l2 ->
      exists st1, In (k1, st1) (plan p)
                  /\ ((completes t1 st1 = Immediately /\ t2 = t1)
                      \/ (completes t1 st1 = At t2 /\ t2 <= cut_instant p))).
Proof. exact sequencing_words. Qed.
Print Assumptions C14_sequencing.

(* a stage that hands over an ALREADY FIRED Deferred whose chain is paused on an inner one (RChained) is over
   exactly when a stage returning the unfired inner Deferred (RLater) would be: d ticks after it started *)
Theorem C14_chained : forall t st,
  (forall d f, s_ret st = RLater d f \/ s_ret st = RChained d f -> completes t st = At (t + d))
  /\ (s_ret st = RNever -> completes t st = NeverC)
  /\ (completes t st = Immediately ->
      s_ret st = RReturn \/ (exists c, s_ret st = RRaise c) \/ (exists f, s_ret st = RFired f)).
Proof. exact completes_later. Qed.
Print Assumptions C14_chained.

(* ... where the plan is setUp, test and tearDown (unless setUp failed), then the cleanups LAST REGISTERED
   FIRST; and when nothing cut the run short every one of them ran and none stays registered *)
Theorem C14_lifo : forall p,
  map fst (plan p) =
    id_setup :: (if stage_raises (i_setup p) then [] else [id_body; id_teardown])
    ++ rev (map id_cleanup (seq 0 (length (i_cleanups p))))
  /\ (completed p = true ->
      o_cleanups_left (model p) = 0 /\ map fst (o_log (model p)) = map fst (plan p)).
Proof. exact (fun p => conj (plan_ids p) (cleanups_all_run p)). Qed.
Print Assumptions C14_lifo.

(* a Deferred-returning stage counts as completed within the timeout only strictly before the cut *)
Theorem C14_fires : forall C t st t',
  fires_at C t st = Some t' ->
  t <= t' /\ (forall d f, s_ret st = RLater d f \/ s_ret st = RChained d f -> t' = t + d /\ t' < C).
Proof. exact fires_at_bounds. Qed.
Print Assumptions C14_fires.

(* ... so a Deferred due exactly AT the cut instant has lost, whatever the reactor still runs afterwards *)
Theorem C14_tie_loses : forall p pl1 L tk k st r,
  plan p = pl1 ++ (k, st) :: r -> Go (cut_instant p) 0 pl1 L tk -> completes tk st = At (cut_instant p) ->
  completed p = false.
Proof. exact tie_loses. Qed.
Print Assumptions C14_tie_loses.

Theorem C14_one_outcome : forall p,
  exists x, o_events (model p) = [StartTest; x; StopTest] /\ In x [AddSuccess; AddError; AddFailure; AddSkip].
Proof. exact one_outcome_holds. Qed.
Print Assumptions C14_one_outcome.

(* success iff every planned stage fired before the cut, none raised / failed / logged an error / dropped
   a failed Deferred / started a poller, and no leftover delayed call was still scheduled at the end *)
Theorem C14_success_iff : forall p,
  In AddSuccess (o_events (model p))
  <-> completed p = true /\ all_clean p = true /\ o_unrun (model p) = 0.
Proof. exact success_iff. Qed.
Print Assumptions C14_success_iff.

(* for programs that leave no delayed call behind, the verdict is decided by the program and the timing alone *)
Theorem C14_success_iff_no_leftovers : forall p,
  no_leftovers p ->
  (In AddSuccess (o_events (model p)) <-> completed p = true /\ all_clean p = true).
Proof. exact success_iff_no_leftovers. Qed.
Print Assumptions C14_success_iff_no_leftovers.

(* timeout or interrupt: an error; result.stop() exactly for an interrupt *)
Theorem C14_cut_is_error : forall p,
  completed p = false ->
  o_events (model p) = [StartTest; AddError; StopTest]
  /\ (o_stop (model p) = true <-> cut_kind p = KInterrupt).
Proof. exact cut_is_error. Qed.
Print Assumptions C14_cut_is_error.

Theorem C14_no_stop_otherwise : forall p, completed p = true -> o_stop (model p) = false.
Proof. exact no_stop_without_interrupt. Qed.
Print Assumptions C14_no_stop_otherwise.

(* after every run the reactor holds no delayed call and the observers are those installed before *)
Theorem C14_clean : forall p, o_pending (model p) = 0 /\ o_observers_same (model p) = true.
Proof. exact left_clean. Qed.
Print Assumptions C14_clean.

(* ... because Spinner._clean cancels every call of a fresh getDelayedCalls() list: whatever the queue *)
Theorem C14_spinner_clean : forall q : list (dcall bool), spinner_clean q = [].
Proof. exact spinner_clean_nil. Qed.
Print Assumptions C14_spinner_clean.

(* ... and the fixtures' cleanups undo, in reverse, what their set-ups did: any number of observers, every
   combination of suppress_twisted_logging / store_twisted_logs *)
Theorem C14_observers : forall p, observers_after p = initial_observers p.
Proof. exact observers_restored. Qed.
Print Assumptions C14_observers.

(* table obligations (coq/Gen/Spinnertabs.v is printed from the imported code on every run) *)
Theorem C14_tab_iterations :
  runner_iterations = spinner_iterations /\ runner_iterations <= broken_runner_iterations.
Proof. exact (conj tab_plain_is_spinner_default tab_iterations_le). Qed.
Print Assumptions C14_tab_iterations.

(* the ForBrokenTwisted variant never leaves more leftover calls than the plain one in the same situation *)
Theorem C14_variants : forall m,
  incl (m_pending (settle broken_runner_iterations m)) (m_pending (settle runner_iterations m)).
Proof. exact broken_shakes_out. Qed.
Print Assumptions C14_variants.

(* non-vacuity: a failing asynchronous body, an asynchronous tearDown, two cleanups of which the first
   registered raises KeyboardInterrupt (the F11 shape): everything runs, in order, error reported; the same
   program cut by a timeout of 3; a clean asynchronous test that succeeds; a leftover delayed call; a cleanup
   that hands over a fired-but-paused Deferred is waited for; a test whose Deferred is due exactly at the
   timeout: error - on a batch reactor the stages behind it still run (at instant 9), the verdict stands *)
Example C14_example :
  let st r := mkStage r [] false false false in
  let p T := mkProgram false false true true 1 T None (st RReturn) (st (RLater 2 (Some CFail))) (st (RLater 2 None))
                       [st (RRaise CKbd); st (RLater 1 None)] in
  let tie batch := mkProgram false batch true true 0 9 None (st RReturn) (st (RLater 9 None)) (st RReturn)
                             [st (RFired None)] in
  wf (p 9)
  /\ o_log (model (p 9)) = [(0, 0); (1, 0); (2, 2); (11, 4); (10, 5)]
  /\ o_events (model (p 9)) = [StartTest; AddError; StopTest]
  /\ o_raised (model (p 9)) = Some CKbd /\ o_cleanups_left (model (p 9)) = 0
  /\ o_log (model (p 3)) = [(0, 0); (1, 0); (2, 2)]
  /\ o_events (model (p 3)) = [StartTest; AddError; StopTest] /\ o_cleanups_left (model (p 3)) = 2
  /\ o_events (model (mkProgram true false false false 0 9 (Some 20) (st RReturn) (st (RLater 8 None)) (st RReturn)
                         [st (RLater 0 None)])) = [StartTest; AddSuccess; StopTest]
  /\ o_events (model (mkProgram false false true true 0 9 None (st RReturn) (mkStage RReturn [3] false false false)
                         (st RReturn) [])) = [StartTest; AddError; StopTest]
  /\ (let q := mkProgram false true true true 0 9 None (st RReturn) (st RReturn) (st RReturn)
                         [st RReturn; st (RChained 2 None)] in
      o_log (model q) = [(0, 0); (1, 0); (2, 0); (11, 0); (10, 2)]
      /\ o_events (model q) = [StartTest; AddSuccess; StopTest])
  /\ o_log (model (tie false)) = [(0, 0); (1, 0)] /\ o_events (model (tie false)) = [StartTest; AddError; StopTest]
  /\ o_log (model (tie true)) = [(0, 0); (1, 0); (2, 9); (10, 9)]
  /\ o_events (model (tie true)) = [StartTest; AddError; StopTest] /\ completed (tie true) = false.
Proof. vm_compute. repeat split. Qed.
