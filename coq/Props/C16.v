(* C16 - placeholder while the correspondence is being validated *)
From TT Require Import Lib.Base Model.Utf8 Model.MimeCt Model.Content Spec.C16 Corr.C16 Proof.C16.
Example C16_example : model (IText [104%N]) = OText (canon_ct Gen.Ctc16.UTF8_TEXT) [104%N] (Ok [104%N]).
Proof. vm_compute. reflexivity. Qed.
