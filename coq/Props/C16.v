(* C16 - Content is lossless and independent of chunking.
   Only statements; every proof is `exact <lemma of Proof/C16.v or Proof/Utf8Sweep.v>`. *)
From Coq Require Import String Permutation.
From TT Require Import Lib.Base Lib.Sort Model.Utf8 Model.MimeCt Model.Content Spec.C16 Corr.C16 Proof.Utf8Sweep Proof.C16.

(* The model meets the whole statement on every input of the eleven scenario kinds: every text over Unicode scalar
   values, every chunk list, every byte string under all its splits, every source content / position / seek offset
   (any integer) / origin / chunk_size >= 1 / buffer_now / read-size oracle of the stream (any sequence of short
   reads), every mutable list and mutation sequence, every pair of contents, every history of reads on one content
   object (any number of readers created, advanced alternately, abandoned, drained), every content type of the modelled
   domain - outside the known finding F16 (full statement: the same without the finding_F16 hypothesis; it is false,
   see C16_refuted_F16). *)
Theorem C16_holds : forall i : input, wf i = true -> finding_F16 i = false -> spec_okb i (model i) = true.
Proof. exact model_meets_spec. Qed.
Print Assumptions C16_holds.

(* F16: a content type inside the modelled domain (and inside the property's quantifier: lower-case token
   type/subtype, no quote character) that does not survive repr + _make_content_type: text/plain; a="b\c". *)
Theorem C16_refuted_F16 : exists i, wf i = true /\ finding_F16 i = true /\ spec_okb i (model i) = false.
Proof. exact refuted_F16. Qed.
Print Assumptions C16_refuted_F16.

(* the executable statement implies the readable one (Spec.C16.Spec) *)
Theorem C16_statement : forall i o, spec_okb i o = true -> Spec i o.
Proof. exact spec_okb_sound. Qed.
Print Assumptions C16_statement.

(* the correspondence compares observations exactly, up to re-chunking of byte streams
   (alpha keeps the joined bytes and whether every chunk is non-empty) *)
Theorem C16_obs_eqb : forall a b, obs_eqb a b = true <-> alpha a = alpha b.
Proof. exact obs_eqb_spec. Qed.
Print Assumptions C16_obs_eqb.

(* ---- bytes: what iter_bytes yields is what the source yields ---- *)
Theorem C16_bytes :
  (forall ct cs w, iter_bytes {| c_type := ct; c_src := Stored cs |} w = (Ok cs, w))
  /\ (forall s w, iter_bytes (text_content s) w = (Ok [utf8_encode s], w))
  /\ (forall ct k n sk w p, 1 <= n -> start_of k (length (w_data w)) (w_pos w) sk = Ok p ->
        exists cs w', iter_bytes {| c_type := ct; c_src := Live k n sk |} w = (Ok cs, w')
                      /\ concat cs = skipn p (w_data w) /\ w_data w' = w_data w).
Proof. exact (conj bytes_stored (conj bytes_text bytes_live)). Qed.
Print Assumptions C16_bytes.

(* ---- chunking: proved once for EVERY decoder that is a fold of a byte automaton: the pieces _iter_text yields
   (one decoder, every chunk in order, one flush), joined, are the whole-string decode of the joined bytes;
   in particular an undecodable string is an error under every split ---- *)
Theorem C16_chunking : forall (C : codec) (chunks : list chunk),
  option_map (@concat N) (iter_text_loop C (dinit C) chunks) = decode_whole C (concat chunks).
Proof. exact chunking. Qed.
Print Assumptions C16_chunking.

(* ... instantiated: as_text of a text content in either charset (any spelling codec_of knows, or none) is the
   whole-string decode, however the bytes are cut *)
Theorem C16_chunking_as_text : forall C ct chunks w,
  ct_type ct = sb "text" -> codec_of (declared_charset ct) = Some C ->
  fst (as_text {| c_type := ct; c_src := Stored chunks |} w) = whole C (concat chunks).
Proof. exact as_text_whole. Qed.
Print Assumptions C16_chunking_as_text.

Theorem C16_chunking_indep : forall ct c1 c2 w, concat c1 = concat c2 ->
  fst (as_text {| c_type := ct; c_src := Stored c1 |} w) = fst (as_text {| c_type := ct; c_src := Stored c2 |} w).
Proof. exact as_text_split_indep. Qed.
Print Assumptions C16_chunking_indep.

Theorem C16_chunking_utf8_error : forall chunks,
  decode_whole utf8 (concat chunks) = None <-> iter_text_loop utf8 U0 chunks = None.
Proof. exact utf8_undecodable_every_split. Qed.
Print Assumptions C16_chunking_utf8_error.

Theorem C16_latin1_total : forall bs, decode_whole latin1 bs = Some bs.
Proof. exact latin1_total. Qed.
Print Assumptions C16_latin1_total.

(* the enumeration the correspondence uses for "every split" misses none *)
Theorem C16_splits_complete : forall l s, Forall (fun c => c <> []) s -> concat s = l -> In s (splits l).
Proof. exact splits_complete. Qed.
Print Assumptions C16_splits_complete.

(* ---- text round trip.  Per code point: exhaustive sweep over 0 .. 0x10FFFF (17 planes of 2^16; the 1,112,064
   scalar values are checked, the 2,048 surrogates are exempt), Proof/Utf8Sweep.v; strings: induction, using that
   the automaton is back in its initial state after every encoded code point ---- *)
Theorem C16_utf8_code_point : forall c, is_scalar c = true -> feed utf8 U0 (utf8_enc1 c) = Some (U0, [c]).
Proof. exact utf8_enc1_decodes. Qed.
Print Assumptions C16_utf8_code_point.

Theorem C16_utf8_roundtrip : forall s, forallb is_scalar s = true -> decode_whole utf8 (utf8_encode s) = Some s.
Proof. exact utf8_roundtrip. Qed.
Print Assumptions C16_utf8_roundtrip.

Theorem C16_text_roundtrip : forall s w, forallb is_scalar s = true -> as_text (text_content s) w = (Ok s, w).
Proof. exact text_roundtrip. Qed.
Print Assumptions C16_text_roundtrip.

(* ---- json_content: for EVERY dumps function the bytes are the UTF-8 of dumps d (loads . dumps = id is json's
   contract and is not modelled) ---- *)
Theorem C16_json : forall (J : Type) (dumps : J -> list N) d w,
  iter_bytes (json_content J dumps d) w = (Ok [utf8_encode (dumps d)], w)
  /\ c_type (json_content J dumps d) = Gen.Ctc16.JSON
  /\ (forallb is_scalar (dumps d) = true -> decode_whole utf8 (utf8_encode (dumps d)) = Some (dumps d)).
Proof. exact json_bytes. Qed.
Print Assumptions C16_json.

(* ---- _iter_chunks: for every data, offset (any integer), origin in {SEEK_SET, SEEK_END}, chunk_size >= 1, BytesIO or
   file, and EVERY read-size oracle w_sizes w (a stream whose read(n) returns any 1..n bytes while data remains:
   unbuffered pipe, socket, raw device): the supplied fuel (remaining length + 1) suffices, the chunks are non-empty, each <= chunk_size, and
   concatenate to the bytes from the start position - clamped as the stream clamps it - to EOF; one read per chunk
   plus the final empty one ---- *)
Theorem C16_iter_chunks : forall k n off wh w, 1 <= n ->
  match seek_pos k (length (w_data w)) off wh with
  | Ok p => exists cs, run_reader k n (Some (off, wh)) w = (Ok cs, after_read k w p (S (length cs)))
                       /\ Forall (fun c => c <> []) cs /\ Forall (fun c => length c <= n) cs
                       /\ concat cs = skipn p (w_data w)
  | Raised e => run_reader k n (Some (off, wh)) w = (Raised e, w)
  end.
Proof. exact iter_chunks_spec. Qed.
Print Assumptions C16_iter_chunks.

Theorem C16_iter_chunks_clamp : forall len off,
  seek_pos KBytesIO len off SeekEnd = Ok (Z.to_nat (Z.max 0 (Z.of_nat len + off))).
Proof. exact seek_bytesio_clamps. Qed.
Print Assumptions C16_iter_chunks_clamp.

(* the read loop under ANY oracle (sizes : list nat is arbitrary: entries are clamped to 1..n, an exhausted oracle
   means full reads): it stops at the empty read and at nothing else - a short read is not end of file *)
Theorem C16_read_loop : forall fuel data pos n sizes, 1 <= n -> length data - pos < fuel ->
  exists cs, read_loop fuel data pos n sizes = Some (cs, Nat.max pos (length data), S (length cs))
             /\ Forall (fun c => c <> []) cs /\ Forall (fun c => length c <= n) cs
             /\ concat cs = skipn pos data.
Proof. exact read_loop_spec. Qed.
Print Assumptions C16_read_loop.

(* ---- lazy: without buffer_now creation touches nothing (the world, read counter included, is unchanged) and every
   iteration runs the reader on the world as it is THEN; with buffer_now the reader runs at creation and later
   iterations return the stored chunks from any world without touching it ---- *)
Theorem C16_lazy :
  (forall k ct n sk w,
     content_from_source k ct n false sk w
     = (Ok {| c_type := match ct with None => Gen.Ctc16.UTF8_TEXT | Some c => c end; c_src := Live k n sk |}, w))
  /\ (forall ct k n sk w', iter_bytes {| c_type := ct; c_src := Live k n sk |} w' = run_reader k n sk w')
  /\ (forall k ct n sk w,
        match run_reader k n sk w with
        | (Ok cs, w1) => exists c, content_from_source k ct n true sk w = (Ok c, w1)
                                   /\ forall w', iter_bytes c w' = (Ok cs, w')
        | (Raised e, w1) => content_from_source k ct n true sk w = (Raised e, w1)
        end).
Proof. exact (conj lazy_creation (conj lazy_iteration buffered_creation)). Qed.
Print Assumptions C16_lazy.

(* ---- __eq__ <-> equal type and equal joined bytes ---- *)
Theorem C16_eq : forall ta ca tb cb w,
  fst (content_eq {| c_type := ta; c_src := Stored ca |} {| c_type := tb; c_src := Stored cb |} w) = Ok true
  <-> CtSame ta tb /\ concat ca = concat cb.
Proof. exact eq_iff. Qed.
Print Assumptions C16_eq.

(* ---- histories of reads on ONE content object: whatever readers were created before, however far each was
   advanced, in whatever interleaving, abandoned or drained - every COMPLETE read (as_text(), or all a reader
   collected from its first piece to exhaustion) is the whole-string decode of the joined bytes (an undecodable
   string: the error), for every decoder that is a fold of a byte automaton ---- *)
Theorem C16_history : forall C ct chunks oracle ops k t,
  ct_type ct = sb "text" -> codec_of (declared_charset ct) = Some C ->
  nth_error (read_history ct chunks oracle ops) k = Some (RRead t) -> t = whole C (concat chunks).
Proof. exact history_reads. Qed.
Print Assumptions C16_history.

Theorem C16_history_answers : forall ct chunks oracle ops,
  length (read_history ct chunks oracle ops) = length ops
  /\ forall k, nth_error ops k = Some HAsText -> exists t, nth_error (read_history ct chunks oracle ops) k = Some (RRead t).
Proof. exact history_answers. Qed.
Print Assumptions C16_history_answers.

(* ... because a reader owns its decoder: a new reader drained gives the whole-string decode; a next() in between
   does not change what the reader will hold at the end; draining twice changes nothing; an operation on reader j
   leaves every other reader as it was *)
Theorem C16_readers_independent : forall C,
  (forall chunks, ti_result C (ti_finish C (ti_fresh C chunks)) = whole C (concat chunks))
  /\ (forall it, ti_finish C (ti_step C it) = ti_finish C it)
  /\ (forall it, ti_finish C (ti_finish C it) = ti_finish C it)
  /\ (forall (its : list (titer C)) i j x, i <> j -> nth_error (upd j x its) i = nth_error its i).
Proof. exact readers_independent. Qed.
Print Assumptions C16_readers_independent.

(* ---- parse (render ct) = ct for wf_ct ---- *)
Theorem C16_mime_roundtrip : forall ct, wf_ct ct = true ->
  exists ct', make_content_type (render ct) = Ok ct' /\ CtSame ct' ct.
Proof. exact mime_roundtrip_same. Qed.
Print Assumptions C16_mime_roundtrip.

(* ---- snapshots: _copy_content puts the chunks into a NEW list object (a location that did not exist before, so
   shared with nothing - in particular not with a list the source's callback may have handed out); the copy has the
   type of the original and yields, from ANY later world that still has those chunks at that location and without
   touching it, exactly what the original yielded at copy time ---- *)
Theorem C16_snapshot : forall c w cp w1, copy_content c w = (Ok cp, w1) ->
  c_type cp = c_type c
  /\ exists cs w', iter_bytes c w = (Ok cs, w')
                   /\ c_src cp = InList (length (w_heap w))
                   /\ w_heap w1 = w_heap w ++ [cs]
                   /\ forall w2, heap_get (length (w_heap w)) (w_heap w2) = cs -> iter_bytes cp w2 = (Ok cs, w2).
Proof. exact snapshot. Qed.
Print Assumptions C16_snapshot.

(* ... hence no sequence of writes to locations that existed when the copy was made (the source's own list
   included) and no change of the stream/file reaches the copy *)
Theorem C16_snapshot_unaffected : forall c w cp w1 cs w',
  copy_content c w = (Ok cp, w1) -> iter_bytes c w = (Ok cs, w') ->
  forall writes : list (loc * list chunk), Forall (fun lv => fst lv < length (w_heap w)) writes ->
  forall d p r sz,
    let w2 := {| w_data := d; w_pos := p; w_reads := r;
                 w_heap := fold_left (fun h lv => heap_set (fst lv) (snd lv) h) writes (w_heap w1);
                 w_sizes := sz |} in
    iter_bytes cp w2 = (Ok cs, w2).
Proof. exact snapshot_unaffected. Qed.
Print Assumptions C16_snapshot_unaffected.

(* the tables read from the live code say what the model relies on *)
Theorem C16_tables : str_eqb (ct_type Gen.Ctc16.UTF8_TEXT) (sb "text") = true
                     /\ codec_of (declared_charset Gen.Ctc16.UTF8_TEXT) = Some utf8.
Proof. exact utf8_text_ct. Qed.
Print Assumptions C16_tables.

(* non-vacuity: an astral + combining + NUL text round-trips; a 3-byte sequence cut in the middle with an empty
   chunk in between decodes, its truncation raises under a split; a read loop over 5 bytes from offset -4 (SEEK_END)
   in chunks of 2; the same through a stream that hands out 1, then 1, then full reads; a reader abandoned inside a
   3-byte sequence, a second reader and as_text() interleaved with it, every complete read is the euro sign; an unbuffered content sees the later world, the snapshot does not; a copy gathered from a
   mutable list keeps its chunks when the list is cleared and refilled; a wf_ct type with two
   parameters round-trips; the F16 witness does not *)
Example C16_example :
  as_text (text_content [0x1F600; 0x65; 0x301; 0]%N) w0 = (Ok [0x1F600; 0x65; 0x301; 0]%N, w0)
  /\ fst (as_text {| c_type := Gen.Ctc16.UTF8_TEXT; c_src := Stored [[0xE2; 0x82]; []; [0xAC]]%N |} w0) = Ok [0x20AC%N]
  /\ fst (as_text {| c_type := Gen.Ctc16.UTF8_TEXT; c_src := Stored [[0xE2]; [0x82]]%N |} w0) = Raised UnicodeDecodeError
  /\ fst (run_reader KBytesIO 2 (Some ((-4)%Z, SeekEnd)) (w_init [1; 2; 3; 4; 5]%N 0 [])) = Ok [[2; 3]; [4; 5]]%N
  /\ fst (run_reader KBytesIO 2 (Some ((-4)%Z, SeekEnd)) (w_init [1; 2; 3; 4; 5]%N 0 [1; 1])) = Ok [[2]; [3]; [4; 5]]%N
  /\ read_history Gen.Ctc16.UTF8_TEXT [[0xE2; 0x82]; [0xAC]]%N None
                  [HNew; HNext 0; HAsText; HNew; HNext 1; HNext 0; HFinish 1; HFinish 0]
     = [RNew None; RStepped; RRead (Ok [0x20AC%N]); RNew None; RStepped; RStepped; RRead (Ok [0x20AC%N]); RRead (Ok [0x20AC%N])]
  /\ (let c := {| c_type := Gen.Ctc16.UTF8_TEXT; c_src := Live KFile 2 None |} in
      match copy_content c (w_init [1; 2; 3]%N 0 []) with
      | (Ok cp, w1) => fst (iter_bytes cp (set_source w1 [9]%N 0)) = Ok [[1; 2]; [3]]%N
                       /\ fst (iter_bytes c (set_source w1 [9]%N 0)) = Ok [[9]]%N
      | _ => False
      end)
  /\ model (ISnapList {| sl_tuple := false; sl_buf := [[1]; [2]]%N; sl_ops := [LClear; LAppend [7%N]] |})
     = OSnapList true (Ok [[1]; [2]]%N) (Ok [[1]; [2]]%N) (Ok [[7]]%N)
  /\ wf_ct {| ct_type := sb "text"; ct_sub := sb "x-traceback";
              ct_params := [(sb "language", sb "python"); (sb "charset", sb "utf8")] |} = true
  /\ finding_F16 (IMime {| ct_type := sb "text"; ct_sub := sb "plain"; ct_params := [(sb "a", sb "b\c")] |}) = true.
Proof. vm_compute. repeat split. Qed.
