(* C11 - stream decorators forward each event once, change only their field, never alias.
   Only statements; every proof is `exact <lemma of Proof/C11.v>`. *)
From TT Require Import Lib.Base Model.Router Model.StreamDecor Gen.Failfast Spec.C11 Corr.C11 Proof.C11.

(* The imperative model (references into a store of mutable sets, StreamTagger allocating a new
   set, sinks keeping the reference they were given; a logged set read at the end of the run, the
   caller's own objects right after the call) meets the pure per-sink statement, for every
   decorator tree (any depth and fan-out), every store of caller-owned sets and EVERY history: any
   sequence of startTestRun / status / stopTestRun calls (no run, several runs through the same
   decorators, repeated or unmatched start/stop, status calls outside a run) interleaved with the
   caller changing its own set objects in place and passing the same object again.
   wf: the set objects the caller passes or changes are its own. *)
Theorem C11_holds : forall i : input, wf i -> spec_okb i (model i) = true.
Proof. exact model_meets_spec. Qed.
Print Assumptions C11_holds.

Theorem C11_statement : forall i o, spec_okb i o = true -> Spec i o.
Proof. exact spec_okb_sound. Qed.
Print Assumptions C11_statement.

(* every call reaches every leaf, and what the j-th leaf newly logs at the k-th call is the image
   of that call under the decorators on its path: exactly one entry for a sink (start, stop or
   the transformed status), per call, hence once and in order *)
Theorem C11_once_in_order : forall i, wf i -> forall k o so j pk,
  nth_error (ops i) k = Some o -> nth_error (o_steps (model i)) k = Some so ->
  nth_error (leaves (tree i)) j = Some pk ->
  let now := caller_after (caller i) (firstn k (ops i)) in
  nth_error (s_new so) j = Some (expect_new now o pk)
  /\ (snd pk = LSink -> (forall l v, o <> OMutate l v) -> length (expect_new now o pk) = 1).
Proof. exact once_in_order. Qed.
Print Assumptions C11_once_in_order.

(* what the transformed status call is: every field of the caller's call, except ...
   A supplied timestamp k is ANY tsobj - timezone-aware in whatever zone, naive, or no datetime at all
   (falsy placeholders included): it is handed on as it is; only TsNone (left out / None) is filled.
   A route is ANY string by segments, the empty string (one empty segment), '/', 'ab/' included: only
   None becomes the bare routing code, everything else gets code + '/' in front. *)
Theorem C11_only_own_field : forall now p e,
  let d := expect_event now p e in
  v_id d = v_id e /\ v_status d = v_status e /\ v_runnable d = v_runnable e /\ v_file d = v_file e
  /\ v_bytes d = v_bytes e /\ v_eof d = v_eof e /\ v_mime d = v_mime e
  /\ v_route d = push_all (queue_codes p) (v_route e)
  /\ (forall k, v_ts e = TsGiven k -> v_ts d = TsGiven k)
  /\ (v_ts e = TsNone -> v_ts d = if existsb is_stamp p then TsFilled else TsNone)
  /\ (taggers p = [] -> v_tags d = deref now (v_tags e))
  /\ (taggers p <> [] ->
      forall t, In t (match v_tags d with Some v => v | None => [] end)
                <-> t < tag_universe /\ member_after (taggers p) t (mem t (tags_or_empty now (v_tags e))) = true).
Proof. exact only_own_field. Qed.
Print Assumptions C11_only_own_field.

(* StreamToQueue(queue, None) (a sub-suite without a route code, ConcurrentStreamTestSuite): nothing is prefixed *)
Theorem C11_no_code_transparent : forall now p e,
  existsb has_code p = false -> v_route (expect_event now p e) = v_route e.
Proof. exact no_code_transparent. Qed.
Print Assumptions C11_no_code_transparent.

(* table obligation against the live code (Gen/Failfast.v): the callback fires iff the status is
   'fail' or 'uxsuccess' *)
Theorem C11_failfast_table : forall s, fires s = is_failure s.
Proof. exact failfast_table. Qed.
Print Assumptions C11_failfast_table.

(* the caller's argument objects are never mutated: a call only ever ALLOCATES cells (no cell of
   the store, caller-owned or not, is written), and the caller's sets observed after each call
   are what the caller itself made them *)
Theorem C11_no_mutation :
  (forall n o st, (forall l v, o <> OMutate l v) -> exists ext, snd (step n o st) = st ++ ext)
  /\ (forall i, wf i -> forall k o so,
        nth_error (ops i) k = Some o -> nth_error (o_steps (model i)) k = Some so ->
        s_caller so = caller_step (caller_after (caller i) (firstn k (ops i))) o
        /\ ((forall l v, o <> OMutate l v) -> s_caller so = caller_after (caller i) (firstn k (ops i)))).
Proof. exact (conj calls_only_allocate no_mutation). Qed.
Print Assumptions C11_no_mutation.

(* what a sink receives does not depend on the other targets or on sibling decorators: two sinks
   with the same decorators above them, in two arbitrary trees, log the same at every call *)
Theorem C11_independent : forall i1 i2, wf i1 -> wf i2 -> caller i1 = caller i2 -> ops i1 = ops i2 ->
  forall j1 j2 pk, nth_error (leaves (tree i1)) j1 = Some pk -> nth_error (leaves (tree i2)) j2 = Some pk ->
  forall k so1 so2, nth_error (o_steps (model i1)) k = Some so1 -> nth_error (o_steps (model i2)) k = Some so2 ->
    nth_error (s_new so1) j1 = nth_error (s_new so2) j2.
Proof. exact independent. Qed.
Print Assumptions C11_independent.

(* startTestRun / stopTestRun are handed on EVERY time: the k-th call of a history, if it is a
   startTestRun or stopTestRun - of the first run or a later one, repeated, or without its partner -
   makes every sink log exactly that entry and a StreamFailFast leaf nothing (no decorator keeps a
   "started"/"stopped" state) *)
Theorem C11_start_stop_every_time : forall i, wf i -> forall k o so j pk,
  (o = OStart \/ o = OStop) ->
  nth_error (ops i) k = Some o -> nth_error (o_steps (model i)) k = Some so ->
  nth_error (leaves (tree i)) j = Some pk ->
  nth_error (s_new so) j = Some (match snd pk, o with
                                 | LSink, OStart => [EStart] | LSink, OStop => [EStop] | _, _ => [] end).
Proof. exact start_stop_every_time. Qed.
Print Assumptions C11_start_stop_every_time.

(* what a sink receives depends on the call only BY VALUE: the tags argument enters through what it
   denotes when the call is made - not through which object carries it, what that object held at
   earlier calls, or what the caller does to it later.  First for the statement's per-path function,
   then for the model: two status calls equal by value, in two arbitrary trees and histories
   (different objects, different pasts), reach sinks below the same decorators as the same call. *)
Theorem C11_value_only : forall now1 now2 p e1 e2,
  by_value now1 e1 = by_value now2 e2 -> expect_event now1 p e1 = expect_event now2 p e2.
Proof. exact value_only. Qed.
Print Assumptions C11_value_only.

Theorem C11_value_only_model : forall i1 i2, wf i1 -> wf i2 ->
  forall k1 k2 e1 e2 so1 so2 j1 j2 pk,
  nth_error (ops i1) k1 = Some (OStatus e1) -> nth_error (ops i2) k2 = Some (OStatus e2) ->
  nth_error (o_steps (model i1)) k1 = Some so1 -> nth_error (o_steps (model i2)) k2 = Some so2 ->
  nth_error (leaves (tree i1)) j1 = Some pk -> nth_error (leaves (tree i2)) j2 = Some pk ->
  by_value (caller_after (caller i1) (firstn k1 (ops i1))) e1 = by_value (caller_after (caller i2) (firstn k2 (ops i2))) e2 ->
  nth_error (s_new so1) j1 = nth_error (s_new so2) j2.
Proof. exact value_only_model. Qed.
Print Assumptions C11_value_only_model.

(* the correspondence compares observations exactly *)
Theorem C11_obs_eqb : forall a b, obs_eqb a b = true <-> a = b.
Proof. exact obs_eqb_spec. Qed.
Print Assumptions C11_obs_eqb.

(* non-vacuity: a copy over a sink, a tagger (over a sink, a nested tagger and a fail-fast) and a
   timestamping queue; the caller passes its own set, changes it afterwards, passes it again;
   a repeated stopTestRun and a second, empty run *)
Example C11_example :
  let e := fun (T : Type) (tags : T) st ts => Evt (Some 1) (Some st) tags true None None false None (Some [3]) ts in
  let i := {| tree := Copy [Sink;
                            Tagger [0] [2] [Sink; Tagger [4] [0] [Sink]; FailFast];
                            Stamp (ToQueue (Some 5) Sink)];
              caller := [[1; 2]];
              ops := [OStart; OStatus (e _ (TLoc 0) 5 TsNone); OMutate 0 [3]; OStatus (e _ (TLoc 0) 4 (TsGiven (TNaive 7))); OStop;
                      OStop; OStart; OStop] |} in
  wf i
  /\ map s_new (o_steps (model i))
     = [ [[EStart]; [EStart]; [EStart]; []; [EStart]];
         [[ESt (e _ (Some [1; 2]) 5 TsNone)]; [ESt (e _ (Some [0; 1]) 5 TsNone)]; [ESt (e _ (Some [1; 4]) 5 TsNone)]; [EFired];
          [ESt (Evt (Some 1) (Some 5) (Some [1; 2]) true None None false None (Some [5; 3]) TsFilled)]];
         [[]; []; []; []; []];
         [[ESt (e _ (Some [3]) 4 (TsGiven (TNaive 7)))]; [ESt (e _ (Some [0; 3]) 4 (TsGiven (TNaive 7)))]; [ESt (e _ (Some [3; 4]) 4 (TsGiven (TNaive 7)))]; [];
          [ESt (Evt (Some 1) (Some 4) (Some [3]) true None None false None (Some [5; 3]) (TsGiven (TNaive 7)))]];
         [[EStop]; [EStop]; [EStop]; []; [EStop]];
         [[EStop]; [EStop]; [EStop]; []; [EStop]];
         [[EStart]; [EStart]; [EStart]; []; [EStart]];
         [[EStop]; [EStop]; [EStop]; []; [EStop]] ]
  /\ map s_caller (o_steps (model i)) = [[[1; 2]]; [[1; 2]]; [[3]]; [[3]]; [[3]]; [[3]]; [[3]]; [[3]]].
Proof. vm_compute. repeat split. Qed.

(* non-vacuity on the awkward values: the empty route code '' (segment 7 is the empty string), a naive
   timestamp, a falsy non-datetime timestamp and a missing one, through a timestamping decorator and
   two queues: '' becomes '5/' and then '0/5/', None becomes '5' and '0/5'; the naive and the
   placeholder timestamps arrive as they were, only the missing one is filled *)
Example C11_example_values :
  let e := fun r ts => @Evt tagref (Some 3) (Some 4) TNone true None None false None r ts in
  let i := {| tree := Stamp (ToQueue (Some 5) (ToQueue (Some 0) Sink)); caller := [];
              ops := [OStatus (e (Some [7]) (TsGiven (TNaive 3))); OStatus (e None (TsGiven (TOther 1)));
                      OStatus (e (Some [7; 7]) TsNone)] |} in
  let o := fun r ts => [[ESt (@Evt otags (Some 3) (Some 4) None true None None false None r ts)]] in
  wf i
  /\ map s_new (o_steps (model i))
     = [ o (Some [0; 5; 7]) (TsGiven (TNaive 3)); o (Some [0; 5]) (TsGiven (TOther 1)); o (Some [0; 5; 7; 7]) TsFilled ].
Proof. vm_compute. repeat split. Qed.

(* non-vacuity for routing code None: under a queue without a code 'ab/' stays 'ab/' and None stays None; a queue
   with code 5 above or below it prefixes once *)
Example C11_example_no_code :
  let e := fun r => @Evt tagref (Some 3) (Some 4) TNone true None None false None r TsNone in
  let i := {| tree := Copy [ToQueue None Sink; ToQueue (Some 5) (ToQueue None Sink); ToQueue None (ToQueue (Some 5) Sink)];
              caller := []; ops := [OStatus (e (Some [2; 7])); OStatus (e None)] |} in
  let o := fun r => [ESt (@Evt otags (Some 3) (Some 4) None true None None false None r TsNone)] in
  wf i
  /\ map s_new (o_steps (model i))
     = [ [o (Some [2; 7]); o (Some [5; 2; 7]); o (Some [5; 2; 7])]; [o None; o (Some [5]); o (Some [5])] ].
Proof. vm_compute. repeat split. Qed.
