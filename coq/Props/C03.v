(* C03 - placeholder while the correspondence is being validated. *)
From TT Require Import Lib.Base Gen.Handlers Model.Run Spec.Run Spec.C03 Corr.C03 Proof.C03.
