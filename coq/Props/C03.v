(* C03 - the reported outcome is sound: success only if nothing raised; one exception maps to
   its outcome, inserted handlers first; failures are not masked (known finding F2 delimited).
   Only statements; every proof is `exact <lemma of Proof/C03.v>`. *)
From TT Require Import Lib.Base Gen.Handlers Model.Run Spec.Run Spec.C03 Corr.C03 Proof.RunCore
  Proof.RunExtra Proof.RunTable Proof.RunVerdict Proof.C03.

(* The full statement reads: forall i, wf i -> spec_okb i (model i) = true.  It is FALSE of the
   faithful model (C03_refuted_F2 below: "the last exception wins", finding F2).
   Outside the class of inputs delimited by Spec.C03.finding_F2 the model meets the whole
   statement, for every finite program (any number of statements per stage, cleanups registering
   cleanups to any depth, any exception values, any handlers inserted before or during the run). *)
Theorem C03_holds : forall i : input, wf i = true -> finding_F2 i = false -> spec_okb i (model i) = true.
Proof. exact model_meets_spec. Qed.
Print Assumptions C03_holds.

(* The correspondence also runs programs on cases configured with a RunTest factory of their own (class
   attribute run_tests_with, the runTest= constructor argument, @run_test_with; RunTest subclasses and functions
   with explicit / star / keyword-only / ** signatures, functools.partial, callable objects, bound methods,
   factories written for the API before last_resort - Model.Run.factory).  The Gallina input leaves the
   configuration out: the run of such a case IS the run with the default RunTest. *)
Theorem C03_factory_irrelevant : forall r p s, run_from_runner r p s = run_from p s.
Proof. exact factory_irrelevant. Qed.
Print Assumptions C03_factory_irrelevant.

Theorem C03_statement : forall i o, spec_okb i o = true -> Spec i o.
Proof. exact spec_okb_sound. Qed.
Print Assumptions C03_statement.

Theorem C03_Spec_holds : forall i : input, wf i = true -> finding_F2 i = false -> Spec i (model i).
Proof. exact model_meets_Spec. Qed.
Print Assumptions C03_Spec_holds.

Theorem C03_obs_eqb : forall a b, obs_eqb a b = true <-> a = b.
Proof. exact obs_eqb_spec. Qed.
Print Assumptions C03_obs_eqb.

(* the witness of F2: AssertionError in the test, SkipTest in a cleanup -> addSkip, wasSuccessful() *)
Theorem C03_refuted_F2 :
  exists i, wf i = true /\ finding_F2 i = true /\ spec_okb i (model i) = false
            /\ model i = {| o_outs := [OSkip]; o_ok := true |}.
Proof. exact refuted_F2. Qed.
Print Assumptions C03_refuted_F2.

(* ... and inside F2 the statement always fails: finding_F2 delimits the defect exactly *)
Theorem C03_F2_exact : forall i, finding_F2 i = true -> spec_okb i (model i) = false.
Proof. exact downgrade_inside_F2. Qed.
Print Assumptions C03_F2_exact.

(* success is reported exactly when nothing was raised and no failure is forced (a skip-decorated
   test reports a skip although nothing was raised, hence the hypothesis for the converse);
   holds inside F2 as well *)
Theorem C03_success_iff : forall i,
  wf i = true -> skipped (i_prog i) = false ->
  (o_outs (model i) = [OSuccess] <-> raised_by_user (i_prog i) = [] /\ forced (i_prog i) = false).
Proof. exact success_iff. Qed.
Print Assumptions C03_success_iff.

(* exactly one exception raised: the outcome is the one it stands for (Spec/Run.v outcome_of) -
   stated without reference to the implementation's handler table; holds inside F2 as well *)
Theorem C03_single : forall i e,
  raised (i_prog i) = [e] -> o_outs (model i) = [outcome_of (i_prog i) e].
Proof. exact single_mapping. Qed.
Print Assumptions C03_single.

(* ... where the first inserted handler, in list order (latest insertion first, then the ones
   present before the run), whose class the exception is an instance of decides; else
   skip / failure / expected failure / unexpected success by (sub)class, else error *)
Theorem C03_dispatch_order : forall p e,
  outcome_of p e = match find (fun co => isinstance e (fst co)) (rev (inserted p) ++ p_handlers p) with
                   | Some co => snd co
                   | None => standard_outcome (cls_of e)
                   end.
Proof. exact dispatch_order. Qed.
Print Assumptions C03_dispatch_order.

(* in every run the outcome is the one of the exception reported for: the first one nobody is
   responsible for, else the last (this is where "last one wins" is visible) *)
Theorem C03_outcome_reported : forall i,
  skipped (i_prog i) = false ->
  o_outs (model i) = [match reported (i_prog i) with Some e => outcome_of (i_prog i) e | None => OSuccess end].
Proof. exact outcome_reported. Qed.
Print Assumptions C03_outcome_reported.

Theorem C03_no_downgrade_partial : forall i e,
  finding_F2 i = false ->
  In e (raised (i_prog i)) -> is_failure_or_error (i_prog i) e = true ->
  exists o, model i = {| o_outs := [o]; o_ok := false |} /\ unsuccessful o = true.
Proof. exact no_downgrade_partial. Qed.
Print Assumptions C03_no_downgrade_partial.

(* a failed expectThat / force_failure fails the test on EVERY path - whether or not setUp returned,
   whatever was raised besides (a later skip included), inside F2 as well - unless the user inserted
   a handler that maps AssertionError to something else *)
Theorem C03_forced_fails : forall i,
  skipped (i_prog i) = false -> forced (i_prog i) = true ->
  is_failure_or_error (i_prog i) (Exc CFail None) = true ->
  exists o, model i = {| o_outs := [o]; o_ok := false |} /\ unsuccessful o = true.
Proof. exact forced_fails. Qed.
Print Assumptions C03_forced_fails.

(* the facts about TestCase.exception_handlers of the tree under test that the proofs use,
   re-checked against the regenerated table on every run: whatever the order of the entries,
   looking a class up in the table gives the standard mapping; the catch-all is last *)
Theorem C03_table :
  last_resort = Some OErr
  /\ (forall c, table_outcome c = Some (standard_outcome c))
  /\ match rev generated_handlers with h :: _ => cls_eqb (h_cls h) CException | [] => false end = true
  /\ forallb (fun h => subclass (h_cls h) CException) generated_handlers = true.
Proof. exact table_facts. Qed.
Print Assumptions C03_table.

(* non-vacuity: an inserted handler for a custom class wins over the catch-all; a subclass of
   SkipTest is a skip; an error followed by a failure stays unsuccessful; a handler inserted by a
   cleanup after the exception was caught decides *)
Example C03_example :
  let custom := CSub CException 1 in
  let mk su body td hs := {| i_prog := {| p_skip := None; p_xfail := false; p_setup := (1, su); p_up_setup := true;
                                          p_body := (2, body); p_teardown := (3, td); p_up_teardown := true;
                                          p_handlers := hs |} |} in
  model (mk [] [ARaise (Exc (CSub custom 2) None)] [] [(custom, OUx)]) = {| o_outs := [OUx]; o_ok := false |}
  /\ model (mk [] [ARaise (Exc (CSub CSkip 0) None)] [] []) = {| o_outs := [OSkip]; o_ok := true |}
  /\ model (mk [] [ARaise (Exc CValueError None)] [AAssert []] []) = {| o_outs := [OFail]; o_ok := false |}
  /\ wf (mk [] [ARaise (Exc CValueError None)] [AAssert []] []) = true
  /\ finding_F2 (mk [] [ARaise (Exc CValueError None)] [AAssert []] []) = false
  /\ model (mk [ACleanup 10 [AInsertHandler CValueError OXFail]] [ARaise (Exc CValueError None)] [] [])
     = {| o_outs := [OXFail]; o_ok := true |}.
Proof. vm_compute. repeat split. Qed.

(* non-vacuity of C03_forced_fails (the shape of F21): an expectThat mismatch in setUp followed by
   skipTest, and one in a cleanup run after setUp failed with an expected failure *)
Example C03_example_forced :
  let mk su := {| i_prog := {| p_skip := None; p_xfail := false; p_setup := (1, su); p_up_setup := true;
                               p_body := (2, []); p_teardown := (3, []); p_up_teardown := true; p_handlers := [] |} |} in
  model (mk [AExpect []; ARaise (Exc CSkip (Some 1))]) = {| o_outs := [OFail]; o_ok := false |}
  /\ forced (i_prog (mk [AExpect []; ARaise (Exc CSkip (Some 1))])) = true
  /\ model (mk [ACleanup 10 [AForce]; AExpectFailure 1 (Some (Exc CFail None))]) = {| o_outs := [OFail]; o_ok := false |}.
Proof. vm_compute. repeat split. Qed.
