(* C19 - suite utilities preserve the test set: filter keeps chosen ids, sort permutes.
   Only statements; every proof is `exact <lemma of Proof/C19.v>`. *)
From Coq Require Import Permutation Sorted.
From TT Require Import Lib.Base Lib.Sort Model.Suites Spec.C19 Corr.C19 Proof.C19.

(* The model meets the whole statement, for every suite tree, every id set, both unpack flags, every
   table of test ids (non-empty byte strings without line feed and without ASCII whitespace at either
   end - blanks, tabs, brackets, any UTF-8 inside) and every list file (any bytes). *)
Theorem C19_holds : forall i : input, wf i -> spec_okb i (model i) = true.
Proof. exact model_meets_spec. Qed.
Print Assumptions C19_holds.

(* ... and the executable statement implies the readable one (Spec.C19.Spec): leaves in suite order,
   exactly the chosen leaves at their original positions, a sorted arrangement of the top-level
   members with custom suites whole, ValueError on duplicates. *)
Theorem C19_statement : forall i o, spec_okb i o = true -> Spec i o.
Proof. exact spec_okb_sound. Qed.
Print Assumptions C19_statement.

Theorem C19_iterate : forall n, iterate n = leaves n.
Proof. exact iterate_leaves. Qed.
Print Assumptions C19_iterate.

(* order and grouping: the surviving leaves are the chosen ones, in order, each inside the same
   original suites (in this model every surviving leaf even keeps its position path, because a removed
   test leaves an empty suite in its slot; the statement and the correspondence only speak of the
   enclosing suites, [grouped]) *)
Theorem C19_filter : forall keep n,
  paths (filter_ids keep n) = filter (fun p => keep (snd p)) (paths n)
  /\ iterate (filter_ids keep n) = filter keep (iterate n)
  /\ map grouped (paths (filter_ids keep n)) = map grouped (filter (fun p => keep (snd p)) (paths n)).
Proof. exact (fun keep n => conj (filter_paths keep n) (conj (filter_iterate keep n) (filter_grouping keep n))). Qed.
Print Assumptions C19_filter.

(* what [grouped] records: the suite at path q encloses the leaf at path p iff q is a proper prefix
   of p; they are listed outermost first (lengths 0, 1, ...) *)
Theorem C19_enclosing : forall p,
  (forall q, In q (enclosing p) <-> exists r, r <> [] /\ p = q ++ r)
  /\ map (@length nat) (enclosing p) = seq 0 (length p).
Proof. exact (fun p => conj (enclosing_iff p) (enclosing_sorted p)). Qed.
Print Assumptions C19_enclosing.

Theorem C19_sorted : forall u n r, sorted_tests u n = Ok r ->
  Permutation (iterate r) (iterate n)
  /\ exists ms, r = Plain (map snd ms) /\ Permutation (flatten u n) ms
                /\ Sorted (fun a b => key_leb (fst a) (fst b) = true) ms.
Proof. exact (fun u n r H => conj (sorted_same_tests u n r H) (sorted_members_perm u n r H)). Qed.
Print Assumptions C19_sorted.

Theorem C19_dup : forall u n,
  (sorted_tests u n = Raised ValueError <-> ~ NoDup (iterate n))
  /\ forall e, sorted_tests u n = Raised e -> e = ValueError.
Proof. exact (fun u n => conj (sorted_raises_iff_dup u n) (sorted_raises_only_ValueError u n)). Qed.
Print Assumptions C19_dup.

(* --list prints the ids of the leaves in suite order; --load-list f runs, and --list --load-list f
   prints, exactly the tests whose id is listed by a line of f, in their original order and grouping *)
Theorem C19_cli : forall nms f n, forallb wf_nameb nms = true ->
  cli_list n = leaves n
  /\ cli_run (cli_load nms f n) = filter (listedb nms f) (leaves n)
  /\ cli_list (cli_load nms f n) = filter (listedb nms f) (leaves n)
  /\ paths (cli_load nms f n) = filter (fun p => listedb nms f (snd p)) (paths n).
Proof. exact (fun nms f n W => conj (iterate_leaves n) (cli_load_runs nms f n W)). Qed.
Print Assumptions C19_cli.

(* the reader of the list file (binary readlines + strip) puts an id into the set exactly when some
   line of the file is that id surrounded by nothing but ASCII whitespace: a line is ONE id, blanks
   inside it separate nothing *)
Theorem C19_load_list : forall nm f, wf_nameb nm = true ->
  (memb nm (load_ids f) = true <-> Lists f nm) /\ (file_lists f nm = true <-> Lists f nm).
Proof. exact (fun nm f W => conj (load_ids_iff nm f W) (file_lists_iff nm f W)). Qed.
Print Assumptions C19_load_list.

(* "the lines of the file" ([split_lf], used by Lists) are the pieces between line feeds *)
Theorem C19_lines : forall f, join_lf (split_lf f) = f /\ Forall (fun l => ~ In 10%N l) (split_lf f).
Proof. exact (fun f => conj (split_lf_join f) (split_lf_no_lf f)). Qed.
Print Assumptions C19_lines.

(* `run --list > f` followed by `run --load-list f` runs every test *)
Theorem C19_list_then_load : forall nms n, forallb wf_nameb nms = true ->
  (forall i, In i (iterate n) -> i < length nms) ->
  cli_run (cli_load nms (list_output nms (cli_list n)) n) = iterate n.
Proof. exact list_then_load_all. Qed.
Print Assumptions C19_list_then_load.

(* the correspondence compares observations exactly *)
Theorem C19_obs_eqb : forall a b, obs_eqb a b = true <-> a = b.
Proof. exact obs_eqb_spec. Qed.
Print Assumptions C19_obs_eqb.

(* non-vacuity: a tree with nested plain and custom suites, an empty custom suite, a sorting suite *)
Example C19_example :
  let t := Plain [Case 3; Custom false false [Case 9; Case 1]; Plain [Case 2; Custom true false [Case 8; Case 5]];
                  Custom false false []] in
  iterate t = [3; 9; 1; 2; 8; 5]
  /\ iterate (filter_ids (fun i => Nat.leb i 3) t) = [3; 1; 2]
  /\ (match sorted_tests false t with Ok r => iterate r | Raised _ => [] end) = [2; 3; 5; 8; 9; 1]
  /\ sorted_tests false (Plain [Case 1; Plain [Case 1]]) = Raised ValueError.
Proof. vm_compute. repeat split. Qed.

(* non-vacuity of the list-file clause: ids "a", "a b", "b"; the file " a b \r\n\nb" (no final
   newline) lists "a b" and "b" but not "a" *)
Example C19_example_load_list :
  let nms := [[97]; [97; 32; 98]; [98]]%N in
  let f := [32; 97; 32; 98; 32; 13; 10; 10; 98]%N in
  let t := Plain [Case 0; Custom false true [Case 1; Case 2]] in
  forallb wf_nameb nms = true
  /\ load_ids f = [[97; 32; 98]; []; [98]]%N
  /\ cli_run (cli_load nms f t) = [1; 2]
  /\ filter (listedb nms f) (leaves t) = [1; 2].
Proof. vm_compute. repeat split. Qed.
