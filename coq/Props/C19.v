(* C19 - suite utilities preserve the test set: filter keeps chosen ids, sort permutes.
   Only statements; every proof is `exact <lemma of Proof/C19.v>`. *)
From Coq Require Import Permutation Sorted.
From TT Require Import Lib.Base Lib.Sort Model.Suites Spec.C19 Corr.C19 Proof.C19.

(* The model meets the whole statement, for every suite tree, every id set and both unpack flags. *)
Theorem C19_holds : forall i : input, spec_okb i (model i) = true.
Proof. exact model_meets_spec. Qed.
Print Assumptions C19_holds.

(* ... and the executable statement implies the readable one (Spec.C19.Spec): leaves in suite order,
   exactly the chosen leaves at their original positions, a sorted arrangement of the top-level
   members with custom suites whole, ValueError on duplicates. *)
Theorem C19_statement : forall i o, spec_okb i o = true -> Spec i o.
Proof. exact spec_okb_sound. Qed.
Print Assumptions C19_statement.

Theorem C19_iterate : forall n, iterate n = leaves n.
Proof. exact iterate_leaves. Qed.
Print Assumptions C19_iterate.

(* order and grouping: every surviving leaf keeps its position path *)
Theorem C19_filter : forall keep n,
  paths (filter_ids keep n) = filter (fun p => keep (snd p)) (paths n)
  /\ iterate (filter_ids keep n) = filter keep (iterate n).
Proof. exact (fun keep n => conj (filter_paths keep n) (filter_iterate keep n)). Qed.
Print Assumptions C19_filter.

Theorem C19_sorted : forall u n r, sorted_tests u n = Ok r ->
  Permutation (iterate r) (iterate n)
  /\ exists ms, r = Plain (map snd ms) /\ Permutation (flatten u n) ms
                /\ Sorted (fun a b => key_leb (fst a) (fst b) = true) ms.
Proof. exact (fun u n r H => conj (sorted_same_tests u n r H) (sorted_members_perm u n r H)). Qed.
Print Assumptions C19_sorted.

Theorem C19_dup : forall u n,
  (sorted_tests u n = Raised ValueError <-> ~ NoDup (iterate n))
  /\ forall e, sorted_tests u n = Raised e -> e = ValueError.
Proof. exact (fun u n => conj (sorted_raises_iff_dup u n) (sorted_raises_only_ValueError u n)). Qed.
Print Assumptions C19_dup.

(* the correspondence compares observations exactly *)
Theorem C19_obs_eqb : forall a b, obs_eqb a b = true <-> a = b.
Proof. exact obs_eqb_spec. Qed.
Print Assumptions C19_obs_eqb.

(* non-vacuity: a tree with nested plain and custom suites, an empty custom suite, a sorting suite *)
Example C19_example :
  let t := Plain [Case 3; Custom false false [Case 9; Case 1]; Plain [Case 2; Custom true false [Case 8; Case 5]];
                  Custom false false []] in
  iterate t = [3; 9; 1; 2; 8; 5]
  /\ iterate (filter_ids (fun i => Nat.leb i 3) t) = [3; 1; 2]
  /\ (match sorted_tests false t with Ok r => iterate r | Raised _ => [] end) = [2; 3; 5; 8; 9; 1]
  /\ sorted_tests false (Plain [Case 1; Plain [Case 1]]) = Raised ValueError.
Proof. vm_compute. repeat split. Qed.
