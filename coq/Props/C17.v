(* C17 - placeholder while the correspondence is being validated *)
From TT Require Import Lib.Base Model.Tags Spec.C17 Corr.C17 Proof.C17.
Example C17_example : spec_okb {| stack := TFR (Leaf false); hist := [StartRun; Tags ([1],[]); StartTest; Tags ([2],[1]); Outcome; StopTest; Outcome] |}
   (model {| stack := TFR (Leaf false); hist := [StartRun; Tags ([1],[]); StartTest; Tags ([2],[1]); Outcome; StopTest; Outcome] |}) = true.
Proof. vm_compute. reflexivity. Qed.
