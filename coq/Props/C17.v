(* C17 - tags are scoped: test-local changes never leak, run-level changes persist.
   Only statements; every proof is `exact <lemma of Proof/C17.v>`. *)
From TT Require Import Lib.Base Model.Tags Spec.C17 Corr.C17 Proof.C17.

(* The model meets the whole statement: for every adapter stack and every history of calls
   (the quantifier's restrictions - first clause: tests not nested, new/gone disjoint in every tags()
   call of the history and of the reporter's Taggers (wf_cur); second clause: moreover one outcome per
   test, no startTestRun inside a test (wf_obs) - are hypotheses inside spec_okb, clause by clause). *)
Theorem C17_holds : forall i : input, spec_okb i (model i) = true.
Proof. exact model_meets_spec. Qed.
Print Assumptions C17_holds.

(* ... and the executable statement implies the readable one (Spec.C17.Spec). *)
Theorem C17_statement : forall i o, spec_okb i o = true -> Spec i o.
Proof. exact spec_okb_sound. Qed.
Print Assumptions C17_statement.

(* Every implementation of current_tags (own TagContext: TestResult, MultiTestResult,
   ThreadsafeForwardingResult, ExtendedToStreamDecorator, ExtendedToOriginalDecorator over an old result,
   doubles.ExtendedTestResult; delegating: TestResultDecorator, Tagger, ExtendedToOriginalDecorator)
   refines the two-level specification after every call of every history without nested tests -
   including outcome + stopTest without startTest, and startTestRun anywhere.  (The model's tags() lets
   removal win, so it needs no disjointness here; the STATEMENT only speaks about disjoint sets.) *)
Theorem C17_current : forall a h, nn_from false h = true ->
  Forall2 seteq (reporter_scan a h) (spec_scan (chain a) h).
Proof. exact current_refines. Qed.
Print Assumptions C17_current.

(* The algebra behind _merge_tags: for disjoint new/gone sets a sequence of changes applied to any
   base equals the single merged change; merged pairs stay disjoint; false without disjointness. *)
Theorem C17_merge : forall B chs, Forall disjoint chs ->
  seteq (fold_left apply1 chs B) (apply1 B (fold_left merge_tags chs no_change)).
Proof. exact merge_law. Qed.
Print Assumptions C17_merge.

(* one merged tags() call on the target does what the two calls (run-level buffer, then test-level
   buffer) do - the observation never distinguishes the two - and for disjoint sets both ways of
   writing _merge_tags ("add, then remove" / "removal last") give the same pair *)
Theorem C17_merge_one_call : forall B g t, disjoint t ->
  seteq (apply1 (apply1 B g) t) (apply1 B (merge_tags g t)).
Proof. exact merge_step. Qed.
Print Assumptions C17_merge_one_call.

Theorem C17_merge_gone_forms : forall ex ch, disjoint ch ->
  seteq (snd (merge_tags ex ch)) (sunion (sdiff (snd ex) (fst ch)) (snd ch)).
Proof. exact merge_gone_forms. Qed.
Print Assumptions C17_merge_gone_forms.

Theorem C17_merge_keeps_disjoint : forall ex ch, disjoint ex -> disjoint ch -> disjoint (merge_tags ex ch).
Proof. exact merge_disjoint. Qed.
Print Assumptions C17_merge_keeps_disjoint.

Theorem C17_merge_needs_disjoint : exists B ex ch,
  ~ seteq (apply1 (apply1 B ex) ch) (apply1 B (merge_tags ex ch)).
Proof. exact merge_needs_disjoint. Qed.
Print Assumptions C17_merge_needs_disjoint.

(* Through every adapter stack - MultiTestResult, decorators, ExtendedToOriginalDecorator,
   ThreadsafeForwardingResult, ExtendedToStreamDecorator -> StreamToExtendedDecorator -> PlaceHolder.run,
   nested to any depth - every wrapped result and every stream consumer observes, at each outcome,
   the reporter's current_tags at that outcome (leaves below a Tagger that is not part of the
   reporter are exempt: clean_leaves). *)
Theorem C17_observed : forall a h,
  wf_from false false h = true -> forallb disjointb (chain a) = true ->
  Forall2 (fun clean l => clean = true -> Forall2 seteq l (at_outcomes h (reporter_scan a h)))
          (clean_leaves a) (leaves_obs a h).
Proof. exact observed_ok. Qed.
Print Assumptions C17_observed.

(* one forwarder in isolation: what ThreadsafeForwardingResult sends to its target shows, at every
   outcome, the tags current in the forwarder - and is again a well-formed stream *)
Theorem C17_tfr : forall h, wf_from false false h = true ->
  Forall2 seteq (sobs_from [] sp0 (trans tfr_step tfr0 h)) (sobs_from [] sp0 h)
  /\ wf_from false false (trans tfr_step tfr0 h) = true.
Proof. exact (fun h => tfr_ok h false false tfr0 sp0 sp0 tfr_inv_init). Qed.
Print Assumptions C17_tfr.

(* ExtendedToStreamDecorator before the run is started: its own tag context takes every call exactly
   as the other results do, from any state - started or not (tags()/current_tags/stopTest need no
   startTestRun; the implicit start at the first startTest/outcome keeps the tags) ... *)
Theorem C17_e2s_context : forall s op, e_ctx (fst (e2s_step s op)) = istep (e_ctx s) op.
Proof. exact e2s_ctx_step. Qed.
Print Assumptions C17_e2s_context.

(* ... and what the stream pair hands to the wrapped result shows, at every outcome, the tags current
   in the decorator - for every well-formed history, with or without a startTestRun anywhere in it *)
Theorem C17_e2s : forall h, wf_from false false h = true ->
  Forall2 seteq (sobs_from [] sp0 (trans e2s_step e2s0 h)) (sobs_from [] sp0 h)
  /\ wf_from false false (trans e2s_step e2s0 h) = true.
Proof. exact (fun h => e2s_ok h false false e2s0 sp0 sp0 R_init eq_refl eq_refl empty_nil). Qed.
Print Assumptions C17_e2s.

(* the correspondence compares observations as lists of tag SETS *)
Theorem C17_obs_eqb : forall a b, obs_eqb a b = true <-> obs_equiv a b.
Proof. exact obs_eqb_spec. Qed.
Print Assumptions C17_obs_eqb.

(* non-vacuity: add globally, startTest-less skip pair, remove locally, tags after the outcome, next
   test, restart - through a Tagger over a forwarder over a multiplexer with a stream pair *)
Example C17_example :
  let a := Tagger ([2], []) (TFR (Multi [Leaf false; E2S (Leaf true)])) in
  let h := [StartRun; Tags ([0], []); Outcome; StopTest; StartTest; Tags ([1], [0]); Outcome; Tags ([0], []);
            StopTest; StartTest; Outcome; StopTest; StartRun; StartTest; Outcome; StopTest] in
  wf_from false false h = true
  /\ reporter_scan a h = [[]; [0]; [0]; [0]; [0; 2]; [2; 1]; [2; 1]; [2; 1; 0]; [0]; [0; 2]; [0; 2]; [0]; []; [2]; [2]; []]
  /\ leaves_obs a h = [[[0]; [2; 1]; [0; 2]; [2]]; [[0]; [2; 1]; [0; 2]; [2]]; [[0]; [2; 1]; [0; 2]; [2]]]
  /\ clean_leaves a = [true; true; true].
Proof. vm_compute. repeat split. Qed.

(* non-vacuity, before any startTestRun: tags() on a fresh ExtendedToStreamDecorator, the run started
   implicitly by the first test (startTestRun reaches the wrapped result, the tags stay), remove and
   re-add in one test, a later explicit startTestRun resets *)
Example C17_example_prestart :
  let a := E2S (TFR (Leaf false)) in
  let h := [Tags ([0], []); StopTest; StartTest; Tags ([], [0]); Tags ([0; 1], []); Outcome; StopTest;
            Outcome; StopTest; StartRun; StartTest; Outcome; StopTest] in
  wf_from false false h = true
  /\ reporter_scan a h = [[0]; [0]; [0]; []; [0; 1]; [0; 1]; [0]; [0]; [0]; []; []; []; []]
  /\ trans e2s_step e2s0 h = [StartRun; Tags ([0; 1], []); StartTest; Outcome; StopTest; Tags ([], [0; 1]);
                               Tags ([0], []); StartTest; Outcome; StopTest; Tags ([], [0]);
                               StartRun; Tags ([], []); StartTest; Outcome; StopTest; Tags ([], [])]
  /\ leaves_obs a h = [[[0; 1]; [0]; []]; [[0; 1]; [0]; []]].
Proof. vm_compute. repeat split. Qed.
