(* C06 - matcher verdicts obey their declared semantics compositionally.
   Only statements; every proof is `exact <lemma of Proof/C06*.v>`. *)
From Coq Require Import Permutation.
From TT Require Import Lib.Base Model.Matchers Spec.C06 Corr.C06 Proof.C06Setwise Proof.C06Leaves Proof.C06.

(* The model meets the whole statement on every input outside the class that delimits finding F13:
   inside the domain, every construction of the expression (every set-iteration order) yields the
   documented verdict; Raises lets through exactly the non-Exception errors it did not match. *)
Theorem C06_holds : forall i : input, wf i -> finding_F13 i = false -> spec_okb i (model i) = true.
Proof. exact (fun i _ => model_meets_spec i). Qed.
Print Assumptions C06_holds.

(* ... and without that guard the statement is false of the faithful model (known finding F13):
   MatchesSetwise(MatchesAny(Equals(1), Equals(2)), Equals(1)) on [1, 2] mismatches when the set
   yields the first matcher first, matches in the other order, although an assignment exists. *)
Theorem C06_refuted_F13 : exists i, wf i /\ idom i = true /\ spec_okb i (model i) = false.
Proof. exact (ex_intro _ f13_input (conj I (conj (proj1 refuted_F13) (proj2 (proj2 (proj2 (proj2 refuted_F13))))))). Qed.
Print Assumptions C06_refuted_F13.

Theorem C06_statement : forall i o, spec_okb i o = true -> Spec i o.
Proof. exact spec_okb_sound. Qed.
Print Assumptions C06_statement.

Theorem C06_obs_eqb : forall a b, obs_eqb a b = true <-> a = b.
Proof. exact obs_eqb_spec. Qed.
Print Assumptions C06_obs_eqb.

(* For every matcher expression, every value in its domain, every semantics of the abstract leaves
   and every set-iteration order: match() returns None iff the documented predicate holds. *)
Theorem C06_truth_functional : forall leafsem rank m v,
  dom leafsem m v = true -> amb leafsem m v = false ->
  (match_ leafsem rank m v = None <-> sem leafsem m v = true).
Proof. exact tf_dom. Qed.
Print Assumptions C06_truth_functional.

(* a greedy success is a one-to-one assignment - no guard needed *)
Theorem C06_setwise_sound : forall leafsem rank s ms l,
  (forall m' x, In m' ms -> In x l -> (match_ leafsem rank m' x = None <-> sem leafsem m' x = true)) ->
  match_ leafsem rank (MatchesSetwise s ms) (VList l) = None ->
  exists ms', Permutation ms ms' /\ Forall2 (fun m x => sem leafsem m x = true) ms' l.
Proof. exact setwise_sound. Qed.
Print Assumptions C06_setwise_sound.

(* an assignment is found, whatever the iteration order, where no value is matched by two matchers *)
Theorem C06_setwise_complete : forall leafsem rank s ms l,
  dom leafsem (MatchesSetwise s ms) (VList l) = true -> amb leafsem (MatchesSetwise s ms) (VList l) = false ->
  (exists ms', Permutation ms ms' /\ Forall2 (fun m x => sem leafsem m x = true) ms' l) ->
  match_ leafsem rank (MatchesSetwise s ms) (VList l) = None.
Proof. exact setwise_complete. Qed.
Print Assumptions C06_setwise_complete.

(* the verdict does not depend on the set-iteration order *)
Theorem C06_pure : forall leafsem rank1 rank2 m v,
  dom leafsem m v = true -> amb leafsem m v = false ->
  (match_ leafsem rank1 m v = None <-> match_ leafsem rank2 m v = None).
Proof. exact pure. Qed.
Print Assumptions C06_pure.

(* Raises.match lets an exception out iff it is not an Exception and was not explicitly matched *)
Theorem C06_raises_rule : forall leafsem rank em c a c',
  run leafsem rank (Raises em) (VRaise c a) = OProp c' <->
  c' = c /\ is_user c = false /\
  match em with Some m' => match_ leafsem rank m' (VExc c a) <> None | None => True end.
Proof. exact raises_rule_spec. Qed.
Print Assumptions C06_raises_rule.

(* the documented predicate in readable form, combinator by combinator *)
Theorem C06_sem_clauses : forall ls,
  (forall m v, sem ls (Not m) v = negb (sem ls m v))
  /\ (forall fo ms v, sem ls (MatchesAll fo ms) v = true <-> Forall (fun m => sem ls m v = true) ms)
  /\ (forall ms v, sem ls (MatchesAny ms) v = true <-> Exists (fun m => sem ls m v = true) ms)
  /\ (forall m l, sem ls (AllMatch m) (VList l) = true <-> Forall (fun x => sem ls m x = true) l)
  /\ (forall m l, sem ls (AnyMatch m) (VList l) = true <-> Exists (fun x => sem ls m x = true) l)
  /\ (forall fo ms l, sem ls (MatchesListwise fo ms) (VList l) = true <-> Forall2 (fun m x => sem ls m x = true) ms l)
  /\ (forall s ms l, sem ls (MatchesSetwise s ms) (VList l) = true <->
                     exists ms', Permutation ms ms' /\ Forall2 (fun m x => sem ls m x = true) ms' l)
  /\ (forall kms obs, sem ls (MatchesDict kms) (VDict obs) = true <->
        (forall kv, In kv obs -> has_key (fst kv) kms = true) /\
        (forall km, In km kms -> exists x, lookup (fst km) obs = Some x /\ sem ls (snd km) x = true))
  /\ (forall kms obs, sem ls (ContainsDict kms) (VDict obs) = true <->
        (forall km, In km kms -> exists x, lookup (fst km) obs = Some x /\ sem ls (snd km) x = true))
  /\ (forall kms obs, sem ls (ContainedByDict kms) (VDict obs) = true <->
        (forall kv, In kv obs -> has_key (fst kv) kms = true) /\
        (forall km x, In km kms -> lookup (fst km) obs = Some x -> sem ls (snd km) x = true))
  /\ (forall ams i attrs, sem ls (MatchesStructure ams) (VRec i attrs) = true <->
        (forall am, In am ams -> exists x, getattr (fst am) attrs = Some x /\ sem ls (snd am) x = true))
  /\ (forall p a m v w, apply_pp p v = Some w -> sem ls (AfterPreprocessing p a m) v = sem ls m w)
  /\ (forall n m v, sem ls (Annotate n m) v = sem ls m v).
Proof.
  exact (fun ls => conj (sem_not ls) (conj (sem_all ls) (conj (sem_any ls) (conj (sem_allmatch ls)
        (conj (sem_anymatch ls) (conj (sem_listwise ls) (conj (sem_setwise ls) (conj (sem_dict ls)
        (conj (sem_containsdict ls) (conj (sem_containedbydict ls) (conj (sem_structure ls)
        (conj (sem_after ls) (sem_annotate ls))))))))))))).
Qed.
Print Assumptions C06_sem_clauses.

(* the two leaves whose code differs from their documented predicate *)
Theorem C06_leaf_code :
  (forall l e, forallb scalar (e ++ l) = true ->
     (is_nil (list_subtract e l) && is_nil (list_subtract l e) = true <-> same_members l e = true))
  /\ (forall a b, list_eqb key_eqb (Sort.isort key_leb a) (Sort.isort key_leb b) = true <-> same_keys a b = true).
Proof. exact (conj same_members_code same_keys_code). Qed.
Print Assumptions C06_leaf_code.

(* == on scalars, which the leaf semantics and SameMembers rest on, is an equivalence that identifies 1, True
   and 1.0 (0, False and 0.0) and never a number with None, '', b'', [] or {} *)
Theorem C06_scalar_eq :
  (forall x, scalar x = true -> veq x x = true)
  /\ (forall x y, scalar x = true -> veq x y = veq y x)
  /\ (forall x y z, scalar x = true -> scalar y = true -> veq x y = true -> veq y z = true -> veq x z = true)
  /\ (forall z b h, veq (VInt z) (VBool b) = Z.eqb z (if b then 1 else 0)
                    /\ veq (VInt z) (VFloat h) = Z.eqb (2 * z) h
                    /\ veq (VBool b) (VFloat h) = Z.eqb (if b then 2 else 0) h)
  /\ (forall x, num2 x <> None -> veq x VNone = false /\ veq x (VStr []) = false /\ veq x (VBytes []) = false
                                   /\ veq x (VList []) = false /\ veq x (VDict []) = false).
Proof. exact scalar_eq_facts. Qed.
Print Assumptions C06_scalar_eq.

(* non-vacuity: a depth-3 expression with an abstract leaf, a set, a dict and a first_only list *)
Example C06_example :
  let ls := leafsem_of [[sn [97; 98]]] in
  let m := MatchesAll false
             [ContainsDict [(KStr (sn [97]), MatchesSetwise 0 [Leaf 0; Not (Leaf 0)])];
              Not (MatchesDict [(KStr (sn [97]), Always)]);
              AfterPreprocessing 6 true (MatchesListwise true [AllMatch (IsInstance [TStr]); Equals (VInt 1)])] in
  let v := VDict [(KStr (sn [97]), VList [VStr (sn [99]); VStr (sn [97; 98])]); (KStr (sn [98]), VInt 1)] in
  dom ls m v = true /\ amb ls m v = false /\ sem ls m v = true
  /\ match_ ls (fun _ i => i) m v = None /\ match_ ls (fun _ i => 1 - i) m v = None
  /\ match_ ls (fun _ i => i) (Not m) v = Some MUnexp.
Proof. vm_compute. repeat split. Qed.

(* non-vacuity for falsy and cross-type values: the key 1 named as True, the value 1.0 == True; a surplus key
   mismatches although what it holds is False / 0.0 / None / []; an empty list fails AnyMatch under a dict key *)
Example C06_example_falsy :
  let ls := leafsem_of [] in
  let rk := fun (_ i : nat) => i in
  let m := MatchesDict [(KInt 1, Equals (VBool true))] in
  let n := ContainedByDict [(KInt 1, AnyMatch Always)] in
  key_of (VBool true) = Some (KInt 1) /\ key_of (VFloat 2) = Some (KInt 1)
  /\ dom ls m (VDict [(KInt 1, VFloat 2)]) = true /\ match_ ls rk m (VDict [(KInt 1, VFloat 2)]) = None
  /\ Forall (fun x => dom ls m (VDict [(KInt 1, VInt 1); (KInt 0, x)]) = true
                      /\ sem ls m (VDict [(KInt 1, VInt 1); (KInt 0, x)]) = false
                      /\ match_ ls rk m (VDict [(KInt 1, VInt 1); (KInt 0, x)]) <> None)
            [VBool false; VFloat 0; VInt 0; VNone; VStr []; VBytes []; VList []; VDict []]
  /\ sem ls n (VDict [(KInt 1, VList [])]) = false /\ match_ ls rk n (VDict [(KInt 1, VList [])]) <> None
  /\ sem ls n (VDict []) = true /\ match_ ls rk n (VDict []) = None.
Proof. vm_compute. repeat split; try discriminate; repeat constructor; try discriminate. Qed.
