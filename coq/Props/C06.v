(* C06 - trivial placeholder while the correspondence is being validated. *)
From TT Require Import Lib.Base Model.Matchers Spec.C06 Corr.C06.
