(* C11 - stream decorators forward each event once, change only their field, never alias.
   The statement as an executable predicate over (input, observation of the
   implementation) and as a readable Prop.  It is written per SINK and per CALL:
   what a leaf of the decorator tree newly logs at a call is a function of the
   decorators on the path from the root to that leaf and of the call alone, the
   tags argument taken BY VALUE at the time of the call - no memory of earlier calls
   or runs, no dependence on which object the caller passes or on what becomes of it. *)
From TT Require Import Lib.Base Model.Router Model.StreamDecor Gen.Failfast.

(* a decorator tree, the caller's own mutable tag sets, and what the caller does: any sequence of
   startTestRun / stopTestRun / status calls on the root (several runs, repeated stops, calls outside
   a run) and of in-place changes to its own sets; a status call names the tag OBJECT it passes
   (TLoc l: the caller's l-th set, the same object whenever l recurs; TFrozen; TNone) *)
Record input := { tree : node; caller : store; ops : list op }.

Definition otags := option (list tag).          (* test_tags as a value: None or the set *)
Inductive entry := EStart | EStop | ESt (e : event otags) | EFired.

(* what one call did: did it raise; for every leaf (left to right) the entries it newly logged;
   the caller's sets right after the call.  A logged tag set is read at the END of the run (so that
   a decorator which later changes a set it has handed out shows), unless the logged object is one
   of the caller's own set objects: that one is read right after the call returns - what the CALLER
   does to its own object afterwards is not the decorators' doing, and whether a sink is handed the
   caller's object or an equal copy is left open by the statement. *)
Record step_obs := { s_raised : bool; s_new : list (list entry); s_caller : store }.
Record obs := { o_steps : list step_obs }.

(* ---------- equality tests ---------- *)
Definition onat_eqb : option nat -> option nat -> bool := option_eqb Nat.eqb.
Definition lnat_eqb : list nat -> list nat -> bool := list_eqb Nat.eqb.
Definition olnat_eqb : option (list nat) -> option (list nat) -> bool := option_eqb lnat_eqb.
Definition tsobj_eqb (a b : tsobj) : bool :=
  match a, b with
  | TAware z x, TAware w y => Nat.eqb z w && Nat.eqb x y
  | TNaive x, TNaive y | TOther x, TOther y => Nat.eqb x y
  | _, _ => false
  end.
Definition tsv_eqb (a b : tsv) : bool :=
  match a, b with
  | TsNone, TsNone | TsFilled, TsFilled => true
  | TsGiven x, TsGiven y => tsobj_eqb x y
  | _, _ => false
  end.
Definition oevent_eqb (a b : event otags) : bool :=
  onat_eqb (v_id a) (v_id b) && onat_eqb (v_status a) (v_status b)
  && olnat_eqb (v_tags a) (v_tags b) && Bool.eqb (v_runnable a) (v_runnable b)
  && onat_eqb (v_file a) (v_file b) && olnat_eqb (v_bytes a) (v_bytes b)
  && Bool.eqb (v_eof a) (v_eof b) && onat_eqb (v_mime a) (v_mime b)
  && olnat_eqb (v_route a) (v_route b) && tsv_eqb (v_ts a) (v_ts b).
Definition entry_eqb (a b : entry) : bool :=
  match a, b with
  | EStart, EStart | EStop, EStop | EFired, EFired => true
  | ESt x, ESt y => oevent_eqb x y
  | _, _ => false
  end.
Definition store_eqb : store -> store -> bool := list_eqb lnat_eqb.

(* ---------- the sinks of a tree and the decorators above each ---------- *)
Inductive pstep := PCopy | PTag (add discard : list tag) | PStamp | PQueue (c : option seg).
Inductive leafkind := LSink | LFail.
Definition path := list pstep.                  (* from the root down to the leaf *)

Definition under (s : pstep) (pk : path * leafkind) : path * leafkind := (s :: fst pk, snd pk).

Fixpoint leaves (n : node) : list (path * leafkind) :=
  match n with
  | Sink => [([], LSink)]
  | FailFast => [([], LFail)]
  | Copy ts => map (under PCopy) (flat_map leaves ts)
  | Tagger a d ts => map (under (PTag a d)) (flat_map leaves ts)
  | Stamp t => map (under PStamp) (leaves t)
  | ToQueue c t => map (under (PQueue c)) (leaves t)
  end.

(* ---------- each decorator's own field, on values ---------- *)
Definition set_union (a b : list tag) : list tag := canon (fun t => mem t a || mem t b).
Definition set_diff (a b : list tag) : list tag := canon (fun t => mem t a && negb (mem t b)).

(* tags on the way down: still the caller's own object, or a new set with this value *)
Inductive tagstate := Orig (r : tagref) | Fresh (v : list tag).

(* now: the caller's sets at the time of the call.  The caller's argument enters only through
   the VALUE it has at that time (deref / tags_or_empty now): not which object carries it, not
   what that object held at earlier calls, not what the caller makes of it later. *)
Definition tag_step (now : store) (x : tagstate) (s : pstep) : tagstate :=
  match s with
  | PTag add discard =>
      Fresh (set_diff (set_union (match x with Orig r => tags_or_empty now r | Fresh v => v end) add) discard)
  | _ => x
  end.
Definition tag_finish (now : store) (x : tagstate) : otags :=
  match x with
  | Orig r => deref now r             (* no tagger above: the caller's argument as it is at the call *)
  | Fresh [] => None                  (* `test_tags or None` *)
  | Fresh v => Some v
  end.

Definition route_step (r : route) (s : pstep) : route :=
  match s with PQueue c => route_code_opt c r | _ => r end.
Definition is_stamp (s : pstep) : bool := match s with PStamp => true | _ => false end.
Definition fill (t : tsv) : tsv := match t with TsNone => TsFilled | TsGiven k => TsGiven k | TsFilled => TsFilled end.

(* the status call a sink below the decorators p receives for the caller's status(e) *)
Definition expect_event (now : store) (p : path) (e : event tagref) : event otags :=
  Evt (v_id e) (v_status e)
      (tag_finish now (fold_left (tag_step now) p (Orig (v_tags e))))
      (v_runnable e) (v_file e) (v_bytes e) (v_eof e) (v_mime e)
      (fold_left route_step p (v_route e))
      (if existsb is_stamp p then fill (v_ts e) else v_ts e).

(* the failure callback fires for 'fail' and 'uxsuccess' only *)
Definition is_failure (s : option nat) : bool :=
  match s with Some k => Nat.eqb k st_fail || Nat.eqb k st_uxsuccess | None => false end.

(* what a leaf newly logs at a call *)
Definition expect_new (now : store) (o : op) (pk : path * leafkind) : list entry :=
  match o, snd pk with
  | OStart, LSink => [EStart]
  | OStop, LSink => [EStop]
  | OStatus e, LSink => [ESt (expect_event now (fst pk) e)]
  | OStatus e, LFail => if is_failure (v_status e) then [EFired] else []
  | _, _ => []
  end.

(* the caller's sets after the caller's own actions *)
Definition caller_step (st : store) (o : op) : store :=
  match o with OMutate l v => set_nth l v st | _ => st end.
Definition caller_after (st : store) (past : list op) : store := fold_left caller_step past st.

(* ---------- the statement, executable ---------- *)
Definition step_okb (i : input) (past : list op) (o : op) (so : step_obs) : bool :=
  let now := caller_after (caller i) past in
  negb (s_raised so)
  && list_eqb (list_eqb entry_eqb) (s_new so) (map (expect_new now o) (leaves (tree i)))
  && store_eqb (s_caller so) (caller_step now o).      (* no call changes the caller's objects *)

Fixpoint steps_okb (i : input) (past : list op) (l : list op) (os : list step_obs) : bool :=
  match l, os with
  | [], [] => true
  | o :: l', so :: os' => step_okb i past o so && steps_okb i (past ++ [o]) l' os'
  | _, _ => false
  end.

Definition spec_okb (i : input) (o : obs) : bool := steps_okb i [] (ops i) (o_steps o).

(* ---------- the statement, readable ---------- *)
Definition Step_spec (i : input) (past : list op) (o : op) (so : step_obs) : Prop :=
  let now := caller_after (caller i) past in
  s_raised so = false
  /\ s_new so = map (expect_new now o) (leaves (tree i))
  /\ s_caller so = caller_step now o.

Definition Spec (i : input) (o : obs) : Prop :=
  length (o_steps o) = length (ops i)
  /\ forall k op so, nth_error (ops i) k = Some op -> nth_error (o_steps o) k = Some so ->
       Step_spec i (firstn k (ops i)) op so.

(* ---------- well-formed inputs ---------- *)
(* the set objects the caller passes and changes are its own: cells of `caller` *)
Definition ref_okb (n : nat) (r : tagref) : bool := match r with TLoc l => Nat.ltb l n | _ => true end.
(* a route code string splits into at least one (possibly empty) segment *)
Definition route_okb (r : route) : bool := match r with Some [] => false | _ => true end.
Definition op_okb (n : nat) (o : op) : bool :=
  match o with
  | OStatus e => ref_okb n (v_tags e) && route_okb (v_route e)
  | OMutate l _ => Nat.ltb l n
  | _ => true
  end.
Definition wfb (i : input) : bool := forallb (op_okb (length (caller i))) (ops i).
Definition wf (i : input) : Prop := wfb i = true.

(* no finding is delimited for C11 after the F7 repair *)
Definition findings (i : input) : list nat := [].
