(* C15 - Spinner returns the function's own result within the timeout and restores
   process state.  The statement as an executable predicate over (input,
   observation) and as a readable Prop.  Written from the property text, not
   from the model's algorithms: no queue, no event loop, only "which of the
   Deferred / the timeout / the stop request comes first". *)
From TT Require Import Lib.Base Lib.Sort Model.Reactor Model.Spinner.

(* one run() on the one spinner of the history *)
Record runspec := mkRun {
  r_clear : bool;          (* clear_junk() is called first *)
  r_pre : list nat;        (* handlers installed for SIGINT, SIGTERM, SIGCHLD before the call *)
  r_hooks : list hook;     (* start-up hooks somebody registered with reactor.callWhenRunning before the call, in
                              registration order: they fire when the reactor starts, before the function is called *)
  r_stop : option nat;     (* Some k: before the call somebody makes reactor.stop the instance-level override k
                              (k = 0: removes any override, the stock method shows again); None: left as it is *)
  r_timeout : time;
  r_fn : fn
}.
Record input := mkInput {
  i_oracle : list nat;     (* tie-break choices of the reactor *)
  i_batch : bool;          (* the reactor runs every call due at the same instant in one iteration *)
  i_runs : list runspec
}.

(* three pre-installed handlers: SIG_DFL 0, SIG_IGN 1, default_int_handler 2, Python callables, or h_none, the
   disposition getsignal() reports as None *)
Definition wf_run (rs : runspec) : Prop := length (r_pre rs) = length reactor_signals.
Definition wf (i : input) : Prop := Forall wf_run (i_runs i).

(* what is seen after one run() *)
Record robs := mkObs {
  o_res : res value exc;   (* what run() returned / the class of what it raised *)
  o_reentry : list bool;   (* one entry per call of run() made while this run was in progress (by the function
                              itself or by one of its delayed calls, through the same or another Spinner), in order:
                              it raised ReentryError and changed nothing *)
  o_ran : list nat;        (* the function's delayed calls that ran (tokens, sorted) *)
  o_order : list nat;      (* every delayed call that ran, in the order the reactor ran them (0 = the timeout call) *)
  o_junk : list nat;       (* get_junk() afterwards (tokens, sorted) *)
  o_running : bool;        (* reactor.running *)
  o_pending : nat;         (* len(reactor.getDelayedCalls()) *)
  o_readers : nat;         (* selectables still registered *)
  o_stop : nat;            (* who reactor.stop is afterwards: 0 the stock method, k the override k, 99 anything else *)
  o_stopped : bool;        (* the stock stop was really called (the reactor can never be started again) *)
  o_sigs : list nat        (* handlers of SIGINT, SIGTERM, SIGCHLD afterwards *)
}.
Definition obs := list robs.

Definition exc_eqb (a b : exc) : bool :=
  match a, b with
  | EUser x, EUser y => Nat.eqb x y
  | ETimeout, ETimeout | ENoResult, ENoResult | EReentry, EReentry
  | EStaleJunk, EStaleJunk | EOther, EOther => true
  | _, _ => false
  end.
Definition result_eqb : res value exc -> res value exc -> bool := res_eqb Nat.eqb exc_eqb.

Definition result_of (o : outcome) : res value exc :=
  match o with Succeed v => Ok v | Fail e => Raised (EUser e) end.

(* the instants at which the run can end, each with the result it then has *)
Definition events (T : time) (f : fn) : list (time * res value exc) :=
  (T, Raised ETimeout)
  :: (match f_shape f with Later t o => [(t, result_of o)] | _ => [] end)
  ++ (match f_stop f with Some s => [(s, Raised ENoResult)] | None => [] end).

Definition earliest (evs : list (time * res value exc)) : time :=
  fold_right (fun ev m => Nat.min (fst ev) m) (fst (hd (0, Raised EOther) evs)) evs.

(* the calls that can end the run: 0 the timeout call, 1 the call firing the Deferred, 2 the stop request *)
Definition crash_toks (order : list nat) : list nat := filter (fun t => Nat.leb t 2) order.
Definition has (t : nat) (l : list nat) : bool := existsb (Nat.eqb t) l.
Definition ev_time (T : time) (f : fn) (tok : nat) : option time :=
  match tok with
  | 0 => Some T
  | 1 => match f_shape f with Later t _ => Some t | _ => None end
  | 2 => f_stop f
  | _ => None
  end.
(* what run() must report, given which of them have run: TimeoutError once the timeout call has run (the
   Deferred had not fired by then, or the call would have been cancelled); else the Deferred's own result
   if it fired; else NoResultError (the reactor was stopped) *)
Definition decided (f : fn) (E : list nat) : res value exc :=
  if has 0 E then Raised ETimeout
  else if has 1 E then match f_shape f with Later _ o => result_of o | _ => Raised EOther end
  else Raised ENoResult.

(* "exactly as the timing dictates": a synchronous result is the result; otherwise at least one of the three
   ran, whatever ran was due at the earliest of their instants (simultaneous ones in either order, as the
   reactor chose), and the result is the one that decides *)
Definition is_hstop (h : hook) : bool := match h with HStop => true | _ => false end.
(* the reactor is stopped while it starts up, before the function has been called *)
Definition stopped_early (hs : list hook) : bool := existsb is_hstop hs.

(* `early`: the reactor was stopped during start-up.  The function is still called (every start-up hook fires) and
   what it returns synchronously is the result; a Deferred that has not fired by then never gets the chance *)
Definition allowed (early : bool) (T : time) (f : fn) (order : list nat) (r : res value exc) : bool :=
  match f_shape f with
  | Sync _ o => result_eqb r (result_of o)
  | _ => if f_stop_now f || early then result_eqb r (Raised ENoResult)
         else let E := crash_toks order in
              negb (Nat.eqb (length E) 0)
              && forallb (fun k => option_eqb Nat.eqb (ev_time T f k) (Some (earliest (events T f)))) E
              && result_eqb r (decided f E)
  end.

(* the delayed calls the start-up hooks left with the reactor *)
Fixpoint hook_tokens (j : nat) (hs : list hook) : list nat :=
  match hs with
  | [] => []
  | HSched _ :: r => tok_hook j :: hook_tokens (S j) r
  | _ :: r => hook_tokens (S j) r
  end.

(* everything the function left with the reactor *)
Definition sched_tokens (f : fn) : list nat :=
  map tok_extra (seq 0 (length (f_extras f)))
  ++ (match f_stop f with Some _ => [tok_stop] | None => [] end)
  ++ (match f_shape f with Later _ _ => [tok_fire] | _ => [] end)
  ++ map tok_sel (seq 0 (f_sels f)).

Definition count (l : list nat) (x : nat) : nat := count_occ Nat.eq_dec l x.
Definition perm_eqb (a b : list nat) : bool :=
  forallb (fun x => Nat.eqb (count a x) (count b x)) (a ++ b).
Definition not_timeout_tok (t : nat) : bool := negb (Nat.eqb t tok_timeout).

(* re-entrant use is refused - every time: each attempt made while the run was in progress was refused and changed
   nothing, and every attempt the function makes itself has been seen *)
Definition reentry_okb (f : fn) (re : list bool) : bool :=
  forallb (fun b => b) re && Nat.leb (length (f_reenter f)) (length re).

(* the spinner's own timeout call is reported as junk only when it was left pending because the reactor was
   stopped before either the Deferred or the timeout fired (a run that delivered the function's result or timed
   out leaves no junk of its own, so that the next run is not refused for it) *)
Definition own_junk_okb (o : robs) : bool :=
  if has tok_timeout (o_junk o) then result_eqb (o_res o) (Raised ENoResult) else true.

(* the handlers afterwards are the ones installed before the call; a disposition that getsignal() reports as None
   cannot be put back through the signal module by anybody once the reactor has taken the signal over: for that
   signal nothing is demanded (everything else is) *)
Fixpoint sigs_okb (pre after : list nat) : bool :=
  match pre, after with
  | [], [] => true
  | p :: pre', a :: after' => (Nat.eqb p h_none || Nat.eqb a p) && sigs_okb pre' after'
  | _, _ => false
  end.
Fixpoint Sigs_ok (pre after : list nat) : Prop :=
  match pre, after with
  | [], [] => True
  | p :: pre', a :: after' => (p = h_none \/ a = p) /\ Sigs_ok pre' after'
  | _, _ => False
  end.

(* who reactor.stop is when run() is called, given who it was after the previous run *)
Definition stop_before (prev_stop : nat) (rs : runspec) : nat :=
  match r_stop rs with Some k => k | None => prev_stop end.

(* whenever run() returns or raises (other than ReentryError): reactor stopped and empty; reactor.stop is who it
   was before the call (stock or override) and the stock stop was never really called; handlers restored *)
Definition clean_okb (stop0 : nat) (rs : runspec) (o : robs) : bool :=
  negb (o_running o) && Nat.eqb (o_pending o) 0 && Nat.eqb (o_readers o) 0
  && Nat.eqb (o_stop o) stop0 && negb (o_stopped o) && sigs_okb (r_pre rs) (o_sigs o).

(* stale = the junk the spinner holds when run() is called *)
Definition run_okb (stale : list nat) (stop0 : nat) (rs : runspec) (o : robs) : bool :=
  clean_okb stop0 rs o &&
  match stale with
  | _ :: _ =>   (* refuses to run: nothing happens *)
      result_eqb (o_res o) (Raised EStaleJunk) && list_eqb Nat.eqb (o_junk o) stale
      && list_eqb Nat.eqb (o_ran o) [] && list_eqb Nat.eqb (o_order o) []
      && list_eqb Bool.eqb (o_reentry o) []
  | [] =>
      allowed (stopped_early (r_hooks rs)) (r_timeout rs) (r_fn rs) (o_order o) (o_res o)
      && list_eqb Nat.eqb (o_ran o) (isort Nat.leb (filter not_timeout_tok (o_order o)))
      && reentry_okb (r_fn rs) (o_reentry o)
      (* every leftover of the function either ran or is reported as junk, once *)
      && perm_eqb (o_ran o ++ filter not_timeout_tok (o_junk o)) (hook_tokens 0 (r_hooks rs) ++ sched_tokens (r_fn rs))
      && own_junk_okb o
  end.

Fixpoint runs_okb (prev_junk : list nat) (prev_stop : nat) (rss : list runspec) (os : obs) : bool :=
  match rss, os with
  | [], [] => true
  | rs :: rss', o :: os' =>
      run_okb (if r_clear rs then [] else prev_junk) (stop_before prev_stop rs) rs o
      && runs_okb (o_junk o) (stop_before prev_stop rs) rss' os'
  | _, _ => false
  end.

(* a history starts with the stock reactor.stop *)
Definition spec_okb (i : input) (o : obs) : bool := runs_okb [] 0 (i_runs i) o.

(* ---- readable form ---- *)
Definition Allowed (early : bool) (T : time) (f : fn) (order : list nat) (r : res value exc) : Prop :=
  match f_shape f with
  | Sync _ o => r = result_of o
  | _ => if f_stop_now f || early then r = Raised ENoResult
         else let E := crash_toks order in
              E <> []
              /\ (forall k, In k E -> exists t, ev_time T f k = Some t /\ In t (map fst (events T f))
                                               /\ forall ev, In ev (events T f) -> t <= fst ev)
              /\ r = decided f E
  end.

Definition Clean (stop0 : nat) (rs : runspec) (o : robs) : Prop :=
  o_running o = false /\ o_pending o = 0 /\ o_readers o = 0 /\ o_stop o = stop0 /\ o_stopped o = false
  /\ Sigs_ok (r_pre rs) (o_sigs o).

Definition Run_spec (stale : list nat) (stop0 : nat) (rs : runspec) (o : robs) : Prop :=
  Clean stop0 rs o /\
  match stale with
  | _ :: _ => o_res o = Raised EStaleJunk /\ o_junk o = stale /\ o_ran o = [] /\ o_order o = [] /\ o_reentry o = []
  | [] => Allowed (stopped_early (r_hooks rs)) (r_timeout rs) (r_fn rs) (o_order o) (o_res o)
          /\ o_ran o = isort Nat.leb (filter not_timeout_tok (o_order o))
          /\ (forall b, In b (o_reentry o) -> b = true) /\ length (f_reenter (r_fn rs)) <= length (o_reentry o)
          /\ (forall t, count (o_ran o ++ filter not_timeout_tok (o_junk o)) t
                         = count (hook_tokens 0 (r_hooks rs) ++ sched_tokens (r_fn rs)) t)
          /\ (In tok_timeout (o_junk o) -> o_res o = Raised ENoResult)
  end.

Fixpoint Runs_spec (prev_junk : list nat) (prev_stop : nat) (rss : list runspec) (os : obs) : Prop :=
  match rss, os with
  | [], [] => True
  | rs :: rss', o :: os' =>
      Run_spec (if r_clear rs then [] else prev_junk) (stop_before prev_stop rs) rs o
      /\ Runs_spec (o_junk o) (stop_before prev_stop rs) rss' os'
  | _, _ => False
  end.

Definition Spec (i : input) (o : obs) : Prop := Runs_spec [] 0 (i_runs i) o.

(* no finding is delimited for C15: F10 (982287f) and F24 (030b4f9: TypeError out of run() when getsignal()
   reported None for a preserved signal) are repaired *)
Definition findings (i : input) : list nat := [].
