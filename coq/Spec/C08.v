(* C08 - result adapters deliver each call once, at the richest protocol the target has.
   The statement as an executable predicate over (input, observation) and as readable Props.
   The observation is what the harness records from the implementation: the log of every
   innermost result (left to right), the on_test callbacks of every TestByTestResult, and the
   calls that raised.  [spec_okb] is evaluated by Coq on it.  Nothing here uses the layer-by-layer
   conversions of the model: the statement is a table indexed by the capabilities of the leaf. *)
From TT Require Import Lib.Base Model.Adapters.

Record input := { stack : adapter; hist : list call }.
Record obs := { o_leaves : list leaf_obs; o_raised : list (nat * exn) }.

(* ---------- boolean equalities ---------- *)
Definition text_eqb : text -> text -> bool := list_eqb Nat.eqb.
Definition errv_eqb (a b : errv) : bool :=
  match a, b with
  | Orig k, Orig k' => k =? k'
  | Fresh, Fresh | Other, Other => true
  | Str t, Str t' => text_eqb t t'
  | _, _ => false
  end.
Definition dkind_eqb (a b : dkind) : bool :=
  match a, b with
  | DText t, DText t' => text_eqb t t'
  | DBin x, DBin y => list_eqb Nat.eqb x y
  | DTb e, DTb e' => errv_eqb e e'
  | _, _ => false
  end.
Definition detail_eqb : detail -> detail -> bool := pair_eqb text_eqb dkind_eqb.
Definition details_eqb : details -> details -> bool := list_eqb detail_eqb.
Definition tkind_eqb (a b : tkind) : bool :=
  match a, b with TCase, TCase | THolder, THolder => true | _, _ => false end.
Definition test_eqb (a b : test) : bool := (tid a =? tid b) && tkind_eqb (tk a) (tk b).
Definition ekind_eqb (a b : ekind) : bool :=
  match a, b with KError, KError | KFailure, KFailure | KXFail, KXFail => true | _, _ => false end.
Definition okind_eqb (a b : okind) : bool :=
  match a, b with KSuccess, KSuccess | KUxSuccess, KUxSuccess => true | _, _ => false end.
Definition exn_eqb (a b : exn) : bool :=
  match a, b with
  | AttributeError, AttributeError | ValueError, ValueError | TypeError, TypeError | OtherError, OtherError
  | CallbackError, CallbackError => true
  | _, _ => false
  end.
Definition sum_eqb {A B} (ea : A -> A -> bool) (eb : B -> B -> bool) (x y : A + B) : bool :=
  match x, y with
  | inl a, inl a' => ea a a'
  | inr b, inr b' => eb b b'
  | _, _ => false
  end.
Definition tags_eqb : list tag -> list tag -> bool := list_eqb Nat.eqb.
Definition call_eqb (a b : call) : bool :=
  match a, b with
  | StartTestRun, StartTestRun | StopTestRun, StopTestRun | Stop, Stop | Done, Done => true
  | Tags n g, Tags n' g' => tags_eqb n n' && tags_eqb g g'
  | Time t, Time t' => t =? t'
  | Progress o w, Progress o' w' => (o =? o') && (w =? w')
  | StartTest t, StartTest t' | StopTest t, StopTest t' => test_eqb t t'
  | AddErr k t x, AddErr k' t' x' => ekind_eqb k k' && test_eqb t t' && sum_eqb errv_eqb details_eqb x x'
  | AddSkip t x, AddSkip t' x' => test_eqb t t' && sum_eqb text_eqb details_eqb x x'
  | AddOk k t d, AddOk k' t' d' => okind_eqb k k' && test_eqb t t' && option_eqb details_eqb d d'
  | _, _ => false
  end.

(* ---------- substrings ---------- *)
Fixpoint prefixb (p s : text) : bool :=
  match p, s with
  | [], _ => true
  | x :: p', y :: s' => (x =? y) && prefixb p' s'
  | _ :: _, [] => false
  end.
Fixpoint substringb (p s : text) : bool :=
  prefixb p s || match s with [] => false | _ :: s' => substringb p s' end.
Definition Substring (p s : text) : Prop := exists a b, s = a ++ p ++ b.

(* the text s contains the stripped text of every text detail that is not blank *)
Definition contains_all (d : details) (s : text) : bool :=
  forallb (fun x => match snd x with
                    | DText t => is_nil (strip t) || substringb (strip t) s
                    | _ => true
                    end) d.
Definition ContainsAll (d : details) (s : text) : Prop :=
  forall n t, In (n, DText t) d -> strip t <> [] -> Substring (strip t) s.

(* ---------- the degradation table ---------- *)
(* startTest / outcome / stopTest: the calls of which every result must see each one once *)
Definition is_bracket (c : call) : bool :=
  match c with
  | StartTest _ | StopTest _ | AddErr _ _ _ | AddSkip _ _ | AddOk _ _ _ => true
  | _ => false
  end.
Definition bracket (l : list call) : list call := filter is_bracket l.

Definition has_err (c : caps) (k : ekind) : bool := match k with KXFail => c_xfail c | _ => true end.
Definition has_ok (c : caps) (k : okind) : bool := match k with KUxSuccess => c_uxs c | _ => true end.

(* the call lc is what a result with capabilities c must receive for the history call hc *)
Inductive Delivered (c : caps) : call -> call -> Prop :=
| D_start t : Delivered c (StartTest t) (StartTest t)
| D_stop t : Delivered c (StopTest t) (StopTest t)
(* error / failure / expected failure *)
| D_err_exc k t e : has_err c k = true -> Delivered c (AddErr k t (inl e)) (AddErr k t (inl e))
| D_err_details k t d : has_err c k = true -> c_details c = true ->
    Delivered c (AddErr k t (inr d)) (AddErr k t (inr d))
| D_err_string k t d s : has_err c k = true -> c_details c = false -> ContainsAll d s ->
    Delivered c (AddErr k t (inr d)) (AddErr k t (inl (Str s)))       (* synthetic _StringException *)
| D_xfail_success t a : c_xfail c = false -> Delivered c (AddErr KXFail t a) (AddOk KSuccess t None)
(* skip *)
| D_skip_reason t r : c_skip c = true -> Delivered c (AddSkip t (inl r)) (AddSkip t (inl r))
| D_skip_details t d : c_skip c = true -> c_details c = true -> Delivered c (AddSkip t (inr d)) (AddSkip t (inr d))
| D_skip_key t d r : c_skip c = true -> c_details c = false -> lookup n_reason d = Some (DText r) ->
    Delivered c (AddSkip t (inr d)) (AddSkip t (inl r))               (* reason = details['reason'] text *)
| D_skip_str t d s : c_skip c = true -> c_details c = false -> lookup n_reason d = None -> ContainsAll d s ->
    Delivered c (AddSkip t (inr d)) (AddSkip t (inl s))
| D_skip_odd t d k s : c_skip c = true -> c_details c = false -> lookup n_reason d = Some k ->
    (forall r, k <> DText r) ->
    Delivered c (AddSkip t (inr d)) (AddSkip t (inl s))               (* a 'reason' that is not text: excluded by wf *)
| D_skip_success t a : c_skip c = false -> Delivered c (AddSkip t a) (AddOk KSuccess t None)
(* success / unexpected success *)
| D_ok_details k t od : has_ok c k = true -> c_details c = true -> Delivered c (AddOk k t od) (AddOk k t od)
| D_ok_empty t : c_details c = true ->
    Delivered c (AddOk KSuccess t (Some [])) (AddOk KSuccess t None)  (* an empty dict tells nothing more than none *)
| D_ok_plain k t od : has_ok c k = true -> c_details c = false -> Delivered c (AddOk k t od) (AddOk k t None)
| D_uxs_failure t od : c_uxs c = false -> Delivered c (AddOk KUxSuccess t od) (AddErr KFailure t (inl Fresh)).

Definition delivered_ok (c : caps) (hc lc : call) : bool :=
  match hc with
  | StartTest t => match lc with StartTest t' => test_eqb t t' | _ => false end
  | StopTest t => match lc with StopTest t' => test_eqb t t' | _ => false end
  | AddErr k t a =>
      if has_err c k then
        match lc with
        | AddErr k' t' a' =>
            ekind_eqb k k' && test_eqb t t' &&
            match a, a' with
            | inl e, inl e' => errv_eqb e e'
            | inr d, inr d' => c_details c && details_eqb d d'
            | inr d, inl (Str s) => negb (c_details c) && contains_all d s
            | _, _ => false
            end
        | _ => false
        end
      else match lc with AddOk KSuccess t' None => test_eqb t t' | _ => false end
  | AddSkip t a =>
      if c_skip c then
        match lc with
        | AddSkip t' a' =>
            test_eqb t t' &&
            match a, a' with
            | inl r, inl r' => text_eqb r r'
            | inr d, inr d' => c_details c && details_eqb d d'
            | inr d, inl s => negb (c_details c) &&
                              match lookup n_reason d with
                              | Some (DText r) => text_eqb r s
                              | Some _ => true
                              | None => contains_all d s
                              end
            | _, _ => false
            end
        | _ => false
        end
      else match lc with AddOk KSuccess t' None => test_eqb t t' | _ => false end
  | AddOk k t od =>
      if has_ok c k then
        match lc with
        | AddOk k' t' od' =>
            okind_eqb k k' && test_eqb t t' &&
            (if c_details c
             then option_eqb details_eqb od od'
                  || match k, od, od' with KSuccess, Some [], None => true | _, _, _ => false end
             else match od' with None => true | Some _ => false end)
        | _ => false
        end
      else match lc with AddErr KFailure t' (inl Fresh) => test_eqb t t' | _ => false end
  | _ => false
  end.

(* what "the same call" means for the once-in-order clause: the slot and the test *)
Inductive slot := SStart | SOutcome | SStop.
Definition shape (c : call) : option (slot * test) :=
  match c with
  | StartTest t => Some (SStart, t)
  | StopTest t => Some (SStop, t)
  | AddErr _ t _ | AddSkip t _ | AddOk _ t _ => Some (SOutcome, t)
  | _ => None
  end.

(* failing outcomes *)
Definition is_fail (c : call) : bool :=
  match c with
  | AddErr KError _ _ | AddErr KFailure _ _ | AddOk KUxSuccess _ _ => true
  | _ => false
  end.

(* ---------- TestByTestResult ---------- *)
(* the documented status words (docstring of TestByTestResult.__init__), numbered as in Gen/Bytest.v *)
Definition w_success := 0. Definition w_failure := 1. Definition w_error := 2. Definition w_skip := 3.
Definition w_xfail := 4.
Definition word_of (c : call) : option nat :=
  match c with
  | AddErr KError _ _ => Some w_error
  | AddErr KFailure _ _ => Some w_failure
  | AddErr KXFail _ _ => Some w_xfail
  | AddSkip _ _ => Some w_skip
  | AddOk _ _ _ => Some w_success          (* an unexpected success is reported with the word "success" *)
  | _ => None
  end.
(* the details of an outcome: those given; for an exc_info the traceback made from it; for a
   bare skip reason the reason *)
Definition details_of (c : call) : option details :=
  match c with
  | AddErr _ _ (inr d) | AddSkip _ (inr d) => Some d
  | AddErr _ _ (inl e) => Some [(n_traceback, DTb e)]
  | AddSkip _ (inl r) => Some [(n_reason, DText r)]
  | AddOk _ _ od => od
  | _ => None
  end.

Definition tag_change := (list tag * list tag)%type.
Definition apply_changes (s : list tag) (l : list tag_change) : list tag :=
  fold_left (fun acc ch => change_tags acc (fst ch) (snd ch)) l s.

(* Tags are two-level: changes outside a test persist until startTestRun, changes inside a test
   (the Taggers' first, innermost Tagger first) end with it.  The time in force is the last one
   given since startTestRun. *)
Record sst := { s_glob : list tag; s_loc : option (list tag); s_now : option nat;
                s_start : option nat; s_word : option nat; s_det : option details }.
Definition sst_init : sst :=
  {| s_glob := []; s_loc := None; s_now := None; s_start := None; s_word := None; s_det := None |}.

Definition spec_step (tg : list tag_change) (s : sst) (c : call) : sst * list cb :=
  match c with
  | StartTestRun =>
      ({| s_glob := []; s_loc := None; s_now := None; s_start := s_start s; s_word := s_word s; s_det := s_det s |}, [])
  | Tags n g =>
      (match s_loc s with
       | Some l => {| s_glob := s_glob s; s_loc := Some (change_tags l n g); s_now := s_now s; s_start := s_start s;
                      s_word := s_word s; s_det := s_det s |}
       | None => {| s_glob := change_tags (s_glob s) n g; s_loc := None; s_now := s_now s; s_start := s_start s;
                    s_word := s_word s; s_det := s_det s |}
       end, [])
  | Time t =>
      ({| s_glob := s_glob s; s_loc := s_loc s; s_now := Some t; s_start := s_start s; s_word := s_word s;
          s_det := s_det s |}, [])
  | StartTest _ =>
      ({| s_glob := s_glob s; s_loc := Some (apply_changes (s_glob s) tg); s_now := s_now s; s_start := s_now s;
          s_word := None; s_det := None |}, [])
  | StopTest t =>
      ({| s_glob := s_glob s; s_loc := None; s_now := s_now s; s_start := s_start s; s_word := s_word s;
          s_det := s_det s |},
       [{| cb_test := t; cb_status := s_word s; cb_start := s_start s; cb_stop := s_now s;
           cb_tags := match s_loc s with Some l => l | None => s_glob s end; cb_details := s_det s |}])
  | AddErr _ _ _ | AddSkip _ _ | AddOk _ _ _ =>
      ({| s_glob := s_glob s; s_loc := s_loc s; s_now := s_now s; s_start := s_start s; s_word := word_of c;
          s_det := details_of c |}, [])
  | StopTestRun | Progress _ _ | Stop | Done => (s, [])
  end.
Fixpoint expected_cbs (tg : list tag_change) (s : sst) (h : list call) : list cb :=
  match h with
  | [] => []
  | c :: r => let '(s', out) := spec_step tg s c in out ++ expected_cbs tg s' r
  end.

Fixpoint start_tests (h : list call) : list test :=
  match h with [] => [] | StartTest t :: r => t :: start_tests r | _ :: r => start_tests r end.
Fixpoint stop_tests (h : list call) : list test :=
  match h with [] => [] | StopTest t :: r => t :: stop_tests r | _ :: r => stop_tests r end.

Definition subsetb (a b : list tag) : bool := forallb (fun x => existsb (Nat.eqb x) b) a.
Definition set_eqb (a b : list tag) : bool := subsetb a b && subsetb b a.
Definition cb_ok (e c : cb) : bool :=
  test_eqb (cb_test e) (cb_test c)
  && option_eqb Nat.eqb (cb_status e) (cb_status c)
  && option_eqb Nat.eqb (cb_start e) (cb_start c)
  && option_eqb Nat.eqb (cb_stop e) (cb_stop c)
  && set_eqb (cb_tags e) (cb_tags c)
  && option_eqb details_eqb (cb_details e) (cb_details c).
Definition CbSpec (e c : cb) : Prop :=
  cb_test e = cb_test c /\ cb_status e = cb_status c /\ cb_start e = cb_start c /\ cb_stop e = cb_stop c
  /\ (forall x, In x (cb_tags e) <-> In x (cb_tags c)) /\ cb_details e = cb_details c.

(* ---------- the whole statement ---------- *)
(* the leaves of a stack, left to right, each with the tag changes of the Taggers above it,
   innermost first *)
Fixpoint spec_leaves (a : adapter) : list (leaf * list tag_change) :=
  match a with
  | Target c => [(LfTarget c, [])]
  | ByTest bad => [(LfByTest bad, [])]
  | E2O a' | Deco a' => spec_leaves a'
  | Multi l => flat_map spec_leaves l
  | Tagger n g a' => map (fun p => (fst p, snd p ++ [(n, g)])) (spec_leaves a')
  end.

Fixpoint forall2b {A B} (p : A -> B -> bool) (l : list A) (m : list B) : bool :=
  match l, m with
  | [], [] => true
  | a :: l', b :: m' => p a b && forall2b p l' m'
  | _, _ => false
  end.

Definition leaf_okb (h : list call) (lt : leaf * list tag_change) (lo : leaf_obs) : bool :=
  match fst lt, lo with
  | LfTarget c, OLog l => forall2b (delivered_ok c) (bracket h) (bracket l)
  | LfByTest _, OCbs cbs => forall2b cb_ok (expected_cbs (snd lt) sst_init h) cbs
  | _, _ => false
  end.
Definition LeafSpec (h : list call) (lt : leaf * list tag_change) (lo : leaf_obs) : Prop :=
  match fst lt, lo with
  | LfTarget c, OLog l => Forall2 (Delivered c) (bracket h) (bracket l)
  | LfByTest _, OCbs cbs => Forall2 CbSpec (expected_cbs (snd lt) sst_init h) cbs
  | _, _ => False
  end.

(* only done() / progress() may raise on their own, and only AttributeError (they do not exist on every
   class); what an on_test raises (CallbackError) comes out of the stopTest of a test it raises for *)
Definition bad_for (ls : list leaf) (t : test) : bool := existsb (fun lf => leaf_bad lf t) ls.
Definition raised_okb (ls : list leaf) (h : list call) (r : list (nat * exn)) : bool :=
  forallb (fun x => match nth_error h (fst x) with
                    | Some Done | Some (Progress _ _) => exn_eqb (snd x) AttributeError
                    | Some (StopTest t) => exn_eqb (snd x) CallbackError && bad_for ls t
                    | _ => false
                    end) r.
Definition RaisedSpec (ls : list leaf) (h : list call) (r : list (nat * exn)) : Prop :=
  forall j e, In (j, e) r ->
    (e = AttributeError /\ (nth_error h j = Some Done \/ exists o w, nth_error h j = Some (Progress o w)))
    \/ (e = CallbackError /\ exists t, nth_error h j = Some (StopTest t) /\ bad_for ls t = true).

Definition spec_okb (i : input) (o : obs) : bool :=
  raised_okb (map fst (spec_leaves (stack i))) (hist i) (o_raised o)
  && forall2b (leaf_okb (hist i)) (spec_leaves (stack i)) (o_leaves o).

Definition Spec (i : input) (o : obs) : Prop :=
  RaisedSpec (map fst (spec_leaves (stack i))) (hist i) (o_raised o)
  /\ Forall2 (LeafSpec (hist i)) (spec_leaves (stack i)) (o_leaves o).

(* ---------- well-formed inputs ---------- *)
(* speaks the whole extended protocol *)
Definition ext_caps (c : caps) : bool :=
  c_skip c && c_xfail c && c_uxs c && c_details c && c_startrun c && c_stoprun c && c_tags c && c_time c && c_stop c.
Definition ext_ok (a : adapter) : bool := match a with Target c => ext_caps c | _ => true end.
(* TestResultDecorator / Tagger forward the extended protocol as it is: what they decorate must speak it *)
Fixpoint wf_stack (a : adapter) : bool :=
  match a with
  | Target _ | ByTest _ => true
  | E2O a' => wf_stack a'
  | Multi l => negb (is_nil l) && forallb wf_stack l     (* MultiTestResult() without results cannot be constructed *)
  | Deco a' | Tagger _ _ a' => ext_ok a' && wf_stack a'
  end.

Fixpoint nodupb (l : list name) : bool :=
  match l with [] => true | x :: r => negb (existsb (text_eqb x) r) && nodupb r end.
(* a details dict: distinct names (any strings: names that extend one another such as 'traceback' /
   'traceback-1' / 'tracebackx' are distinct names), Content objects the caller can make, a 'reason'
   that is text *)
Definition details_okb (d : details) : bool :=
  nodupb (map fst d)
  && forallb (fun x => match snd x with DTb _ => false | _ => true end) d
  && match lookup n_reason d with Some (DText _) | None => true | Some _ => false end.
Definition call_okb (c : call) : bool :=
  match c with
  | AddErr _ _ (inl (Orig _)) => true
  | AddErr _ _ (inl _) => false
  | AddErr _ _ (inr d) | AddSkip _ (inr d) | AddOk _ _ (Some d) => details_okb d
  | AddSkip _ (inl r) => negb (is_nil r)
  | _ => true
  end.

(* startTest t, one outcome for t, stopTest t; run-level calls only between tests *)
Inductive phase := Outside | Started (t : test) | Reported (t : test).
Definition outcome_test (c : call) : option test :=
  match c with AddErr _ t _ | AddSkip t _ | AddOk _ t _ => Some t | _ => None end.
Fixpoint bracketed_from (p : phase) (h : list call) : bool :=
  match h with
  | [] => match p with Outside => true | _ => false end
  | c :: r =>
      match c with
      | StartTestRun | StopTestRun => match p with Outside => bracketed_from p r | _ => false end
      | StartTest t => match p with Outside => bracketed_from (Started t) r | _ => false end
      | StopTest t => match p with Reported t' => test_eqb t t' && bracketed_from Outside r | _ => false end
      | AddErr _ t _ | AddSkip t _ | AddOk _ t _ =>
          match p with Started t' => test_eqb t t' && bracketed_from (Reported t) r | _ => false end
      | Tags _ _ | Time _ | Progress _ _ | Stop | Done => bracketed_from p r
      end
  end.

(* Outside the statement: a wrapped result that raises while other results are still to be called.
   MultiTestResult._dispatch stops at the first member that raises, so when the on_test of a
   TestByTestResult raises for a test, every result dispatched to after it never gets that stopTest.  The
   property quantifies over histories, stacks and target flavours, not over faulty wrapped results, and does
   not say what a multiplexer should propagate; an on_test that raises where NO result comes after it is
   inside.  [fault_reaches_sibling]: some stopTest of the history is for a test that a TestByTestResult with
   a result to its right raises for. *)
Fixpoint abort_reaches (ls : list leaf) (t : test) : bool :=
  match ls with
  | [] => false
  | lf :: r => (leaf_bad lf t && negb (is_nil r)) || abort_reaches r t
  end.
Definition fault_reaches_sibling (i : input) : bool :=
  existsb (fun c => match c with
                    | StopTest t => abort_reaches (map fst (spec_leaves (stack i))) t
                    | _ => false
                    end) (hist i).

Definition wfb (i : input) : bool :=
  ext_ok (stack i) && wf_stack (stack i) && forallb call_okb (hist i) && bracketed_from Outside (hist i)
  && negb (fault_reaches_sibling i).
Definition wf (i : input) : Prop := wfb i = true.

(* no finding is delimited for C08: F9 and the empty-details defect of TestByTestResult are repaired *)
Definition findings (i : input) : list nat := [].
