(* C10 - stream consumers account for every test exactly once.
   The statement as an executable predicate over (input, observation) and as a
   readable Prop.  Written from the property text (DESIGN Appendix A.2), not from
   the model's algorithms: the stream is cut into per-key *segments*, and the
   record of a segment is given field by field ("last status given", "latest
   tags", "first / final timestamp", "non-empty chunks of each file name
   concatenated in arrival order, typed by the first").

   What the statement fixes and what it leaves open.  A test is reported "when its
   final status arrives, or as incomplete when the run stops": the reports made
   before stopTestRun are therefore in the order of the final-status events.  The
   statement says nothing about the ORDER in which stopTestRun reports several
   incomplete tests, so everything stopTestRun produces (on_test dicts, entries
   added to the StreamSummary lists, per-test blocks of calls on the extended
   result) is specified as a MULTISET: up to a permutation of whole tests. *)
From Coq Require Import String Permutation.
From TT Require Import Lib.Base Lib.Bytestr Model.StreamRec.
Open Scope list_scope.

(* interim states per the property text: no status, or 'inprogress' *)
Definition is_final (st : option status) : bool :=
  match st with None | Some Inprogress => false | Some _ => true end.

(* which TestResult method reports a test of each status ('exists' is never replayed) *)
Definition spec_outcome (st : status) : option outcome :=
  match st with
  | Success => Some AddSuccess | Skip => Some AddSkip | Fail => Some AddFailure
  | Xfail => Some AddExpectedFailure | Uxsuccess => Some AddUnexpectedSuccess
  | Inprogress | Unknown => Some AddFailure
  | Exists => None
  end.

(* a test with one of these statuses makes the run unsuccessful *)
Definition failing (st : status) : bool :=
  match st with Fail | Inprogress | Unknown => true | _ => false end.

(* ---------- comparing lists as multisets ---------- *)
Fixpoint remove1 {A} (eqb : A -> A -> bool) (x : A) (l : list A) : option (list A) :=
  match l with
  | [] => None
  | y :: r => if eqb x y then Some r
              else match remove1 eqb x r with Some r' => Some (y :: r') | None => None end
  end.
(* l1 is a permutation of l2 *)
Fixpoint perm_eqb {A} (eqb : A -> A -> bool) (l1 l2 : list A) : bool :=
  match l1 with
  | [] => match l2 with [] => true | _ => false end
  | x :: r => match remove1 eqb x l2 with Some l2' => perm_eqb eqb r l2' | None => false end
  end.

Section SegSpec.
  Variable M : Type.
  Variable CT : Type.
  Variable parse : option M -> CT.
  Notation event := (event M).
  Notation rcd := (rcd CT).

  (* the values a field takes along a segment, ignoring the events that do not give it *)
  Definition somes {A} (f : event -> option A) (seg : list event) : list A :=
    flat_map (fun e => match f e with Some x => [x] | None => [] end) seg.

  (* the non-empty chunks of a segment in arrival order: ((file name, mime type argument), bytes) *)
  Definition chunk := ((nat * option M) * string)%type.
  Definition chunk_of (e : event) : option chunk :=
    match e_fname e, e_fbytes e with
    | Some n, Some b => if sempty b then None else Some ((n, e_mime e), b)
    | _, _ => None
    end.
  Definition chunks (seg : list event) : list chunk := somes chunk_of seg.

  (* names in order of first appearance *)
  Fixpoint firsts (seen : list nat) (l : list nat) : list nat :=
    match l with
    | [] => []
    | x :: r => if existsb (Nat.eqb x) seen then firsts seen r else x :: firsts (x :: seen) r
    end.

  Definition named (n : nat) (cs : list chunk) : list chunk := filter (fun c => Nat.eqb n (fst (fst c))) cs.
  Definition file_of (cs : list chunk) (n : nat) : nat * (CT * string) :=
    (n, (parse (match named n cs with c :: _ => snd (fst c) | [] => None end), sjoin (map snd (named n cs)))).
  Definition files (seg : list event) : list (nat * (CT * string)) :=
    map (file_of (chunks seg)) (firsts [] (map (fun c => fst (fst c)) (chunks seg))).

  (* the record of one segment; a hung segment (no final status before stopTestRun) has no end time *)
  Definition seg_record (i : nat) (is_hung : bool) (seg : list event) : rcd :=
    {| r_id := i;
       r_tags := last (somes e_tags seg) [];
       r_details := files seg;
       r_status := last (somes e_status seg) Unknown;
       r_first := match seg with e :: _ => e_ts e | [] => None end;
       r_last := if is_hung then None else last (map e_ts seg) None |}.

  (* cutting the stream: [open] holds, per key, the events since that key's last final status *)
  Record segment := Seg { g_key : key; g_hung : bool; g_events : list event }.

  Fixpoint segments (open : list (key * list event)) (evs : list event) : list segment :=
    match evs with
    | [] => map (fun ks => Seg (fst ks) true (snd ks)) (rev open)        (* what is still open when the run stops; the
                                                                            order of this part is immaterial below *)
    | e :: r =>
        match e_id e with
        | None => segments open r
        | Some i =>
            let k := (i, e_route e) in
            let seg := (match get k open with Some s => s | None => [] end) ++ [e] in
            if is_final (e_status e) then Seg k false seg :: segments (del k open) r
            else segments (put k seg open) r
        end
    end.

  Definition record_of (g : segment) : rcd := seg_record (fst (g_key g)) (g_hung g) (g_events g).
  (* the tests of a stream: first those that end with a final status, in the order of those events, then
     (in one of the allowed orders) those that never got one *)
  Definition tests (evs : list event) : list rcd := map record_of (segments [] evs).
  (* the tests that must be reported on the way, in this order ... *)
  Definition completed (g : segment) : bool := negb (g_hung g).
  Definition done_tests (evs : list event) : list rcd := map record_of (filter completed (segments [] evs)).
  (* ... and the tests that must be reported by stopTestRun, in ANY order *)
  Definition hung_tests (evs : list event) : list rcd := map record_of (filter g_hung (segments [] evs)).

  (* what StreamToExtendedDecorator must make of one test (tags() calls on the
     target are not part of the statement; the tags current at the outcome are) *)
  Definition bracket (r : rcd) : list (logev CT) :=
    match spec_outcome (r_status r) with
    | None => []
    | Some o => opt_time (r_first r) ++ [LStartTest (r_id r)] ++ opt_time (r_last r)
                ++ [LOutcome o (r_id r) (r_tags r) (r_details r); LStopTest (r_id r)]
    end.

  Definition ext_expected (evs : list event) : list (logev CT) :=
    [LStartRun] ++ flat_map bracket (tests (filter not_exists evs)) ++ [LStopRun].

  (* cutting a log into per-test blocks: a block ends with its stopTest call.
     Result: the complete blocks and what follows the last of them. *)
  Definition is_stoptest (l : logev CT) : bool := match l with LStopTest _ => true | _ => false end.
  Fixpoint blocks (cur : list (logev CT)) (log : list (logev CT)) : list (list (logev CT)) * list (logev CT) :=
    match log with
    | [] => ([], cur)
    | x :: r => if is_stoptest x then let (bs, rest) := blocks [] r in ((cur ++ [x]) :: bs, rest)
                else blocks (cur ++ [x]) r
    end.
End SegSpec.

Arguments somes {M A}. Arguments chunk_of {M}. Arguments chunks {M}. Arguments named {M}.
Arguments file_of {M CT}. Arguments files {M CT}. Arguments seg_record {M CT}.
Arguments Seg {M}. Arguments g_key {M}. Arguments g_hung {M}. Arguments g_events {M}.
Arguments segments {M}. Arguments record_of {M CT}. Arguments tests {M CT}.
Arguments completed {M}. Arguments done_tests {M CT}. Arguments hung_tests {M CT}.
Arguments bracket {CT}. Arguments ext_expected {M CT}. Arguments is_stoptest {CT}. Arguments blocks {CT}.

(* ---------- C10's instance: mime types and content types are codes ---------- *)
(* code 0 is application/octet-stream, which is also what mime_type=None means *)
Definition parse10 (m : option nat) : nat := match m with Some c => c | None => 0 end.
Definition ev := event nat.
Definition rec := rcd nat.
Definition lev := logev nat.

Record input := { evs : list ev }.

(* StreamSummary's public counters and lists (lists as test ids) *)
Record sumlists := { sl_run : nat; sl_failures : list nat; sl_errors : list nat; sl_skipped : list nat;
                     sl_xfail : list nat; sl_uxs : list nat }.

(* The observation separates what was reported BEFORE stopTestRun was called from what stopTestRun added. *)
Record obs := {
  o_dicts : list rec;       (* StreamToDict: the dicts handed to on_test before stopTestRun, in call order *)
  o_flush : list rec;       (* ... and those handed to on_test by stopTestRun, in call order *)
  o_pre : sumlists;         (* StreamSummary: testsRun and the lists just before stopTestRun *)
  o_sum : sumlists;         (* ... and after it *)
  o_ok : bool;              (* wasSuccessful() after stopTestRun *)
  o_ext : list lev;         (* StreamToExtendedDecorator: log of the extended result before stopTestRun *)
  o_extflush : list lev     (* ... and what stopTestRun appended to it *)
}.

(* ---------- comparisons ---------- *)
Definition detail_eqb : nat * (nat * string) -> nat * (nat * string) -> bool :=
  pair_eqb Nat.eqb (pair_eqb Nat.eqb String.eqb).
Definition rec_tuple (r : rec) := (r_id r, (r_tags r, (r_details r, (r_status r, (r_first r, r_last r))))).
Definition rec_eqb (a b : rec) : bool :=
  pair_eqb Nat.eqb (pair_eqb (list_eqb Nat.eqb) (pair_eqb (list_eqb detail_eqb) (pair_eqb status_eqb
    (pair_eqb (option_eqb Nat.eqb) (option_eqb Nat.eqb))))) (rec_tuple a) (rec_tuple b).
Definition lev_eqb (a b : lev) : bool :=
  match a, b with
  | LStartRun, LStartRun | LStopRun, LStopRun | LKeyError, LKeyError => true
  | LTime t, LTime u => Nat.eqb t u
  | LTags n g, LTags n' g' => list_eqb Nat.eqb n n' && list_eqb Nat.eqb g g'
  | LStartTest i, LStartTest j | LStopTest i, LStopTest j => Nat.eqb i j
  | LOutcome o i c d, LOutcome o' i' c' d' =>
      outcome_eqb o o' && Nat.eqb i i' && list_eqb Nat.eqb c c' && list_eqb detail_eqb d d'
  | _, _ => false
  end.
Definition ids_eqb := list_eqb Nat.eqb.

(* ---------- the executable statement ---------- *)
Definition ids_with (p : status -> bool) (ts : list rec) : list nat :=
  map r_id (filter (fun r => p (r_status r)) ts).
Definition is_st (s : status) : status -> bool := status_eqb s.
Definition incomplete (s : status) : bool := match s with Inprogress | Unknown => true | _ => false end.
Definition no_st (s : status) : bool := false.
Definition counted (r : rec) : bool := negb (status_eqb (r_status r) Exists).

(* one StreamSummary list: before stopTestRun it holds, in order, the tests reported on the way whose status
   names it; stopTestRun appends the incomplete tests whose status names it, in any order *)
Definition bucket_okb (dn hg : list rec) (p : status -> bool) (pre fin : list nat) : bool :=
  ids_eqb pre (ids_with p dn)
  && ids_eqb (firstn (List.length pre) fin) pre
  && perm_eqb Nat.eqb (skipn (List.length pre) fin) (ids_with p hg).

Definition summary_okb (dn hg : list rec) (pre fin : sumlists) (ok : bool) : bool :=
  (* testsRun counts the reported tests whose status is not 'exists' *)
  Nat.eqb (sl_run pre) (List.length (filter counted dn))
  && Nat.eqb (sl_run fin) (List.length (filter counted dn) + List.length (filter counted hg))
  (* each test is in exactly the list its status names, none for success / exists;
     a 'fail' test is in exactly one of errors / failures, an incomplete one in errors *)
  && bucket_okb dn hg (is_st Skip) (sl_skipped pre) (sl_skipped fin)
  && bucket_okb dn hg (is_st Xfail) (sl_xfail pre) (sl_xfail fin)
  && bucket_okb dn hg (is_st Uxsuccess) (sl_uxs pre) (sl_uxs fin)
  && ((bucket_okb dn hg failing (sl_errors pre) (sl_errors fin)
       && bucket_okb dn hg no_st (sl_failures pre) (sl_failures fin))
      || (bucket_okb dn hg incomplete (sl_errors pre) (sl_errors fin)
          && bucket_okb dn hg (is_st Fail) (sl_failures pre) (sl_failures fin)))
  (* any failed or incomplete test makes wasSuccessful() false *)
  && (if existsb (fun r => failing (r_status r)) (dn ++ hg) then negb ok else true).

(* what stopTestRun makes the extended result log: one block per incomplete test, any order, then stopTestRun *)
Definition extflush_okb (hg : list rec) (log : list lev) : bool :=
  let (bs, rest) := blocks [] log in
  perm_eqb (list_eqb lev_eqb) bs (map bracket hg) && list_eqb lev_eqb rest [LStopRun].

Definition spec_okb (i : input) (o : obs) : bool :=
  let dn := done_tests parse10 (evs i) in
  let hg := hung_tests parse10 (evs i) in
  (* StreamToDict *)
  list_eqb rec_eqb (o_dicts o) dn
  && perm_eqb rec_eqb (o_flush o) hg
  (* StreamSummary *)
  && summary_okb dn hg (o_pre o) (o_sum o) (o_ok o)
  (* StreamToExtendedDecorator: the same after dropping the 'exists' events *)
  && list_eqb lev_eqb (strip (o_ext o))
       ([LStartRun] ++ flat_map bracket (done_tests parse10 (filter not_exists (evs i))))
  && extflush_okb (hung_tests parse10 (filter not_exists (evs i))) (strip (o_extflush o)).

(* ---------- the readable statement ---------- *)
Definition Bucket_spec (dn hg : list rec) (p : status -> bool) (pre fin : list nat) : Prop :=
  pre = ids_with p dn /\ exists added, fin = pre ++ added /\ Permutation added (ids_with p hg).

Definition Summary_spec (dn hg : list rec) (pre fin : sumlists) (ok : bool) : Prop :=
  sl_run pre = List.length (filter counted dn)
  /\ sl_run fin = List.length (filter counted dn) + List.length (filter counted hg)
  /\ Bucket_spec dn hg (is_st Skip) (sl_skipped pre) (sl_skipped fin)
  /\ Bucket_spec dn hg (is_st Xfail) (sl_xfail pre) (sl_xfail fin)
  /\ Bucket_spec dn hg (is_st Uxsuccess) (sl_uxs pre) (sl_uxs fin)
  /\ ((Bucket_spec dn hg failing (sl_errors pre) (sl_errors fin)
       /\ Bucket_spec dn hg no_st (sl_failures pre) (sl_failures fin))
      \/ (Bucket_spec dn hg incomplete (sl_errors pre) (sl_errors fin)
          /\ Bucket_spec dn hg (is_st Fail) (sl_failures pre) (sl_failures fin)))
  /\ ((exists r, In r (dn ++ hg) /\ failing (r_status r) = true) -> ok = false).

Definition Spec (i : input) (o : obs) : Prop :=
  let dn := done_tests parse10 (evs i) in
  let hg := hung_tests parse10 (evs i) in
  (* every completed test is reported when its final status arrives, hence in the order of those events *)
  o_dicts o = dn
  (* stopTestRun reports every incomplete test exactly once, in some order *)
  /\ Permutation (o_flush o) hg
  /\ Summary_spec dn hg (o_pre o) (o_sum o) (o_ok o)
  /\ strip (o_ext o) = [LStartRun] ++ flat_map bracket (done_tests parse10 (filter not_exists (evs i)))
  /\ exists hs, Permutation hs (hung_tests parse10 (filter not_exists (evs i)))
              /\ strip (o_extflush o) = flat_map bracket hs ++ [LStopRun].

(* no finding is delimited for C10 *)
Definition findings (i : input) : list nat := [].
