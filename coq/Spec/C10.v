(* C10 - stream consumers account for every test exactly once.
   The statement as an executable predicate over (input, observation) and as a
   readable Prop.  Written from the property text (DESIGN Appendix A.2), not from
   the model's algorithms: the stream is cut into per-key *segments*, and the
   record of a segment is given field by field ("last status given", "latest
   tags", "first / final timestamp", "non-empty chunks of each file name
   concatenated in arrival order, typed by the first"). *)
From Coq Require Import String.
From TT Require Import Lib.Base Lib.Bytestr Model.StreamRec.
Open Scope list_scope.

(* interim states per the property text: no status, or 'inprogress' *)
Definition is_final (st : option status) : bool :=
  match st with None | Some Inprogress => false | Some _ => true end.

(* which TestResult method reports a test of each status ('exists' is never replayed) *)
Definition spec_outcome (st : status) : option outcome :=
  match st with
  | Success => Some AddSuccess | Skip => Some AddSkip | Fail => Some AddFailure
  | Xfail => Some AddExpectedFailure | Uxsuccess => Some AddUnexpectedSuccess
  | Inprogress | Unknown => Some AddFailure
  | Exists => None
  end.

(* a test with one of these statuses makes the run unsuccessful *)
Definition failing (st : status) : bool :=
  match st with Fail | Inprogress | Unknown => true | _ => false end.

Section SegSpec.
  Variable M : Type.
  Variable CT : Type.
  Variable parse : option M -> CT.
  Notation event := (event M).
  Notation rcd := (rcd CT).

  (* the values a field takes along a segment, ignoring the events that do not give it *)
  Definition somes {A} (f : event -> option A) (seg : list event) : list A :=
    flat_map (fun e => match f e with Some x => [x] | None => [] end) seg.

  (* the non-empty chunks of a segment in arrival order: ((file name, mime type argument), bytes) *)
  Definition chunk := ((nat * option M) * string)%type.
  Definition chunk_of (e : event) : option chunk :=
    match e_fname e, e_fbytes e with
    | Some n, Some b => if sempty b then None else Some ((n, e_mime e), b)
    | _, _ => None
    end.
  Definition chunks (seg : list event) : list chunk := somes chunk_of seg.

  (* names in order of first appearance *)
  Fixpoint firsts (seen : list nat) (l : list nat) : list nat :=
    match l with
    | [] => []
    | x :: r => if existsb (Nat.eqb x) seen then firsts seen r else x :: firsts (x :: seen) r
    end.

  Definition named (n : nat) (cs : list chunk) : list chunk := filter (fun c => Nat.eqb n (fst (fst c))) cs.
  Definition file_of (cs : list chunk) (n : nat) : nat * (CT * string) :=
    (n, (parse (match named n cs with c :: _ => snd (fst c) | [] => None end), sjoin (map snd (named n cs)))).
  Definition files (seg : list event) : list (nat * (CT * string)) :=
    map (file_of (chunks seg)) (firsts [] (map (fun c => fst (fst c)) (chunks seg))).

  (* the record of one segment; a hung segment (no final status before stopTestRun) has no end time *)
  Definition seg_record (i : nat) (is_hung : bool) (seg : list event) : rcd :=
    {| r_id := i;
       r_tags := last (somes e_tags seg) [];
       r_details := files seg;
       r_status := last (somes e_status seg) Unknown;
       r_first := match seg with e :: _ => e_ts e | [] => None end;
       r_last := if is_hung then None else last (map e_ts seg) None |}.

  (* cutting the stream: [open] holds, per key, the events since that key's last final status *)
  Record segment := Seg { g_key : key; g_hung : bool; g_events : list event }.

  Fixpoint segments (open : list (key * list event)) (evs : list event) : list segment :=
    match evs with
    | [] => map (fun ks => Seg (fst ks) true (snd ks)) (rev open)        (* reported at stopTestRun, last opened first *)
    | e :: r =>
        match e_id e with
        | None => segments open r
        | Some i =>
            let k := (i, e_route e) in
            let seg := (match get k open with Some s => s | None => [] end) ++ [e] in
            if is_final (e_status e) then Seg k false seg :: segments (del k open) r
            else segments (put k seg open) r
        end
    end.

  Definition record_of (g : segment) : rcd := seg_record (fst (g_key g)) (g_hung g) (g_events g).
  (* the tests of a stream, in the order in which they must be reported *)
  Definition tests (evs : list event) : list rcd := map record_of (segments [] evs).

  (* what StreamToExtendedDecorator must make of one test (tags() calls on the
     target are not part of the statement; the tags current at the outcome are) *)
  Definition bracket (r : rcd) : list (logev CT) :=
    match spec_outcome (r_status r) with
    | None => []
    | Some o => opt_time (r_first r) ++ [LStartTest (r_id r)] ++ opt_time (r_last r)
                ++ [LOutcome o (r_id r) (r_tags r) (r_details r); LStopTest (r_id r)]
    end.

  Definition ext_expected (evs : list event) : list (logev CT) :=
    [LStartRun] ++ flat_map bracket (tests (filter not_exists evs)) ++ [LStopRun].
End SegSpec.

Arguments somes {M A}. Arguments chunk_of {M}. Arguments chunks {M}. Arguments named {M}.
Arguments file_of {M CT}. Arguments files {M CT}. Arguments seg_record {M CT}.
Arguments Seg {M}. Arguments g_key {M}. Arguments g_hung {M}. Arguments g_events {M}.
Arguments segments {M}. Arguments record_of {M CT}. Arguments tests {M CT}.
Arguments bracket {CT}. Arguments ext_expected {M CT}.

(* ---------- C10's instance: mime types and content types are codes ---------- *)
(* code 0 is application/octet-stream, which is also what mime_type=None means *)
Definition parse10 (m : option nat) : nat := match m with Some c => c | None => 0 end.
Definition ev := event nat.
Definition rec := rcd nat.
Definition lev := logev nat.

Record input := { evs : list ev }.

(* StreamSummary's public attributes after stopTestRun (lists as test ids) *)
Record sumobs := { so_run : nat; so_failures : list nat; so_errors : list nat; so_skipped : list nat;
                   so_xfail : list nat; so_uxs : list nat; so_ok : bool }.

Record obs := {
  o_dicts : list rec;       (* StreamToDict: the dicts handed to on_test, in call order *)
  o_sum : sumobs;           (* StreamSummary *)
  o_ext : list lev          (* StreamToExtendedDecorator: log of the extended result *)
}.

(* ---------- comparisons ---------- *)
Definition detail_eqb : nat * (nat * string) -> nat * (nat * string) -> bool :=
  pair_eqb Nat.eqb (pair_eqb Nat.eqb String.eqb).
Definition rec_tuple (r : rec) := (r_id r, (r_tags r, (r_details r, (r_status r, (r_first r, r_last r))))).
Definition rec_eqb (a b : rec) : bool :=
  pair_eqb Nat.eqb (pair_eqb (list_eqb Nat.eqb) (pair_eqb (list_eqb detail_eqb) (pair_eqb status_eqb
    (pair_eqb (option_eqb Nat.eqb) (option_eqb Nat.eqb))))) (rec_tuple a) (rec_tuple b).
Definition lev_eqb (a b : lev) : bool :=
  match a, b with
  | LStartRun, LStartRun | LStopRun, LStopRun | LKeyError, LKeyError => true
  | LTime t, LTime u => Nat.eqb t u
  | LTags n g, LTags n' g' => list_eqb Nat.eqb n n' && list_eqb Nat.eqb g g'
  | LStartTest i, LStartTest j | LStopTest i, LStopTest j => Nat.eqb i j
  | LOutcome o i c d, LOutcome o' i' c' d' =>
      outcome_eqb o o' && Nat.eqb i i' && list_eqb Nat.eqb c c' && list_eqb detail_eqb d d'
  | _, _ => false
  end.
Definition ids_eqb := list_eqb Nat.eqb.

(* ---------- the executable statement ---------- *)
Definition ids_with (p : status -> bool) (ts : list rec) : list nat :=
  map r_id (filter (fun r => p (r_status r)) ts).
Definition is_st (s : status) : status -> bool := status_eqb s.
Definition incomplete (s : status) : bool := match s with Inprogress | Unknown => true | _ => false end.

Definition summary_okb (ts : list rec) (so : sumobs) : bool :=
  (* testsRun counts the reported tests whose status is not 'exists' *)
  Nat.eqb (so_run so) (List.length (filter (fun r => negb (status_eqb (r_status r) Exists)) ts))
  (* each test is in exactly the list its status names, none for success / exists;
     a 'fail' test is in exactly one of errors / failures, an incomplete one in errors *)
  && ids_eqb (so_skipped so) (ids_with (is_st Skip) ts)
  && ids_eqb (so_xfail so) (ids_with (is_st Xfail) ts)
  && ids_eqb (so_uxs so) (ids_with (is_st Uxsuccess) ts)
  && ((ids_eqb (so_errors so) (ids_with failing ts) && ids_eqb (so_failures so) [])
      || (ids_eqb (so_errors so) (ids_with incomplete ts) && ids_eqb (so_failures so) (ids_with (is_st Fail) ts)))
  (* any failed or incomplete test makes wasSuccessful() false *)
  && (if existsb (fun r => failing (r_status r)) ts then negb (so_ok so) else true).

Definition spec_okb (i : input) (o : obs) : bool :=
  list_eqb rec_eqb (o_dicts o) (tests parse10 (evs i))
  && summary_okb (tests parse10 (evs i)) (o_sum o)
  && list_eqb lev_eqb (strip (o_ext o)) (ext_expected parse10 (evs i)).

(* ---------- the readable statement ---------- *)
Definition Summary_spec (ts : list rec) (so : sumobs) : Prop :=
  so_run so = List.length (filter (fun r => negb (status_eqb (r_status r) Exists)) ts)
  /\ so_skipped so = ids_with (is_st Skip) ts
  /\ so_xfail so = ids_with (is_st Xfail) ts
  /\ so_uxs so = ids_with (is_st Uxsuccess) ts
  /\ ((so_errors so = ids_with failing ts /\ so_failures so = [])
      \/ (so_errors so = ids_with incomplete ts /\ so_failures so = ids_with (is_st Fail) ts))
  /\ ((exists r, In r ts /\ failing (r_status r) = true) -> so_ok so = false).

Definition Spec (i : input) (o : obs) : Prop :=
  o_dicts o = tests parse10 (evs i)
  /\ Summary_spec (tests parse10 (evs i)) (o_sum o)
  /\ strip (o_ext o) = ext_expected parse10 (evs i).

(* no finding is delimited for C10 *)
Definition findings (i : input) : list nat := [].
