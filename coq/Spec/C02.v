(* C02 - stages run in order; every cleanup runs exactly once, LIFO, whatever failed; no cleanup
   is left; patched attributes are restored; a second run() of the instance repeats the first.
   The statement as an executable predicate over (input, observation of the implementation). *)
From TT Require Import Lib.Base Gen.Handlers Model.Run Spec.Run.

(* i_attrs: the namespaces of the patched objects before the test - an instance, its class and the
   class's base class; key 3*n + l = attribute n in the namespace of the instance (l = 0), of the class
   (1), of the base class (2), attribute lookup falling back in that order; keys from 30: attributes of
   the instance served by a property or an inherited slot (Model.Run.parent) *)
Record input := { i_prog : prog; i_attrs : list (nat * nat) }.

(* one run() of the instance *)
Record runobs := {
  r_log : list lev;               (* execution log written by the bodies and by the patched object *)
  r_left : nat;                   (* len(case._cleanups) afterwards *)
  r_attrs : list (nat * nat);     (* the namespaces afterwards: vars() of each patched object; for a property /
                                     slot attribute whether getattr finds it, and what *)
  r_outs : list outcome }.        (* the outcome calls the result received *)
Record obs := { o_first : runobs; o_second : runobs }.

Definition lev_eqb (a b : lev) : bool :=
  match a, b with
  | LTok x, LTok y => Nat.eqb x y
  | LSet a v, LSet b w => Nat.eqb a b && Nat.eqb v w
  | LDel a, LDel b => Nat.eqb a b
  | _, _ => false
  end.
Definition nn_eqb : nat * nat -> nat * nat -> bool := pair_eqb Nat.eqb Nat.eqb.

Definition wf (i : input) : bool := wf_prog (i_prog i).

(* the same attributes with the same values (as a mapping): every target holds what it held before the
   test and nothing else - an attribute it only inherited, or did not have, is absent from it again *)
Definition same_attrs (a b : list (nat * nat)) : bool :=
  forallb (fun k => option_eqb Nat.eqb (aget k a) (aget k b)) (map fst a ++ map fst b).

Definition run_okb (i : input) (r : runobs) : bool :=
  (* setUp; test and tearDown iff setUp returned; then every registered cleanup once, latest first,
     a cleanup's own registrations before the ones still pending *)
  list_eqb lsh_eqb (map shape (r_log r)) (expected_log (i_prog i))
  && Nat.eqb (r_left r) 0
  && same_attrs (r_attrs r) (i_attrs i).

(* the second run repeats the sequence of bodies and undo actions (the values the undo actions
   write are pinned by the attribute clause of each run) and the outcome *)
Definition spec_okb (i : input) (o : obs) : bool :=
  run_okb i (o_first o) && run_okb i (o_second o)
  && list_eqb lsh_eqb (map shape (r_log (o_second o))) (map shape (r_log (o_first o)))
  && list_eqb outcome_eqb (r_outs (o_second o)) (r_outs (o_first o)).

Definition Run_spec (i : input) (r : runobs) : Prop :=
  map shape (r_log r) = expected_log (i_prog i)
  /\ r_left r = 0
  /\ forall k, aget k (r_attrs r) = aget k (i_attrs i).

Definition Spec (i : input) (o : obs) : Prop :=
  Run_spec i (o_first o) /\ Run_spec i (o_second o)
  /\ map shape (r_log (o_second o)) = map shape (r_log (o_first o))
  /\ r_outs (o_second o) = r_outs (o_first o).

Definition findings (i : input) : list nat := [].
