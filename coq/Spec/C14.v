(* C14 - Deferred-returning tests succeed iff all completed cleanly; reactor left clean.
   The statement as an executable predicate over (input, observation) and as a
   readable Prop.  Written from the property text: a static plan of the stages,
   prefix sums of their delays, "every planned stage fired before the cut".
   Clause by clause (spec_okb / Spec):
     1 the next stage starts only after the previous one has fired, cleanups in reverse order:
       the observed stage log is a walk along the plan (log_okb / Walk): each logged stage started at
       exactly the instant its predecessor COMPLETED (the whole chain of the Deferred it returned, also
       when that Deferred was handed over already fired but paused); the walk must go on after a stage
       that completed before the cut and must stop at one that is due after it or never; a stage due
       exactly at the cut instant has lost (clauses 3/4 count it as not completed) but may be run by
       the reactor afterwards;
     2 exactly one outcome between startTest and stopTest;
     3 success iff every planned stage fired in time, none raised / failed / logged an error /
       dropped a failed Deferred / started a poller, and no leftover delayed call was still
       scheduled at the end ("left scheduled" is a fact of the run: it is read off the
       OBSERVED number of leftover calls that never ran, not recomputed here);
     4 a cut (timeout or interrupt) yields addError, and result.stop() exactly for an interrupt;
     5 whatever happened: getDelayedCalls() is empty, the log observers are those installed before.
   Nothing is demanded of what propagates out of run() (C01) nor of the cleanups that stay
   registered after a cut (the statement is silent about them).  A Deferred due exactly at the
   cut instant counts as not fired: the Spinner's timeout call is older than every call of the
   test, and an interrupt is delivered before the calls due at its instant. *)
From TT Require Import Lib.Base Model.AsyncRun.

Definition input := program.

Record obs := mkObs {
  o_events : list ev;            (* the result's event log *)
  o_stop : bool;                 (* result.shouldStop *)
  o_raised : option cls;         (* what propagated out of run() *)
  o_log : list (nat * time);     (* stage execution log with virtual timestamps *)
  o_unrun : nat;                 (* leftover delayed calls of the stages that never ran *)
  o_pending : nat;               (* len(reactor.getDelayedCalls()) after the run *)
  o_observers_same : bool;       (* Twisted's global log observers are exactly those installed before *)
  o_cleanups_left : nat          (* cleanups still registered on the case *)
}.

(* ---- decidable equalities ---- *)
Definition cls_eqb (a b : cls) : bool :=
  match a, b with CErr, CErr | CFail, CFail | CSkip, CSkip | CKbd, CKbd => true | _, _ => false end.
Definition ev_eqb (a b : ev) : bool :=
  match a, b with
  | StartTest, StartTest | AddSuccess, AddSuccess | AddError, AddError | AddFailure, AddFailure
  | AddSkip, AddSkip | StopTest, StopTest => true
  | _, _ => false
  end.
Definition log_eqb : list (nat * time) -> list (nat * time) -> bool := list_eqb (pair_eqb Nat.eqb Nat.eqb).

(* ---- the plan: which stages are meant to run, in which order ---- *)
Definition stage_raises (st : stage) : bool :=
  match s_ret st with
  | RRaise _ | RFired (Some _) | RLater _ (Some _) | RChained _ (Some _) => true
  | _ => false
  end.

Definition plan (p : program) : list (nat * stage) :=
  (id_setup, i_setup p)
  :: (if stage_raises (i_setup p) then [] else [(id_body, i_body p); (id_teardown, i_teardown p)])
  ++ rev (number_from 0 (i_cleanups p)).           (* cleanups in reverse order of registration *)

(* when a stage started at instant t has completed: at once, when the whole chain of the Deferred it returned
   has finished - whether or not that Deferred already counts as fired -, or never *)
Inductive whenc := Immediately | At (u : time) | NeverC.
Definition completes (t : time) (st : stage) : whenc :=
  match s_ret st with
  | RReturn | RRaise _ | RFired _ => Immediately
  | RLater d _ | RChained d _ => At (t + d)
  | RNever => NeverC
  end.

(* the instant at which a stage started at t has fired, if it fires before the cut instant C *)
Definition fires_at (C t : time) (st : stage) : option time :=
  match completes t st with
  | Immediately => Some t
  | At u => if Nat.ltb u C then Some u else None
  | NeverC => None
  end.

(* each stage starts when its predecessor fired; the walk stops at the first stage that does not
   fire before the cut.  Second component: every planned stage fired (within the timeout, uninterrupted). *)
Fixpoint expected_log (C t : time) (pl : list (nat * stage)) : list (nat * time) * bool :=
  match pl with
  | [] => ([], true)
  | (k, st) :: r =>
      match fires_at C t st with
      | Some t' => let '(l, b) := expected_log C t' r in ((k, t) :: l, b)
      | None => ([(k, t)], false)
      end
  end.

Definition is_nil {A} (l : list A) : bool := match l with [] => true | _ => false end.

(* the stage log is a walk along the plan: every logged stage started at the instant its predecessor
   completed; after a stage that completes at once or strictly before the cut the next one MUST have started;
   after one that is due after the cut, or never, nothing more may start; one that is due exactly AT the cut
   instant lost against the timeout / the interrupt, but the reactor may still have run it afterwards (the
   other calls of the same iteration, the obligatory iterations): then the walk may go on, at that instant *)
Fixpoint log_okb (C t : time) (pl : list (nat * stage)) (log : list (nat * time)) : bool :=
  match pl, log with
  | [], _ => is_nil log
  | _ :: _, [] => false
  | (k, st) :: r, (k', t') :: lr =>
      Nat.eqb k k' && Nat.eqb t t'
      && match completes t st with
         | Immediately => log_okb C t r lr
         | At u => if Nat.ltb u C then log_okb C u r lr
                   else if Nat.eqb u C then is_nil lr || log_okb C u r lr
                   else is_nil lr
         | NeverC => is_nil lr
         end
  end.

Inductive Walk (C : time) : time -> list (nat * stage) -> list (nat * time) -> Prop :=
| W_end : forall t, Walk C t [] []
| W_now : forall t k st r l, completes t st = Immediately -> Walk C t r l -> Walk C t ((k, st) :: r) ((k, t) :: l)
| W_go : forall t k st r l u, completes t st = At u -> u <= C -> Walk C u r l -> Walk C t ((k, st) :: r) ((k, t) :: l)
| W_late : forall t k st r u, completes t st = At u -> C <= u -> Walk C t ((k, st) :: r) [(k, t)]
| W_never : forall t k st r, completes t st = NeverC -> Walk C t ((k, st) :: r) [(k, t)].

(* a stage that completes without exception or failed Deferred, logs no error, drops no failed Deferred,
   starts no poller (a poller always has its next instance scheduled) *)
Definition clean_stage (st : stage) : bool :=
  negb (stage_raises st) && negb (s_logerr st) && negb (s_drop st) && negb (s_poll st).

Definition is_outcome (e : ev) : bool :=
  match e with AddSuccess | AddError | AddFailure | AddSkip => true | _ => false end.
Definition one_outcome (es : list ev) : bool :=
  match es with [StartTest; x; StopTest] => is_outcome x | _ => false end.
Definition reports_success (es : list ev) : bool := existsb (ev_eqb AddSuccess) es.

Definition completed (p : program) : bool := snd (expected_log (cut_instant p) 0 (plan p)).
Definition all_clean (p : program) : bool := forallb (fun ks => clean_stage (snd ks)) (plan p).

Definition spec_okb (p : input) (o : obs) : bool :=
  (* the next stage starts only after the previous one has completed; cleanups in reverse order *)
  log_okb (cut_instant p) 0 (plan p) (o_log o)
  (* exactly one outcome between startTest and stopTest *)
  && one_outcome (o_events o)
  (* success iff every stage completed cleanly in time, nothing logged, nothing dropped, nothing left scheduled *)
  && Bool.eqb (reports_success (o_events o)) (completed p && all_clean p && Nat.eqb (o_unrun o) 0)
  (* a timeout or an interrupt yields an error; an interrupt also asks the result to stop *)
  && (if completed p then true
      else list_eqb ev_eqb (o_events o) [StartTest; AddError; StopTest]
           && Bool.eqb (o_stop o) (match cut_kind p with KInterrupt => true | KTimeout => false end))
  (* whatever happened: no pending calls, the log observers are those installed before *)
  && Nat.eqb (o_pending o) 0 && o_observers_same o.

(* every program of the input type is in the domain of the model *)
Definition wfb (p : input) : bool := true.
Definition wf (p : input) : Prop := wfb p = true.

(* ---- readable form ---- *)
Definition Spec (p : input) (o : obs) : Prop :=
  Walk (cut_instant p) 0 (plan p) (o_log o)
  /\ (exists x, o_events o = [StartTest; x; StopTest] /\ In x [AddSuccess; AddError; AddFailure; AddSkip])
  /\ (In AddSuccess (o_events o) <-> (completed p = true /\ all_clean p = true /\ o_unrun o = 0))
  /\ (completed p = false ->
      o_events o = [StartTest; AddError; StopTest]
      /\ (o_stop o = true <-> cut_kind p = KInterrupt))
  /\ o_pending o = 0 /\ o_observers_same o = true.

(* F11 (a cleanup raising a non-Exception was reported as a success) is repaired by 73f5774 *)
Definition findings (p : input) : list nat := [].
