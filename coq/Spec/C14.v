(* C14 - Deferred-returning tests succeed iff all completed cleanly; reactor left clean.
   The statement as an executable predicate over (input, observation) and as a
   readable Prop.  Written from the property text: a static plan of the stages,
   prefix sums of their delays, "every planned stage fired before the cut".
   Clause by clause (spec_okb / Spec):
     1 the next stage starts only after the previous one has fired, cleanups in reverse order:
       the observed stage log equals the plan walked along the clock, stopping at the first
       stage that has not fired when the run is cut (nothing may start after it);
     2 exactly one outcome between startTest and stopTest;
     3 success iff every planned stage fired in time, none raised / failed / logged an error /
       dropped a failed Deferred / started a poller, and no leftover delayed call was still
       scheduled at the end ("left scheduled" is a fact of the run: it is read off the
       OBSERVED number of leftover calls that never ran, not recomputed here);
     4 a cut (timeout or interrupt) yields addError, and result.stop() exactly for an interrupt;
     5 whatever happened: getDelayedCalls() is empty, the log observers are those installed before.
   Nothing is demanded of what propagates out of run() (C01) nor of the cleanups that stay
   registered after a cut (the statement is silent about them).  A Deferred due exactly at the
   cut instant counts as not fired: the Spinner's timeout call is older than every call of the
   test, and an interrupt is delivered before the calls due at its instant. *)
From TT Require Import Lib.Base Model.AsyncRun.

Definition input := program.

Record obs := mkObs {
  o_events : list ev;            (* the result's event log *)
  o_stop : bool;                 (* result.shouldStop *)
  o_raised : option cls;         (* what propagated out of run() *)
  o_log : list (nat * time);     (* stage execution log with virtual timestamps *)
  o_unrun : nat;                 (* leftover delayed calls of the stages that never ran *)
  o_pending : nat;               (* len(reactor.getDelayedCalls()) after the run *)
  o_observers_same : bool;       (* Twisted's global log observers are exactly those installed before *)
  o_cleanups_left : nat          (* cleanups still registered on the case *)
}.

(* ---- decidable equalities ---- *)
Definition cls_eqb (a b : cls) : bool :=
  match a, b with CErr, CErr | CFail, CFail | CSkip, CSkip | CKbd, CKbd => true | _, _ => false end.
Definition ev_eqb (a b : ev) : bool :=
  match a, b with
  | StartTest, StartTest | AddSuccess, AddSuccess | AddError, AddError | AddFailure, AddFailure
  | AddSkip, AddSkip | StopTest, StopTest => true
  | _, _ => false
  end.
Definition log_eqb : list (nat * time) -> list (nat * time) -> bool := list_eqb (pair_eqb Nat.eqb Nat.eqb).

(* ---- the plan: which stages are meant to run, in which order ---- *)
Definition stage_raises (st : stage) : bool :=
  match s_ret st with RRaise _ | RLater _ (Some _) => true | _ => false end.

Definition plan (p : program) : list (nat * stage) :=
  (id_setup, i_setup p)
  :: (if stage_raises (i_setup p) then [] else [(id_body, i_body p); (id_teardown, i_teardown p)])
  ++ rev (number_from 0 (i_cleanups p)).           (* cleanups in reverse order of registration *)

(* the instant at which a stage started at t has fired, if it fires before the cut instant C *)
Definition fires_at (C t : time) (st : stage) : option time :=
  match s_ret st with
  | RReturn | RRaise _ => Some t
  | RLater d _ => if Nat.ltb (t + d) C then Some (t + d) else None
  | RNever => None
  end.

(* each stage starts when its predecessor fired; the log stops at the first stage that does not
   fire before the cut.  Second component: every planned stage fired. *)
Fixpoint expected_log (C t : time) (pl : list (nat * stage)) : list (nat * time) * bool :=
  match pl with
  | [] => ([], true)
  | (k, st) :: r =>
      match fires_at C t st with
      | Some t' => let '(l, b) := expected_log C t' r in ((k, t) :: l, b)
      | None => ([(k, t)], false)
      end
  end.

(* a stage that completes without exception or failed Deferred, logs no error, drops no failed Deferred,
   starts no poller (a poller always has its next instance scheduled) *)
Definition clean_stage (st : stage) : bool :=
  negb (stage_raises st) && negb (s_logerr st) && negb (s_drop st) && negb (s_poll st).

Definition is_outcome (e : ev) : bool :=
  match e with AddSuccess | AddError | AddFailure | AddSkip => true | _ => false end.
Definition one_outcome (es : list ev) : bool :=
  match es with [StartTest; x; StopTest] => is_outcome x | _ => false end.
Definition reports_success (es : list ev) : bool := existsb (ev_eqb AddSuccess) es.

Definition completed (p : program) : bool := snd (expected_log (cut_instant p) 0 (plan p)).
Definition all_clean (p : program) : bool := forallb (fun ks => clean_stage (snd ks)) (plan p).

Definition spec_okb (p : input) (o : obs) : bool :=
  (* the next stage starts only after the previous one has fired; cleanups in reverse order *)
  log_eqb (o_log o) (fst (expected_log (cut_instant p) 0 (plan p)))
  (* exactly one outcome between startTest and stopTest *)
  && one_outcome (o_events o)
  (* success iff every stage completed cleanly in time, nothing logged, nothing dropped, nothing left scheduled *)
  && Bool.eqb (reports_success (o_events o)) (completed p && all_clean p && Nat.eqb (o_unrun o) 0)
  (* a timeout or an interrupt yields an error; an interrupt also asks the result to stop *)
  && (if completed p then true
      else list_eqb ev_eqb (o_events o) [StartTest; AddError; StopTest]
           && Bool.eqb (o_stop o) (match cut_kind p with KInterrupt => true | KTimeout => false end))
  (* whatever happened: no pending calls, the log observers are those installed before *)
  && Nat.eqb (o_pending o) 0 && o_observers_same o.

(* the ForBrokenTwisted variant iterates the reactor after the result is decided: a stage
   Deferred due exactly at the cut instant would then still fire.  Outside the model. *)
Fixpoint tie_free (C t : time) (pl : list (nat * stage)) : bool :=
  match pl with
  | [] => true
  | (_, st) :: r =>
      (match s_ret st with RLater d _ => negb (Nat.eqb (t + d) C) | _ => true end)
      && match fires_at C t st with Some t' => tie_free C t' r | None => true end
  end.
Definition wfb (p : input) : bool := negb (i_broken p) || tie_free (cut_instant p) 0 (plan p).
Definition wf (p : input) : Prop := wfb p = true.

(* ---- readable form ---- *)
Definition Spec (p : input) (o : obs) : Prop :=
  o_log o = fst (expected_log (cut_instant p) 0 (plan p))
  /\ (exists x, o_events o = [StartTest; x; StopTest] /\ In x [AddSuccess; AddError; AddFailure; AddSkip])
  /\ (In AddSuccess (o_events o) <-> (completed p = true /\ all_clean p = true /\ o_unrun o = 0))
  /\ (completed p = false ->
      o_events o = [StartTest; AddError; StopTest]
      /\ (o_stop o = true <-> cut_kind p = KInterrupt))
  /\ o_pending o = 0 /\ o_observers_same o = true.

(* F11 (a cleanup raising a non-Exception was reported as a success) is repaired by 73f5774 *)
Definition findings (p : input) : list nat := [].
