(* C04 - run verdict and stop control are consistent with the outcomes reported.
   The statement as an executable predicate over (input, observation) and as a readable Prop,
   phrased over the history of calls only (what was reported since the last startTestRun). *)
From TT Require Import Lib.Base Model.Result.

Record input := {
  stack : adapter;
  set_after : option bool;     (* failfast assigned on the outermost object after wrapping *)
  hist : list op;
  (* Some (programs, schedule): the stack is a ThreadsafeForwardingResult; after the calls [hist] one more such
     adapter per program is put over the same target with the same semaphore, and thread j makes the calls of
     program j on adapter j, interleaved as the schedule says (Model.Result.run_sched) *)
  conc : option (list (list op) * list nat)
}.

Record obs := {
  o_ok : list bool;                  (* wasSuccessful() of the outermost object after each call *)
  o_stop : list bool;                (* its shouldStop after each call *)
  o_leaf_stop : list (list bool);    (* after each call: shouldStop of every underlying result, depth first *)
  o_sums : list (list summary);      (* per underlying result: the summaries its TextTestResult wrote *)
  o_order : list nat                 (* concurrent part: the thread of each call, in the order in which the calls
                                        were seen to take effect (observed when the adapter releases the semaphore,
                                        or when the call returns without having released it) *)
}.

(* ---------- what the history says ---------- *)
(* the calls since the last startTestRun *)
Definition since_run (h : list op) : list op :=
  fold_left (fun acc o => match o with StartRun => [] | _ => acc ++ [o] end) h [].

(* an error, a failure or an unexpected success *)
Definition problem (o : op) : option (nat * tid) :=
  match o with
  | Outcome KError _ t | Block KError _ t => Some (0, t)
  | Outcome KFailure _ t | Block KFailure _ t => Some (1, t)
  | Outcome KUxsuccess _ t | Block KUxsuccess _ t => Some (2, t)
  | _ => None
  end.
Definition is_problem (o : op) : bool := match problem o with Some _ => true | None => false end.
Fixpoint problems (l : list op) : list (nat * tid) :=
  match l with [] => [] | o :: r => match problem o with Some p => p :: problems r | None => problems r end end.

(* ---------- the underlying results of a stack, depth first ---------- *)
Record leaf_info := {
  li_path : list nat;     (* child indices from the outermost object *)
  li_ff : bool;           (* failfast given to its constructor *)
  li_text : bool;         (* a TextTestResult *)
  li_e2s : bool;          (* an ExtendedToStreamDecorator *)
  li_foreign : bool;      (* an ExtendedToOriginalDecorator over a foreign result: not one of testtools' own results,
                             and its startTestRun does not clear shouldStop *)
  li_tfr : bool           (* below a ThreadsafeForwardingResult: receives whole tests at their outcome *)
}.
Definition li_down (j : nat) (i : leaf_info) : leaf_info :=
  {| li_path := j :: li_path i; li_ff := li_ff i; li_text := li_text i; li_e2s := li_e2s i;
     li_foreign := li_foreign i; li_tfr := li_tfr i |}.
Definition li_under_tfr (i : leaf_info) : leaf_info :=
  {| li_path := li_path i; li_ff := li_ff i; li_text := li_text i; li_e2s := li_e2s i;
     li_foreign := li_foreign i; li_tfr := true |}.

Fixpoint number_from {A B} (f : nat -> A -> list B) (j : nat) (l : list A) : list B :=
  match l with [] => [] | x :: r => f j x ++ number_from f (S j) r end.

Fixpoint leaf_infos (a : adapter) : list leaf_info :=
  match a with
  | ATR ff txt => [{| li_path := []; li_ff := ff; li_text := txt; li_e2s := false; li_foreign := false;
                      li_tfr := false |}]
  | AE2S => [{| li_path := []; li_ff := false; li_text := false; li_e2s := true; li_foreign := false;
                li_tfr := false |}]
  | AFor _ => [{| li_path := []; li_ff := false; li_text := false; li_e2s := false; li_foreign := true;
                  li_tfr := false |}]
  | AMulti l => (fix go (j : nat) (l : list adapter) : list leaf_info :=
                   match l with [] => [] | x :: r => map (li_down j) (leaf_infos x) ++ go (S j) r end) 0 l
  | ATFR x => map (fun i => li_down 0 (li_under_tfr i)) (leaf_infos x)
  | AE2O x | ADeco _ x => map (li_down 0) (leaf_infos x)
  end.

Fixpoint is_prefix (p q : list nat) : bool :=
  match p, q with
  | [], _ => true
  | x :: p', y :: q' => Nat.eqb x y && is_prefix p' q'
  | _ :: _, [] => false
  end.

(* stop() was called on the result itself or on something above it *)
Definition stop_reaches (path : list nat) (o : op) : bool :=
  match o with StopAt p => is_prefix p path | _ => false end.

(* failfast as the user set it: on the outermost object after wrapping, else through the constructor *)
Definition intended_ff (i : input) (li : leaf_info) : bool :=
  match set_after i with Some b => b | None => li_ff li end.

(* ---------- the clauses, for the history so far [h] ---------- *)
Definition want_ok (h : list op) : bool := negb (existsb is_problem (since_run h)).

(* the calls that count for shouldStop of a result: testtools' own results clear shouldStop at startTestRun;
   a foreign result (unittest.TestResult and its look-alikes) never clears it *)
Definition scope (resets : bool) (h : list op) : list op := if resets then since_run h else h.

Definition want_leaf_stop (i : input) (h : list op) (li : leaf_info) : bool :=
  let s := scope (negb (li_foreign li)) h in
  existsb (stop_reaches (li_path li)) s
  || (intended_ff i li && existsb is_problem s).

Definition counts_as_test (tfr : bool) (o : op) : bool :=
  match o with
  | Block _ _ _ => true
  | StartTest _ => negb tfr
  | Outcome _ _ _ => tfr
  | _ => false
  end.

Definition count {A} (eqb : A -> A -> bool) (x : A) (l : list A) : nat := length (filter (eqb x) l).
Definition sec_eqb : nat * tid -> nat * tid -> bool := pair_eqb Nat.eqb Nat.eqb.
Definition same_sections (a b : list (nat * tid)) : bool :=
  forallb (fun x => Nat.eqb (count sec_eqb x a) (count sec_eqb x b)) (a ++ b).

(* the summary a TextTestResult must write at a stopTestRun that follows the calls h *)
Definition summary_okb (tfr : bool) (h : list op) (s : summary) : bool :=
  let since := since_run h in
  let ps := problems since in
  Nat.eqb (s_ran s) (length (filter (counts_as_test tfr) since))
  && option_eqb Nat.eqb (s_failed s) (match ps with [] => None | _ => Some (length ps) end)
  && same_sections (s_sections s) ps.

(* prefixes of h that end just before a stopTestRun *)
Fixpoint before_stop_runs (pre : list op) (h : list op) : list (list op) :=
  match h with
  | [] => []
  | StopRun :: r => pre :: before_stop_runs (pre ++ [StopRun]) r
  | o :: r => before_stop_runs (pre ++ [o]) r
  end.

Fixpoint forall2b {A B} (p : A -> B -> bool) (l : list A) (m : list B) : bool :=
  match l, m with
  | [], [] => true
  | a :: l', b :: m' => p a b && forall2b p l' m'
  | _, _ => false
  end.

Definition prefixes (h : list op) : list (list op) := map (fun k => firstn k h) (seq 1 (length h)).
Definition lbool_eqb : list bool -> list bool -> bool := list_eqb Bool.eqb.

Definition has_e2s (i : input) : bool := existsb li_e2s (leaf_infos (stack i)).
Definition has_foreign (i : input) : bool := existsb li_foreign (leaf_infos (stack i)).

(* verdict: on testtools' own results (not ExtendedToStreamDecorator, whose wasSuccessful ignores unexpected
   successes - the statement does not list it; not stacks that end in a foreign result, whose wasSuccessful is
   the foreign object's business) *)
Definition verdict_okb (i : input) (o : obs) : bool :=
  has_e2s i || has_foreign i || lbool_eqb (o_ok o) (map want_ok (prefixes (hist i))).

(* failfast / stop: every underlying result, after every call *)
Definition stop_okb (i : input) (o : obs) : bool :=
  forall2b (fun h stops => lbool_eqb stops (map (want_leaf_stop i h) (leaf_infos (stack i))))
           (prefixes (hist i)) (o_leaf_stop o)
  && forall2b (fun top stops => Bool.eqb top (existsb (fun b => b) stops)) (o_stop o) (o_leaf_stop o).

(* summaries of TextTestResults *)
Definition sums_okb (i : input) (o : obs) : bool :=
  forall2b (fun li sums => if li_text li
                           then forall2b (summary_okb (li_tfr li)) (before_stop_runs [] (hist i)) sums
                           else match sums with [] => true | _ => false end)
           (leaf_infos (stack i)) (o_sums o).

(* the statement for calls made one after the other *)
Definition spec_seq (i : input) (o : obs) : bool := verdict_okb i o && stop_okb i o && sums_okb i o.

(* the same stack and failfast configuration, driven with the calls h one after the other *)
Definition with_hist (i : input) (h : list op) : input :=
  {| stack := stack i; set_after := set_after i; hist := h; conc := None |}.

(* Calls from several threads: every call of every thread is seen to take effect exactly once, per thread in
   program order (so a stop() that returns has reached the target), and what is observed after each of them is
   what the statement says for these calls made one after the other in that order. *)
Definition spec_okb (i : input) (o : obs) : bool :=
  match conc i with
  | None => is_nil (o_order o) && spec_seq i o
  | Some (ths, _) => match merge ths (o_order o) with
                     | Some h => spec_seq (with_hist i (hist i ++ h)) o
                     | None => false
                     end
  end.

(* ---------- readable form ---------- *)
Definition Summary_ok (tfr : bool) (h : list op) (s : summary) : Prop :=
  s_ran s = length (filter (counts_as_test tfr) (since_run h))
  /\ (s_failed s = None <-> want_ok h = true)
  /\ (forall n, s_failed s = Some n -> n = length (problems (since_run h)))
  /\ (forall x, count sec_eqb x (s_sections s) = count sec_eqb x (problems (since_run h))).

Definition Spec_seq (i : input) (o : obs) : Prop :=
  (has_e2s i = false -> has_foreign i = false ->
     Forall2 (fun h ok => ok = want_ok h) (prefixes (hist i)) (o_ok o))
  /\ Forall2 (fun h stops => Forall2 (fun li s => s = want_leaf_stop i h li) (leaf_infos (stack i)) stops)
             (prefixes (hist i)) (o_leaf_stop o)
  /\ Forall2 (fun top stops => top = existsb (fun b => b) stops) (o_stop o) (o_leaf_stop o)
  /\ Forall2 (fun li sums => if li_text li
                             then Forall2 (Summary_ok (li_tfr li)) (before_stop_runs [] (hist i)) sums
                             else sums = [])
             (leaf_infos (stack i)) (o_sums o).

Definition Spec (i : input) (o : obs) : Prop :=
  match conc i with
  | None => o_order o = [] /\ Spec_seq i o
  | Some (ths, _) => exists h, merge ths (o_order o) = Some h /\ Spec_seq (with_hist i (hist i ++ h)) o
  end.

(* MultiTestResult() without members cannot be constructed (IndexError) *)
Fixpoint wf_stack (a : adapter) : bool :=
  match a with
  | ATR _ _ | AE2S | AFor _ => true
  | AMulti l => match l with [] => false | _ => forallb wf_stack l end
  | ATFR x | AE2O x | ADeco _ x => wf_stack x
  end.
(* what a thread does with its adapter: the forwarding calls (startTestRun, add*, stop, stopTestRun) *)
Definition conc_op (o : op) : bool :=
  match o with StartRun | StopRun | Outcome _ _ _ | StopAt [] => true | _ => false end.
Definition wf_conc (i : input) : bool :=
  match conc i with
  | None => true
  | Some (ths, _) => match stack i with ATFR _ => true | _ => false end
                     && match set_after i with None => true | Some _ => false end
                     && forallb (forallb conc_op) ths
  end.
Definition wf (i : input) : Prop := wf_stack (stack i) = true /\ wf_conc i = true.

(* ---------- known finding F18 ----------
   Which underlying results the stack, as configured, really stops at an error / failure / unexpected
   success: a result's own failfast, or an ExtendedToOriginalDecorator above it (explicit, or the one
   MultiTestResult / ThreadsafeForwardingResult put around their targets) that reads failfast = True. *)
Fixpoint will_stop (cov : bool) (n : node) : list bool :=
  match n with
  | NTR r => [cov || tr_ff r]
  | NE2S e => [cov || e_ff e]
  | NFor f => [cov || fo_ff f]
  | NMulti l => flat_map (fun ec => will_stop (cov || e2o_get ec) (snd ec)) l
  | NTFR _ e x | NE2O e x => will_stop (cov || e2o_get (e, x)) x
  | NDeco _ x => will_stop cov x
  end.
Definition effective_ff (i : input) : list bool := will_stop false (init (stack i) (set_after i)).

(* F18: failfast was set (on the outermost object after wrapping, or through a constructor) but is not what
   the stack acts on *)
Definition finding_F18 (i : input) : bool :=
  negb (lbool_eqb (effective_ff i) (map (intended_ff i) (leaf_infos (stack i)))).

(* ... which happens only in the two situations the finding names (Proof.C04.finding_F18_confined): *)
Fixpoint has_wrapper (a : adapter) : bool :=    (* a ThreadsafeForwardingResult / TestResultDecorator / Tagger *)
  match a with
  | ATR _ _ | AE2S | AFor _ => false
  | AMulti l => existsb has_wrapper l
  | ATFR _ | ADeco _ _ => true
  | AE2O x => has_wrapper x
  end.
Fixpoint ff_ctor_anywhere (a : adapter) : bool :=
  match a with
  | ATR ff _ => ff
  | AE2S | AFor _ => false
  | AMulti l => existsb ff_ctor_anywhere l
  | ATFR x | AE2O x | ADeco _ x => ff_ctor_anywhere x
  end.
Fixpoint ff_ctor_in_multi (a : adapter) : bool :=   (* a failfast=True result somewhere inside a MultiTestResult *)
  match a with
  | ATR _ _ | AE2S | AFor _ => false
  | AMulti l => existsb ff_ctor_anywhere l
  | ATFR x | AE2O x | ADeco _ x => ff_ctor_in_multi x
  end.
Definition set_on_wrapper_stack (i : input) : bool :=
  match set_after i with Some _ => has_wrapper (stack i) | None => false end.

Definition findings (i : input) : list nat := if finding_F18 i then [18] else [].
