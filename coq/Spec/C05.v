(* C05 - all details and every traceback reach the result; none is dropped or overwritten;
   addOnException handlers are called once per exception, before the outcome.
   The statement as an executable predicate over (input, observation of the implementation). *)
From TT Require Import Lib.Base Gen.Handlers Model.Run Spec.Run.

Record input := { i_prog : prog }.

(* A detail as the result gets it with the outcome, abstracted to what the statement pins down:
   the base of its name (the disambiguating suffix is the implementation's business) and what it
   yields when the outcome is delivered. *)
Definition odetail := (nat * ocontent)%type.
Record obs := {
  o_outs : nat;                    (* number of outcome calls the result received *)
  o_details : list odetail;        (* the details dict passed with the (first) outcome *)
  o_calls : list (nat * cls);      (* addOnException handler calls before that outcome: handler, class of the exception *)
  o_late : nat }.                  (* handler calls after it *)

Definition ocontent_eqb (a b : ocontent) : bool :=
  match a, b with
  | OBytes x, OBytes y => Nat.eqb x y
  | OTb, OTb | OStack, OStack => true
  | OReason x, OReason y => option_eqb Nat.eqb x y
  | _, _ => false
  end.
Definition odetail_eqb : odetail -> odetail -> bool := pair_eqb Nat.eqb ocontent_eqb.
Definition call_eqb : nat * cls -> nat * cls -> bool := pair_eqb Nat.eqb cls_eqb.

Definition count (x : odetail) (l : list odetail) : nat := length (filter (odetail_eqb x) l).
Definition is_tb (d : odetail) : bool := match snd d with OTb => true | _ => false end.

(* ---------- what the outcome has to carry, read off the program ---------- *)
(* An entry of the expected dict: Some n - attached by the test under the name n (or the
   reason): a later attachment under the same name replaces it; None - generated (mismatch,
   expectation, fixture): always an entry of its own. *)
Definition xentry := (option dname * nat * content)%type.
Record xs := {
  x_list : list xentry;
  x_cells : list (nat * nat);
  x_gen : list nat;              (* base names under which a generated detail may exist by now *)
  x_f14 : bool;                  (* the test attached a detail under such a base name *)
  x_onexc : list nat;
  x_calls : list (nat * cls) }.

Fixpoint kput (n : dname) (c : content) (l : list xentry) : list xentry :=
  match l with
  | [] => [(Some n, fst n, c)]
  | (Some m, b, x) :: r => if dname_eqb n m then (Some m, b, c) :: r else (Some m, b, x) :: kput n c r
  | e :: r => e :: kput n c r
  end.
Definition xcell (loc : nat) (x : xs) : nat := match aget loc (x_cells x) with Some v => v | None => 0 end.
Definition xgen (b : nat) (c : content) (x : xs) : xs :=
  {| x_list := x_list x ++ [(None, b, c)]; x_cells := x_cells x; x_gen := b :: x_gen x; x_f14 := x_f14 x;
     x_onexc := x_onexc x; x_calls := x_calls x |}.
Definition xmark (b : nat) (x : xs) : xs :=
  {| x_list := x_list x; x_cells := x_cells x; x_gen := b :: x_gen x; x_f14 := x_f14 x;
     x_onexc := x_onexc x; x_calls := x_calls x |}.

Definition xstep (x : xs) (e : devent) : xs :=
  match e with
  | DUser n loc =>
      {| x_list := kput n (CLazy loc) (x_list x); x_cells := x_cells x; x_gen := x_gen x;
         x_f14 := x_f14 x || existsb (Nat.eqb (fst n)) (x_gen x);
         x_onexc := x_onexc x; x_calls := x_calls x |}
  | DSetCell loc v =>
      {| x_list := x_list x; x_cells := aput loc v (x_cells x); x_gen := x_gen x; x_f14 := x_f14 x;
         x_onexc := x_onexc x; x_calls := x_calls x |}
  | DMis n loc => xgen (fst n) (CLazy loc) x
  | DStack => xgen (fst n_failed_expectation) CStack x
  | DFx n loc => xgen (fst n) (CSnap (xcell loc x)) x
  | DTb => xmark (fst n_traceback) x
  | DReason r =>
      {| x_list := kput n_reason (CReason r) (x_list x); x_cells := x_cells x; x_gen := x_gen x; x_f14 := x_f14 x;
         x_onexc := x_onexc x; x_calls := x_calls x |}
  | DOnExc h =>
      {| x_list := x_list x; x_cells := x_cells x; x_gen := x_gen x; x_f14 := x_f14 x;
         x_onexc := x_onexc x ++ [h]; x_calls := x_calls x |}
  | DExc c =>
      {| x_list := x_list x; x_cells := x_cells x; x_gen := fst n_traceback :: x_gen x; x_f14 := x_f14 x;
         x_onexc := x_onexc x; x_calls := x_calls x ++ map (fun h => (h, c)) (x_onexc x) |}
  end.
Definition x0 : xs := {| x_list := []; x_cells := []; x_gen := []; x_f14 := false; x_onexc := []; x_calls := [] |}.
Definition xrun (p : prog) : xs := fold_left xstep (events p) x0.

(* the skip reason is recorded when the exception reported stands for a skip by its class *)
Definition skip_reason (p : prog) : option (option nat) :=
  match reported p with
  | Some e => match user_claim p e with
              | Some _ => None
              | None => match standard_outcome (cls_of e) with OSkip => Some (arg_of e) | _ => None end
              end
  | None => None
  end.
Definition xresolve (x : xs) (c : content) : ocontent :=
  match c with
  | CLazy loc => OBytes (xcell loc x) | CSnap v => OBytes v
  | CTb => OTb | CStack => OStack | CReason r => OReason r
  end.
Definition expected_details (p : prog) : list odetail :=
  match p_skip p with
  | Some r => [(fst n_reason, OReason (Some r))]
  | None =>
      let x := xrun p in
      let l := match skip_reason p with Some r => kput n_reason (CReason r) (x_list x) | None => x_list x end in
      map (fun e => (snd (fst e), xresolve x (snd e))) l
  end.

(* tracebacks: one for every exception that stands for a failure or an error by its class and for
   every assertion behind an expected failure; never more than one per exception / assertion *)
Definition needs_tb (e : devent) : bool :=
  match e with
  | DTb => true
  | DExc c => match standard_outcome c with OFail | OErr => true | _ => false end
  | _ => false
  end.
Definition may_tb (e : devent) : bool := match e with DTb | DExc _ => true | _ => false end.

Definition wf_name (n : dname) : bool := negb (Nat.eqb (fst n) (fst n_reason)).
Fixpoint wf_names_act (a : act) : bool :=
  match a with
  | ADetail n _ => wf_name n
  | AExpect mm | AAssert mm => forallb (fun nl => wf_name (fst nl)) mm
  | AFixture fx => forallb (fun nl => wf_name (fst nl)) (fx_details fx)
  | ACleanup _ body => (fix go (l : list act) : bool := match l with [] => true | x :: r => wf_names_act x && go r end) body
  | _ => true
  end.
(* the name 'reason' is reserved *)
Definition wf (i : input) : bool :=
  wf_prog (i_prog i)
  && forallb wf_names_act (snd (p_setup (i_prog i))) && forallb wf_names_act (snd (p_body (i_prog i)))
  && forallb wf_names_act (snd (p_teardown (i_prog i))).

Definition spec_okb (i : input) (o : obs) : bool :=
  let p := i_prog i in
  let exp := expected_details p in
  let tbs := length (filter is_tb (o_details o)) in
  Nat.eqb (o_outs o) 1
  (* every expected detail is there, as often as expected: nothing dropped, nothing overwritten *)
  && forallb (fun d => Nat.leb (count d exp) (count d (o_details o))) exp
  && Nat.leb (length (filter needs_tb (events p))) tbs
  && Nat.leb tbs (length (filter may_tb (events p)))
  (* each handler once per exception caught after its registration, in order, all before the outcome *)
  && list_eqb call_eqb (o_calls o) (x_calls (xrun p))
  && Nat.eqb (o_late o) 0.

Definition Spec (i : input) (o : obs) : Prop :=
  let p := i_prog i in
  o_outs o = 1
  /\ (forall d, In d (expected_details p) -> count d (expected_details p) <= count d (o_details o))
  /\ length (filter needs_tb (events p)) <= length (filter is_tb (o_details o)) <= length (filter may_tb (events p))
  /\ o_calls o = x_calls (xrun p)
  /\ o_late o = 0.

(* Known finding F14: the test attaches a detail under a base name under which a generated
   detail (traceback, mismatch, expectation, fixture detail) may already exist: TestCase.addDetail
   replaces whatever holds that name. *)
Definition finding_F14 (i : input) : bool := negb (skipped (i_prog i)) && x_f14 (xrun (i_prog i)).
Definition findings (i : input) : list nat := if finding_F14 i then [14] else [].
