(* C03 - the reported outcome is sound: success only if nothing raised; one exception maps to
   its outcome (inserted handlers first); a failure or error is never downgraded.
   The statement as an executable predicate over (input, observation of the implementation). *)
From TT Require Import Lib.Base Gen.Handlers Model.Run Spec.Run.

Record input := { i_prog : prog }.
Record obs := {
  o_outs : list outcome;     (* the outcome calls a testtools.TestResult received from the run *)
  o_ok : bool }.             (* its wasSuccessful() afterwards *)

(* a handler the user inserts (before the run or while it runs) reports some outcome other than
   success for its exception *)
Definition wf (i : input) : bool :=
  wf_prog (i_prog i)
  && forallb (fun co => negb (outcome_eqb (snd co) OSuccess)) (user_handlers (i_prog i)).

(* the exception stands for a failure or an error *)
Definition is_failure_or_error (p : prog) (e : exc) : bool :=
  match outcome_of p e with OFail | OErr => true | _ => false end.
(* outcomes that make a run unsuccessful *)
Definition unsuccessful (o : outcome) : bool := match o with OFail | OErr | OUx => true | _ => false end.

Definition success_okb (i : input) (k : outcome) : bool :=
  match k with
  | OSuccess => match raised_by_user (i_prog i) with [] => negb (forced (i_prog i)) | _ => false end
  | _ => true
  end.
Definition single_okb (i : input) (k : outcome) : bool :=
  match raised (i_prog i) with
  | [e] => outcome_eqb k (outcome_of (i_prog i) e)
  | _ => true
  end.
Definition no_downgrade_okb (i : input) (k : outcome) (ok : bool) : bool :=
  if existsb (is_failure_or_error (i_prog i)) (raised (i_prog i)) then unsuccessful k && negb ok else true.

Definition spec_okb (i : input) (o : obs) : bool :=
  match o_outs o with
  | [k] => success_okb i k && single_okb i k && no_downgrade_okb i k (o_ok o)
  | _ => false
  end.

Definition Spec (i : input) (o : obs) : Prop :=
  exists k, o_outs o = [k]
  /\ (k = OSuccess -> raised_by_user (i_prog i) = [] /\ forced (i_prog i) = false)
  /\ (forall e, raised (i_prog i) = [e] -> outcome_of (i_prog i) e = k)
  /\ ((exists e, In e (raised (i_prog i)) /\ is_failure_or_error (i_prog i) e = true) ->
      unsuccessful k = true /\ o_ok o = false).

(* Known finding F2 ("the last exception wins"): every exception caught is claimed by a handler,
   one of them stands for a failure or error, and the last one stands for a skip or an expected
   failure (directly or through an inserted handler). *)
Definition finding_F2 (i : input) : bool :=
  existsb (is_failure_or_error (i_prog i)) (raised (i_prog i))
  && forallb (claimed (i_prog i)) (raised (i_prog i))
  && negb (unsuccessful (outcome_of (i_prog i) (last (raised (i_prog i)) (Exc CFail None)))).
Definition findings (i : input) : list nat := if finding_F2 i then [2] else [].
