(* C09 - TestResult -> StreamResult -> TestResult conversion preserves every test.
   The statement as an executable predicate over (history, observation) and as a
   readable Prop.  Written from the property text: an independent reading of the
   history (two-level tags, last supplied time, one report per outcome) yields the
   events the stream in the middle must show and the brackets the final result must
   log; both are matched against the *abstracted* observation (DESIGN 3.1): per detail
   the joined bytes, the content type (as a dict) and "eof on its last event and on
   no other" - not the number of file events; tags() calls on the final result are
   not compared, the tags current at each outcome are. *)
From Coq Require Import String.
From TT Require Import Lib.Base Lib.Sort Lib.Bytestr Model.Mime Model.StreamRec Model.StreamConv.
Open Scope list_scope.

Record input := { hist : list op }.
Record obs := {
  o_mid : list mev;     (* doubles.StreamResult tapped between the two converters *)
  o_fin : list clog     (* log of the extended result at the end *)
}.

(* ================= the abstraction alpha ================= *)
(* an event with its mime type parsed and normalised *)
Definition cev := event ctype.
Definition canon_mime (m : option string) : option ctype := option_map (fun s => norm_ct (parse s)) m.
Definition canon_ev (e : event string) : cev :=
  Ev (e_id e) (e_route e) (e_status e) (e_tags e) (e_fname e) (e_fbytes e) (e_eof e) (canon_mime (e_mime e)) (e_ts e).

(* the file events of one attachment, collapsed: consecutive events for the same
   (id, route, name), up to and including the first that has eof *)
Record afile := AF { af_id : option nat; af_route : option nat; af_name : nat; af_ct : option ctype;
                     af_bytes : string; af_closed : bool; af_ts : option nat }.
Inductive aev := AStartRun | AStopRun | ARaw (e : cev) | AFile (f : afile).

(* a file event proper: a name, no status, no tags *)
Definition pure_file (e : event string) : option nat :=
  match e_fname e, e_status e, e_tags e with Some n, None, None => Some n | _, _, _ => None end.
Definition same_file (a b : afile) : bool :=
  option_eqb Nat.eqb (af_id a) (af_id b) && option_eqb Nat.eqb (af_route a) (af_route b)
  && Nat.eqb (af_name a) (af_name b).

Fixpoint group (ms : list mev) : list aev :=
  match ms with
  | [] => []
  | MStartRun :: r => AStartRun :: group r
  | MStopRun :: r => AStopRun :: group r
  | MStatus e :: r =>
      match pure_file e with
      | None => ARaw (canon_ev e) :: group r
      | Some n =>
          let me := AF (e_id e) (e_route e) n (canon_mime (e_mime e))
                       (match e_fbytes e with Some b => b | None => ""%string end) (e_eof e) (e_ts e) in
          if e_eof e then AFile me :: group r
          else match group r with
               | AFile f :: rest =>
                   if same_file me f
                   then AFile (AF (af_id me) (af_route me) n (af_ct me) (af_bytes me ++ af_bytes f)%string
                                  (af_closed f) (af_ts me)) :: rest
                   else AFile me :: AFile f :: rest
               | g => AFile me :: g
               end
      end
  end.

Definition norm_details (d : list (nat * (ctype * string))) : list (nat * (ctype * string)) :=
  map (fun x => (fst x, (norm_ct (fst (snd x)), snd (snd x)))) d.
Definition norm_lev (l : clog) : clog :=
  match l with LOutcome o i c d => LOutcome o i c (norm_details d) | x => x end.
Definition norm_log (log : list clog) : list clog := map norm_lev (strip log).

Record aobs := { a_mid : list aev; a_fin : list clog }.
Definition alpha (o : obs) : aobs := {| a_mid := group (o_mid o); a_fin := norm_log (o_fin o) |}.

(* ================= well-formed histories ================= *)
Inductive phase := PNot | PIdle | PIn (i : nat) | PDone (i : nat) | PStopped.

Fixpoint distinct_nats (l : list nat) : bool :=
  match l with [] => true | x :: r => negb (existsb (Nat.eqb x) r) && distinct_nats r end.

Definition is_skip (k : outcome) : bool := match k with AddSkip => true | _ => false end.
Definition needs_details (k : outcome) : bool :=
  match k with AddError | AddFailure | AddExpectedFailure => true | _ => false end.

(* exactly one of exc_info/details where the method insists on it; a reason only with addSkip and
   not together with details; detail names distinct; content types inside the validated domain *)
Definition outcome_wf (k : outcome) (ds : option (list detail)) (r : option string) : bool :=
  (match r with Some _ => is_skip k && (match ds with None => true | Some _ => false end) | None => true end)
  && (if needs_details k then (match ds with Some _ => true | None => false end) else true)
  && (match ds with
      | Some l => distinct_nats (map d_name l) && forallb (fun d => wf_ct (d_ct d)) l
      | None => true
      end).

(* startTestRun first (or implied by the first startTest), tests one after the other, each
   startTest / outcome / stopTest with the same test, time() and tags() anywhere (also before the
   run is started, explicitly or by the first startTest) *)
Definition wf_step (p : phase) (o : op) : option phase :=
  match p, o with
  | PNot, OTime _ | PNot, OTags _ _ => Some PNot
  | PNot, OStartRun => Some PIdle
  | PNot, OStartTest i => Some (PIn i)
  | PIdle, OTime _ | PIdle, OTags _ _ => Some PIdle
  | PIdle, OStartTest i => Some (PIn i)
  | PIdle, OStopRun => Some PStopped
  | PIn i, OTime _ | PIn i, OTags _ _ => Some (PIn i)
  | PIn i, OOutcome k j ds r => if Nat.eqb i j && outcome_wf k ds r then Some (PDone i) else None
  | PDone i, OTime _ | PDone i, OTags _ _ => Some (PDone i)
  | PDone i, OStopTest j => if Nat.eqb i j then Some PIdle else None
  | _, _ => None
  end.
Fixpoint wf_from (p : phase) (h : list op) : bool :=
  match h with
  | [] => match p with PIn _ | PDone _ => false | _ => true end
  | o :: r => match wf_step p o with Some q => wf_from q r | None => false end
  end.
Definition wf (i : input) : bool := wf_from PNot (hist i).

(* ================= what the history says must be seen ================= *)
(* two-level tags: changes inside a test are local to it *)
Record sstate := SS { ss_started : bool; ss_run_tags : list nat; ss_test_tags : option (list nat);
                      ss_now : option nat; ss_start : nat }.
Definition ss0 := SS false [] None None 0.
Definition ss_current (s : sstate) : list nat := match ss_test_tags s with Some t => t | None => ss_run_tags s end.
Definition ss_ts (s : sstate) : nat := match ss_now s with Some t => t | None => wall end.
Definition apply_tags (cur new gone : list nat) : list nat :=
  filter (fun x => negb (existsb (Nat.eqb x) gone)) (cur ++ new).

(* expected events in the middle / in the final log, as patterns *)
Inductive xmid :=
| XStartRun | XStopRun
| XStatus (i : nat) (st : status) (tags : option (list nat)) (ts : nat)
| XFile (i name : nat) (ct : ctype) (bytes : string) (ts : nat).
Inductive xfin :=
| YStartRun | YStopRun
| YTime (t : nat) | YStartTest (i : nat) | YStopTest (i : nat)
| YOutcome (k : outcome) (i : nat) (tags : list nat) (d : list (nat * (ctype * string))).

(* error and failure both travel as 'fail' and come back as failure *)
Definition final_word (k : outcome) : status :=
  match k with
  | AddSuccess => Success | AddFailure | AddError => Fail | AddSkip => Skip
  | AddExpectedFailure => Xfail | AddUnexpectedSuccess => Uxsuccess
  end.
Definition replayed (k : outcome) : outcome := match k with AddError => AddFailure | x => x end.

Definition reason_ct : ctype := CType "text" "plain" [("charset", "utf8")]%string.
Definition nonempty_details (ds : list detail) : list (nat * (ctype * string)) :=
  flat_map (fun d => if sempty (sjoin (d_chunks d)) then [] else [(d_name d, (d_ct d, sjoin (d_chunks d)))]) ds.
Definition reason_detail (r : option string) : list (nat * (ctype * string)) :=
  match r with
  | Some b => if sempty b then [] else [(reason_name, (reason_ct, b))]
  | None => []
  end.
Definition some_list {A} (o : option (list A)) : list A := match o with Some l => l | None => [] end.

Definition sstep (s : sstate) (o : op) : sstate * (list xmid * list xfin) :=
  match o with
  | OStartRun => (SS true [] None None 0, ([XStartRun], [YStartRun]))     (* resets the run-level tags and the supplied time *)
  | OStopRun => (s, ([XStopRun], [YStopRun]))
  | OTime t => (SS (ss_started s) (ss_run_tags s) (ss_test_tags s) (Some t) (ss_start s), ([], []))
  | OTags n g =>
      (match ss_test_tags s with
       | Some t => SS (ss_started s) (ss_run_tags s) (Some (apply_tags t n g)) (ss_now s) (ss_start s)
       | None => SS (ss_started s) (apply_tags (ss_run_tags s) n g) None (ss_now s) (ss_start s)
       end, ([], []))
  | OStartTest i =>
      (* a first startTest without startTestRun starts the run; no startTestRun call has wiped the
         time supplied or the run-level tags changed so far: they hold for this test *)
      let s1 := if ss_started s then s else SS true (ss_run_tags s) None (ss_now s) 0 in
      let pre := if ss_started s then ([], []) else ([XStartRun], [YStartRun]) in
      (SS true (ss_run_tags s1) (Some (ss_run_tags s1)) (ss_now s1) (ss_ts s1),
       (fst pre ++ [XStatus i Inprogress None (ss_ts s1)], snd pre))
  | OStopTest _ => (SS (ss_started s) (ss_run_tags s) None (ss_now s) (ss_start s), ([], []))
  | OOutcome k i ds r =>
      let ts := ss_ts s in
      (s,
       (map (fun d => XFile i (d_name d) (d_ct d) (sjoin (d_chunks d)) ts) (some_list ds)
        ++ (match r with Some b => [XFile i reason_name reason_ct b ts] | None => [] end)
        ++ [XStatus i (final_word k) (Some (ss_current s)) ts],
        [YTime (ss_start s); YStartTest i; YTime ts;
         YOutcome (replayed k) i (ss_current s) (nonempty_details (some_list ds) ++ reason_detail r);
         YStopTest i]))
  end.

Fixpoint expected (s : sstate) (h : list op) : list xmid * list xfin :=
  match h with
  | [] => ([], [])
  | o :: r => let out := snd (sstep s o) in let rest := expected (fst (sstep s o)) r in
              (fst out ++ fst rest, snd out ++ snd rest)
  end.

(* ================= matching the abstracted observation ================= *)
Definition set_eqb (a b : list nat) : bool :=
  forallb (fun x => existsb (Nat.eqb x) b) a && forallb (fun x => existsb (Nat.eqb x) a) b.

Definition match_mid (x : xmid) (a : aev) : bool :=
  match x, a with
  | XStartRun, AStartRun | XStopRun, AStopRun => true
  | XStatus i st tags ts, ARaw e =>
      option_eqb Nat.eqb (e_id e) (Some i) && option_eqb Nat.eqb (e_route e) None
      && option_eqb status_eqb (e_status e) (Some st) && option_eqb set_eqb (e_tags e) tags
      && option_eqb Nat.eqb (e_fname e) None && option_eqb Nat.eqb (e_ts e) (Some ts)
  | XFile i n ct b ts, AFile f =>
      option_eqb Nat.eqb (af_id f) (Some i) && option_eqb Nat.eqb (af_route f) None && Nat.eqb (af_name f) n
      && option_eqb ct_same (af_ct f) (Some ct) && String.eqb (af_bytes f) b
      && af_closed f                                   (* eof on the last event of the detail and on no other *)
      && option_eqb Nat.eqb (af_ts f) (Some ts)
  | _, _ => false
  end.

Definition match_detail (x a : nat * (ctype * string)) : bool :=
  Nat.eqb (fst x) (fst a) && ct_same (fst (snd a)) (fst (snd x)) && String.eqb (snd (snd x)) (snd (snd a)).

Fixpoint forall2b {A B} (p : A -> B -> bool) (l : list A) (m : list B) : bool :=
  match l, m with
  | [], [] => true
  | a :: l', b :: m' => p a b && forall2b p l' m'
  | _, _ => false
  end.

Definition match_fin (y : xfin) (l : clog) : bool :=
  match y, l with
  | YStartRun, LStartRun | YStopRun, LStopRun => true
  | YTime t, LTime u => Nat.eqb t u
  | YStartTest i, LStartTest j | YStopTest i, LStopTest j => Nat.eqb i j
  | YOutcome k i tags d, LOutcome k' i' tags' d' =>
      outcome_eqb k k' && Nat.eqb i i' && set_eqb tags tags' && forall2b match_detail d d'
  | _, _ => false
  end.

Definition spec_okb (i : input) (o : obs) : bool :=
  if wf i then
    forall2b match_mid (fst (expected ss0 (hist i))) (a_mid (alpha o))       (* the stream in between is well formed *)
    && forall2b match_fin (snd (expected ss0 (hist i))) (a_fin (alpha o))    (* every test is reproduced *)
  else true.

(* ================= the readable statement ================= *)
Definition Spec (i : input) (o : obs) : Prop :=
  wf i = true ->
  Forall2 (fun x a => match_mid x a = true) (fst (expected ss0 (hist i))) (group (o_mid o))
  /\ Forall2 (fun y l => match_fin y l = true) (snd (expected ss0 (hist i))) (norm_log (o_fin o)).

(* F16 (content types outside wf_ct do not survive repr + _make_content_type) belongs to C16's check;
   C09's histories are generated inside wf_ct, which [wf] demands. *)
Definition findings (i : input) : list nat := [].
