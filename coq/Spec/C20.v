(* C20 - Deferred matchers classify fired/failed/unfired without firing anything.
   The statement as an executable predicate over (input, observation) and as a
   readable Prop.  The state of the Deferred before and after every operation is
   *observed* (by inspecting the real object), so the classification clauses do
   not re-run any Deferred semantics; passivity is stated as "the history
   observes the same as the history with the matches taken out". *)
From TT Require Import Lib.Base Model.Deferred Model.DeferredMatchers.

Inductive input :=
| IHist (ops : list op)                 (* a history on one fresh Deferred *)
| ISync (pos : nat) (s : nat + nat).    (* SynchronousDeferredRunTest: stage number pos returns v / raises e *)

(* around one operation *)
Record oobs := mkO {
  p_before : dstate; p_cbefore : bool;  (* inspected state and .called before *)
  p_out : opout;
  p_after : dstate; p_cafter : bool
}.
Record hobs := mkH {
  h_ops : list oobs;
  h_log : log;                          (* what the recording callbacks saw *)
  h_unhandled : bool;                   (* "Unhandled error in Deferred" logged when the Deferred was collected *)
  (* the same for the history with the matches erased *)
  h_elog : log; h_efinal : dstate; h_ecalled : bool; h_eunhandled : bool
}.
Record sobs := mkS {
  s_direct : uret;                      (* RunTest._run_user on a function returning v / raising e *)
  s_fired : uret;                       (* SynchronousDeferredRunTest._run_user on one returning succeed(v) / fail(e) *)
  s_unfired : uret;                     (* ... on one returning an unfired Deferred *)
  s_ev_direct : list nat;               (* result events of a whole test whose stage pos returns / raises directly, plain RunTest *)
  s_ev_fired : list nat                 (* ... returns the fired Deferred, under SynchronousDeferredRunTest *)
}.
Inductive obs := OHist (h : hobs) | OSync (s : sobs).

(* ---- decidable equalities ---- *)
Definition dres_eqb (a b : dres) : bool :=
  match a, b with RVal x, RVal y | RErr x, RErr y => Nat.eqb x y | _, _ => false end.
Definition dstate_eqb (a b : dstate) : bool :=
  match a, b with
  | SUnfired, SUnfired | SWaiting, SWaiting => true
  | SVal x, SVal y | SErr x, SErr y => Nat.eqb x y
  | _, _ => false
  end.
Definition xexc_eqb (a b : xexc) : bool :=
  match a, b with XUser x, XUser y => Nat.eqb x y | XNotFired, XNotFired | XOther, XOther => true | _, _ => false end.
Definition opout_eqb (a b : opout) : bool :=
  match a, b with
  | OutMatch x, OutMatch y => Bool.eqb x y
  | OutDone, OutDone | OutAlready, OutAlready => true
  | OutExtract x, OutExtract y => res_eqb Nat.eqb xexc_eqb x y
  | _, _ => false
  end.
Definition uret_eqb (a b : uret) : bool :=
  match a, b with
  | URet x, URet y | UCaught x, UCaught y => Nat.eqb x y
  | URaised x, URaised y => xexc_eqb x y
  | _, _ => false
  end.
Definition log_eqb : log -> log -> bool := list_eqb (pair_eqb Nat.eqb dres_eqb).

(* ---- the statement ---- *)
(* which matcher matches which state; a Deferred that was fired but whose chain is paused or waits for
   another Deferred has no result (yet) *)
Definition expect_match (m : matcher) (s : dstate) : bool :=
  match m, s with
  | MNoResult, SUnfired | MNoResult, SWaiting => true
  | MSucceeded im, SVal v => inner_match im v
  | MFailed im, SErr e => inner_match im e
  | _, _ => false
  end.

Definition is_err (s : dstate) : bool := match s with SErr _ => true | _ => false end.

(* what matching may do to the Deferred: nothing to an unfired one or a success;
   a failure looked at by succeeded()/failed() is no longer a failure afterwards *)
Definition after_okb (m : matcher) (before after : dstate) : bool :=
  match before, m with
  | SErr _, MNoResult => true
  | SErr _, _ => negb (is_err after)
  | _, _ => dstate_eqb after before
  end.

Definition expect_extract (s : dstate) : res nat xexc :=
  match s with SVal v => Ok v | SErr e => Raised (XUser e) | SUnfired | SWaiting => Raised XNotFired end.

Definition op_okb (o : op) (x : oobs) : bool :=
  match o with
  | OMatch m => opout_eqb (p_out x) (OutMatch (expect_match m (p_before x)))
                && Bool.eqb (p_cafter x) (p_cbefore x)
                && after_okb m (p_before x) (p_after x)
  | OExtract => opout_eqb (p_out x) (OutExtract (expect_extract (p_before x)))
  | _ => true
  end.

Fixpoint forall2b {A B} (p : A -> B -> bool) (l : list A) (m : list B) : bool :=
  match l, m with
  | [], [] => true
  | a :: l', b :: m' => p a b && forall2b p l' m'
  | _, _ => false
  end.

Definition final_state (xs : list oobs) : dstate := last (map p_after xs) SUnfired.
Definition final_called (xs : list oobs) : bool := last (map p_cafter xs) false.

Definition hist_okb (ops : list op) (h : hobs) : bool :=
  forall2b op_okb ops (h_ops h)
  (* matching is invisible: same recorded values, same final state, same logging as without the matches *)
  && log_eqb (h_log h) (h_elog h)
  && dstate_eqb (final_state (h_ops h)) (h_efinal h)
  && Bool.eqb (final_called (h_ops h)) (h_ecalled h)
  && Bool.eqb (h_unhandled h) (h_eunhandled h)
  (* nothing is logged as unhandled unless the Deferred still holds a failure (possibly behind a pause) *)
  && (is_err (final_state (h_ops h)) || dstate_eqb (final_state (h_ops h)) SWaiting || negb (h_unhandled h)).

Definition sync_okb (s : nat + nat) (o : sobs) : bool :=
  uret_eqb (s_direct o) (direct_run_user s)
  && uret_eqb (s_fired o) (s_direct o)
  && uret_eqb (s_unfired o) (URaised XNotFired)
  && list_eqb Nat.eqb (s_ev_fired o) (s_ev_direct o).

Definition spec_okb (i : input) (o : obs) : bool :=
  match i, o with
  | IHist ops, OHist h => hist_okb ops h
  | ISync _ s, OSync x => sync_okb s x
  | _, _ => false
  end.

(* ---- readable form ---- *)
Definition Op_spec (o : op) (x : oobs) : Prop :=
  match o with
  | OMatch m =>
      p_out x = OutMatch (expect_match m (p_before x))
      /\ p_cafter x = p_cbefore x
      /\ match p_before x, m with
         | SErr _, MNoResult => True
         | SErr _, _ => forall e, p_after x <> SErr e
         | _, _ => p_after x = p_before x
         end
  | OExtract => p_out x = OutExtract (expect_extract (p_before x))
  | _ => True
  end.

Definition Hist_spec (ops : list op) (h : hobs) : Prop :=
  Forall2 Op_spec ops (h_ops h)
  /\ h_log h = h_elog h
  /\ final_state (h_ops h) = h_efinal h
  /\ final_called (h_ops h) = h_ecalled h
  /\ h_unhandled h = h_eunhandled h
  /\ (h_unhandled h = true -> final_state (h_ops h) = SWaiting \/ exists e, final_state (h_ops h) = SErr e).

Definition Sync_spec (s : nat + nat) (o : sobs) : Prop :=
  s_direct o = direct_run_user s /\ s_fired o = s_direct o /\ s_unfired o = URaised XNotFired
  /\ s_ev_fired o = s_ev_direct o.

Definition Spec (i : input) (o : obs) : Prop :=
  match i, o with
  | IHist ops, OHist h => Hist_spec ops h
  | ISync _ s, OSync x => Sync_spec s x
  | _, _ => False
  end.

Definition findings (i : input) : list nat := [].
