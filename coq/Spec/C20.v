(* C20 - Deferred matchers classify fired/failed/unfired without firing anything.
   The statement as an executable predicate over (input, observation) and as a
   readable Prop.  The state of the Deferred before and after every operation is
   *observed* (by inspecting the real object), so the classification clauses do
   not re-run any Deferred semantics.  Passivity is stated against a reference
   run: the same history with every match taken out is replayed on a second fresh
   Deferred (no matcher involved), and both runs must show the same recorded
   callback arguments, the same final state and the same unhandled-error logging.
   Which history the reference run must be is fixed here, from the observed
   states ([erase_obs]), not by the harness and not by the model. *)
From TT Require Import Lib.Base Model.Deferred Model.DeferredMatchers.

Inductive input :=
| IHist (ops : list op)                 (* a history on one fresh Deferred *)
| ISync (pos : nat) (s : nat + nat).    (* SynchronousDeferredRunTest: stage number pos returns v / raises e *)

(* around one operation *)
Record oobs := mkO {
  p_before : dstate; p_cbefore : bool;  (* inspected state and .called before *)
  p_out : opout;
  p_after : dstate; p_cafter : bool;
  p_ran : nat                           (* how many recording callbacks ran during the operation *)
}.
Record hobs := mkH {
  h_ops : list oobs;
  h_log : log;                          (* what the recording callbacks saw *)
  h_unhandled : bool;                   (* "Unhandled error in Deferred" logged when the Deferred was collected *)
  (* the reference run: which history was replayed, and what it showed *)
  h_eops : list op;
  h_elog : log; h_efinal : dstate; h_ecalled : bool; h_eunhandled : bool
}.
Record sobs := mkS {
  s_direct : uret;                      (* RunTest._run_user on a function returning v / raising e *)
  s_fired : uret;                       (* SynchronousDeferredRunTest._run_user on one returning succeed(v) / fail(e) *)
  s_ev_direct : list nat;               (* result events of a whole test whose stage pos returns / raises directly, plain RunTest *)
  s_ev_fired : list nat                 (* ... returns the fired Deferred, under SynchronousDeferredRunTest *)
}.
Inductive obs := OHist (h : hobs) | OSync (s : sobs).

(* ---- decidable equalities ---- *)
Definition dres_eqb (a b : dres) : bool :=
  match a, b with RVal x, RVal y | RErr x, RErr y => Nat.eqb x y | _, _ => false end.
Definition dstate_eqb (a b : dstate) : bool :=
  match a, b with
  | SUnfired, SUnfired | SWaiting, SWaiting => true
  | SVal x, SVal y | SErr x, SErr y => Nat.eqb x y
  | _, _ => false
  end.
Definition xexc_eqb (a b : xexc) : bool :=
  match a, b with XUser x, XUser y => Nat.eqb x y | XOther, XOther => true | _, _ => false end.
Definition opout_eqb (a b : opout) : bool :=
  match a, b with
  | OutMatch x, OutMatch y => Bool.eqb x y
  | OutDone, OutDone | OutAlready, OutAlready => true
  | OutExtract x, OutExtract y => res_eqb Nat.eqb xexc_eqb x y
  | _, _ => false
  end.
Definition uret_eqb (a b : uret) : bool :=
  match a, b with
  | URet x, URet y | UCaught x, UCaught y => Nat.eqb x y
  | URaised x, URaised y => xexc_eqb x y
  | _, _ => false
  end.
Definition log_eqb : log -> log -> bool := list_eqb (pair_eqb Nat.eqb dres_eqb).
Definition cbfun_eqb (a b : cbfun) : bool :=
  match a, b with
  | CPass, CPass | CWait, CWait => true
  | CConst x, CConst y | CRaise x, CRaise y | CRec x, CRec y | CRecNone x, CRecNone y => Nat.eqb x y
  | _, _ => false
  end.
Fixpoint inner_eqb (a b : inner) : bool :=
  match a, b with
  | IAlways, IAlways | INever, INever => true
  | IIs x, IIs y => Nat.eqb x y
  | INot x, INot y => inner_eqb x y
  | IBoth x1 x2, IBoth y1 y2 | IEither x1 x2, IEither y1 y2 => inner_eqb x1 y1 && inner_eqb x2 y2
  | _, _ => false
  end.
Definition matcher_eqb (a b : matcher) : bool :=
  match a, b with
  | MNoResult, MNoResult => true
  | MSucceeded x, MSucceeded y | MFailed x, MFailed y => inner_eqb x y
  | _, _ => false
  end.
Definition op_eqb (a b : op) : bool :=
  match a, b with
  | OMatch x, OMatch y => matcher_eqb x y
  | OFire x, OFire y | OFail x, OFail y => Nat.eqb x y
  | OAdd c1 e1, OAdd c2 e2 => cbfun_eqb c1 c2 && cbfun_eqb e1 e2
  | OExtract, OExtract | OPause, OPause | OUnpause, OUnpause => true
  | OResume x, OResume y => dres_eqb x y
  | _, _ => false
  end.

(* ---- the statement ---- *)
(* which matcher matches which state; a Deferred that was fired but whose chain is paused or waits for
   another Deferred has no result (yet) *)
Definition expect_match (m : matcher) (s : dstate) : bool :=
  match m, s with
  | MNoResult, SUnfired | MNoResult, SWaiting => true
  | MSucceeded im, SVal v => inner_match im v
  | MFailed im, SErr e => inner_match im e
  | _, _ => false
  end.

Definition is_err (s : dstate) : bool := match s with SErr _ => true | _ => false end.
Definition is_val (s : dstate) : bool := match s with SVal _ => true | _ => false end.

(* succeeded()/failed() looking at a failed Deferred *)
Definition inspects (m : matcher) (before : dstate) : bool :=
  match m, before with
  | MSucceeded _, SErr _ | MFailed _, SErr _ => true
  | _, _ => false
  end.

(* what matching may do to the Deferred: a failure looked at by succeeded()/failed() is no longer a
   failure afterwards, the Deferred then holds some plain value; in every other case the inspected
   state is what it was *)
Definition after_okb (m : matcher) (before after : dstate) : bool :=
  if inspects m before then is_val after else dstate_eqb after before.

(* the value; the failure's own exception, whatever its class (it may be DeferredNotFired itself);
   DeferredNotFired when there is no result *)
Definition expect_extract (s : dstate) : res nat xexc :=
  match s with SVal v => Ok v | SErr e => Raised (XUser e) | SUnfired | SWaiting => Raised XNotFired end.

Definition op_okb (o : op) (x : oobs) : bool :=
  match o with
  | OMatch m => opout_eqb (p_out x) (OutMatch (expect_match m (p_before x)))   (* verdict by state and inner matcher *)
                && Bool.eqb (p_cafter x) (p_cbefore x)                          (* never fires the Deferred *)
                && Nat.eqb (p_ran x) 0                                          (* ... nor any callback *)
                && after_okb m (p_before x) (p_after x)
  | OExtract => opout_eqb (p_out x) (OutExtract (expect_extract (p_before x)))
  | _ => true
  end.

Fixpoint forall2b {A B} (p : A -> B -> bool) (l : list A) (m : list B) : bool :=
  match l, m with
  | [], [] => true
  | a :: l', b :: m' => p a b && forall2b p l' m'
  | _, _ => false
  end.

(* the history without its matches: a match disappears; where it consumed a failure (the Deferred
   held failure e before and value v after) an errback returning v stands in for it *)
Definition erase_op (o : op) (x : oobs) : list op :=
  match o with
  | OMatch m => if inspects m (p_before x)
                then match p_after x with SVal v => [OAdd CPass (CConst v)] | _ => [] end
                else []
  | _ => [o]
  end.
Fixpoint erase_obs (ops : list op) (xs : list oobs) : list op :=
  match ops, xs with
  | o :: r, x :: s => erase_op o x ++ erase_obs r s
  | _, _ => []
  end.

Definition final_state (xs : list oobs) : dstate := last (map p_after xs) SUnfired.
Definition final_called (xs : list oobs) : bool := last (map p_cafter xs) false.

Definition hist_okb (ops : list op) (h : hobs) : bool :=
  forall2b op_okb ops (h_ops h)
  (* matching is invisible: callbacks added before or after see the same values, the Deferred ends in the
     same state and logs the same at collection as in the run without the matches *)
  && list_eqb op_eqb (h_eops h) (erase_obs ops (h_ops h))
  && log_eqb (h_log h) (h_elog h)
  && dstate_eqb (final_state (h_ops h)) (h_efinal h)
  && Bool.eqb (final_called (h_ops h)) (h_ecalled h)
  && Bool.eqb (h_unhandled h) (h_eunhandled h)
  (* nothing is logged as unhandled unless the Deferred still holds a failure (possibly behind a pause) *)
  && (is_err (final_state (h_ops h)) || dstate_eqb (final_state (h_ops h)) SWaiting || negb (h_unhandled h)).

Definition sync_okb (s : nat + nat) (o : sobs) : bool :=
  uret_eqb (s_direct o) (direct_run_user s)
  && uret_eqb (s_fired o) (s_direct o)
  && list_eqb Nat.eqb (s_ev_fired o) (s_ev_direct o).

Definition spec_okb (i : input) (o : obs) : bool :=
  match i, o with
  | IHist ops, OHist h => hist_okb ops h
  | ISync _ s, OSync x => sync_okb s x
  | _, _ => false
  end.

(* ---- readable form ---- *)
Definition Op_spec (o : op) (x : oobs) : Prop :=
  match o with
  | OMatch m =>
      p_out x = OutMatch (expect_match m (p_before x))
      /\ p_cafter x = p_cbefore x
      /\ p_ran x = 0
      /\ (if inspects m (p_before x) then exists v, p_after x = SVal v else p_after x = p_before x)
  | OExtract => p_out x = OutExtract (expect_extract (p_before x))
  | _ => True
  end.

Definition Hist_spec (ops : list op) (h : hobs) : Prop :=
  Forall2 Op_spec ops (h_ops h)
  /\ h_eops h = erase_obs ops (h_ops h)
  /\ h_log h = h_elog h
  /\ final_state (h_ops h) = h_efinal h
  /\ final_called (h_ops h) = h_ecalled h
  /\ h_unhandled h = h_eunhandled h
  /\ (h_unhandled h = true -> final_state (h_ops h) = SWaiting \/ exists e, final_state (h_ops h) = SErr e).

Definition Sync_spec (s : nat + nat) (o : sobs) : Prop :=
  s_direct o = direct_run_user s /\ s_fired o = s_direct o /\ s_ev_fired o = s_ev_direct o.

Definition Spec (i : input) (o : obs) : Prop :=
  match i, o with
  | IHist ops, OHist h => Hist_spec ops h
  | ISync _ s, OSync x => Sync_spec s x
  | _, _ => False
  end.

Definition findings (i : input) : list nat := [].
