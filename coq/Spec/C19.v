(* C19 - suite utilities preserve the test set.
   The statement, as an executable predicate over (input, observation) and as
   readable Props.  The observation is what the harness records from the
   implementation; [spec_okb] is evaluated by Coq on it. *)
From Coq Require Import Permutation Sorted.
From TT Require Import Lib.Base Lib.Sort Model.Suites.

(* names: the table of test ids as UTF-8 bytes, test number i has id (nth i names);
   file: the bytes of the file given to --load-list *)
Record input := { tree : node; keep : list id; unpack : bool; names : list bytes; file : bytes }.

(* one member of the suite returned by sorted_tests: is it a test case, and the
   ids iterate_tests yields below it *)
Definition member := (bool * list id)%type.

Record obs := {
  o_iter   : list id;                  (* ids yielded by iterate_tests(tree) *)
  o_filter : list (list (list nat) * id);  (* per test left by filter_by_ids(tree, keep), in iteration order: the
                                          suites of the ORIGINAL tree that enclose it, outermost first (a suite
                                          is named by its position path in the original tree), and its id *)
  o_sorted : res (list member) exn;    (* members of sorted_tests(tree, unpack), or what it raised *)
  o_list   : list id;                  (* run.list_test(tree)[0] *)
  o_cli_list : list id;                (* lines printed by `testtools.run --list`, as test numbers *)
  o_cli_run  : list id;                (* tests executed by `testtools.run --load-list file`, in order *)
  o_cli_both : list id                 (* lines printed by `testtools.run --list --load-list file` *)
}.

(* ---- the specification, written independently of the model's algorithms ---- *)

(* the leaves of a tree in suite order (by position) *)
Definition leaves (n : node) : list id := map snd (paths n).

(* what sorted_tests must arrange: plain suites dissolved, custom suites whole *)
Record top := { t_key : key; t_case : bool; t_sortable : bool; t_ids : list id }.
Fixpoint tops (n : node) : list top :=
  match n with
  | Case i => [{| t_key := Some i; t_case := true; t_sortable := false; t_ids := [i] |}]
  | Plain l => flat_map tops l
  | Custom s _ l =>
      [{| t_key := hd_error (flat_map iterate l); t_case := false; t_sortable := s;
          t_ids := flat_map iterate l |}]
  end.
Definition tops_of (unpack_outer : bool) (n : node) : list top :=
  match n with
  | Custom _ _ l => if unpack_outer then flat_map tops l else tops n
  | _ => tops n
  end.

Definition count (l : list id) (x : id) : nat := count_occ Nat.eq_dec l x.
Definition perm_eqb (a b : list id) : bool :=
  forallb (fun x => Nat.eqb (count a x) (count b x)) (a ++ b).

Definition member_ok (t : top) (m : member) : bool :=
  Bool.eqb (t_case t) (fst m)
  && (if t_sortable t then perm_eqb (t_ids t) (snd m) else list_eqb Nat.eqb (t_ids t) (snd m)).

Fixpoint forall2b {A B} (p : A -> B -> bool) (l : list A) (m : list B) : bool :=
  match l, m with
  | [], [] => true
  | a :: l', b :: m' => p a b && forall2b p l' m'
  | _, _ => false
  end.

Definition top_leb (a b : top) : bool := key_leb (t_key a) (t_key b).

Definition sorted_okb (i : input) (o : res (list member) exn) : bool :=
  if has_dup (leaves (tree i)) then res_eqb (fun _ _ => false) exn_eqb o (Raised ValueError)
  else match o with
       | Ok ms => forall2b member_ok (isort top_leb (tops_of (unpack i) (tree i))) ms
       | Raised _ => false
       end.

(* Grouping.  A suite node of the tree is named by its position path; the suites that enclose the
   leaf at path p are the nodes at the proper prefixes of p (theorem C19_enclosing), outermost first.
   The index of the slot a test occupies in its suite is NOT part of its grouping: whether a removed
   test leaves an empty placeholder suite behind or nothing cannot be told by looking at tests. *)
Definition enclosing (p : list nat) : list (list nat) := map (fun k => firstn k p) (seq 0 (length p)).
Definition grouped (pi : list nat * id) : list (list nat) * id := (enclosing (fst pi), snd pi).
Definition group_eqb : list (list nat) * id -> list (list nat) * id -> bool :=
  pair_eqb (list_eqb (list_eqb Nat.eqb)) Nat.eqb.

(* ---- the list file: one test id per line ----
   The lines of a file are the pieces between line feeds.  A line lists the id
   nm when it is nm, possibly surrounded by ASCII whitespace (so a CR before the
   LF, indentation and trailing blanks do not matter; blank lines list nothing).
   Whitespace INSIDE a line separates nothing: a line is one id. *)
Definition blank (b : N) : bool := existsb (N.eqb b) [9; 10; 11; 12; 13; 32]%N.

Fixpoint split_lf (f : bytes) : list bytes :=
  match f with
  | [] => [[]]
  | b :: r => if N.eqb b 10 then [] :: split_lf r
              else match split_lf r with
                   | l :: ls => (b :: l) :: ls
                   | [] => [[b]]
                   end
  end.
Fixpoint join_lf (ls : list bytes) : bytes :=
  match ls with
  | [] => []
  | l :: r => match r with [] => l | _ => l ++ 10%N :: join_lf r end
  end.

Fixpoint skip_blank (l : bytes) : bytes :=
  match l with
  | b :: r => if blank b then skip_blank r else l
  | [] => []
  end.
Fixpoint after_prefix (p l : bytes) : option bytes :=
  match p, l with
  | [], _ => Some l
  | a :: p', b :: l' => if N.eqb a b then after_prefix p' l' else None
  | _ :: _, [] => None
  end.
Definition line_lists (nm line : bytes) : bool :=
  match after_prefix nm (skip_blank line) with
  | Some rest => forallb blank rest
  | None => false
  end.
Definition file_lists (f : bytes) (nm : bytes) : bool := existsb (line_lists nm) (split_lf f).
Definition listedb (nms : list bytes) (f : bytes) (i : id) : bool :=
  match nth_error nms i with
  | Some nm => file_lists f nm
  | None => false
  end.

(* ids the statement speaks about: non-empty, no line feed inside, no ASCII
   whitespace at either end (such an id cannot be written on a line of its own) *)
Definition wf_nameb (nm : bytes) : bool :=
  match nm with [] => false | b :: _ => negb (blank b) end
  && match rev nm with [] => false | b :: _ => negb (blank b) end
  && forallb (fun b => negb (N.eqb b 10)) nm.
Definition wf (i : input) : Prop := forallb wf_nameb (names i) = true.

Definition spec_okb (i : input) (o : obs) : bool :=
  list_eqb Nat.eqb (o_iter o) (leaves (tree i))
  && list_eqb group_eqb (o_filter o) (map grouped (filter (fun p => mem (snd p) (keep i)) (paths (tree i))))
  && sorted_okb i (o_sorted o)
  && list_eqb Nat.eqb (o_list o) (leaves (tree i))
  && list_eqb Nat.eqb (o_cli_list o) (leaves (tree i))
  && list_eqb Nat.eqb (o_cli_run o) (filter (listedb (names i) (file i)) (leaves (tree i)))
  && list_eqb Nat.eqb (o_cli_both o) (filter (listedb (names i) (file i)) (leaves (tree i))).

(* ---- readable form of the sorted_tests clause ---- *)
Definition Sorted_spec (i : input) (o : res (list member) exn) : Prop :=
  if has_dup (leaves (tree i)) then o = Raised ValueError
  else exists ms arrangement,
      o = Ok ms
      /\ Permutation (tops_of (unpack i) (tree i)) arrangement
      /\ Sorted (fun a b => key_leb (t_key a) (t_key b) = true) arrangement
      /\ Forall2 (fun t m => t_case t = fst m
                             /\ if t_sortable t then Permutation (t_ids t) (snd m) else t_ids t = snd m)
                 arrangement ms.

(* readable meaning of [file_lists] (theorem C19_listed): some line of the file
   is the id surrounded by nothing but ASCII whitespace *)
Definition Lists (f : bytes) (nm : bytes) : Prop :=
  exists line a b, In line (split_lf f) /\ line = a ++ nm ++ b
                   /\ forallb blank a = true /\ forallb blank b = true.

Definition Spec (i : input) (o : obs) : Prop :=
  o_iter o = leaves (tree i)
  /\ o_filter o = map grouped (filter (fun p => mem (snd p) (keep i)) (paths (tree i)))
  /\ Sorted_spec i (o_sorted o)
  /\ o_list o = leaves (tree i)
  /\ o_cli_list o = leaves (tree i)
  /\ o_cli_run o = filter (listedb (names i) (file i)) (leaves (tree i))
  /\ o_cli_both o = filter (listedb (names i) (file i)) (leaves (tree i)).

(* no finding is delimited for C19 after the F8 repair *)
Definition findings (i : input) : list nat := [].
