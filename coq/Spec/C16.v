(* C16 - Content is lossless and independent of chunking.
   The statement as an executable predicate over (input, observation of the
   implementation) and as readable Props.  A case is one of eleven scenario
   kinds; the observation is what the harness records from the real code. *)
From Coq Require Import String.
From TT Require Import Lib.Base Model.Utf8 Model.MimeCt Model.Content.

(* ---------------- inputs ---------------- *)
(* content_from_stream / content_from_file scenario: a source with bytes data0
   (BytesIO positioned at pos0), a Content made from it, then the source is
   overwritten with data1 (position pos1), then the content is iterated twice.
   r_sizes is the read-size oracle of the stream (Model.Content.next_size): the
   i-th read() call of the scenario hands out at most r_sizes[i] bytes (clamped
   to 1..chunk_size) although more may follow - an unbuffered pipe, socket, raw
   device; [] = a stream that always fills the request (regular file, BytesIO) *)
Record reader_in := {
  r_kind : skind; r_data0 : list N; r_pos0 : nat; r_seek : seekarg; r_chunk : nat; r_buffer : bool;
  r_data1 : list N; r_pos1 : nat; r_sizes : list nat }.

(* gathering a detail whose callback serves a mutable Python list (or, sl_tuple, an
   immutable tuple made from it): the list holds sl_buf when the copy is made and
   is then mutated by sl_ops *)
Inductive lop := LAppend (c : chunk) | LClear | LReplace (i : nat) (c : chunk).
Record snaplist_in := { sl_tuple : bool; sl_buf : list chunk; sl_ops : list lop }.

Inductive input :=
| IText (s : list N)                        (* text_content(s), s a list of code points *)
| IJson (dumped : list N)                   (* json_content(d); dumped = json.dumps(d), the oracle's answer *)
| IChunks (ct : ctype) (chunks : list chunk)      (* Content(ct, lambda: chunks) *)
| ISplits (charset : option str) (data : list N)  (* text/plain[;charset] content over EVERY split of data *)
| IReader (r : reader_in)
| ISnap (r : reader_in)                     (* _copy_content / gather_details of an unbuffered content (r_buffer unused) *)
| ISnapList (r : snaplist_in)               (* ... of a content over an in-memory list *)
| IReaderList (buffer : bool) (r : snaplist_in)   (* content_from_reader(callback over such a list, ct, buffer_now) *)
| IEq (ta : ctype) (ca : list chunk) (tb : ctype) (cb : list chunk)
| IMime (ct : ctype)                        (* _make_content_type(repr(ct)) *)
(* a history of reads on ONE object Content(ct, lambda: chunks): readers created, advanced
   alternately, abandoned, drained; as_text() in between.  oracle = bytes.decode(charset) of
   the joined bytes as computed by Python, used only for charsets the model has no codec for *)
| IHist (ct : ctype) (chunks : list chunk) (oracle : option tres) (ops : list hop).

(* ---------------- observations ---------------- *)
Definition bres := res (list chunk) exn.     (* list(iter_bytes()) *)

Inductive obs :=
| OText (ct : ctype) (bytes : list N) (text : tres)    (* content_type, joined iter_bytes(), as_text() *)
| OJson (ct : ctype) (bytes : list N)
| OChunks (bytes : list N) (text : tres)
| OSplits (runs : list (tres * nat))                   (* as_text() per split, run-length encoded *)
| OReader (created : option exn) (read_at_create : bool)
          (it1 : bres) (read1 : bool) (it2 : bres) (read2 : bool)
| OSnap (copied : option exn) (same_type : bool) (c1 c2 : bres) (read_after : bool) (orig : bres)
| OSnapList (same_type : bool) (c1 c2 : bres) (orig : bres)
| OReaderList (it1 it2 : bres)
| OEq (eq ne : bool)
| OMime (echo : ctype) (r : res ctype perr)     (* the content type that went in, and what came back *)
| OHist (rs : list hres).                      (* one result per operation of the history *)

(* ---------------- the quantifier "every split" ---------------- *)
(* all ways of cutting a byte string into consecutive non-empty chunks ... *)
Fixpoint splits (l : list N) : list (list chunk) :=
  match l with
  | [] => [[]]
  | x :: r =>
      match r with
      | [] => [[[x]]]
      | _ => flat_map (fun s => match s with
                                | [] => []
                                | c :: t => [(x :: c) :: t; [x] :: c :: t]
                                end) (splits r)
      end
  end.
(* ... and each of them again with an empty chunk in front, between and behind *)
Definition with_empties (s : list chunk) : list chunk := [] :: flat_map (fun c => [c; []]) s.
Definition all_splits (l : list N) : list (list chunk) := splits l ++ map with_empties (splits l).

(* ---------------- reference notions ---------------- *)
Definition bytes_eqb : list N -> list N -> bool := list_eqb N.eqb.
Definition tres_eqb : tres -> tres -> bool := res_eqb bytes_eqb exn_eqb.
Definition nonempty (c : chunk) : bool := match c with [] => false | _ => true end.

(* decoding the whole byte string in charset C *)
Definition whole (C : codec) (bs : list N) : tres :=
  match decode_whole C bs with Some t => Ok t | None => Raised UnicodeDecodeError end.

Definition text_ct (charset : option str) : ctype :=
  {| ct_type := sb "text"; ct_sub := sb "plain";
     ct_params := match charset with None => [] | Some c => [(s_charset, c)] end |}.

(* "as_text() equals decoding the whole byte string in the declared charset
   (ISO-8859-1 when none is declared)"; no demand when the type is not text or
   the charset is not one of the two modelled ones *)
Definition text_okb (ct : ctype) (bs : list N) (t : tres) : bool :=
  if str_eqb (ct_type ct) (sb "text") then
    match codec_of (declared_charset ct) with
    | Some C => tres_eqb t (whole C bs)
    | None => true
    end
  else true.

(* a COMPLETE read of a text content (as_text(), or everything one iter_text() reader
   collected from its first piece to exhaustion), whoever else read or is reading the same
   object: the whole byte string decoded in the declared charset.  For a charset Python knows
   and the model does not, the whole-string decode is the oracle's answer carried by the case *)
Definition read_okb (ct : ctype) (bs : list N) (oracle : option tres) (t : tres) : bool :=
  if str_eqb (ct_type ct) (sb "text") then
    match codec_of (declared_charset ct) with
    | Some C => tres_eqb t (whole C bs)
    | None => match oracle with Some e => tres_eqb t e | None => true end
    end
  else true.

(* every operation got its kind of answer; n = the readers created so far; a text content
   always hands out a reader; every complete read is right *)
Fixpoint hist_okb (text : bool) (ok : tres -> bool) (n : nat) (ops : list hop) (rs : list hres) : bool :=
  match ops, rs with
  | [], [] => true
  | HNew :: o, RNew e :: r =>
      match e with
      | None => hist_okb text ok (S n) o r
      | Some _ => negb text && hist_okb text ok n o r
      end
  | HNext i :: o, RStepped :: r => Nat.ltb i n && hist_okb text ok n o r
  | HNext i :: o, RNoIter :: r => Nat.leb n i && hist_okb text ok n o r
  | HFinish i :: o, RRead t :: r => Nat.ltb i n && ok t && hist_okb text ok n o r
  | HFinish i :: o, RNoIter :: r => Nat.leb n i && hist_okb text ok n o r
  | HAsText :: o, RRead t :: r => ok t && hist_okb text ok n o r
  | _, _ => false
  end.

(* the bytes from the requested offset to the end of the source *)
Definition start_of (k : skind) (len pos : nat) (sk : seekarg) : res nat exn :=
  match sk with
  | None => Ok (match k with KBytesIO => pos | KFile => O end)
  | Some (off, wh) => seek_pos k len off wh
  end.
Definition want (k : skind) (data : list N) (pos : nat) (sk : seekarg) : res (list N) exn :=
  match start_of k (length data) pos sk with
  | Raised e => Raised e
  | Ok p => Ok (skipn p data)
  end.

(* "precisely the bytes ... in non-empty chunks no larger than chunk_size" *)
Definition chunks_okb (n : nat) (cs : list chunk) (bs : list N) : bool :=
  forallb nonempty cs && forallb (fun c => Nat.leb (length c) n) cs && bytes_eqb (concat cs) bs.

Definition iter_okb (n : nat) (r : bres) (w : res (list N) exn) : bool :=
  match w, r with
  | Ok bs, Ok cs => chunks_okb n cs bs
  | Raised e, Raised f => exn_eqb e f
  | _, _ => false
  end.

Definition joined_okb (r : bres) (w : res (list N) exn) : bool :=
  match w, r with
  | Ok bs, Ok cs => bytes_eqb (concat cs) bs
  | Raised e, Raised f => exn_eqb e f
  | _, _ => false
  end.

Definition chunks_eqb : list chunk -> list chunk -> bool := list_eqb bytes_eqb.

(* identical content types (same parameters in the same order) *)
Definition dict_eqb_exact : dict -> dict -> bool := list_eqb (pair_eqb str_eqb str_eqb).
Definition ctype_eqb (a b : ctype) : bool :=
  str_eqb (ct_type a) (ct_type b) && str_eqb (ct_sub a) (ct_sub b) && dict_eqb_exact (ct_params a) (ct_params b).

(* did the content type c come back from render + _make_content_type? *)
Definition survives (c : ctype) (r : res ctype perr) : bool :=
  match r with Ok c' => ct_eqb c' c | Raised _ => false end.

(* where a BytesIO stands after it was read to the end from position p *)
Definition pos_after (len p : nat) : nat := Nat.max p len.

Definition reader_okb (r : reader_in) (created : option exn) (rc : bool) (it1 : bres) (r1 : bool)
                      (it2 : bres) (r2 : bool) : bool :=
  let k := r_kind r in
  if r_buffer r then
    (* buffer_now: everything is read at creation, from the source as it is then *)
    match want k (r_data0 r) (r_pos0 r) (r_seek r), created with
    | Raised e, Some f => exn_eqb e f
    | Ok bs, None =>
        rc && negb r1 && negb r2
        && match it1, it2 with
           | Ok c1, Ok c2 => chunks_okb (r_chunk r) c1 bs && chunks_eqb c1 c2
           | _, _ => false
           end
    | _, _ => false
    end
  else
    (* lazy: nothing happens at creation; each iteration sees the source as it is then *)
    match created with
    | Some _ => false
    | None =>
        negb rc
        && iter_okb (r_chunk r) it1 (want k (r_data1 r) (r_pos1 r) (r_seek r))
        && match want k (r_data1 r) (r_pos1 r) (r_seek r), start_of k (length (r_data1 r)) (r_pos1 r) (r_seek r) with
           | Ok _, Ok p => iter_okb (r_chunk r) it2
                             (want k (r_data1 r) (pos_after (length (r_data1 r)) p) (r_seek r))
           | _, _ => iter_okb (r_chunk r) it2 (want k (r_data1 r) (r_pos1 r) (r_seek r))
           end
    end.

Definition snap_okb (r : reader_in) (copied : option exn) (same : bool) (c1 c2 : bres) (ra : bool) (orig : bres) : bool :=
  let k := r_kind r in
  match want k (r_data0 r) (r_pos0 r) (r_seek r), copied with
  | Raised e, Some f => exn_eqb e f
  | Ok bs, None =>
      same && negb ra
      && joined_okb c1 (Ok bs) && joined_okb c2 (Ok bs)
      && joined_okb orig (want k (r_data1 r) (r_pos1 r) (r_seek r))
  | _, _ => false
  end.

(* list.append(c) / list.clear() / list[i] = c *)
Definition apply_op (b : list chunk) (o : lop) : list chunk :=
  match o with
  | LAppend c => b ++ [c]
  | LClear => []
  | LReplace i c => if Nat.ltb i (length b) then firstn i b ++ c :: skipn (S i) b else b
  end.
Definition apply_ops (ops : list lop) (b : list chunk) : list chunk := fold_left apply_op ops b.

(* the copy keeps the bytes of gathering time whatever happens to the source list afterwards;
   the original keeps serving the list as it is now *)
Definition snaplist_okb (r : snaplist_in) (same : bool) (c1 c2 orig : bres) : bool :=
  same && joined_okb c1 (Ok (concat (sl_buf r))) && joined_okb c2 (Ok (concat (sl_buf r)))
  && joined_okb orig (Ok (concat (if sl_tuple r then sl_buf r else apply_ops (sl_ops r) (sl_buf r)))).

(* content_from_reader over a list: buffer_now fixes the bytes at creation, otherwise the list as it is when iterated *)
Definition readerlist_bytes (buffer : bool) (r : snaplist_in) : list N :=
  concat (if buffer || sl_tuple r then sl_buf r else apply_ops (sl_ops r) (sl_buf r)).

Definition sum_runs {A} (l : list (A * nat)) : nat := fold_right (fun p a => snd p + a) 0 l.

Definition spec_okb (i : input) (o : obs) : bool :=
  match i, o with
  | IText s, OText ct bytes text =>
      tres_eqb text (Ok s) && text_okb ct bytes text
  | IJson d, OJson ct bytes =>
      tres_eqb (whole utf8 bytes) (Ok d)
  | IChunks ct chunks, OChunks bytes text =>
      bytes_eqb bytes (concat chunks) && text_okb ct (concat chunks) text
  | ISplits cs data, OSplits runs =>
      Nat.eqb (sum_runs runs) (length (all_splits data))
      && forallb (fun p => text_okb (text_ct cs) data (fst p)) runs
  | IReader r, OReader created rc it1 r1 it2 r2 => reader_okb r created rc it1 r1 it2 r2
  | ISnap r, OSnap copied same c1 c2 ra orig => snap_okb r copied same c1 c2 ra orig
  | ISnapList r, OSnapList same c1 c2 orig => snaplist_okb r same c1 c2 orig
  | IReaderList b r, OReaderList it1 it2 =>
      joined_okb it1 (Ok (readerlist_bytes b r)) && joined_okb it2 (Ok (readerlist_bytes b r))
  | IEq ta ca tb cb, OEq e ne =>
      Bool.eqb e (ct_eqb ta tb && bytes_eqb (concat ca) (concat cb)) && Bool.eqb ne (negb e)
  | IMime ct, OMime echo r => ctype_eqb echo ct && survives ct r
  | IHist ct chunks oracle ops, OHist rs =>
      hist_okb (str_eqb (ct_type ct) (sb "text")) (read_okb ct (concat chunks) oracle) 0 ops rs
  | _, _ => false
  end.

(* ---------------- well-formed inputs ---------------- *)
Definition wf (i : input) : bool :=
  match i with
  | IText s | IJson s => forallb is_scalar s
  | IReader r | ISnap r => Nat.leb 1 (r_chunk r)
  | IMime ct => mime_dom ct
  | _ => true
  end.

(* ---------------- known finding F16 ----------------
   A content type of the modelled domain survives repr + _make_content_type
   exactly when it is in wf_ct; outside (a backslash in a value, an upper-case
   parameter name, a charset containing ',') it does not. *)
Definition finding_F16 (i : input) : bool :=
  match i with IMime ct => negb (wf_ct ct) | _ => false end.

Definition findings (i : input) : list nat := if finding_F16 i then [16] else [].

(* ---------------- the readable statement ---------------- *)
Definition TextOk (ct : ctype) (bs : list N) (t : tres) : Prop :=
  ct_type ct = sb "text" -> forall C, codec_of (declared_charset ct) = Some C -> t = whole C bs.

Definition ChunksOk (n : nat) (cs : list chunk) (bs : list N) : Prop :=
  Forall (fun c => c <> []) cs /\ Forall (fun c => length c <= n) cs /\ concat cs = bs.

Definition IterOk (n : nat) (r : bres) (w : res (list N) exn) : Prop :=
  match w with
  | Ok bs => exists cs, r = Ok cs /\ ChunksOk n cs bs
  | Raised e => r = Raised e
  end.

Definition JoinedOk (r : bres) (w : res (list N) exn) : Prop :=
  match w with
  | Ok bs => exists cs, r = Ok cs /\ concat cs = bs
  | Raised e => r = Raised e
  end.

(* equal content types: same type, same subtype, same parameter dict *)
Definition CtSame (a b : ctype) : Prop :=
  ct_type a = ct_type b /\ ct_sub a = ct_sub b
  /\ length (ct_params a) = length (ct_params b)
  /\ forall kv, In kv (ct_params a) -> lookup (fst kv) (ct_params b) = Some (snd kv).

Definition ReaderSpec (r : reader_in) (created : option exn) (rc : bool) (it1 : bres) (r1 : bool)
                      (it2 : bres) (r2 : bool) : Prop :=
  let k := r_kind r in
  if r_buffer r then
    match want k (r_data0 r) (r_pos0 r) (r_seek r) with
    | Raised e => created = Some e
    | Ok bs => created = None /\ rc = true /\ r1 = false /\ r2 = false
               /\ exists cs, it1 = Ok cs /\ it2 = Ok cs /\ ChunksOk (r_chunk r) cs bs
    end
  else
    created = None /\ rc = false
    /\ IterOk (r_chunk r) it1 (want k (r_data1 r) (r_pos1 r) (r_seek r))
    /\ IterOk (r_chunk r) it2
         match start_of k (length (r_data1 r)) (r_pos1 r) (r_seek r) with
         | Ok p => want k (r_data1 r) (pos_after (length (r_data1 r)) p) (r_seek r)
         | Raised e => Raised e
         end.

Definition SnapSpec (r : reader_in) (copied : option exn) (same : bool) (c1 c2 : bres) (ra : bool) (orig : bres) : Prop :=
  let k := r_kind r in
  match want k (r_data0 r) (r_pos0 r) (r_seek r) with
  | Raised e => copied = Some e
  | Ok bs => copied = None /\ same = true /\ ra = false
             /\ JoinedOk c1 (Ok bs) /\ JoinedOk c2 (Ok bs)
             /\ JoinedOk orig (want k (r_data1 r) (r_pos1 r) (r_seek r))
  end.

Definition ReadOk (ct : ctype) (bs : list N) (oracle : option tres) (t : tres) : Prop :=
  ct_type ct = sb "text" ->
  match codec_of (declared_charset ct) with
  | Some C => t = whole C bs
  | None => forall e, oracle = Some e -> t = e
  end.

(* one answer per operation; as_text() always answers; every complete read that was
   answered - as_text() or a drained reader, after whatever the other readers did - is right *)
Definition HistSpec (ct : ctype) (chunks : list chunk) (oracle : option tres) (ops : list hop) (rs : list hres) : Prop :=
  length rs = length ops
  /\ (forall k, nth_error ops k = Some HAsText -> exists t, nth_error rs k = Some (RRead t))
  /\ (forall k t, nth_error rs k = Some (RRead t) -> ReadOk ct (concat chunks) oracle t).

Definition Spec (i : input) (o : obs) : Prop :=
  match i, o with
  | IText s, OText ct bytes text => text = Ok s /\ TextOk ct bytes text
  | IJson d, OJson ct bytes => whole utf8 bytes = Ok d
  | IChunks ct chunks, OChunks bytes text => bytes = concat chunks /\ TextOk ct (concat chunks) text
  | ISplits cs data, OSplits runs =>
      sum_runs runs = length (all_splits data)
      /\ Forall (fun p => TextOk (text_ct cs) data (fst p)) runs
  | IReader r, OReader created rc it1 r1 it2 r2 => ReaderSpec r created rc it1 r1 it2 r2
  | ISnap r, OSnap copied same c1 c2 ra orig => SnapSpec r copied same c1 c2 ra orig
  | ISnapList r, OSnapList same c1 c2 orig =>
      same = true /\ JoinedOk c1 (Ok (concat (sl_buf r))) /\ JoinedOk c2 (Ok (concat (sl_buf r)))
      /\ JoinedOk orig (Ok (concat (if sl_tuple r then sl_buf r else apply_ops (sl_ops r) (sl_buf r))))
  | IReaderList b r, OReaderList it1 it2 =>
      JoinedOk it1 (Ok (readerlist_bytes b r)) /\ JoinedOk it2 (Ok (readerlist_bytes b r))
  | IEq ta ca tb cb, OEq e ne =>
      (e = true <-> CtSame ta tb /\ concat ca = concat cb) /\ ne = negb e
  | IMime ct, OMime echo r => echo = ct /\ exists ct', r = Ok ct' /\ CtSame ct' ct
  | IHist ct chunks oracle ops, OHist rs => HistSpec ct chunks oracle ops rs
  | _, _ => False
  end.
