(* C17 - tags are scoped: test-local changes never leak, run-level changes persist.
   The statement as an executable predicate over (input, observation) and as a readable Prop.
   Written against the two-level specification of DESIGN Appendix A.3, not against the
   TagContext stack / buffers of the model. *)
From TT Require Import Lib.Base Model.Tags.

Record input := { stack : adapter; hist : list call }.

Record obs := {
  o_reporter : list tset;        (* current_tags of the outermost object after each call *)
  o_leaves : list (list tset)    (* per wrapped result / stream double, depth first: tags seen at each outcome *)
}.

(* ---------- the two-level specification (A.3) ---------- *)
Record sp := { run_tags : tset; test_tags : option tset }.
Definition sp0 : sp := {| run_tags := []; test_tags := None |}.

(* [tg]: the changes the Taggers that ARE the reporter make to every test at startTest
   (innermost first); [] when the reporter is not a Tagger: then this is A.3 verbatim. *)
Definition sstep (tg : list change) (s : sp) (op : call) : sp :=
  match op with
  | StartRun => sp0
  | Tags ch => match test_tags s with
               | Some t => {| run_tags := run_tags s; test_tags := Some (apply1 t ch) |}
               | None => {| run_tags := apply1 (run_tags s) ch; test_tags := None |}
               end
  | StartTest => {| run_tags := run_tags s; test_tags := Some (fold_left apply1 tg (run_tags s)) |}
  | StopTest => {| run_tags := run_tags s; test_tags := None |}      (* also when no test is open *)
  | Outcome => s
  end.
Definition current (s : sp) : tset := match test_tags s with Some t => t | None => run_tags s end.

(* what current_tags must be after the first k calls of h *)
Definition spec_after (tg : list change) (h : list call) (k : nat) : tset :=
  current (fold_left (sstep tg) (firstn k h) sp0).
Definition spec_scan (tg : list change) (h : list call) : list tset :=
  map (spec_after tg h) (seq 1 (length h)).

(* ---------- the quantifier's restrictions, decidable ---------- *)
Definition disjointb (ch : change) : bool := forallb (fun x => negb (smem x (snd ch))) (fst ch).

(* every tags(new, gone) call of the history has disjoint sets *)
Definition disj_hist (h : list call) : bool :=
  forallb (fun op => match op with Tags ch => disjointb ch | _ => true end) h.

(* tests are not nested *)
Fixpoint nn_from (in_test : bool) (h : list call) : bool :=
  match h with
  | [] => true
  | StartTest :: r => negb in_test && nn_from true r
  | StopTest :: r | StartRun :: r => nn_from false r
  | _ :: r => nn_from in_test r
  end.

(* ... and: new/gone disjoint, at most one outcome per test, no startTestRun inside a test *)
Fixpoint wf_from (in_test seen : bool) (h : list call) : bool :=
  match h with
  | [] => true
  | StartRun :: r => negb in_test && wf_from false false r
  | StartTest :: r => negb in_test && wf_from true false r
  | StopTest :: r => wf_from false false r
  | Outcome :: r => negb (in_test && seen) && wf_from in_test in_test r
  | Tags ch :: r => disjointb ch && wf_from in_test seen r
  end.

(* the part of a stack through which current_tags is delegated downwards: Taggers there are
   part of the reporter; their changes, innermost first *)
Fixpoint chain (a : adapter) : list change :=
  match a with
  | Deco x | E2O x => chain x
  | Tagger ch x => chain x ++ [ch]
  | _ => []
  end.

Fixpoint tagger_free (a : adapter) : bool :=
  match a with
  | Leaf _ => true
  | Multi l => forallb tagger_free l
  | Deco x | E2O x | TFR x | E2S x => tagger_free x
  | Tagger _ _ => false
  end.

(* per leaf (same order as o_leaves): is every Tagger above it part of the reporter?  A Tagger
   below a MultiTestResult / ThreadsafeForwardingResult / stream pair changes what its own
   subtree sees on purpose; the statement's second sentence does not speak about those leaves. *)
Fixpoint clean_inner (a : adapter) : list bool :=
  match a with
  | Leaf _ => [true]
  | Multi l => flat_map clean_inner l
  | Deco x | E2O x | TFR x => clean_inner x
  | E2S x => true :: clean_inner x
  | Tagger _ x => map (fun _ => false) (clean_inner x)
  end.
Fixpoint clean_leaves (a : adapter) : list bool :=
  match a with
  | Deco x | E2O x | Tagger _ x => clean_leaves x
  | _ => clean_inner a
  end.

(* ---------- comparisons ---------- *)
Definition seteqb (a b : tset) : bool := forallb (fun x => Bool.eqb (smem x a) (smem x b)) (a ++ b).
Definition lseteqb : list tset -> list tset -> bool := list_eqb seteqb.

(* the entries of a per-call list at the positions of the outcome calls *)
Fixpoint at_outcomes {A} (h : list call) (l : list A) : list A :=
  match h, l with
  | Outcome :: r, x :: m => x :: at_outcomes r m
  | _ :: r, _ :: m => at_outcomes r m
  | _, _ => []
  end.

Fixpoint forall2b {A B} (p : A -> B -> bool) (l : list A) (m : list B) : bool :=
  match l, m with
  | [], [] => true
  | a :: l', b :: m' => p a b && forall2b p l' m'
  | _, _ => false
  end.

(* the histories the first sentence speaks about: tests not nested, every tags() call - of the history
   and of the Taggers that are part of the reporter - with disjoint new/gone sets.  What a tags() call
   with overlapping sets does is left open by the statement (implementations may let either side win). *)
Definition wf_cur (i : input) : bool :=
  nn_from false (hist i) && disj_hist (hist i) && forallb disjointb (chain (stack i)).

Definition wf_obs (i : input) : bool :=
  wf_from false false (hist i) && forallb disjointb (chain (stack i)).

(* ---------- the statement ---------- *)
Definition current_okb (i : input) (o : obs) : bool :=
  implb (wf_cur i) (lseteqb (o_reporter o) (spec_scan (chain (stack i)) (hist i))).

Definition observed_okb (i : input) (o : obs) : bool :=
  implb (wf_obs i)
        (forall2b (fun clean l => implb clean (lseteqb l (at_outcomes (hist i) (o_reporter o))))
                  (clean_leaves (stack i)) (o_leaves o)).

Definition spec_okb (i : input) (o : obs) : bool := current_okb i o && observed_okb i o.

(* readable form *)
Definition Spec (i : input) (o : obs) : Prop :=
  (* current_tags always equals the tags added minus the tags removed since startTestRun, changes made
     between startTest and stopTest being discarded at stopTest *)
  (wf_cur i = true ->
     Forall2 seteq (o_reporter o) (spec_scan (chain (stack i)) (hist i)))
  /\
  (* what a wrapped result / stream consumer observes for a test = the reporter's current_tags at
     that test's outcome *)
  (wf_obs i = true ->
     Forall2 (fun clean l => clean = true -> Forall2 seteq l (at_outcomes (hist i) (o_reporter o)))
             (clean_leaves (stack i)) (o_leaves o)).

(* F4 and F5 are repaired in /repo: no finding is delimited *)
Definition findings (i : input) : list nat := [].
