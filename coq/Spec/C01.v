(* C01 - every test run is bracketed and yields exactly one outcome; an exception that does
   not derive from Exception is reported as an error and propagates after stopTest.
   The statement as an executable predicate over (input, observation of the implementation). *)
From TT Require Import Lib.Base Gen.Handlers Model.Run Spec.Run.

Record input := { i_prog : prog; i_flavour : flavour }.

(* what the result object saw: calls of startTest / an outcome method / stopTest, in order *)
Inductive ev := Start | Out (o : outcome) | Stop.
(* what TestCase.run let out *)
Inductive rk := RNone | RException | RKbd | RSysExit | RBase.
Record obs := {
  o_events : list ev;
  o_raised : rk;
  o_ran : list nat }.   (* the tokens of the setUp / test / tearDown / cleanup / fixture bodies that were entered *)

Definition ev_eqb (a b : ev) : bool :=
  match a, b with
  | Start, Start | Stop, Stop => true
  | Out x, Out y => outcome_eqb x y
  | _, _ => false
  end.
Definition rk_eqb (a b : rk) : bool :=
  match a, b with
  | RNone, RNone | RException, RException | RKbd, RKbd | RSysExit, RSysExit | RBase, RBase => true
  | _, _ => false
  end.

(* the class of a propagated exception, as far as the observation distinguishes *)
Definition kind_of (e : exc) : rk :=
  if isinstance e CException then RException
  else if isinstance e CKbd then RKbd
  else if isinstance e CSysExit then RSysExit
  else RBase.

Definition derives_from_Exception (e : exc) : bool := isinstance e CException.

(* the inputs of the quantifier: the handlers the user has put in front of exception_handlers -
   before the run or while it runs (Spec.Run.user_handlers) - are for Exception-derived classes
   (handlers for other classes belong to C03), exceptions are well formed *)
Definition wf (i : input) : bool :=
  wf_prog (i_prog i) && forallb (fun co => subclass (fst co) CException) (user_handlers (i_prog i)).

(* startTest, exactly one outcome, stopTest (a StreamResult gets no event for stopTest) *)
Definition bracket (f : flavour) (evs : list ev) : option outcome :=
  match evs with
  | [Start; Out o; Stop] => if has_stop f then Some o else None
  | [Start; Out o] => if has_stop f then None else Some o
  | _ => None
  end.

(* the bodies that are to run whatever is raised: setUp; the test and tearDown iff setUp returned;
   every cleanup registered by a statement that was executed (Spec.Run.expected_log) *)
Definition expected_tokens (p : prog) : list nat :=
  flat_map (fun e => match e with STok t => [t] | STouch _ => [] end) (expected_log p).
Definition memb (t : nat) (l : list nat) : bool := existsb (Nat.eqb t) l.

Definition spec_okb (i : input) (o : obs) : bool :=
  match bracket (i_flavour i) (o_events o) with
  | None => false
  | Some out =>
      (* the first exception raised that does not derive from Exception *)
      match find (fun e => negb (derives_from_Exception e)) (raised (i_prog i)) with
      | Some e => outcome_eqb out (deliver (i_flavour i) OErr) && rk_eqb (o_raised o) (kind_of e)
                  && forallb (fun t => memb t (o_ran o)) (expected_tokens (i_prog i))
      | None => rk_eqb (o_raised o) RNone
      end
  end.

Definition Spec (i : input) (o : obs) : Prop :=
  exists out,
    (* in order: startTest, exactly one outcome, stopTest *)
    o_events o = (if has_stop (i_flavour i) then [Start; Out out; Stop] else [Start; Out out])
    /\ (* no exception outside Exception was raised: run() returns *)
       ((forall e, In e (raised (i_prog i)) -> derives_from_Exception e = true) -> o_raised o = RNone)
    /\ (* otherwise the outcome is the error (as the flavour delivers it), the first such
          exception comes out of run(), and tearDown and every cleanup were still run *)
       (forall e, find (fun e => negb (derives_from_Exception e)) (raised (i_prog i)) = Some e ->
                  out = deliver (i_flavour i) OErr /\ o_raised o = kind_of e
                  /\ forall t, In t (expected_tokens (i_prog i)) -> In t (o_ran o)).

(* no known finding is delimited for C01 (F1 and F3 are repaired in /repo) *)
Definition findings (i : input) : list nat := [].
