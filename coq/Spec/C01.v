(* C01 - every test run is bracketed and yields exactly one outcome; an exception that does
   not derive from Exception is reported as an error and propagates after stopTest.
   The statement as an executable predicate over (input, observation of the implementation). *)
From TT Require Import Lib.Base Gen.Handlers Model.Run Spec.Run.

(* i_prev: what the SAME TestCase instance did in its earlier runs, oldest first (a runner that runs a
   case again after an interrupted attempt, an --until-failure loop, an interactive session): the
   stages are scripted per run.  The observation is that of the last run, the one of i_prog; the
   statement speaks about every single run, whatever the instance went through before.
   i_runner: the configuration - which RunTest factory the case runs its tests with and how it was
   installed (Model.Run.runner: run_tests_with, runTest=, @run_test_with; RunTest itself, subclasses and
   functions with explicit / star / keyword-only signatures, functools.partial, callable objects, factories
   written for the API before last_resort).  The statement does not mention it: it is to hold for all. *)
Record input := { i_prev : list prog; i_prog : prog; i_flavour : flavour; i_runner : runner }.

(* what the result object saw: calls of startTest / an outcome method / stopTest, in order *)
Inductive ev := Start | Out (o : outcome) | Stop.
(* what TestCase.run let out *)
Inductive rk := RNone | RException | RKbd | RSysExit | RBase.
Record obs := {
  o_events : list ev;
  o_raised : rk;
  o_ran : list nat }.   (* the tokens of the setUp / test / tearDown / cleanup / fixture bodies that were entered *)

Definition ev_eqb (a b : ev) : bool :=
  match a, b with
  | Start, Start | Stop, Stop => true
  | Out x, Out y => outcome_eqb x y
  | _, _ => false
  end.
Definition rk_eqb (a b : rk) : bool :=
  match a, b with
  | RNone, RNone | RException, RException | RKbd, RKbd | RSysExit, RSysExit | RBase, RBase => true
  | _, _ => false
  end.

(* the class of a propagated exception, as far as the observation distinguishes *)
Definition kind_of (e : exc) : rk :=
  if isinstance e CException then RException
  else if isinstance e CKbd then RKbd
  else if isinstance e CSysExit then RSysExit
  else RBase.

Definition derives_from_Exception (e : exc) : bool := isinstance e CException.

(* the inputs of the quantifier: the handlers the user has put in front of exception_handlers -
   before the run or while it runs (Spec.Run.user_handlers) - are for Exception-derived classes
   (handlers for other classes belong to C03), exceptions are well formed *)
(* The first program the instance ran: the handlers it was constructed with are its p_handlers. *)
Definition first_prog (i : input) : prog := hd (i_prog i) (i_prev i).
(* the user's entries at the front of exception_handlers when the observed run starts: the list is
   not reset between runs, each run's insertions go in front *)
Definition handlers_before (i : input) : list (cls * outcome) :=
  fold_left (fun u p => rev (inserted p) ++ u) (i_prev i) (p_handlers (first_prog i)).
(* ... and when its outcome is chosen *)
Definition handlers_at_outcome (i : input) : list (cls * outcome) := rev (inserted (i_prog i)) ++ handlers_before i.
(* the decorators belong to the class / the method, not to a run *)
Definition same_decorators (p q : prog) : bool :=
  option_eqb Nat.eqb (p_skip p) (p_skip q) && Bool.eqb (p_xfail p) (p_xfail q).
Definition wf (i : input) : bool :=
  wf_prog (i_prog i) && forallb wf_prog (i_prev i)
  && forallb (same_decorators (i_prog i)) (i_prev i)
  && forallb (fun co => subclass (fst co) CException) (handlers_at_outcome i).

(* startTest, exactly one outcome, stopTest (a StreamResult gets no event for stopTest) *)
Definition bracket (f : flavour) (evs : list ev) : option outcome :=
  match evs with
  | [Start; Out o; Stop] => if has_stop f then Some o else None
  | [Start; Out o] => if has_stop f then None else Some o
  | _ => None
  end.

(* the bodies that are to run whatever is raised: setUp; the test and tearDown iff setUp returned;
   every cleanup registered by a statement that was executed (Spec.Run.expected_log) *)
Definition expected_tokens (p : prog) : list nat :=
  flat_map (fun e => match e with STok t => [t] | STouch _ => [] end) (expected_log p).
Definition memb (t : nat) (l : list nat) : bool := existsb (Nat.eqb t) l.

Definition spec_okb (i : input) (o : obs) : bool :=
  match bracket (i_flavour i) (o_events o) with
  | None => false
  | Some out =>
      (* the first exception raised that does not derive from Exception *)
      match find (fun e => negb (derives_from_Exception e)) (raised (i_prog i)) with
      | Some e => outcome_eqb out (deliver (i_flavour i) OErr) && rk_eqb (o_raised o) (kind_of e)
                  && forallb (fun t => memb t (o_ran o)) (expected_tokens (i_prog i))
      | None => rk_eqb (o_raised o) RNone
      end
  end.

Definition Spec (i : input) (o : obs) : Prop :=
  exists out,
    (* in order: startTest, exactly one outcome, stopTest *)
    o_events o = (if has_stop (i_flavour i) then [Start; Out out; Stop] else [Start; Out out])
    /\ (* no exception outside Exception was raised: run() returns *)
       ((forall e, In e (raised (i_prog i)) -> derives_from_Exception e = true) -> o_raised o = RNone)
    /\ (* otherwise the outcome is the error (as the flavour delivers it), the first such
          exception comes out of run(), and tearDown and every cleanup were still run *)
       (forall e, find (fun e => negb (derives_from_Exception e)) (raised (i_prog i)) = Some e ->
                  out = deliver (i_flavour i) OErr /\ o_raised o = kind_of e
                  /\ forall t, In t (expected_tokens (i_prog i)) -> In t (o_ran o)).

(* no known finding is delimited for C01 (F1, F3 and F27 - a RunTest built by a factory that cannot be called
   with last_resort= reported no outcome for KeyboardInterrupt / SystemExit - are repaired in /repo) *)
Definition findings (i : input) : list nat := [].
