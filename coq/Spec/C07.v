(* C07 - mismatches are always describable; text_repr output evaluates back;
   assertThat / assert_that / expectThat report faithfully (partial).
   Three kinds of case:
     IRepr  text_repr(s, multiline): the output, character for character, and
            whether ast.literal_eval gave back s; the statement evaluates the
            implementation's output with the model's own literal evaluator;
     IDesc  one matcher exported by testtools.matchers (or a combinator
            expression): kinds of str(m), describe(), get_details(),
            str(MismatchError) for both verbosities, abstracted to
            Text | Dict | Raised cls | Other;
     ITest  a real TestCase whose body is a sequence of assertThat / expectThat /
            assert_that statements on matchers that match or mismatch with given
            details, after some details were attached already. *)
From Coq Require Export String.
From TT Require Import Lib.Base Lib.Sort Model.TextRepr Model.Assertions.

Inductive okind := KText | KDict | KRaised (c : nat) | KOther.

Inductive input :=
| IRepr (isb : bool) (s : list N) (ml : option bool) (nonprint : list N)
| IDesc (name : nat) (modelled : bool) (has_mismatch : bool)
| ITest (pre : list detail) (steps : list step).

Inductive obs :=
| ORepr (out : list N) (evals_back : bool)
| ODesc (kinds : list okind)
| OTest (raised : list bool) (after_ran : bool) (oc : outcome) (details : list detail)   (* payload details only *)
| OBad.

(* ---------- text_repr ---------- *)
Definition res_eqb' (a b : option (bool * list N)) : bool :=
  match a, b with
  | Some (x, l), Some (y, m) => Bool.eqb x y && list_eqb N.eqb l m
  | None, None => true
  | _, _ => false
  end.
Definition repr_okb (isb : bool) (s : list N) (out : list N) (evals_back : bool) : bool :=
  evals_back && res_eqb' (eval_lit out) (Some (isb, s)).

(* ---------- describability ---------- *)
Definition okind_eqb (a b : okind) : bool :=
  match a, b with
  | KText, KText | KDict, KDict | KOther, KOther => true
  | KRaised c, KRaised d => Nat.eqb c d
  | _, _ => false
  end.
(* str(m); then, for a mismatching value, describe(), get_details(), str(MismatchError) terse and verbose *)
Definition expected_kinds (has_mismatch : bool) : list okind :=
  if has_mismatch then [KText; KText; KDict; KText; KText] else [KText].

(* ---------- assertThat / expectThat / assert_that ---------- *)
Definition is_some {A} (o : option A) : bool := match o with Some _ => true | None => false end.
Definition is_assert (k : akind) : bool := match k with ExpectThat => false | _ => true end.
Definition attaches (k : akind) : bool := match k with AssertThatFn => false | _ => true end.
Definition raises_step (s : step) : bool := is_assert (s_kind s) && is_some (s_mis s).
(* statement k raises iff it is an assertion whose matcher mismatches; nothing runs after a raise *)
Fixpoint exp_raised (steps : list step) : list bool :=
  match steps with
  | [] => []
  | s :: r => if raises_step s then [true] else false :: exp_raised r
  end.
Definition executed (steps : list step) : list step := firstn (length (exp_raised steps)) steps.
Definition mis_details (s : step) : list detail :=
  if attaches (s_kind s) then match s_mis s with Some ds => ds | None => [] end else [].
Definition wanted (pre : list detail) (steps : list step) : list detail :=
  pre ++ flat_map mis_details (executed steps).
Definition any_mismatch (steps : list step) : bool := existsb (fun s => is_some (s_mis s)) (executed steps).

Fixpoint prefix_str (p s : string) : bool :=
  match p, s with
  | EmptyString, _ => true
  | String a p', String b s' => Ascii.eqb a b && prefix_str p' s'
  | _, EmptyString => false
  end.
(* a name the detail may have been given: its own, or its own followed by a dash and a suffix *)
Definition derived (n base : string) : bool := String.eqb n base || prefix_str (base ++ "-") n.
Fixpoint base_of (t : nat) (l : list detail) : option string :=
  match l with
  | [] => None
  | (n, t') :: r => if Nat.eqb t t' then Some n else base_of t r
  end.
Fixpoint nodup_str (l : list string) : bool :=
  match l with [] => true | x :: r => negb (mem_str x r) && nodup_str r end.
Definition count_nat (x : nat) (l : list nat) : nat := length (filter (Nat.eqb x) l).
Definition same_tokens (a b : list nat) : bool :=
  forallb (fun x => Nat.eqb (count_nat x a) (count_nat x b)) (a ++ b).
Definition detail_eqb (a b : detail) : bool := String.eqb (fst a) (fst b) && Nat.eqb (snd a) (snd b).

Definition details_okb (pre : list detail) (steps : list step) (od : list detail) : bool :=
  let w := wanted pre steps in
  same_tokens (map snd od) (map snd w)                                   (* every detail is there, once *)
  && nodup_str (map fst od)                                              (* under names of their own *)
  && forallb (fun d => match base_of (snd d) w with
                       | Some base => derived (fst d) base
                       | None => false
                       end) od                                           (* derived from the requested name *)
  && forallb (fun d => existsb (detail_eqb d) od) pre.                   (* earlier details keep their names *)

Definition outcome_eqb (a b : outcome) : bool :=
  match a, b with
  | Success, Success | Failure, Failure | Error, Error | NoOutcome, NoOutcome => true
  | _, _ => false
  end.

Definition test_okb (pre : list detail) (steps : list step)
           (raised : list bool) (after_ran : bool) (oc : outcome) (od : list detail) : bool :=
  list_eqb Bool.eqb raised (exp_raised steps)
  && after_ran
  && outcome_eqb oc (if any_mismatch steps then Failure else Success)
  && details_okb pre steps od.

Definition spec_okb (i : input) (o : obs) : bool :=
  match i, o with
  | IRepr isb s _ _, ORepr out eb => repr_okb isb s out eb
  | IDesc _ modelled hm, ODesc kinds => negb modelled || list_eqb okind_eqb kinds (expected_kinds hm)
  | ITest pre steps, OTest raised after oc od => test_okb pre steps raised after oc od
  | _, _ => false
  end.

(* ---------- readable form ---------- *)
Definition Derived (n base : string) : Prop := n = base \/ exists rest, n = (base ++ "-" ++ rest)%string.
Definition Spec (i : input) (o : obs) : Prop :=
  match i, o with
  | IRepr isb s _ _, ORepr out eb => eb = true /\ eval_lit out = Some (isb, s)
  | IDesc _ modelled hm, ODesc kinds => modelled = true -> kinds = expected_kinds hm
  | ITest pre steps, OTest raised after oc od =>
      raised = exp_raised steps
      /\ after = true
      /\ oc = (if any_mismatch steps then Failure else Success)
      /\ (forall t, count_nat t (map snd od) = count_nat t (map snd (wanted pre steps)))
      /\ NoDup (map fst od)
      /\ (forall n t, In (n, t) od -> exists base, base_of t (wanted pre steps) = Some base /\ Derived n base)
      /\ (forall d, In d pre -> In d od)
  | _, _ => False
  end.

(* ---------- well-formed inputs ---------- *)
Definition all_details (pre : list detail) (steps : list step) : list detail :=
  pre ++ flat_map (fun s => match s_mis s with Some ds => ds | None => [] end) steps.
Definition wf (i : input) : Prop :=
  match i with
  | IRepr isb s _ _ => Forall (fun c => (c < (if isb then 256 else 1114112))%N) s
  | IDesc _ modelled _ => modelled = true      (* the harness knows how to build the matcher *)
  | ITest pre steps =>
      NoDup (map snd (all_details pre steps)) /\ ~ In 0 (map snd (all_details pre steps))
      /\ NoDup (map fst pre)
  end.

Definition findings (i : input) : list nat := [].
