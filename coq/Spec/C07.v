(* C07 - mismatches are always describable; text_repr output evaluates back;
   assertThat / assert_that / expectThat report faithfully (partial).
   Three kinds of case:
     IRepr  text_repr(s, multiline): the output, character for character, and
            whether ast.literal_eval gave back s; the statement evaluates the
            implementation's output with the model's own literal evaluator;
     IDesc  one matcher exported by testtools.matchers (or a combinator
            expression): kinds of str(m), describe(), get_details(),
            str(MismatchError) for both verbosities, abstracted to
            Text | Dict | Raised cls | Other; and whether assertThat / assert_that /
            expectThat on that matcher and value raised and failed the test;
     ITest  a real TestCase whose setUp, test method, tearDown and cleanups are
            sequences of assertThat / expectThat / assert_that statements on
            matchers that match or mismatch with given details, and of statements
            that raise (skip, failure, expected failure, unexpected success, error),
            after some details were attached already; setUp and tearDown upcall the
            base method at a given position among their statements (the statement
            does not mention the position: it must not matter). *)
From Coq Require Export String.
From TT Require Import Lib.Base Lib.Sort Model.TextRepr Model.Assertions.

Inductive okind := KText | KDict | KRaised (c : nat) | KOther.

Inductive input :=
| IRepr (isb : bool) (s : list N) (ml : option bool) (nonprint : list N)
| IDesc (name : nat) (modelled : bool) (has_mismatch : bool)
| ITest (p : prog).

Inductive obs :=
| ORepr (out : list N) (evals_back : bool)
| ODesc (kinds : list okind)
        (asserts : list bool)    (* on that matcher and value: assertThat raised, assert_that raised, expectThat raised, the test failed *)
| OTest (raised : list (list bool))     (* per user function that ran, in order: did statement k raise *)
        (after_ran : bool)              (* the outcome was reported after all of them had finished *)
        (oc : outcome) (details : list detail)   (* payload details only *)
| OBad.

(* ---------- text_repr ---------- *)
Definition res_eqb' (a b : option (bool * list N)) : bool :=
  match a, b with
  | Some (x, l), Some (y, m) => Bool.eqb x y && list_eqb N.eqb l m
  | None, None => true
  | _, _ => false
  end.
Definition repr_okb (isb : bool) (s : list N) (out : list N) (evals_back : bool) : bool :=
  evals_back && res_eqb' (eval_lit out) (Some (isb, s)).

(* ---------- describability ---------- *)
Definition okind_eqb (a b : okind) : bool :=
  match a, b with
  | KText, KText | KDict, KDict | KOther, KOther => true
  | KRaised c, KRaised d => Nat.eqb c d
  | _, _ => false
  end.
(* str(m); then, for a mismatching value, describe(), get_details(), str(MismatchError) terse and verbose *)
Definition expected_kinds (has_mismatch : bool) : list okind :=
  if has_mismatch then [KText; KText; KDict; KText; KText] else [KText].
(* assertThat and assert_that raise MismatchError exactly when match() returned a mismatch (whatever its truth
   value); expectThat never raises but makes the test fail *)
Definition expected_asserts (has_mismatch : bool) : list bool :=
  [has_mismatch; has_mismatch; false; has_mismatch].

(* ---------- assertThat / expectThat / assert_that ---------- *)
Definition is_some {A} (o : option A) : bool := match o with Some _ => true | None => false end.
Definition is_expect (k : akind) : bool := match k with ExpectThat => true | _ => false end.
Definition is_raise (k : akind) : bool := match k with Raise _ => true | _ => false end.
Definition attaches (k : akind) : bool := match k with AssertThat | ExpectThat => true | _ => false end.
(* assertThat / assert_that raise exactly when match() returns a mismatch; expectThat never raises *)
Definition raises_step (s : step) : bool :=
  match s_kind s with
  | AssertThat | AssertThatFn => is_some (s_mis s)
  | ExpectThat => false
  | Raise _ => true
  end.
(* statement k of a function raises iff ...; nothing of that function runs after a raise *)
Fixpoint exp_raised (steps : list step) : list bool :=
  match steps with
  | [] => []
  | s :: r => if raises_step s then [true] else false :: exp_raised r
  end.
Definition executed (steps : list step) : list step := firstn (length (exp_raised steps)) steps.

(* the user functions that run, in order: when setUp raises, only the cleanups follow; otherwise the test
   method, tearDown and the cleanups (last registered first) all run, whatever the earlier ones raised *)
Definition setup_raises (p : prog) : bool := existsb raises_step (p_setup p).
Definition phases (p : prog) : list (list step) :=
  if setup_raises p then p_setup p :: rev (p_cleanups p)
  else p_setup p :: p_body p :: p_teardown p :: rev (p_cleanups p).
Definition executed_all (p : prog) : list step := flat_map executed (phases p).

Definition mis_details (s : step) : list detail :=
  if attaches (s_kind s) then match s_mis s with Some ds => ds | None => [] end else [].
Definition wanted (p : prog) : list detail := p_pre p ++ flat_map mis_details (executed_all p).

(* some executed expectThat mismatched / some executed statement raised / ... other than a MismatchError *)
Definition expect_failed (p : prog) : bool :=
  existsb (fun s => is_expect (s_kind s) && is_some (s_mis s)) (executed_all p).
Definition any_raise (p : prog) : bool := existsb raises_step (executed_all p).
Definition explicit_raise (p : prog) : bool := existsb (fun s => is_raise (s_kind s)) (executed_all p).

Definition outcome_eqb (a b : outcome) : bool :=
  match a, b with
  | Success, Success | Failure, Failure | Error, Error | Skip, Skip | ExpFailure, ExpFailure
  | UnexpSuccess, UnexpSuccess | NoOutcome, NoOutcome => true
  | _, _ => false
  end.
Definition failing (oc : outcome) : bool := match oc with Failure | Error => true | _ => false end.
(* a mismatching expectThat makes the test fail, whatever else the test does - it skips, reaches an expected
   failure, ... - before or afterwards; a test in which nothing raised and no expectation failed succeeds; a
   test in which only MismatchErrors were raised is a failure; what is reported for other combinations of
   exceptions is not this property's business (C03) *)
Definition outcome_okb (p : prog) (oc : outcome) : bool :=
  if expect_failed p then failing oc
  else if negb (any_raise p) then outcome_eqb oc Success
  else if negb (explicit_raise p) then outcome_eqb oc Failure
  else true.

Fixpoint prefix_str (p s : string) : bool :=
  match p, s with
  | EmptyString, _ => true
  | String a p', String b s' => Ascii.eqb a b && prefix_str p' s'
  | _, EmptyString => false
  end.
(* a name the detail may have been given: its own, or its own followed by a dash and a suffix *)
Definition derived (n base : string) : bool := String.eqb n base || prefix_str (base ++ "-") n.
Fixpoint base_of (t : nat) (l : list detail) : option string :=
  match l with
  | [] => None
  | (n, t') :: r => if Nat.eqb t t' then Some n else base_of t r
  end.
Fixpoint nodup_str (l : list string) : bool :=
  match l with [] => true | x :: r => negb (mem_str x r) && nodup_str r end.
Definition count_nat (x : nat) (l : list nat) : nat := length (filter (Nat.eqb x) l).
Definition same_tokens (a b : list nat) : bool :=
  forallb (fun x => Nat.eqb (count_nat x a) (count_nat x b)) (a ++ b).
Definition detail_eqb (a b : detail) : bool := String.eqb (fst a) (fst b) && Nat.eqb (snd a) (snd b).

Definition details_okb (p : prog) (od : list detail) : bool :=
  let w := wanted p in
  same_tokens (map snd od) (map snd w)                                   (* every detail is there, once *)
  && nodup_str (map fst od)                                              (* under names of their own *)
  && forallb (fun d => match base_of (snd d) w with
                       | Some base => derived (fst d) base
                       | None => false
                       end) od                                           (* derived from the requested name *)
  && forallb (fun d => existsb (detail_eqb d) od) (p_pre p).             (* earlier details keep their names *)

Definition test_okb (p : prog) (raised : list (list bool)) (after_ran : bool) (oc : outcome) (od : list detail) : bool :=
  list_eqb (list_eqb Bool.eqb) raised (map exp_raised (phases p))
  && after_ran
  && outcome_okb p oc
  && details_okb p od.

Definition spec_okb (i : input) (o : obs) : bool :=
  match i, o with
  | IRepr isb s _ _, ORepr out eb => repr_okb isb s out eb
  | IDesc _ modelled hm, ODesc kinds asserts =>
      negb modelled || (list_eqb okind_eqb kinds (expected_kinds hm) && list_eqb Bool.eqb asserts (expected_asserts hm))
  | ITest p, OTest raised after oc od => test_okb p raised after oc od
  | _, _ => false
  end.

(* ---------- readable form ---------- *)
Definition Derived (n base : string) : Prop := n = base \/ exists rest, n = (base ++ "-" ++ rest)%string.
Definition OutcomeOk (p : prog) (oc : outcome) : Prop :=
  (expect_failed p = true -> oc = Failure \/ oc = Error)
  /\ (expect_failed p = false -> any_raise p = false -> oc = Success)
  /\ (expect_failed p = false -> any_raise p = true -> explicit_raise p = false -> oc = Failure).
Definition Spec (i : input) (o : obs) : Prop :=
  match i, o with
  | IRepr isb s _ _, ORepr out eb => eb = true /\ eval_lit out = Some (isb, s)
  | IDesc _ modelled hm, ODesc kinds asserts =>
      modelled = true -> kinds = expected_kinds hm /\ asserts = expected_asserts hm
  | ITest p, OTest raised after oc od =>
      raised = map exp_raised (phases p)
      /\ after = true
      /\ OutcomeOk p oc
      /\ (forall t, count_nat t (map snd od) = count_nat t (map snd (wanted p)))
      /\ NoDup (map fst od)
      /\ (forall n t, In (n, t) od -> exists base, base_of t (wanted p) = Some base /\ Derived n base)
      /\ (forall d, In d (p_pre p) -> In d od)
  | _, _ => False
  end.

(* ---------- well-formed inputs ---------- *)
Definition all_steps (p : prog) : list step :=
  p_setup p ++ p_body p ++ p_teardown p ++ concat (rev (p_cleanups p)).
Definition all_details (p : prog) : list detail :=
  p_pre p ++ flat_map (fun s => match s_mis s with Some ds => ds | None => [] end) (all_steps p).
Definition wf (i : input) : Prop :=
  match i with
  | IRepr isb s _ _ => Forall (fun c => (c < (if isb then 256 else 1114112))%N) s
  | IDesc _ modelled _ => modelled = true      (* the harness knows how to build the matcher *)
  | ITest p =>
      NoDup (map snd (all_details p)) /\ ~ In 0 (map snd (all_details p))
      /\ NoDup (map fst (p_pre p))
  end.

Definition findings (i : input) : list nat := [].
