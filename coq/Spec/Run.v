(* Shared by the statements of C01, C02, C03, C05: what a test program *means*, read off
   its syntax declaratively - which bodies run and in which order (DESIGN Appendix A.1),
   what each of them raises, whether the failure is forced.  Nothing here refers to the
   machine of Model/Run.v (its state, its cleanup stack, its fuel); only the syntax of
   programs and the handler table are shared. *)
From TT Require Import Lib.Base Gen.Handlers Model.Run.

(* ---------- what one statement raises ---------- *)
(* the errors a fixture's own cleanups raise, in the order they run (latest first) *)
Definition fx_errs (cs : list (nat * option exc)) : list exc :=
  flat_map (fun c => match snd c with Some e => [e] | None => [] end) (rev cs).

Definition fixture_raise (fx : fixture) : option exc :=
  match fx_fail fx with
  | None => None
  | Some e => match fx_eval_raise fx with
              | Some g => Some g      (* a detail that cannot be evaluated when it is gathered *)
              | None => if fx_old fx then Some e
                        else Some (Multi (e :: fx_errs (fx_cleanups fx) ++ [Exc CSetupError None]))
              end
  end.

Definition act_raise (a : act) : option exc :=
  match a with
  | AAssert _ => Some (Exc CMismatch None)
  | AFixture fx => fixture_raise fx
  | AExpectFailure r None => Some (Exc CUx (Some r))
  | AExpectFailure _ (Some e) => if isinstance e CFail then Some (Exc CXFail None) else Some e
  | ARaise e => Some e
  | _ => None
  end.

(* a body stops at its first raising statement *)
Fixpoint acts_raise (l : list act) : option exc :=
  match l with
  | [] => None
  | a :: r => match act_raise a with Some e => Some e | None => acts_raise r end
  end.

(* the statements of a body that are executed *)
Fixpoint executed (l : list act) : list act :=
  match l with
  | [] => []
  | a :: r => a :: match act_raise a with Some _ => [] | None => executed r end
  end.

(* ---------- the cleanup phase ---------- *)
Inductive entry :=
| EUser (tok : nat) (body : list act)       (* a function given to addCleanup *)
| ERestore (attr : nat)                     (* the undo of a patch() *)
| EGather (fx : fixture)                    (* the gathering of a fixture's details *)
| EFx (fx : fixture).                       (* the fixture's cleanUp *)

(* The cleanups that run because statement [a] was executed: the ones it registers,
   latest first, each followed at once by the cleanups its own run registers. *)
Fixpoint act_entries (a : act) : list entry :=
  match a with
  | ACleanup t body =>
      EUser t body ::
      (fix go (l : list act) : list entry :=
         match l with
         | [] => []
         | x :: r => match act_raise x with
                     | Some _ => []
                     | None => go r ++ act_entries x
                     end
         end) body
  | APatch a _ => [ERestore a]
  | AFixture fx => match fixture_raise fx with Some _ => [] | None => [EGather fx; EFx fx] end
  | _ => []
  end.
(* ... because the statements of body [l] were executed *)
Fixpoint pending (l : list act) : list entry :=
  match l with
  | [] => []
  | x :: r => match act_raise x with
              | Some _ => []
              | None => pending r ++ act_entries x
              end
  end.

(* ---------- stages ---------- *)
Definition setup_raise (p : prog) : option exc :=
  match acts_raise (snd (p_setup p)) with
  | Some e => Some e
  | None => if p_up_setup p then None else Some (Exc CValueError None)
  end.
Definition teardown_raise (p : prog) : option exc :=
  match acts_raise (snd (p_teardown p)) with
  | Some e => Some e
  | None => if p_up_teardown p then None else Some (Exc CValueError None)
  end.
(* a method decorated with @unittest.expectedFailure turns what derives from Exception into
   an expected failure, and returning into an unexpected success *)
Definition body_raise (p : prog) : option exc :=
  let r := acts_raise (snd (p_body p)) in
  if p_xfail p then
    match r with
    | None => Some (Exc CUx None)
    | Some e => if isinstance e CException then Some (Exc CXFail None) else Some e
    end
  else r.

Definition setup_returns (p : prog) : bool := match setup_raise p with None => true | Some _ => false end.
Definition skipped (p : prog) : bool := match p_skip p with Some _ => true | None => false end.

(* every cleanup entry that runs, in the order it runs *)
Definition cleanup_entries (p : prog) : list entry :=
  if setup_returns p
  then pending (snd (p_teardown p)) ++ pending (snd (p_body p)) ++ pending (snd (p_setup p))
  else pending (snd (p_setup p)).

(* ---------- exceptions caught during a run, in order, MultipleExceptions unpacked ---------- *)
Definition caught (r : option exc) : list exc := match r with Some e => flatten e | None => [] end.
Definition fx_cleanup_raise (cs : list (nat * option exc)) : option exc :=
  match fx_errs cs with [] => None | [e] => Some e | l => Some (Multi l) end.
Definition entry_raise (e : entry) : option exc :=
  match e with
  | EUser _ body => acts_raise body
  | EFx fx => fx_cleanup_raise (fx_cleanups fx)
  | EGather fx => fx_eval_raise fx
  | _ => None
  end.

Definition sets_force (a : act) : bool := match a with AExpect _ | AForce => true | _ => false end.
Definition entry_forces (e : entry) : bool :=
  match e with EUser _ body => existsb sets_force (executed body) | _ => false end.
(* some executed expectThat mismatched / some executed statement set force_failure *)
Definition forced (p : prog) : bool :=
  existsb sets_force (executed (snd (p_setup p)))
  || (setup_returns p && (existsb sets_force (executed (snd (p_body p)))
                          || existsb sets_force (executed (snd (p_teardown p)))))
  || existsb entry_forces (cleanup_entries p).

(* everything user code raised during the run *)
Definition raised_by_user (p : prog) : list exc :=
  if skipped p then [] else
  caught (setup_raise p)
  ++ (if setup_returns p then caught (body_raise p) ++ caught (teardown_raise p) else [])
  ++ flat_map (fun e => caught (entry_raise e)) (cleanup_entries p).
(* ... followed by the forced failure RunTest raises last, whether or not setUp returned *)
Definition forced_failure (p : prog) : list exc :=
  if negb (skipped p) && forced p then [Exc CFail None] else [].
Definition raised (p : prog) : list exc := raised_by_user p ++ forced_failure p.

(* ---------- the execution log, values of the patched attributes left open ---------- *)
Inductive lsh := STok (t : nat) | STouch (attr : nat).
Definition shape (e : lev) : lsh := match e with LTok t => STok t | LSet a _ | LDel a => STouch a end.
Definition lsh_eqb (a b : lsh) : bool :=
  match a, b with
  | STok x, STok y | STouch x, STouch y => Nat.eqb x y
  | _, _ => false
  end.

Definition fx_cleanup_log (cs : list (nat * option exc)) : list lsh := map (fun c => STok (fst c)) (rev cs).
Definition act_log (a : act) : list lsh :=
  match a with
  | APatch a _ => [STouch a]
  | AFixture fx => STok (fx_tok fx) ::
                   match fx_fail fx with
                   | Some _ => if fx_old fx then []
                               else match fx_eval_raise fx with
                                    | Some _ => []      (* Fixture.setUp does not get to its cleanUp *)
                                    | None => fx_cleanup_log (fx_cleanups fx)
                                    end
                   | None => []
                   end
  | _ => []
  end.
Definition acts_log (l : list act) : list lsh := flat_map act_log (executed l).
Definition entry_log (e : entry) : list lsh :=
  match e with
  | EUser t body => STok t :: acts_log body
  | ERestore a => [STouch a]
  | EGather _ => []
  | EFx fx => fx_cleanup_log (fx_cleanups fx)
  end.
Definition stage_log (m : nat * list act) : list lsh := STok (fst m) :: acts_log (snd m).

Definition expected_log (p : prog) : list lsh :=
  if skipped p then [] else
  stage_log (p_setup p)
  ++ (if setup_returns p then stage_log (p_body p) ++ stage_log (p_teardown p) else [])
  ++ flat_map entry_log (cleanup_entries p).

(* ---------- which outcome an exception stands for ---------- *)
(* Stated without the handler table of the implementation: the first handler the user inserted
   whose class the exception is an instance of decides; otherwise SkipTest and its subclasses
   stand for a skip, AssertionError ... for a failure, the expected-failure and
   unexpected-success signals for themselves, and everything else for an error. *)
Definition standard_outcome (c : cls) : outcome :=
  if subclass c CSkip then OSkip
  else if subclass c CFail then OFail
  else if subclass c CXFail then OXFail
  else if subclass c CUx then OUx
  else OErr.
(* the handlers the test inserts while it runs, in the order the insertions are executed *)
Definition act_inserts (a : act) : list (cls * outcome) :=
  match a with AInsertHandler c o => [(c, o)] | _ => [] end.
Definition acts_inserts (l : list act) : list (cls * outcome) := flat_map act_inserts (executed l).
Definition entry_inserts (e : entry) : list (cls * outcome) :=
  match e with EUser _ body => acts_inserts body | _ => [] end.
Definition inserted (p : prog) : list (cls * outcome) :=
  if skipped p then [] else
  acts_inserts (snd (p_setup p))
  ++ (if setup_returns p then acts_inserts (snd (p_body p)) ++ acts_inserts (snd (p_teardown p)) else [])
  ++ flat_map entry_inserts (cleanup_entries p).
(* the front of exception_handlers when the outcome is chosen: each insertion goes to position 0,
   so the latest comes first; then the ones present before run() *)
Definition user_handlers (p : prog) : list (cls * outcome) := rev (inserted p) ++ p_handlers p.
Definition user_claim (p : prog) (e : exc) : option (cls * outcome) :=
  find (fun co => isinstance e (fst co)) (user_handlers p).
Definition outcome_of (p : prog) (e : exc) : outcome :=
  match user_claim p e with
  | Some co => snd co
  | None => standard_outcome (cls_of e)
  end.
(* some handler is responsible for it: an inserted one, or it derives from Exception *)
Definition claimed (p : prog) (e : exc) : bool :=
  match user_claim p e with Some _ => true | None => isinstance e CException end.

(* ---------- well-formed programs (the finite-program and driver conventions) ---------- *)
Fixpoint wf_exc (e : exc) : bool :=
  match e with
  | Exc c _ => negb (cls_eqb c CMulti)      (* an instance of exactly MultipleExceptions is a [Multi] *)
  | Multi l => (fix go (l : list exc) : bool := match l with [] => true | x :: r => wf_exc x && go r end) l
  end.
Definition wf_oexc (o : option exc) : bool := match o with Some e => wf_exc e | None => true end.
Definition plain (e : exc) : bool := match e with Exc c _ => negb (cls_eqb c CMulti) | Multi _ => false end.
(* fixtures: set-up and cleanups raise single exceptions; the new-style set-up and the cleanups raise
   Exception-derived ones (CallMany and Fixture.setUp treat the others differently; not modelled) *)
Definition wf_fixture (fx : fixture) : bool :=
  match fx_fail fx with
  | Some e => plain e && (fx_old fx || isinstance e CException)
  | None => true
  end
  && forallb (fun c => match snd c with Some e => plain e && isinstance e CException | None => true end)
             (fx_cleanups fx)
  && match fx_bad fx with Some (_, g) => plain g | None => true end.
Fixpoint wf_act (a : act) : bool :=
  match a with
  | ACleanup _ body => (fix go (l : list act) : bool := match l with [] => true | x :: r => wf_act x && go r end) body
  | AFixture fx => wf_fixture fx
  | AExpectFailure _ p => wf_oexc p
  | ARaise e => wf_exc e
  | _ => true
  end.
Definition wf_acts (l : list act) : bool := forallb wf_act l.
Definition wf_prog (p : prog) : bool :=
  wf_acts (snd (p_setup p)) && wf_acts (snd (p_body p)) && wf_acts (snd (p_teardown p)).

(* ------------------------------------------------------------------ *)
(* what happens to details and addOnException handlers, in order (C05)  *)
(* ------------------------------------------------------------------ *)
Inductive devent :=
| DUser (n : dname) (loc : nat)      (* addDetail(n, content reading cell loc) by the test *)
| DSetCell (loc v : nat)             (* the cell changes *)
| DMis (n : dname) (loc : nat)       (* a detail of a mismatch is attached *)
| DStack                             (* expectThat attaches its "Failed expectation" *)
| DFx (n : dname) (loc : nat)        (* a detail of a fixture is gathered: its bytes are taken now *)
| DTb                                (* the traceback of the assertion behind an expected failure *)
| DReason (r : option nat)           (* the reason of an expectFailure *)
| DOnExc (h : nat)                   (* addOnException(h) *)
| DExc (c : cls).                    (* an exception of class c raised by user code is caught *)

(* a fixture's details as its getDetails() returns them, a mismatch's as its get_details() does
   (Model.nl_dict: a later assignment to the same name replaces the earlier) *)
Definition fx_events (fx : fixture) : list devent := map (fun nl => DFx (fst nl) (snd nl)) (fx_good fx).
Definition mm_events (mm : list (dname * nat)) : list devent := map (fun nl => DMis (fst nl) (snd nl)) (nl_dict mm).

Definition act_events (a : act) : list devent :=
  match a with
  | ADetail n loc => [DUser n loc]
  | ASetCell loc v => [DSetCell loc v]
  | AExpect mm => mm_events mm ++ [DStack]
  | AAssert mm => mm_events mm
  | AFixture fx =>       (* gathered at once when set-up fails; if that raises, the traceback of the set-up error *)
      match fx_fail fx with
      | Some _ => fx_events fx ++ match fx_eval_raise fx with Some _ => [DTb] | None => [] end
      | None => []
      end
  | AOnExc h => [DOnExc h]
  | AExpectFailure r (Some e) => DReason (Some r) :: if isinstance e CFail then [DTb] else []
  | AExpectFailure r None => [DReason (Some r)]
  | _ => []
  end.
(* each constituent exception, in order *)
Definition exc_events (r : option exc) : list devent := map (fun x => DExc (cls_of x)) (caught r).
Definition acts_events (l : list act) : list devent := flat_map act_events (executed l).
Definition entry_events (e : entry) : list devent :=
  match e with
  | EUser _ body => acts_events body ++ exc_events (acts_raise body)
  | ERestore _ => []
  | EGather fx => fx_events fx ++ exc_events (fx_eval_raise fx)
  | EFx fx => exc_events (fx_cleanup_raise (fx_cleanups fx))
  end.
(* the test method, through the @unittest.expectedFailure wrapper if decorated *)
Definition body_events (p : prog) : list devent :=
  acts_events (snd (p_body p))
  ++ (if p_xfail p then match acts_raise (snd (p_body p)) with
                        | Some e => if isinstance e CException then [DTb] else []
                        | None => []
                        end else [])
  ++ exc_events (body_raise p).

Definition events (p : prog) : list devent :=
  if skipped p then [] else
  acts_events (snd (p_setup p)) ++ exc_events (setup_raise p)
  ++ (if setup_returns p
      then body_events p ++ acts_events (snd (p_teardown p)) ++ exc_events (teardown_raise p)
      else [])
  ++ flat_map entry_events (cleanup_entries p)
  ++ exc_events (match forced_failure p with e :: _ => Some e | [] => None end).

(* the exception the outcome is reported for: the first one nobody is responsible for, else the last *)
Definition reported (p : prog) : option exc :=
  match raised p with
  | [] => None
  | l => match find (fun e => negb (claimed p e)) l with
         | Some e => Some e
         | None => Some (last l (Exc CFail None))
         end
  end.
