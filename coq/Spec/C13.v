(* C13 - concurrent suites run every test once, deliver every event, terminate.
   The statement as an executable predicate over (input, observation) and as a readable Prop.
   It talks about the trace of operations on the shared objects and about what was recorded when
   run() ended; nothing here refers to the configurations or steps of Model/Concur.v. *)
From TT Require Import Lib.Base Model.Tfr Model.Concur Spec.C12.

Inductive input := IClassic (i : cinput) | IStream (i : sinput).

Record obs := {
  o_trace : list (tid * cev);  (* every operation on a shared object, in order, with the thread (0 = caller of run()) *)
  o_raised : bool;             (* run() ended by raising *)
  o_live : list bool;          (* per started worker: still alive when run() ended *)
  o_stops : list nat;          (* the workers whose process result had been told to stop when run() ended *)
  o_deadlock : bool;
  o_sem_free : bool }.

(* ---------- decidable equality on trace events ---------- *)
Definition tstamp_eqb (a b : tstamp) : bool :=
  match a, b with
  | TNo, TNo | TNow, TNow => true
  | TOwn n, TOwn m => n =? m
  | _, _ => false
  end.
Definition rcode_eqb : rcode -> rcode -> bool := pair_eqb (option_eqb Nat.eqb) (option_eqb Nat.eqb).
Definition has_ts (t : tstamp) : bool := match t with TNo => false | _ => true end.
Definition qitem_eqb (a b : qitem) : bool :=
  match a, b with
  | QToken x, QToken y | QStart x, QStart y | QStop x, QStop y => x =? y
  | QStatus w i s o t, QStatus w' i' s' o' t' =>
      (w =? w') && (i =? i') && (s =? s') && rcode_eqb o o' && tstamp_eqb t t'
  | _, _ => false
  end.
Definition cev_eqb (a b : cev) : bool :=
  match a, b with
  | CG e, CG f => gev_eqb e f
  | CSpawn x, CSpawn y | CJoin x, CJoin y => x =? y
  | CPut q, CPut r | CGet q, CGet r => qitem_eqb q r
  | CGetIntr, CGetIntr => true
  | CStatus w i s o t r, CStatus w' i' s' o' t' r' =>
      (w =? w') && (i =? i') && (s =? s') && rcode_eqb o o' && tstamp_eqb t t' && Bool.eqb r r'
  | _, _ => false
  end.

(* ---------- reading the trace ---------- *)
Definition spawns (tr : list (tid * cev)) : list nat :=
  flat_map (fun e => match snd e with CSpawn w => [w] | _ => [] end) tr.
Definition joins (tr : list (tid * cev)) : list nat :=
  flat_map (fun e => match snd e with CJoin w => [w] | _ => [] end) tr.
Definition has_intr (tr : list (tid * cev)) : bool :=
  existsb (fun e => match snd e with CGetIntr => true | _ => false end) tr.
(* what main passed to the caller's stream result for worker w: (id, status, own route, timestamp, raised) *)
Definition delivered (w : nat) (tr : list (tid * cev)) : list (nat * nat * rcode * tstamp * bool) :=
  flat_map (fun e => match snd e with
                     | CStatus w' i s o t r => if w' =? w then [(i, s, o, t, r)] else []
                     | _ => []
                     end) tr.
Definition status_raised (tr : list (tid * cev)) : bool :=
  existsb (fun e => match snd e with CStatus _ _ _ _ _ true => true | _ => false end) tr.
(* the Tfr part of the trace: semaphore and caller's-result events *)
Definition cg_log (tr : list (tid * cev)) : list (tid * gev) :=
  flat_map (fun e => match snd e with CG g => [(fst e, g)] | _ => [] end) tr.
(* main's own stop() calls on the caller's result: raised? *)
Definition main_stops (tr : list (tid * cev)) : list bool :=
  flat_map (fun e => match e with (0, CG (ECall (TGuard GStop) b)) => [b] | _ => [] end) tr.

(* every operation the statement speaks about is made by the thread it belongs to: spawn / join / status by the
   caller of run(), calls on the caller's result (Tfr events) by anybody started.  Queue operations are internal:
   whether the suite uses a completion / event queue at all, and who puts or gets what, is not constrained. *)
Definition own_thread (n : nat) (e : tid * cev) : bool :=
  match e with
  | (t, CSpawn w) | (t, CJoin w) | (t, CStatus w _ _ _ _ _) => (t =? 0) && (w <? n)
  | (t, CGetIntr) => t =? 0
  | (t, CGet _) | (t, CPut _) => true
  | (t, CG _) => t <=? n
  end.

Definition started (n : nat) (mt : option nat) : nat := match mt with Some k => Nat.min k n | None => n end.
Definition mt_raises (n : nat) (mt : option nat) : bool := match mt with Some k => k <=? n | None => false end.

Fixpoint is_prefix {A} (eqb : A -> A -> bool) (a b : list A) : bool :=
  match a, b with
  | [], _ => true
  | x :: a', y :: b' => eqb x y && is_prefix eqb a' b'
  | _ :: _, [] => false
  end.

(* first k elements up to and including the first true *)
Fixpoint upto_first_true (l : list bool) : nat :=
  match l with [] => 0 | true :: _ => 1 | false :: r => S (upto_first_true r) end.

(* ---------- what is common to both suites ---------- *)
Definition common_okb (n : nat) (mt : option nat) (o : obs) : bool :=
  let k := started n mt in
  let unreaped := filter (fun w => negb (memb w (joins (o_trace o)))) (seq 0 k) in
  negb (o_deadlock o)                                                   (* terminates *)
  && forallb (own_thread k) (o_trace o)
  && list_eqb Nat.eqb (spawns (o_trace o)) (seq 0 k)                    (* each yielded sub-suite started once, in its own thread *)
  && (length (o_live o) =? k)
  && (o_raised o || forallb negb (o_live o))                            (* returns only after all have finished *)
  && Bool.eqb (o_raised o)                                              (* the exception propagates, and only then *)
       (mt_raises n mt || has_intr (o_trace o) || status_raised (o_trace o))
  && (if o_raised o                                                     (* aborted: *)
      then forallb (fun w => w <? k) (o_stops o)                        (* only started workers are told to stop, *)
           && (existsb (fun b => b) (main_stops (o_trace o))            (* and - unless a stop() of the caller's result itself
                                                                           raised inside the abort handler: then nothing more
                                                                           is demanded than that the exception propagates - *)
               || forallb_idx (fun w alive => negb alive || memb w (o_stops o)) 0 (o_live o))
                                                                        (* every worker still running (alive when run() ended)
                                                                           is among them; in which order, and whether workers
                                                                           that have finished are told too, is left open *)
      else match o_stops o with [] => true | _ => false end).

(* ---------- stream: delivery ---------- *)
(* an event: test id, status, route code (the sub-suite's, the event's own), timestamp *)
Fixpoint ev_of (l : list qitem) : list (nat * nat * rcode * tstamp) :=
  match l with
  | [] => []
  | QStatus _ i s o t :: r => (i, s, o, t) :: ev_of r
  | _ :: r => ev_of r
  end.
Definition ev3_eqb (a b : nat * nat * rcode * tstamp) : bool :=
  (fst (fst (fst a)) =? fst (fst (fst b))) && (snd (fst (fst a)) =? snd (fst (fst b)))
  && rcode_eqb (snd (fst a)) (snd (fst b)) && tstamp_eqb (snd a) (snd b).

(* what the statement expects to arrive from a sub-suite with route code rt: every event it emits, in its
   order, under rt, with its own timestamp or an assigned one; then - if its run() raises an Exception - the
   broken-runner test *)
Fixpoint sent_events (rt : option nat) (base : bool) (s : list sitem) : list (nat * nat * rcode * tstamp) :=
  match s with
  | [] => []
  | SEv id st own a :: r => (id, st, (rt, own), stamp a) :: sent_events rt base r
  | SRaise :: _ => if base then [] else [(br_id, st_inprogress, (rt, None), TNow); (br_id, st_fail, (rt, None), TNow)]
  end.

Definition stream_worker_okb (routes : list (option nat)) (base raised : bool) (tr : list (tid * cev)) (w : nat) (s : list sitem) : bool :=
  let d := delivered w tr in
  let exp := sent_events (nth w routes None) base s in
  forallb (fun x => has_ts (snd (fst x))) d                              (* every event carries a timestamp *)
  && is_prefix ev3_eqb (map (fun x => fst x) d) exp   (* exactly once, in that worker's order, its route, its own timestamp if it has one *)
  && (raised || (length d =? length exp)).                               (* all of them unless run() was aborted *)

(* ---------- classic: one test at a time, and the worker's own log ---------- *)
Fixpoint before_raise (s : list rcall) : list rcall * bool :=
  match s with
  | [] => ([], false)
  | RRaise :: _ => ([], true)
  | c :: r => let '(p, b) := before_raise r in (c :: p, b)
  end.

(* the block of the broken-runner test *)
Definition br_body_okb (body : list gev) : bool :=
  match body with
  | ECall (TTime _) false :: ECall (TStartTest n) false :: ECall (TTime _) false :: rest =>
      (n =? br_id)
      && match rest with
         | [ECall (TOutcome KError a) false; ECall (TStopTest b) false]
         | [ECall (TTags _) false; ECall (TOutcome KError a) false; ECall (TStopTest b) false]
         | [ECall (TTags _) false; ECall (TTags _) false; ECall (TOutcome KError a) false; ECall (TStopTest b) false] =>
             (a =? br_id) && (b =? br_id)
         | _ => false
         end
  | _ => false
  end.

Definition classic_worker_okb (base : bool) (lg : list (tid * gev)) (w : nat) (sf : list rcall * list nat) : bool :=
  let '(pre, raises) := before_raise (fst sf) in
  match snd sf with
  | _ :: _ => true                       (* workers hit by faults of the caller's result: clause "one test at a time" only *)
  | [] =>
      if wf_script Out pre
      then let mine := proj (S w) lg in
           let exp := expected [] pre sst0 0 in
           if raises && negb base
           then is_prefix gev_eqb exp mine
                && match skipn (length exp) mine with
                   | EAcq :: rest => match rev rest with
                                     | ERel :: rbody => br_body_okb (rev rbody)   (* one errored broken-runner test *)
                                     | _ => false
                                     end
                   | _ => false
                   end
           else list_eqb gev_eqb mine exp
      else true
  end.

(* ---------- the statement ---------- *)
Definition spec_okb (i : input) (o : obs) : bool :=
  match i with
  | IClassic ci =>
      let n := length (ci_suites ci) in
      let k := started n (ci_mt_raise ci) in
      common_okb n (ci_mt_raise ci) o
      && o_sem_free o
      && sectb (S k) None (cg_log (o_trace o))
      && forallb_idx (classic_worker_okb (ci_base ci) (cg_log (o_trace o))) 0 (firstn k (ci_suites ci))
  | IStream si =>
      let n := length (si_suites si) in
      let k := started n (si_mt_raise si) in
      common_okb n (si_mt_raise si) o
      && forallb_idx (stream_worker_okb (si_routes si) (si_base si) (o_raised o) (o_trace o)) 0 (firstn k (si_suites si))
  end.

(* ---------- the readable statement ---------- *)
(* (used by the model-level theorem C13_abort only) how many process results the CURRENT except clause reaches:
   all of the unreaped ones, unless a stop() of the caller's result itself raised - then those up to that one *)
Definition stops_expected (fl : list bool) (len : nat) : nat :=
  match fl with
  | [] => len
  | fl => if existsb (fun b => b) fl then upto_first_true fl else len
  end.

Definition Common (n : nat) (mt : option nat) (o : obs) : Prop :=
  let k := started n mt in
  let unreaped := filter (fun w => negb (memb w (joins (o_trace o)))) (seq 0 k) in
  o_deadlock o = false                                                    (* run() ends *)
  /\ (forall e, In e (o_trace o) -> own_thread k e = true)
  /\ spawns (o_trace o) = seq 0 k                                          (* every yielded sub-suite started once, in its own thread *)
  /\ length (o_live o) = k
  /\ (o_raised o = false -> forall b, In b (o_live o) -> b = false)        (* returns only after all have finished *)
  /\ (o_raised o = true <->                                                (* the exception propagates, and only then *)
      (mt_raises n mt = true \/ has_intr (o_trace o) = true \/ status_raised (o_trace o) = true))
  /\ (o_raised o = false -> o_stops o = [])
  /\ (o_raised o = true ->                                                 (* aborted: only started workers are told to stop *)
      forall w, In w (o_stops o) -> w < k)
  /\ (o_raised o = true ->                                                 (* ... and every worker still running is - in any
                                                                              order, finished ones possibly too - unless a
                                                                              stop() of the caller's result itself raised *)
      (forall b, In b (main_stops (o_trace o)) -> b = false) ->
      forall w, nth_error (o_live o) w = Some true -> In w (o_stops o)).

(* stream: what main passed on from worker w (w = the w-th sub-suite's StreamToQueue; several sub-suites
   may have been given the SAME route code, so a route code does not identify a worker) is, event for
   event, what w emitted (its own route code under the route code of w's sub-suite), each with a timestamp - the worker's own where it supplied one, otherwise (keyword left out
   or timestamp=None passed explicitly) one assigned on the way (TNow; its value is not compared); all of
   it when run() returned normally *)
Definition StreamWorker (routes : list (option nat)) (base raised : bool) (tr : list (tid * cev)) (w : nat) (s : list sitem) : Prop :=
  let d := delivered w tr in
  let exp := sent_events (nth w routes None) base s in
  (forall x, In x d -> has_ts (snd (fst x)) = true)
  /\ (exists rest, map (fun x => fst x) d ++ rest = exp)
  /\ (raised = false -> map (fun x => fst x) d = exp).

(* the block of the errored broken-runner test *)
Definition BrokenRunnerBlock (body : list gev) : Prop :=
  exists t0 t1 tags, length tags <= 2 /\
    body = [ECall (TTime t0) false; ECall (TStartTest br_id) false; ECall (TTime t1) false]
           ++ map (fun g => ECall (TTags g) false) tags
           ++ [ECall (TOutcome KError br_id) false; ECall (TStopTest br_id) false].

(* classic: the part of the caller's-result log made by worker w (not hit by faults of the caller's result,
   reporting well-formed tests up to the point where its run() raises, if it does) is exactly the expected
   log of its tests in its order (Spec.C12.expected), followed - when run() raised an Exception - by one
   errored broken-runner test *)
Definition ClassicWorker (base : bool) (lg : list (tid * gev)) (w : nat) (sf : list rcall * list nat) : Prop :=
  let pre := fst (before_raise (fst sf)) in
  let raises := snd (before_raise (fst sf)) in
  snd sf = [] -> wf_script Out pre = true ->
  if raises && negb base
  then exists body, proj (S w) lg = expected [] pre sst0 0 ++ section body /\ BrokenRunnerBlock body
  else proj (S w) lg = expected [] pre sst0 0.

Definition Spec (i : input) (o : obs) : Prop :=
  match i with
  | IClassic ci =>
      let n := length (ci_suites ci) in
      let k := started n (ci_mt_raise ci) in
      Common n (ci_mt_raise ci) o
      /\ o_sem_free o = true
      /\ Sectioned (S k) (cg_log (o_trace o))                              (* one test at a time *)
      /\ (forall w sf, w < k -> nth_error (ci_suites ci) w = Some sf ->
            ClassicWorker (ci_base ci) (cg_log (o_trace o)) w sf)
  | IStream si =>
      let n := length (si_suites si) in
      let k := started n (si_mt_raise si) in
      Common n (si_mt_raise si) o
      /\ (forall w s, w < k -> nth_error (si_suites si) w = Some s ->
            StreamWorker (si_routes si) (si_base si) (o_raised o) (o_trace o) w s)
  end.

Definition findings (i : input) : list nat := [].
