(* C18 - routing picks exactly one destination; route prefixes push and pop inversely.
   The statement as an executable predicate over (input, observation of the
   implementation) and as a readable Prop.  It speaks about the HISTORY of calls
   (which add_rule calls came before, whether the last startTestRun/stopTestRun
   was a start), not about the router's dictionaries. *)
From TT Require Import Lib.Base Model.Router.

(* a router built with StreamResultRouter(fallback, do_start_stop_run) over sinks
   numbered 0 .. n_sinks-1, and the calls made on it (accepted and rejected
   add_rule calls, startTestRun, stopTestRun, status) *)
Record input := { n_sinks : nat; fb : option sink; fb_ss : bool; ops : list op }.

(* what one call did: did it raise, and for every sink (by number) the calls it newly received *)
Record step_obs := { s_raised : bool; s_new : list (list call) }.
Record obs := {
  o_steps : list step_obs;
  o_round : list route      (* per Status call: the route code that arrives after the StreamToQueue
                               chain has been popped again by a chain of consuming routers *)
}.

(* ---------- equality tests ---------- *)
Definition onat_eqb : option nat -> option nat -> bool := option_eqb Nat.eqb.
Definition lnat_eqb : list nat -> list nat -> bool := list_eqb Nat.eqb.
Definition route_eqb : route -> route -> bool := option_eqb lnat_eqb.

Definition event_eqb (a b : event) : bool :=
  onat_eqb (e_id a) (e_id b) && onat_eqb (e_status a) (e_status b)
  && option_eqb lnat_eqb (e_tags a) (e_tags b) && Bool.eqb (e_runnable a) (e_runnable b)
  && onat_eqb (e_file a) (e_file b) && option_eqb lnat_eqb (e_bytes a) (e_bytes b)
  && Bool.eqb (e_eof a) (e_eof b) && onat_eqb (e_mime a) (e_mime b)
  && route_eqb (e_route a) (e_route b) && onat_eqb (e_ts a) (e_ts b).

Definition call_eqb (a b : call) : bool :=
  match a, b with
  | StartRun, StartRun | StopRun, StopRun => true
  | St x, St y => event_eqb x y
  | _, _ => false
  end.

(* ---------- what the history says ---------- *)
(* sinks that asked for startTestRun/stopTestRun, one entry per registration *)
Definition registration (o : op) : list sink :=
  match o with
  | AddPrefix s _ _ true | AddId s _ true => [s]
  | _ => []
  end.
Definition registered (i : input) (past : list op) : list sink :=
  (match fb i with Some s => if fb_ss i then [s] else [] | None => [] end) ++ flat_map registration past.

(* is a run in progress: the last startTestRun/stopTestRun so far was a start *)
Definition in_run (past : list op) : bool :=
  fold_left (fun b o => match o with Start => true | Stop => false | _ => b end) past false.

(* the rules added so far for a route prefix / a test id *)
Definition prefix_rules (past : list op) (p : seg) : list (sink * bool) :=
  flat_map (fun o => match o with
                     | AddPrefix s q c _ => if Nat.eqb q p then [(s, c)] else []
                     | _ => [] end) past.
Definition id_rules (past : list op) (t : option nat) : list sink :=
  flat_map (fun o => match o with
                     | AddId s u _ => if id_eqb u t then [s] else []
                     | _ => [] end) past.

Definition count (s : sink) (l : list sink) : nat := count_occ Nat.eq_dec l s.

(* the rule in force for a key: the one of the LATEST add_rule for it - adding a rule for a route prefix /
   test id that already has one re-maps the key (the earlier rule is gone; its sink stays registered for
   startTestRun/stopTestRun if it was: `registered` above never forgets) *)
Definition current {A} (l : list A) : option A := hd_error (rev l).

(* ---------- the statement, executable ---------- *)
(* every sink k < n newly received exactly the calls f k *)
Definition new_is (n : nat) (f : sink -> list call) (new : list (list call)) : bool :=
  Nat.eqb (length new) n
  && forallb (fun kc => list_eqb call_eqb (snd kc) (f (fst kc))) (combine (seq 0 n) new).

Definition only (s : sink) (c : call) : sink -> list call := fun k => if Nat.eqb k s then [c] else [].
Definition nobody : sink -> list call := fun _ => [].

Definition route_wf (r : route) : bool := match r with Some [] => false | _ => true end.

(* d is e with at most the route code changed *)
Definition same_but_route (d e : event) : bool := event_eqb (set_route d (e_route e)) e.

(* how the event d handed to the target relates to the event e the router was called with *)
Definition rel_okb (consume : bool) (p : seg) (e d : event) : bool :=
  same_but_route d e
  && (if consume
      then route_wf (e_route d) && route_eqb (route_code p (e_route d)) (e_route e)   (* exactly the leading segment p is gone *)
      else route_eqb (e_route d) (e_route e)).

(* sink s received exactly one status call, related to e as above; nobody else received anything *)
Definition handed (n : nat) (new : list (list call)) (e : event) (p : seg) (sc : sink * bool) : bool :=
  match nth (fst sc) new [] with
  | [St d] => rel_okb (snd sc) p e d && new_is n (only (fst sc) (St d)) new
  | _ => false
  end.

(* no rule for the route code: the rule for the test id, otherwise the fallback, otherwise an error *)
Definition by_id_or_fallback (i : input) (past : list op) (e0 : event) (so : step_obs) : bool :=
  let n := n_sinks i in
  match current (id_rules past (e_id e0)) with
  | Some s => negb (s_raised so) && new_is n (only s (St e0)) (s_new so)
  | None =>
      match fb i with
      | Some f => negb (s_raised so) && new_is n (only f (St e0)) (s_new so)
      | None => s_raised so && new_is n nobody (s_new so)
      end
  end.

Definition status_okb (i : input) (past : list op) (via : list seg) (e : event) (so : step_obs) : bool :=
  let e0 := pushed via e in                       (* what the StreamToQueue chain hands to the router *)
  match first_seg (e_route e0) with
  | Some p =>
      match current (prefix_rules past p) with
      | Some sc => negb (s_raised so) && handed (n_sinks i) (s_new so) e0 p sc
      | None => by_id_or_fallback i past e0 so
      end
  | None => by_id_or_fallback i past e0 so
  end.

Definition step_okb (i : input) (past : list op) (o : op) (so : step_obs) : bool :=
  let n := n_sinks i in
  match o with
  | AddPrefix s _ _ ss | AddId s _ ss =>
      negb (s_raised so)
      && new_is n (if ss && in_run past then only s StartRun else nobody) (s_new so)
  | Start =>
      negb (s_raised so) && new_is n (fun k => repeat StartRun (count k (registered i past))) (s_new so)
  | Stop =>
      negb (s_raised so) && new_is n (fun k => repeat StopRun (count k (registered i past))) (s_new so)
  | Status via e => status_okb i past via e so
  | AddRej _ _ _ =>
      (* rejected: the call raises and nobody - in particular not its sink - receives anything; the call is
         no registration and no rule (registration / prefix_rules / id_rules skip it), so every later call is
         judged as if it had not been made *)
      s_raised so && new_is n nobody (s_new so)
  end.

Fixpoint steps_okb (i : input) (past : list op) (l : list op) (os : list step_obs) : bool :=
  match l, os with
  | [], [] => true
  | o :: l', so :: os' => step_okb i past o so && steps_okb i (past ++ [o]) l' os'
  | _, _ => false
  end.

Definition status_routes (l : list op) : list route :=
  flat_map (fun o => match o with Status _ e => [e_route e] | _ => [] end) l.

Definition spec_okb (i : input) (o : obs) : bool :=
  steps_okb i [] (ops i) (o_steps o)
  && list_eqb route_eqb (o_round o) (status_routes (ops i)).

(* ---------- the statement, readable ---------- *)
Definition New_is (n : nat) (f : sink -> list call) (new : list (list call)) : Prop :=
  length new = n /\ forall k, k < n -> nth k new [] = f k.

Definition Rel (consume : bool) (p : seg) (e d : event) : Prop :=
  set_route d (e_route e) = e
  /\ (if consume then e_route d <> Some [] /\ route_code p (e_route d) = e_route e
      else e_route d = e_route e).

Definition Status_spec (i : input) (past : list op) (via : list seg) (e : event) (so : step_obs) : Prop :=
  let e0 := pushed via e in
  let n := n_sinks i in
  let no_prefix_rule := forall p, first_seg (e_route e0) = Some p -> current (prefix_rules past p) = None in
  (* a rule for the first segment of the route code: the latest one added for it *)
  (forall p s c, first_seg (e_route e0) = Some p -> current (prefix_rules past p) = Some (s, c) ->
     s_raised so = false
     /\ exists d, Rel c p e0 d /\ New_is n (only s (St d)) (s_new so))
  (* otherwise a rule for the test id: the latest one added for it *)
  /\ (no_prefix_rule -> forall s, current (id_rules past (e_id e0)) = Some s ->
     s_raised so = false /\ New_is n (only s (St e0)) (s_new so))
  (* otherwise the fallback *)
  /\ (no_prefix_rule -> current (id_rules past (e_id e0)) = None ->
     match fb i with
     | Some f => s_raised so = false /\ New_is n (only f (St e0)) (s_new so)
     | None => s_raised so = true /\ New_is n nobody (s_new so)
     end).

Definition Step_spec (i : input) (past : list op) (o : op) (so : step_obs) : Prop :=
  let n := n_sinks i in
  match o with
  | AddPrefix s _ _ ss | AddId s _ ss =>
      s_raised so = false
      /\ New_is n (if ss && in_run past then only s StartRun else nobody) (s_new so)
  | Start =>
      s_raised so = false /\ New_is n (fun k => repeat StartRun (count k (registered i past))) (s_new so)
  | Stop =>
      s_raised so = false /\ New_is n (fun k => repeat StopRun (count k (registered i past))) (s_new so)
  | Status via e => Status_spec i past via e so
  | AddRej _ _ _ => s_raised so = true /\ New_is n nobody (s_new so)
  end.

(* every call, judged against the calls made before it *)
Definition Spec (i : input) (o : obs) : Prop :=
  length (o_steps o) = length (ops i)
  /\ (forall k op so, nth_error (ops i) k = Some op -> nth_error (o_steps o) k = Some so ->
        Step_spec i (firstn k (ops i)) op so)
  /\ o_round o = status_routes (ops i).

(* ---------- well-formed inputs (the quantifier of the property) ---------- *)
(* the sink of a rejected add_rule is not a rule's sink: it may be any object, in particular the one the
   caller passes again to a corrected add_rule (op_sinks skips AddRej) *)
Definition op_sinks (o : op) : list sink :=
  match o with AddPrefix s _ _ _ | AddId s _ _ => [s] | _ => [] end.
Definition all_sinks (i : input) : list sink :=
  (match fb i with Some s => [s] | None => [] end) ++ flat_map op_sinks (ops i).
Definition prefix_keys (l : list op) : list seg :=
  flat_map (fun o => match o with AddPrefix _ p _ _ => [p] | _ => [] end) l.
Definition id_keys (l : list op) : list (option nat) :=
  flat_map (fun o => match o with AddId _ t _ => [t] | _ => [] end) l.

Fixpoint nodupb {A} (eqb : A -> A -> bool) (l : list A) : bool :=
  match l with
  | [] => true
  | x :: r => negb (existsb (eqb x) r) && nodupb eqb r
  end.

(* sinks exist; route codes are None or at least one segment *)
Definition wf_baseb (i : input) : bool :=
  forallb (fun s => Nat.ltb s (n_sinks i)) (all_sinks i)
  && forallb route_wf (status_routes (ops i)).
Definition wf_base (i : input) : Prop := wf_baseb i = true.

(* ... and every sink object is asked to receive startTestRun/stopTestRun AT MOST ONCE: as the fallback of a
   router built with do_start_stop_run, or by one accepted add_rule(.., do_start_stop_run=True).  A sink
   registered twice is outside the property's quantifier: "reach exactly the sinks registered for them, once per
   run" is ambiguous there (once per sink or once per registration; the current code does the latter, a
   de-duplicating one the former).  Inside wf the two readings coincide.  Everything else is allowed: a key may be
   re-mapped, one sink may serve any number of rules and be the fallback as well (do_start_stop_run=True on at
   most one of its registrations). *)
Definition wfb (i : input) : bool :=
  wf_baseb i && nodupb Nat.eqb (registered i (ops i)).
Definition wf (i : input) : Prop := wfb i = true.

(* the sinks of different rules (and the fallback) are distinct objects; one rule per key.  No theorem needs
   this any more: it implies reg_once for every sink (C18_distinct_once). *)
Definition wf_distinctb (i : input) : bool :=
  nodupb Nat.eqb (all_sinks i) && nodupb Nat.eqb (prefix_keys (ops i)) && nodupb id_eqb (id_keys (ops i)).
Definition wf_distinct (i : input) : Prop := wf_distinctb i = true.

(* sink s was asked to receive startTestRun/stopTestRun at most once (as the fallback of a router built with
   do_start_stop_run, or by ONE add_rule(.., do_start_stop_run=True)); it may serve any number of rules, be the
   fallback as well, and its rules may be re-mapped.  wf says this of every sink (C18_wf_once). *)
Definition reg_once (i : input) (s : sink) : Prop := count s (registered i (ops i)) <= 1.

(* for C18_start_stop: the startTestRun/stopTestRun calls among the calls a sink received *)
Definition is_start_stop (c : call) : bool := match c with St _ => false | _ => true end.
Definition memb (s : sink) (l : list sink) : bool := existsb (Nat.eqb s) l.

(* the startTestRun/stopTestRun calls the caller makes, and the ones a sink receives over the whole history *)
Definition ss_of_op (o : op) : list call :=
  match o with Start => [StartRun] | Stop => [StopRun] | _ => [] end.
Definition ss_log (s : sink) (os : list step_obs) : list call :=
  flat_map (fun so => filter is_start_stop (nth s (s_new so) [])) os.

(* no finding is delimited for C18 after the F6 repair *)
Definition findings (i : input) : list nat := [].
