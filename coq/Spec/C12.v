(* C12 - ThreadsafeForwardingResult: per-test atomicity under every interleaving.
   The statement as an executable predicate over (input, observation) and as a readable Prop.
   Nothing here refers to program counters, steps or schedules of Model/Tfr.v: the statement
   talks about the log of the shared objects only.  (It uses the model's vocabulary of calls
   and events and the tag algebra [merge_tags].) *)
From TT Require Import Lib.Base Model.Tfr.

(* per thread: the calls it makes on its forwarder, and which of its own calls on the target raise
   (0 = the first call that thread makes on the target, ...); the schedule names the thread that
   performs the next operation on a shared object *)
Record input := { threads : list (list rcall * list nat); sched : list nat }.

Record obs := {
  o_log : list (tid * gev);      (* acquire / release / target calls in the order they happened, with the calling thread *)
  o_sem_free : bool;             (* the semaphore's counter is 1 when every thread has stopped *)
  o_deadlock : bool;             (* some thread is unfinished and no thread can move *)
  o_wf : list bool               (* echo of the input, computed by Coq on both sides: does thread t report well-formed
                                    tests (wf_script)?  Only used by the comparison with the model (Corr.C12.alpha) *)
}.

(* ---------- decidable equalities on the vocabulary ---------- *)
Definition tv_eqb (a b : tv) : bool :=
  match a, b with
  | TvNone, TvNone | TvWall, TvWall => true
  | TvAt n, TvAt m => n =? m
  | _, _ => false
  end.
Definition kind_eqb (a b : kind) : bool :=
  match a, b with
  | KSuccess, KSuccess | KError, KError | KFailure, KFailure | KSkip, KSkip
  | KXfail, KXfail | KUxsuccess, KUxsuccess => true
  | _, _ => false
  end.
Definition guard_eqb (a b : guard) : bool :=
  match a, b with
  | GStartRun, GStartRun | GStopRun, GStopRun | GStop, GStop | GDone, GDone | GShouldStop, GShouldStop => true
  | _, _ => false
  end.
Definition tags2_eqb : tags2 -> tags2 -> bool := pair_eqb (list_eqb Nat.eqb) (list_eqb Nat.eqb).
Definition tcall_eqb (a b : tcall) : bool :=
  match a, b with
  | TTime x, TTime y => tv_eqb x y
  | TStartTest n, TStartTest m => n =? m
  | TTags g, TTags h => tags2_eqb g h
  | TOutcome k n, TOutcome j m => kind_eqb k j && (n =? m)
  | TStopTest n, TStopTest m => n =? m
  | TGuard g, TGuard h => guard_eqb g h
  | _, _ => false
  end.
Definition gev_eqb (a b : gev) : bool :=
  match a, b with
  | EAcq, EAcq | ERel, ERel => true
  | ECall c x, ECall d y => tcall_eqb c d && Bool.eqb x y
  | _, _ => false
  end.

(* ---------- clause 1: one holder at a time ----------
   Reading the log from the left with "who holds the semaphore": an acquire only when it is free,
   a release or a target call only by the holder; at the end it is free.  Hence the log is a
   concatenation of sections  acquire_t, calls by t ..., release_t. *)
Fixpoint sectb (n : nat) (holder : option tid) (log : list (tid * gev)) : bool :=
  match log with
  | [] => match holder with None => true | Some _ => false end
  | (t, EAcq) :: r => match holder with None => (t <? n) && sectb n (Some t) r | Some _ => false end
  | (t, ERel) :: r => match holder with Some u => (u =? t) && sectb n None r | None => false end
  | (t, ECall _ _) :: r => match holder with Some u => (u =? t) && sectb n holder r | None => false end
  end.

(* readable form *)
Definition section (body : list gev) : list gev := EAcq :: body ++ [ERel].
Definition is_call (e : gev) : Prop := match e with ECall _ _ => True | _ => False end.
Definition render (s : tid * list gev) : list (tid * gev) := map (pair (fst s)) (section (snd s)).
Definition Sectioned (n : nat) (log : list (tid * gev)) : Prop :=
  exists secs, log = flat_map render secs /\ Forall (fun s => fst s < n /\ Forall is_call (snd s)) secs.

(* ---------- clause 2: what each thread's part of the log must be ---------- *)
(* a thread reports well-formed tests: startTest n, then tags/time, at most one outcome for n, then
   tags/time, stopTest n; run-level tags/time and the guarded calls in between (startTestRun and
   stopTestRun only between the thread's own tests; stop/done/shouldStop anywhere) *)
Inductive phase := Out | Pre (n : nat) | Post (n : nat).
Fixpoint wf_script (p : phase) (s : list rcall) : bool :=
  match s with
  | [] => true
  | RTime _ :: r | RTags _ _ :: r => wf_script p r
  | RStartTest n :: r => match p with Out => wf_script (Pre n) r | _ => false end
  | ROutcome _ n :: r => match p with Pre m => (m =? n) && wf_script (Post n) r | _ => false end
  | RStopTest n :: r => match p with
                        | Pre m | Post m => (m =? n) && wf_script Out r
                        | Out => false
                        end
  | RGuard GStartRun :: r | RGuard GStopRun :: r => match p with Out => wf_script Out r | _ => false end
  | RGuard _ :: r => wf_script p r
  | RRaise :: _ => false
  end.

(* the reporter's view: the time last supplied, the run-level tag changes since startTestRun, and
   for the open test its start time and its own tag changes *)
Record sst := { s_now : option nat; s_run : tags2; s_open : option (tv * tags2) }.
Definition sst0 : sst := {| s_now := None; s_run := no_tags; s_open := None |}.
Definition s_time (st : sst) : tv := match s_now st with Some n => TvAt n | None => TvWall end.

(* the calls of a block in order, cut at the first one that raises ... *)
Fixpoint cut (faults : list nat) (k : nat) (cs : list tcall) (tail : nat -> list gev * nat) : list gev * nat :=
  match cs with
  | [] => tail k
  | c :: r => if memb k faults then ([ECall c true], S k)
              else let '(l, k') := cut faults (S k) r tail in (ECall c false :: l, k')
  end.
(* ... except that stopTest is attempted whether or not the outcome raised *)
Definition tail2 (faults : list nat) (oc st : tcall) (k : nat) : list gev * nat :=
  ([ECall oc (memb k faults); ECall st (memb (S k) faults)], S (S k)).

Definition tag_call (g : tags2) : list tcall := if any_tags g then [TTags g] else [].

(* the events of one thread, in order; k counts that thread's calls on the target *)
Fixpoint expected (faults : list nat) (s : list rcall) (st : sst) (k : nat) : list gev :=
  match s with
  | [] => []
  | RTime a :: r => expected faults r {| s_now := a; s_run := s_run st; s_open := s_open st |} k
  | RTags n g :: r =>
      expected faults r
        (match s_open st with
         | Some (t0, tg) => {| s_now := s_now st; s_run := s_run st; s_open := Some (t0, merge_tags tg (n, g)) |}
         | None => {| s_now := s_now st; s_run := merge_tags (s_run st) (n, g); s_open := None |}
         end) k
  | RStartTest _ :: r =>
      expected faults r {| s_now := s_now st; s_run := s_run st; s_open := Some (s_time st, no_tags) |} k
  | RStopTest _ :: r => expected faults r {| s_now := s_now st; s_run := s_run st; s_open := None |} k
  | RGuard g :: r =>
      section [ECall (TGuard g) (memb k faults)]
      ++ expected faults r
           (match g with
            | GStartRun => {| s_now := None; s_run := no_tags; s_open := s_open st |}
            | _ => st
            end) (S k)
  | ROutcome kd n :: r =>
      match s_open st with
      | Some (t0, tg) =>
          let '(body, k') :=
            cut faults k ([TTime t0; TStartTest n; TTime (s_time st)] ++ tag_call (s_run st) ++ tag_call tg)
                (tail2 faults (TOutcome kd n) (TStopTest n)) in
          section body ++ expected faults r st k'
      | None => []
      end
  | RRaise :: _ => []
  end.

Definition proj (t : tid) (log : list (tid * gev)) : list gev :=
  map snd (filter (fun e => fst e =? t) log).

Definition thread_okb (log : list (tid * gev)) (t : nat) (sf : list rcall * list nat) : bool :=
  if wf_script Out (fst sf) then list_eqb gev_eqb (proj t log) (expected (snd sf) (fst sf) sst0 0) else true.

Fixpoint forallb_idx {A} (p : nat -> A -> bool) (k : nat) (l : list A) : bool :=
  match l with [] => true | x :: r => p k x && forallb_idx p (S k) r end.

(* ---------- the statement ---------- *)
Definition spec_okb (i : input) (o : obs) : bool :=
  negb (o_deadlock o) && o_sem_free o
  && sectb (length (threads i)) None (o_log o)
  && forallb_idx (thread_okb (o_log o)) 0 (threads i).

Definition Spec (i : input) (o : obs) : Prop :=
  o_deadlock o = false /\ o_sem_free o = true
  /\ Sectioned (length (threads i)) (o_log o)
  /\ forall t sc fl, nth_error (threads i) t = Some (sc, fl) -> wf_script Out sc = true ->
       proj t (o_log o) = expected fl sc sst0 0.

(* ---------- the shape of a block (used by C12_blocks for arbitrary, also malformed, scripts) ---------- *)
Definition okc (c : tcall) : gev := ECall c false.
Definition prefix_calls (a : tv) (n : nat) (b : tv) (gs : list tags2) : list tcall :=
  [TTime a; TStartTest n; TTime b] ++ map TTags gs.
Inductive block_shape : list gev -> Prop :=
| bs_guard g b : block_shape [ECall (TGuard g) b]
    (* a guarded startTestRun/stopTestRun/stop/done/shouldStop *)
| bs_full a n b gs kd ro rs : length gs <= 2 ->
    block_shape (map okc (prefix_calls a n b gs) ++ [ECall (TOutcome kd n) ro; ECall (TStopTest n) rs])
    (* start time, startTest, end time, tags, the outcome, stopTest - stopTest also when the outcome raised *)
| bs_cut a n b gs j c : length gs <= 2 -> nth_error (prefix_calls a n b gs) j = Some c ->
    block_shape (map okc (firstn j (prefix_calls a n b gs)) ++ [ECall c true]).
    (* cut short at a call of the replayed prefix that raised: nothing follows *)

(* every outcome exactly once and in order *)
Fixpoint outcomes_of_log (l : list gev) : list (kind * nat) :=
  match l with
  | [] => []
  | ECall (TOutcome k n) _ :: r => (k, n) :: outcomes_of_log r
  | _ :: r => outcomes_of_log r
  end.
Fixpoint outcomes_of_script (s : list rcall) : list (kind * nat) :=
  match s with
  | [] => []
  | ROutcome k n :: r => (k, n) :: outcomes_of_script r
  | _ :: r => outcomes_of_script r
  end.

Definition wf_flags (l : list (list rcall * list nat)) : list bool := map (fun sf => wf_script Out (fst sf)) l.

Definition findings (i : input) : list nat := [].
