(* C06 - matcher verdicts obey their declared semantics compositionally.
   [sem] is the documented predicate of every matcher, written with
   forallb/existsb/counting and independent of the loops of Model/Matchers.v.
   The observation is the verdict of match() (one per construction of the
   matcher expression, see [i_runs]) and whether matching left matcher and
   matchee unchanged and gave the same verdict when repeated. *)
From Coq Require Import Permutation.
From TT Require Import Lib.Base Lib.Sort Model.Matchers.

(* ---------- small decidable notions used by the statement ---------- *)
Definition scalar (v : val) : bool :=
  match v with VInt _ | VBool _ | VFloat _ | VStr _ | VBytes _ | VNone | VSet _ => true | _ => false end.
Fixpoint plain (v : val) : bool :=
  match v with
  | VInt _ | VBool _ | VFloat _ | VStr _ | VBytes _ | VNone | VSet _ => true
  | VList l => forallb plain l
  | VDict kvs => forallb (fun kv => plain (snd kv)) kvs
  | VRec _ attrs => forallb (fun kv => plain (snd kv)) attrs
  | _ => false
  end.
Definition countv (x : val) (l : list val) : nat := length (filter (veq x) l).
Definition countk (x : key) (l : list key) : nat := length (filter (key_eqb x) l).
(* the same members with the same repetitions *)
Definition same_members (a b : list val) : bool :=
  forallb (fun x => Nat.eqb (countv x a) (countv x b)) (a ++ b).
Definition same_keys (a b : list key) : bool :=
  forallb (fun x => Nat.eqb (countk x a) (countk x b)) (a ++ b).

(* every way of taking one element out of a list *)
Fixpoint picks {A} (l : list A) : list (A * list A) :=
  match l with
  | [] => []
  | x :: r => (x, r) :: map (fun p => (fst p, x :: snd p)) (picks r)
  end.
(* a one-to-one assignment of the columns js to the rows: rows[i][j] = "matcher i matches value j" *)
Fixpoint assign (rows : list (list bool)) (js : list nat) : bool :=
  match js with
  | [] => is_nil rows
  | j :: t => existsb (fun p => at_ j (fst p) && assign (snd p) t) (picks rows)
  end.
Definition count_true (l : list bool) : nat := length (filter (fun b => b) l).
(* delimits finding F13: some observed value is matched by more than one of the matchers *)
Definition amb_m (rows : list (list bool)) (n : nat) : bool :=
  existsb (fun j => Nat.ltb 1 (count_true (map (at_ j) rows))) (seq 0 n).

Section Zip.
  Context {A B : Type} (p : A -> B -> bool).
  Fixpoint forall2b (l : list A) (m : list B) : bool :=
    match l, m with
    | [], [] => true
    | a :: l', b :: m' => p a b && forall2b l' m'
    | _, _ => false
    end.
End Zip.
Section ZipL.
  Context {A B C : Type} (f : A -> B -> list C).
  Fixpoint zipcat (l : list A) (m : list B) : list C :=
    match l, m with
    | a :: l', b :: m' => f a b ++ zipcat l' m'
    | _, _ => []
    end.
End ZipL.

Definition same_kind (a b : val) : bool :=
  match a, b with
  | VStr _, VStr _ | VBytes _, VBytes _ => true
  | _, _ => negb (is_none (num2 a)) && negb (is_none (num2 b))     (* int, bool, float order among themselves *)
  end.
Definition kind_of_key (k : key) : bool := match k with KInt _ => true | KStr _ => false end.
Definition one_kind (ks : list key) : bool :=
  forallb kind_of_key ks || forallb (fun k => negb (kind_of_key k)) ks.

Section Sem.
  Variable leafsem : nat -> val -> bool.

  (* ---------- the documented predicate ---------- *)
  Fixpoint sem (m : matcher) (v : val) {struct m} : bool :=
    match m with
    | Equals e => veq v e
    | NotEquals e => negb (veq v e)
    | Is e => vis v e
    | LessThan e => vlt v e
    | GreaterThan e => vlt e v
    | Contains n => vcontains n v
    | StartsWith e => vstarts v e
    | EndsWith e => vends v e
    | HasLength n => match vlen v with Some k => Z.eqb k n | None => false end
    | IsInstance tys => existsb (isinst v) tys
    | SameMembers e => match v with VList l => same_members l e | _ => false end
    | KeysEqual ks => match v with VDict kvs => same_keys (map fst kvs) ks | _ => false end
    | Always => true
    | Never => false
    | Leaf n => leafsem n v
    | MatchesException inst cs eargs vm =>
        (* an exc_info tuple whose class is one of cs and, for an instance, has the same args;
           for a type, whose value satisfies the value matcher *)
        match v with
        | VExc c a =>
            existsb (issub c) cs &&
            (if inst then list_eqb veq a eargs
             else match vm with Some m' => sem m' (VExcI c a) | None => true end)
        | _ => false
        end
    | Raises em =>
        (* calling the matchee raises, and the exc_info satisfies the exception matcher *)
        match v with
        | VRaise c a => match em with Some m' => sem m' (VExc c a) | None => true end
        | _ => false
        end
    | Not m' => negb (sem m' v)
    | MatchesAll _ ms => forallb (fun m' => sem m' v) ms
    | MatchesAny ms => existsb (fun m' => sem m' v) ms
    | AllMatch m' => match v with VList l => forallb (sem m') l | _ => false end
    | AnyMatch m' => match v with VList l => existsb (sem m') l | _ => false end
    | MatchesListwise _ ms => match v with VList l => forall2b sem ms l | _ => false end
    | MatchesSetwise _ ms =>
        match v with
        | VList l => assign (map (fun m' => map (sem m') l) ms) (seq 0 (length l))
        | _ => false
        end
    | MatchesDict kms =>
        match v with
        | VDict obs =>
            forallb (fun kv => has_key (fst kv) kms) obs &&
            forallb (fun km => match lookup (fst km) obs with Some x => sem (snd km) x | None => false end) kms
        | _ => false
        end
    | ContainsDict kms =>
        match v with
        | VDict obs =>
            forallb (fun km => match lookup (fst km) obs with Some x => sem (snd km) x | None => false end) kms
        | _ => false
        end
    | ContainedByDict kms =>
        match v with
        | VDict obs =>
            forallb (fun kv => has_key (fst kv) kms) obs &&
            forallb (fun km => match lookup (fst km) obs with Some x => sem (snd km) x | None => true end) kms
        | _ => false
        end
    | MatchesStructure ams =>
        match v with
        | VRec _ attrs =>
            forallb (fun am => match getattr (fst am) attrs with Some x => sem (snd am) x | None => false end) ams
        | _ => false
        end
    | AfterPreprocessing p _ m' => match apply_pp p v with Some w => sem m' w | None => false end
    | Annotate _ m' => sem m' v
    end.

  (* ---------- every application of a sub-matcher to a sub-value that matching may perform ---------- *)
  Fixpoint subapps (m : matcher) (v : val) {struct m} : list (matcher * val) :=
    (m, v) ::
    match m with
    | MatchesException _ _ _ (Some m') => match v with VExc c a => subapps m' (VExcI c a) | _ => [] end
    | Raises (Some m') => match v with VRaise c a => subapps m' (VExc c a) | _ => [] end
    | Not m' | Annotate _ m' => subapps m' v
    | MatchesAll _ ms | MatchesAny ms => flat_map (fun m' => subapps m' v) ms
    | AllMatch m' | AnyMatch m' => match v with VList l => flat_map (subapps m') l | _ => [] end
    | MatchesListwise _ ms => match v with VList l => zipcat subapps ms l | _ => [] end
    | MatchesSetwise _ ms =>
        match v with VList l => flat_map (fun m' => flat_map (subapps m') l) ms | _ => [] end
    | MatchesDict kms | ContainsDict kms | ContainedByDict kms =>
        match v with
        | VDict obs => flat_map (fun km => match lookup (fst km) obs with
                                           | Some x => subapps (snd km) x | None => [] end) kms
        | _ => []
        end
    | MatchesStructure ams =>
        match v with
        | VRec _ attrs => flat_map (fun am => match getattr (fst am) attrs with
                                              | Some x => subapps (snd am) x | None => [] end) ams
        | _ => []
        end
    | AfterPreprocessing p _ m' => match apply_pp p v with Some w => subapps m' w | None => [] end
    | _ => []
    end.

  (* the domain of one matcher: where Python's match() neither raises nor leaves the modelled universe *)
  Definition local_dom (mv : matcher * val) : bool :=
    let '(m, v) := mv in
    match m with
    | Equals e | NotEquals e => plain e && plain v
    | Is e => match e with VNone | VRec _ _ => true | _ => false end
    | LessThan e | GreaterThan e => same_kind v e
    | Contains n =>
        match v with
        | VBytes _ => match n with VInt z => Z.leb 0 z && Z.ltb z 256 | _ => true end
        | VList _ => plain n && plain v
        | _ => true
        end
    | StartsWith e | EndsWith e =>
        match v, e with VStr _, VStr _ | VBytes _, VBytes _ => true | _, _ => false end
    | HasLength _ => negb (is_none (vlen v))
    | SameMembers e => match v with VList l => forallb scalar (e ++ l) | _ => false end
    | KeysEqual ks => match v with VDict kvs => one_kind (ks ++ map fst kvs) | _ => false end
    | Leaf _ => match v with VStr _ => true | _ => false end
    | MatchesException inst cs eargs vm =>
        (if inst then Nat.eqb (length cs) 1 && forallb plain eargs && is_none vm else true) &&
        match v with VExc _ a => forallb plain a | _ => true end
    | Raises em =>
        match v with
        | VRet _ => true
        | VRaise c a =>                    (* nothing propagates: see [expected] for the top level *)
            is_user c || match em with Some m' => sem m' (VExc c a) | None => false end
        | _ => false
        end
    | AllMatch _ | AnyMatch _ | MatchesListwise _ _ | MatchesSetwise _ _ =>
        match v with VList _ => true | _ => false end
    | MatchesDict _ | ContainsDict _ | ContainedByDict _ =>
        match v with VDict _ => true | _ => false end
    | MatchesStructure ams =>
        match v with
        | VRec _ attrs => forallb (fun am => negb (is_none (getattr (fst am) attrs))) ams
        | _ => false
        end
    | AfterPreprocessing p _ _ => negb (is_none (apply_pp p v))
    | _ => true
    end.

  Definition local_amb (mv : matcher * val) : bool :=
    let '(m, v) := mv in
    match m, v with
    | MatchesSetwise _ ms, VList l => amb_m (map (fun m' => map (sem m') l) ms) (length l)
    | _, _ => false
    end.

  Definition dom (m : matcher) (v : val) : bool := forallb local_dom (subapps m v).
  Definition amb (m : matcher) (v : val) : bool := existsb local_amb (subapps m v).
End Sem.

(* ---------- input, observation ---------- *)
Record input := {
  i_m : matcher;
  i_v : val;
  i_accept : list (list str);            (* i_accept[n] = the strings abstract leaf n accepts (oracle) *)
  i_runs : list (list (nat * list nat))  (* per construction: set id -> rank of each child in the set's iteration *)
}.
Inductive ov := Matched | Mismatched | Propagated (c : cls) | OutOfDomain.
Record obs := { verdicts : list ov; stable : bool }.

Definition leafsem_of (acc : list (list str)) (n : nat) (v : val) : bool :=
  match v with
  | VStr s => existsb (str_eqb s) (nth n acc [])
  | _ => false
  end.
Definition isem (i : input) : matcher -> val -> bool := sem (leafsem_of (i_accept i)).

(* the top-level call may see the one exception Raises lets through *)
Definition idom (i : input) : bool :=
  match i_m i, i_v i with
  | Raises em, VRaise c a =>
      match em with
      | Some m' => dom (leafsem_of (i_accept i)) m' (VExc c a)
      | None => true
      end
  | m, v => dom (leafsem_of (i_accept i)) m v
  end.
Definition expected (i : input) : ov :=
  match i_m i, i_v i with
  | Raises em, VRaise c a =>
      (* matches if the exception is explicitly matched; otherwise exceptions that are not
         Exceptions propagate; otherwise Raises() matches and Raises(m) mismatches *)
      if match em with Some m' => isem i m' (VExc c a) | None => false end then Matched
      else if negb (is_user c) then Propagated c
      else if is_none em then Matched else Mismatched
  | m, v => if isem i m v then Matched else Mismatched
  end.

Definition ov_eqb (a b : ov) : bool :=
  match a, b with
  | Matched, Matched | Mismatched, Mismatched | OutOfDomain, OutOfDomain => true
  | Propagated c, Propagated d => Nat.eqb c d
  | _, _ => false
  end.

Definition spec_okb (i : input) (o : obs) : bool :=
  if idom i then
    stable o && Nat.eqb (length (verdicts o)) (length (i_runs i))
    && forallb (fun b => ov_eqb b (expected i)) (verdicts o)
  else true.

(* readable form: inside the domain, every construction of the expression gives the documented
   verdict (hence the same one), and matching changed nothing *)
Definition Spec (i : input) (o : obs) : Prop :=
  idom i = true ->
  stable o = true /\ length (verdicts o) = length (i_runs i)
  /\ Forall (fun b => b = expected i) (verdicts o).

Definition wf (i : input) : Prop := True.

(* finding F13: MatchesSetwise assigns greedily in set-iteration order *)
Definition finding_F13 (i : input) : bool :=
  match i_m i, i_v i with
  | Raises (Some m'), VRaise c a => amb (leafsem_of (i_accept i)) m' (VExc c a)
  | Raises None, VRaise _ _ => false
  | m, v => amb (leafsem_of (i_accept i)) m v
  end.
Definition findings (i : input) : list nat := if finding_F13 i then [13] else [].
