(* C06 - what the model observes for an input, and the comparison with the
   implementation's observation.  Used by generated case shards. *)
From TT Require Import Lib.Base Lib.Sort Model.Matchers Spec.C06.

(* literals: code points below 5000 are sent as nat numerals *)
Definition sn (l : list nat) : str := map N.of_nat l.

Fixpoint assoc_nat {A} (k : nat) (l : list (nat * A)) : option A :=
  match l with
  | [] => None
  | (k', x) :: r => if Nat.eqb k k' then Some x else assoc_nat k r
  end.
(* the iteration position of child i of set sid in one construction of the expression *)
Definition rank_of (run : list (nat * list nat)) (sid i : nat) : nat :=
  match assoc_nat sid run with
  | Some ranks => nth i ranks i
  | None => i
  end.

Definition to_ov (o : outcome) : ov :=
  match o with OMatch => Matched | OMis _ => Mismatched | OProp c => Propagated c end.

Definition model (i : input) : obs :=
  {| verdicts :=
       map (fun r => if idom i
                     then to_ov (run (leafsem_of (i_accept i)) (rank_of r) (i_m i) (i_v i))
                     else OutOfDomain) (i_runs i);
     stable := true |}.

Definition obs_eqb (a b : obs) : bool :=
  list_eqb ov_eqb (verdicts a) (verdicts b) && Bool.eqb (stable a) (stable b).

Definition report := @report input obs model obs_eqb spec_okb findings.
Definition model_at := @model_at input obs model spec_okb.
