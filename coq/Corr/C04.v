(* C04 - what the model observes for an input, and the comparison with the implementation's observation. *)
From TT Require Import Lib.Base Model.Result Spec.C04.

Definition model (i : input) : obs :=
  let sts := states (init (stack i) (set_after i)) (hist i) in
  {| o_ok := map was_ok sts;
     o_stop := map should_stop sts;
     o_leaf_stop := map leaf_stops sts;
     o_sums := leaf_outs (fold_left do_op (hist i) (init (stack i) (set_after i))) |}.

Definition sec_list_eqb : list (nat * tid) -> list (nat * tid) -> bool := list_eqb sec_eqb.
Definition summary_eqb (a b : summary) : bool :=
  Nat.eqb (s_ran a) (s_ran b) && option_eqb Nat.eqb (s_failed a) (s_failed b)
  && sec_list_eqb (s_sections a) (s_sections b).

Definition obs_eqb (a b : obs) : bool :=
  lbool_eqb (o_ok a) (o_ok b) && lbool_eqb (o_stop a) (o_stop b)
  && list_eqb lbool_eqb (o_leaf_stop a) (o_leaf_stop b)
  && list_eqb (list_eqb summary_eqb) (o_sums a) (o_sums b).

Definition report := @report input obs model obs_eqb spec_okb findings.
Definition model_at := @model_at input obs model spec_okb.
