(* C04 - what the model observes for an input, and the comparison with the implementation's observation. *)
From TT Require Import Lib.Base Model.Result Spec.C04.

Definition model_seq (i : input) (ord : list nat) : obs :=
  let sts := states (init (stack i) (set_after i)) (hist i) in
  {| o_ok := map was_ok sts;
     o_stop := map should_stop sts;
     o_leaf_stop := map leaf_stops sts;
     o_sums := leaf_outs (fold_left do_op (hist i) (init (stack i) (set_after i)));
     o_order := ord |}.

(* With several adapters over one target: the adapters are alike (failfast is not assigned on them), each call
   happens under the semaphore, so the target sees the calls one after the other in the order the scheduler
   lets the threads acquire it. *)
Definition model (i : input) : obs :=
  match conc i with
  | None => model_seq i []
  | Some (ths, sch) =>
      let ord := linear_order ths sch in
      match merge ths ord with
      | Some h => model_seq (with_hist i (hist i ++ h)) ord
      | None => model_seq i ord            (* does not happen: Proof.C04.linear_order_complete *)
      end
  end.

Definition sec_list_eqb : list (nat * tid) -> list (nat * tid) -> bool := list_eqb sec_eqb.
Definition summary_eqb (a b : summary) : bool :=
  Nat.eqb (s_ran a) (s_ran b) && option_eqb Nat.eqb (s_failed a) (s_failed b)
  && sec_list_eqb (s_sections a) (s_sections b).

Definition obs_eqb (a b : obs) : bool :=
  lbool_eqb (o_ok a) (o_ok b) && lbool_eqb (o_stop a) (o_stop b)
  && list_eqb lbool_eqb (o_leaf_stop a) (o_leaf_stop b)
  && list_eqb (list_eqb summary_eqb) (o_sums a) (o_sums b)
  && list_eqb Nat.eqb (o_order a) (o_order b).

Definition report := @report input obs model obs_eqb spec_okb findings.
Definition model_at := @model_at input obs model spec_okb.
