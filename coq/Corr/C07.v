(* C07 - what the model observes for an input, and the comparison with the
   implementation's observation. *)
From Coq Require Import String Ascii.
From TT Require Import Lib.Base Lib.Sort Model.TextRepr Model.Assertions Spec.C07.

(* literals *)
Definition sn (l : list nat) : list N := map N.of_nat l.
Definition bs (l : list nat) : string := fold_right (fun c s => String (ascii_of_nat c) s) EmptyString l.

Definition nonprint_of (l : list N) (c : N) : bool := memN c l.

(* the two models of text_repr must agree before either is compared with the implementation *)
Definition agree (i : input) : bool :=
  match i with
  | IRepr isb s ml np =>
      list_eqb N.eqb (text_repr_lit isb (nonprint_of np) s ml) (text_repr_tok isb (nonprint_of np) s ml)
  | _ => true
  end.

Definition payload (l : list detail) : list detail := filter (fun d => negb (Nat.eqb (snd d) 0)) l.

Definition model (i : input) : obs :=
  match i with
  | IRepr isb s ml np =>
      if agree i then ORepr (text_repr_tok isb (nonprint_of np) s ml) true else OBad
  | IDesc _ modelled hm => if modelled then ODesc (expected_kinds hm) (expected_asserts hm) else OBad
  | ITest p =>
      let r := run_test p in
      match r_details r with
      | Some ds => OTest (r_raised r) (r_after_ran r) (r_outcome r) (payload ds)
      | None => OBad
      end
  end.

(* observations are compared up to the names the details were given: which payload details are
   attached, not what they are called (the statement constrains the names, see details_okb) *)
Definition tokens (l : list detail) : list nat := isort Nat.leb (map snd l).
Definition alpha (o : obs) : obs :=
  match o with
  | OTest r a oc d => OTest r a oc (map (fun t => (EmptyString, t)) (tokens d))
  | _ => o
  end.
Definition obs_eqb (a b : obs) : bool :=
  match a, b with
  | ORepr x e, ORepr y f => list_eqb N.eqb x y && Bool.eqb e f
  | ODesc x a, ODesc y b => list_eqb okind_eqb x y && list_eqb Bool.eqb a b
  | OTest r a oc d, OTest r' a' oc' d' =>
      list_eqb (list_eqb Bool.eqb) r r' && Bool.eqb a a' && outcome_eqb oc oc' && list_eqb Nat.eqb (tokens d) (tokens d')
  | OBad, OBad => true
  | _, _ => false
  end.

Definition report := @report input obs model obs_eqb spec_okb findings.
Definition model_at := @model_at input obs model spec_okb.
