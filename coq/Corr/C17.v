(* C17 - what the model observes for an input, and the comparison with the
   implementation's observation (tag sets are compared extensionally). *)
From TT Require Import Lib.Base Model.Tags Spec.C17.

Definition model (i : input) : obs :=
  {| o_reporter := reporter_scan (stack i) (hist i);
     o_leaves := leaves_obs (stack i) (hist i) |}.

Definition obs_eqb (a b : obs) : bool :=
  lseteqb (o_reporter a) (o_reporter b) && list_eqb lseteqb (o_leaves a) (o_leaves b).

(* the equivalence obs_eqb decides *)
Definition obs_equiv (a b : obs) : Prop :=
  Forall2 seteq (o_reporter a) (o_reporter b) /\ Forall2 (Forall2 seteq) (o_leaves a) (o_leaves b).

Definition report := @report input obs model obs_eqb spec_okb findings.
Definition model_at := @model_at input obs model spec_okb.
