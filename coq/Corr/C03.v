(* C03 - what the model observes for an input, and the comparison. *)
From TT Require Import Lib.Base Gen.Handlers Model.Run Spec.Run Spec.C03.

Definition outs_of (t : list tev) : list outcome :=
  flat_map (fun e => match e with TOut o _ => [o] | _ => [] end) t.

(* testtools.TestResult.wasSuccessful after these outcome calls: no error, failure or
   unexpected success *)
Definition was_successful (l : list outcome) : bool := negb (existsb unsuccessful l).

Definition model (i : input) : obs :=
  let '(s, _, oof) := run (i_prog i) [] in
  let outs := if oof then [] else outs_of (tr s) in
  {| o_outs := outs; o_ok := was_successful outs |}.

Definition obs_eqb (a b : obs) : bool :=
  list_eqb outcome_eqb (o_outs a) (o_outs b) && Bool.eqb (o_ok a) (o_ok b).

Definition report := @Base.report input obs model obs_eqb spec_okb findings.
Definition model_at := @Base.model_at input obs model spec_okb.
