(* C05 - what the model observes for an input, and the comparison. *)
From TT Require Import Lib.Base Gen.Handlers Model.Run Spec.Run Spec.C05.

(* the trace up to and including the first outcome / after it *)
Fixpoint before_out (t : list tev) : list tev :=
  match t with [] => [] | TOut o d :: _ => [] | e :: r => e :: before_out r end.
Fixpoint after_out (t : list tev) : list tev :=
  match t with [] => [] | TOut o d :: r => r | _ :: r => after_out r end.
Fixpoint first_out (t : list tev) : list (dname * ocontent) :=
  match t with [] => [] | TOut o d :: _ => d | _ :: r => first_out r end.
Definition hcalls (t : list tev) : list (nat * cls) :=
  flat_map (fun e => match e with THandler h c => [(h, c)] | _ => [] end) t.
Definition n_outs (t : list tev) : nat :=
  length (filter (fun e => match e with TOut _ _ => true | _ => false end) t).

Definition model (i : input) : obs :=
  let '(s, _, oof) := run (i_prog i) [] in
  {| o_outs := if oof then 0 else n_outs (tr s);
     o_details := map (fun nc => (fst (fst nc), snd nc)) (first_out (tr s));
     o_calls := hcalls (before_out (tr s));
     o_late := length (hcalls (after_out (tr s))) |}.

(* details are compared as multisets of (base name, content): neither the order of the dict nor
   the disambiguating suffixes are the statement's business *)
Definition same_details (a b : list odetail) : bool :=
  forallb (fun d => Nat.eqb (count d a) (count d b)) (a ++ b).
Definition obs_eqb (a b : obs) : bool :=
  Nat.eqb (o_outs a) (o_outs b) && same_details (o_details a) (o_details b)
  && list_eqb call_eqb (o_calls a) (o_calls b) && Nat.eqb (o_late a) (o_late b).

Definition report := @Base.report input obs model obs_eqb spec_okb findings.
Definition model_at := @Base.model_at input obs model spec_okb.
