(* C15 - what the model observes for a history of runs on one spinner, and the
   comparison with the implementation's observation. *)
From TT Require Import Lib.Base Lib.Sort Model.Reactor Model.Spinner Gen.Spinnertabs Spec.C15.

Definition sort_toks (l : list nat) : list nat := isort Nat.leb l.

(* the harness installs the given handlers for SIGINT, SIGTERM, SIGCHLD before the call *)
Definition preinstall (pre : list nat) (w : world) : world :=
  set_sig (fold_left (fun t sh => setsig (fst sh) (snd sh) t) (combine reactor_signals pre) (w_sig w)) w.

Definition stop_of_id (k : nat) : stopfn := match k with 0 => SReal | S _ => SUser k end.
Definition id_of_stop (s : stopfn) : nat := match s with SReal => 0 | SUser k => k | SFake => 99 end.

(* somebody overrides reactor.stop on the instance (or removes the override) before the call *)
Definition install_stop (x : option nat) (w : world) : world :=
  match x with Some k => set_stop (stop_of_id k) w | None => w end.

Definition observe (r : res value exc) (w : world) : robs :=
  {| o_res := r;
     o_reentry := w_reentry w;
     o_ran := sort_toks (filter not_timeout_tok (w_ran w));
     o_order := w_ran w;
     o_junk := sort_toks (sp_junk (w_sp w));
     o_running := running (w_r w);
     o_pending := length (queue (w_r w));
     o_readers := length (readers (w_r w));
     o_stop := id_of_stop (w_stop w);
     o_stopped := really_stopped (w_r w);
     o_sigs := map (fun s => getsig s (w_sig w)) reactor_signals |}.

Definition step (batch : bool) (w : world) (rs : runspec) : robs * world :=
  let w := if r_clear rs then clear_junk w else w in
  let w := preinstall (r_pre rs) w in
  let w := install_stop (r_stop rs) w in
  let w := set_reentry [] (set_ran [] w) in
  let w := reg_hooks 0 (r_hooks rs) w in
  let '(r, w') := run spinner_iterations batch (r_timeout rs) (r_fn rs) w in
  (* a refused run never starts the reactor: the harness takes its hooks back *)
  (observe r w', set_r (set_hooks [] (w_r w')) w').

Fixpoint steps (batch : bool) (w : world) (rss : list runspec) : obs :=
  match rss with
  | [] => []
  | rs :: rest => let '(o, w') := step batch w rs in o :: steps batch w' rest
  end.

Definition model (i : input) : obs := steps (i_batch i) (new_world (i_oracle i)) (i_runs i).

Definition robs_eqb (a b : robs) : bool :=
  result_eqb (o_res a) (o_res b)
  && list_eqb Bool.eqb (o_reentry a) (o_reentry b)
  && list_eqb Nat.eqb (o_ran a) (o_ran b)
  && list_eqb Nat.eqb (o_order a) (o_order b)
  && list_eqb Nat.eqb (o_junk a) (o_junk b)
  && Bool.eqb (o_running a) (o_running b)
  && Nat.eqb (o_pending a) (o_pending b)
  && Nat.eqb (o_readers a) (o_readers b)
  && Nat.eqb (o_stop a) (o_stop b)
  && Bool.eqb (o_stopped a) (o_stopped b)
  && list_eqb Nat.eqb (o_sigs a) (o_sigs b).

Definition obs_eqb : obs -> obs -> bool := list_eqb robs_eqb.

Definition report := @report input obs model obs_eqb spec_okb findings.
Definition model_at := @model_at input obs model spec_okb.
