(* C01 - what the model observes for an input, and the comparison with the implementation's
   observation.  Used by generated case shards. *)
From TT Require Import Lib.Base Gen.Handlers Model.Run Spec.Run Spec.C01.

(* the calls the decorated result receives: handler calls and details dropped, the outcome as
   the flavour's adapter delivers it, no stopTest event on a StreamResult *)
Definition events_of (f : flavour) (t : list tev) : list ev :=
  flat_map (fun e => match e with
                     | TStart => [Start]
                     | TStop => if has_stop f then [Stop] else []
                     | TOut o _ => [Out (deliver f o)]
                     | THandler _ _ => []
                     end) t.

(* the tokens the bodies wrote to the execution log *)
Definition tokens_of (l : list lev) : list nat :=
  flat_map (fun e => match e with LTok t => [t] | _ => [] end) l.

(* the harness clears its log and the result's event list before each run *)
Definition clear (s : st) : st := set_tr [] (set_log [] s).
(* the instance after the runs of [l], started in state [s]; every run gets a fresh RunTest from the
   case's factory [r] *)
Definition state_after (r : runner) (l : list prog) (s : st) : st :=
  fold_left (fun s p => fst (fst (run_from_runner r p (clear s)))) l s.
Definition start_state (i : input) : st := state_after (i_runner i) (i_prev i) (init (first_prog i) []).

Definition model (i : input) : obs :=
  let '(s, propagated, oof) := run_from_runner (i_runner i) (i_prog i) (clear (start_state i)) in
  {| o_events := if oof then [] else events_of (i_flavour i) (tr s);
     o_raised := match propagated with Some e => kind_of e | None => RNone end;
     o_ran := tokens_of (log s) |}.

(* which bodies ran is compared as a set: their order and multiplicity are C02's subject *)
Definition subset (a b : list nat) : bool := forallb (fun t => memb t b) a.
Definition obs_eqb (a b : obs) : bool :=
  list_eqb ev_eqb (o_events a) (o_events b) && rk_eqb (o_raised a) (o_raised b)
  && subset (o_ran a) (o_ran b) && subset (o_ran b) (o_ran a).

Definition report := @Base.report input obs model obs_eqb spec_okb findings.
Definition model_at := @Base.model_at input obs model spec_okb.
