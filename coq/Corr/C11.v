(* C11 - what the model observes for an input, and the comparison with the
   implementation's observation.  Used by generated case shards. *)
From TT Require Import Lib.Base Model.Router Model.StreamDecor Spec.C11.

(* is the logged reference one of the caller's own set objects (nc: how many the caller owns) *)
Definition own (nc : nat) (r : tagref) : bool := match r with TLoc l => Nat.ltb l nc | _ => false end.

(* a logged entry with its tag reference read: the caller's own objects in the store right after
   the call (cur), everything else in the store at the end of the run (fin) *)
Definition resolve (nc : nat) (cur fin : store) (r : rentry) : entry :=
  match r with
  | RStart => EStart
  | RStop => EStop
  | RFired => EFired
  | RSt e => ESt (with_tags e (deref (if own nc (v_tags e) then cur else fin) (v_tags e)))
  end.

Definition to_obs (nc : nat) (fin : store) (os : list (list rentry) * store) : step_obs :=
  {| s_raised := false; s_new := map (map (resolve nc (snd os) fin)) (fst os); s_caller := firstn nc (snd os) |}.

Definition model (i : input) : obs :=
  let fin := final_store (tree i) (ops i) (caller i) in
  {| o_steps := map (to_obs (length (caller i)) fin) (run (tree i) (ops i) (caller i)) |}.

Definition step_obs_eqb (a b : step_obs) : bool :=
  Bool.eqb (s_raised a) (s_raised b)
  && list_eqb (list_eqb entry_eqb) (s_new a) (s_new b)
  && store_eqb (s_caller a) (s_caller b).

Definition obs_eqb (a b : obs) : bool := list_eqb step_obs_eqb (o_steps a) (o_steps b).

Definition report := @report input obs model obs_eqb spec_okb findings.
Definition model_at := @model_at input obs model spec_okb.
