(* C11 - what the model observes for an input, and the comparison with the
   implementation's observation.  Used by generated case shards. *)
From TT Require Import Lib.Base Model.Router Model.StreamDecor Spec.C11.

(* a logged entry with its tag reference read in the store at the end of the run *)
Definition resolve (fin : store) (r : rentry) : entry :=
  match r with
  | RStart => EStart
  | RStop => EStop
  | RFired => EFired
  | RSt e => ESt (with_tags e (deref fin (v_tags e)))
  end.

Definition model (i : input) : obs :=
  let fin := final_store (tree i) (ops i) (caller i) in
  {| o_steps := map (fun os => {| s_raised := false;
                                  s_new := map (map (resolve fin)) (fst os);
                                  s_caller := firstn (length (caller i)) (snd os) |})
                    (run (tree i) (ops i) (caller i)) |}.

Definition step_obs_eqb (a b : step_obs) : bool :=
  Bool.eqb (s_raised a) (s_raised b)
  && list_eqb (list_eqb entry_eqb) (s_new a) (s_new b)
  && store_eqb (s_caller a) (s_caller b).

Definition obs_eqb (a b : obs) : bool := list_eqb step_obs_eqb (o_steps a) (o_steps b).

Definition report := @report input obs model obs_eqb spec_okb findings.
Definition model_at := @model_at input obs model spec_okb.
