(* C10 - what the model observes for an input, and the comparison with the
   implementation's observation.  Used by generated case shards. *)
From Coq Require Import String.
From TT Require Import Lib.Base Lib.Bytestr Model.StreamRec Spec.C10.

(* short monomorphic constructors for the Gallina printer *)
Definition E := @Ev nat.
Definition R := @Rcd nat.

Definition sum_obs (s : summary) : sumobs :=
  {| so_run := s_run s; so_failures := s_failures s; so_errors := s_errors s; so_skipped := s_skipped s;
     so_xfail := s_xfail s; so_uxs := s_uxsuccess s; so_ok := was_successful s |}.

Definition model (i : input) : obs :=
  {| o_dicts := consume parse10 (evs i);                 (* StreamToDict(on_test) *)
     o_sum := sum_obs (summarize parse10 (evs i));       (* StreamSummary *)
     o_ext := s2e_log parse10 (evs i) |}.                (* StreamToExtendedDecorator(ExtendedTestResult) *)

Definition sum_tuple (s : sumobs) :=
  (so_run s, (so_failures s, (so_errors s, (so_skipped s, (so_xfail s, (so_uxs s, so_ok s)))))).
Definition sum_eqb (a b : sumobs) : bool :=
  pair_eqb Nat.eqb (pair_eqb ids_eqb (pair_eqb ids_eqb (pair_eqb ids_eqb (pair_eqb ids_eqb
    (pair_eqb ids_eqb Bool.eqb))))) (sum_tuple a) (sum_tuple b).

(* the tags() calls that reach the extended result are not compared (the tags
   current at each outcome are part of LOutcome) *)
Definition alpha (o : obs) : obs :=
  {| o_dicts := o_dicts o; o_sum := o_sum o; o_ext := strip (o_ext o) |}.

Definition obs_eqb (a b : obs) : bool :=
  list_eqb rec_eqb (o_dicts a) (o_dicts b)
  && sum_eqb (o_sum a) (o_sum b)
  && list_eqb lev_eqb (strip (o_ext a)) (strip (o_ext b)).

Definition report := @report input obs model obs_eqb spec_okb findings.
Definition model_at := @model_at input obs model spec_okb.
