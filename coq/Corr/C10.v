(* C10 - what the model observes for an input, and the comparison with the
   implementation's observation.  Used by generated case shards. *)
From Coq Require Import String Permutation.
From TT Require Import Lib.Base Lib.Bytestr Model.StreamRec Spec.C10.

(* short monomorphic constructors for the Gallina printer *)
Definition E := @Ev nat.
Definition R := @Rcd nat.

Definition sum_lists (s : summary) : sumlists :=
  {| sl_run := s_run s; sl_failures := s_failures s; sl_errors := s_errors s; sl_skipped := s_skipped s;
     sl_xfail := s_xfail s; sl_uxs := s_uxsuccess s |}.

(* The model reports the incomplete tests in dict.popitem order (last inserted first), which is
   one of the orders the statement allows. *)
Definition model (i : input) : obs :=
  let es := evs i in
  let es' := filter not_exists es in                                   (* StreamToExtendedDecorator.status drops 'exists' *)
  {| o_dicts := consume_from parse10 false [] es;                      (* StreamToDict(on_test): the status() calls *)
     o_flush := flush (tbl_after parse10 [] es);                       (* ... and stopTestRun *)
     o_pre := sum_lists (fold_left gather (consume_from parse10 false [] es) summary0);      (* StreamSummary *)
     o_sum := sum_lists (summarize parse10 es);
     o_ok := was_successful (summarize parse10 es);
     o_ext := [LStartRun] ++ flat_map replay (consume_from parse10 false [] es');            (* StreamToExtendedDecorator *)
     o_extflush := flat_map replay (flush (tbl_after parse10 [] es')) ++ [LStopRun] |}.

(* ---------- comparison of two observations ---------- *)
(* Two observations are the same for C10 when they agree on everything the statement pins down:
   - everything reported before stopTestRun, exactly (the tags() calls that reach the extended result are
     not compared; the tags current at each outcome are part of LOutcome);
   - what stopTestRun reports, as a multiset of whole tests: the dicts, the entries appended to each
     StreamSummary list, the per-test blocks of calls on the extended result (each ending with stopTest),
     followed by the same remainder (stopTestRun). *)
Definition tail_perm {A} (n : nat) (a b : list A) : Prop :=
  firstn n a = firstn n b /\ Permutation (skipn n a) (skipn n b).
Definition tail_permb {A} (eqb : A -> A -> bool) (n : nat) (a b : list A) : bool :=
  list_eqb eqb (firstn n a) (firstn n b) && perm_eqb eqb (skipn n a) (skipn n b).

Definition sl_tuple (s : sumlists) :=
  (sl_run s, (sl_failures s, (sl_errors s, (sl_skipped s, (sl_xfail s, sl_uxs s))))).
Definition sl_eqb (a b : sumlists) : bool :=
  pair_eqb Nat.eqb (pair_eqb ids_eqb (pair_eqb ids_eqb (pair_eqb ids_eqb (pair_eqb ids_eqb ids_eqb))))
    (sl_tuple a) (sl_tuple b).

Definition ext_blocks (log : list lev) : list (list lev) * list lev := blocks [] (strip log).

(* the lists of a StreamSummary after stopTestRun: what was there before it (n entries) in order, the rest as a multiset *)
Definition sum_equiv (pre fa fb : sumlists) : Prop :=
  sl_run fa = sl_run fb
  /\ tail_perm (List.length (sl_failures pre)) (sl_failures fa) (sl_failures fb)
  /\ tail_perm (List.length (sl_errors pre)) (sl_errors fa) (sl_errors fb)
  /\ tail_perm (List.length (sl_skipped pre)) (sl_skipped fa) (sl_skipped fb)
  /\ tail_perm (List.length (sl_xfail pre)) (sl_xfail fa) (sl_xfail fb)
  /\ tail_perm (List.length (sl_uxs pre)) (sl_uxs fa) (sl_uxs fb).
Definition sum_equivb (pre fa fb : sumlists) : bool :=
  Nat.eqb (sl_run fa) (sl_run fb)
  && tail_permb Nat.eqb (List.length (sl_failures pre)) (sl_failures fa) (sl_failures fb)
  && tail_permb Nat.eqb (List.length (sl_errors pre)) (sl_errors fa) (sl_errors fb)
  && tail_permb Nat.eqb (List.length (sl_skipped pre)) (sl_skipped fa) (sl_skipped fb)
  && tail_permb Nat.eqb (List.length (sl_xfail pre)) (sl_xfail fa) (sl_xfail fb)
  && tail_permb Nat.eqb (List.length (sl_uxs pre)) (sl_uxs fa) (sl_uxs fb).

Definition obs_equiv (a b : obs) : Prop :=
  o_dicts a = o_dicts b
  /\ Permutation (o_flush a) (o_flush b)
  /\ o_pre a = o_pre b
  /\ sum_equiv (o_pre a) (o_sum a) (o_sum b)
  /\ o_ok a = o_ok b
  /\ strip (o_ext a) = strip (o_ext b)
  /\ Permutation (fst (ext_blocks (o_extflush a))) (fst (ext_blocks (o_extflush b)))
  /\ snd (ext_blocks (o_extflush a)) = snd (ext_blocks (o_extflush b)).

Definition obs_eqb (a b : obs) : bool :=
  list_eqb rec_eqb (o_dicts a) (o_dicts b)
  && perm_eqb rec_eqb (o_flush a) (o_flush b)
  && sl_eqb (o_pre a) (o_pre b)
  && sum_equivb (o_pre a) (o_sum a) (o_sum b)
  && Bool.eqb (o_ok a) (o_ok b)
  && list_eqb lev_eqb (strip (o_ext a)) (strip (o_ext b))
  && perm_eqb (list_eqb lev_eqb) (fst (ext_blocks (o_extflush a))) (fst (ext_blocks (o_extflush b)))
  && list_eqb lev_eqb (snd (ext_blocks (o_extflush a))) (snd (ext_blocks (o_extflush b))).

Definition report := @report input obs model obs_eqb spec_okb findings.
Definition model_at := @model_at input obs model spec_okb.
