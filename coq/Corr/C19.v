(* C19 - what the model observes for an input, and the comparison with the
   implementation's observation.  Used by generated case shards. *)
From TT Require Import Lib.Base Lib.Sort Model.Suites Spec.C19.

Definition obs_member (n : node) : member :=
  (match n with Case _ => true | _ => false end, iterate n).

Definition model (i : input) : obs :=
  {| o_iter := iterate (tree i);
     o_filter := map grouped (paths (filter_ids (fun x => mem x (keep i)) (tree i)));
     o_sorted := match sorted_tests (unpack i) (tree i) with
                 | Ok (Plain ms) => Ok (map obs_member ms)
                 | Ok n => Ok [obs_member n]
                 | Raised e => Raised e
                 end;
     o_list := list_test (tree i);
     o_cli_list := cli_list (tree i);
     o_cli_run := cli_run (cli_load (names i) (file i) (tree i));
     o_cli_both := cli_list (cli_load (names i) (file i) (tree i)) |}.

Definition member_eqb : member -> member -> bool := pair_eqb Bool.eqb (list_eqb Nat.eqb).

Definition obs_eqb (a b : obs) : bool :=
  list_eqb Nat.eqb (o_iter a) (o_iter b)
  && list_eqb group_eqb (o_filter a) (o_filter b)
  && res_eqb (list_eqb member_eqb) exn_eqb (o_sorted a) (o_sorted b)
  && list_eqb Nat.eqb (o_list a) (o_list b)
  && list_eqb Nat.eqb (o_cli_list a) (o_cli_list b)
  && list_eqb Nat.eqb (o_cli_run a) (o_cli_run b)
  && list_eqb Nat.eqb (o_cli_both a) (o_cli_both b).

Definition report := @report input obs model obs_eqb spec_okb findings.
Definition model_at := @model_at input obs model spec_okb.
