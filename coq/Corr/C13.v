(* C13 - what the model observes for an input, and the comparison with the implementation's
   observation.  Used by generated case shards. *)
From TT Require Import Lib.Base Model.Tfr Model.Concur Spec.C12 Spec.C13.

Definition model (i : input) : obs :=
  match i with
  | IClassic ci =>
      let c := crun ci in
      {| o_trace := k_log c; o_raised := k_raised c; o_live := k_live c; o_stops := k_stops c;
         o_deadlock := negb (call_done c);
         o_sem_free := match k_sem c with None => true | Some _ => false end |}
  | IStream si =>
      let c := srun si in
      {| o_trace := s_log c; o_raised := s_raised c; o_live := s_live c; o_stops := s_stops c;
         o_deadlock := negb (sall_done c); o_sem_free := true |}
  end.

Definition tev_eqb : tid * cev -> tid * cev -> bool := pair_eqb Nat.eqb cev_eqb.

(* What is compared with the model: the observation as far as the statement fixes it, whatever synchronisation
   primitives the suite uses and whether or not it has a completion / event queue.
   - per started worker: its own calls on the caller's result in its order (classic: its sections of the log),
     and - for a normal return - what main passed on from it (stream: delivered events with route code and
     timestamp).  For an aborted run the delivered events are only a prefix whose length depends on the
     interleaving: not compared (spec_okb judges the prefix on the implementation's trace).
   - which sub-suites were started (each once, by the caller), whether run() raised, deadlock, semaphore free.
   - the live flags for a normal return only.
   - the workers told to stop: only when the abort came from make_tests (nobody has finished then in any
     implementation's bookkeeping: all started workers); for an interrupt or a raising caller's result how far
     everybody had got depends on the interleaving, for a raising stop() nothing is demanded.
   Queue put / get events, joins and their order, main's acquire/stop()/release, and the global interleaving
   (an artefact of the deterministic scheduler) are internal: forgotten. *)
Definition cg_of (t : tid) (tr : list (tid * cev)) : list gev :=
  flat_map (fun e => match e with (u, CG g) => if u =? t then [g] else [] | _ => [] end) tr.

Record aobs := {
  a_spawns : list nat;
  a_workers : list (list gev * list (nat * nat * rcode * tstamp * bool));
  a_rest : list (tid * cev); a_raised : bool; a_live : list bool;
  a_stops : list nat; a_deadlock : bool; a_sem_free : bool }.

Definition alpha (o : obs) : aobs :=
  let tr := o_trace o in
  let n := length (spawns tr) in
  {| a_spawns := spawns tr;
     a_workers := map (fun w => (cg_of (S w) tr, if o_raised o then [] else delivered w tr)) (seq 0 n);
     a_rest := filter (fun e => match snd e with CG _ => n <? fst e | _ => false end) tr;
     a_raised := o_raised o;
     a_live := if o_raised o then map (fun _ => false) (o_live o) else o_live o;
     a_stops := if has_intr tr || status_raised tr || existsb (fun b => b) (main_stops tr) then []
                else filter (fun w => memb w (o_stops o)) (spawns tr);
     a_deadlock := o_deadlock o;
     a_sem_free := o_sem_free o |}.

Definition gev_list_eqb := list_eqb gev_eqb.
Definition dl_eqb (a b : nat * nat * rcode * tstamp * bool) : bool :=
  ev3_eqb (fst a) (fst b) && Bool.eqb (snd a) (snd b).

Definition aobs_eqb (a b : aobs) : bool :=
  list_eqb Nat.eqb (a_spawns a) (a_spawns b)
  && list_eqb (pair_eqb gev_list_eqb (list_eqb dl_eqb)) (a_workers a) (a_workers b)
  && list_eqb tev_eqb (a_rest a) (a_rest b)
  && Bool.eqb (a_raised a) (a_raised b)
  && list_eqb Bool.eqb (a_live a) (a_live b)
  && list_eqb Nat.eqb (a_stops a) (a_stops b)
  && Bool.eqb (a_deadlock a) (a_deadlock b)
  && Bool.eqb (a_sem_free a) (a_sem_free b).

Definition obs_eqb (a b : obs) : bool := aobs_eqb (alpha a) (alpha b).

Definition report := @report input obs model obs_eqb spec_okb findings.
Definition model_at := @model_at input obs model spec_okb.
