(* C13 - what the model observes for an input, and the comparison with the implementation's
   observation.  Used by generated case shards. *)
From TT Require Import Lib.Base Model.Tfr Model.Concur Spec.C12 Spec.C13.

Definition model (i : input) : obs :=
  match i with
  | IClassic ci =>
      let c := crun ci in
      {| o_trace := k_log c; o_raised := k_raised c; o_live := k_live c; o_stops := k_stops c;
         o_deadlock := negb (call_done c);
         o_sem_free := match k_sem c with None => true | Some _ => false end |}
  | IStream si =>
      let c := srun si in
      {| o_trace := s_log c; o_raised := s_raised c; o_live := s_live c; o_stops := s_stops c;
         o_deadlock := negb (sall_done c); o_sem_free := true |}
  end.

Definition tev_eqb : tid * cev -> tid * cev -> bool := pair_eqb Nat.eqb cev_eqb.

(* What is compared with the model: the observation as far as the statement fixes it.
   - The global interleaving of the trace is an artefact of the deterministic scheduler (it shifts as soon as
     some thread performs one shared operation more or less); the statement speaks about each thread's own
     events in that thread's order, so the trace is compared thread by thread.  (Mutual exclusion, i.e. how
     the threads' sections may interleave, is judged by spec_okb on the implementation's trace itself.)
   - main's own acquire / stop() / release on the caller's result inside the abort handler: how many stop()
     calls there are and in which order is left open (see Spec.common_okb); they are not compared.
   - which workers were still alive when run() ended is fixed only for a normal return.
   - the workers told to stop: the statement demands that every started, not yet joined worker is among them
     unless a stop() of the caller's result itself raised; order, and whether joined workers are told too, is
     open.  Compared: the started-and-unjoined workers that were told, as a set in start order; nothing when a
     stop() of the caller's result raised. *)
Definition is_main_cg (e : tid * cev) : bool := match e with (0, CG _) => true | _ => false end.
Definition tproj (t : tid) (tr : list (tid * cev)) : list cev := map snd (filter (fun e => fst e =? t) tr).

Record aobs := {
  a_threads : list (list cev); a_rest : list (tid * cev); a_raised : bool; a_live : list bool;
  a_stops : list nat; a_deadlock : bool; a_sem_free : bool }.

Definition alpha (o : obs) : aobs :=
  let tr := filter (fun e => negb (is_main_cg e)) (o_trace o) in
  let n := length (spawns (o_trace o)) in
  {| a_threads := map (fun t => tproj t tr) (seq 0 (S n));
     a_rest := filter (fun e => n <? fst e) tr;
     a_raised := o_raised o;
     a_live := if o_raised o then map (fun _ => false) (o_live o) else o_live o;
     a_stops := if existsb (fun b => b) (main_stops (o_trace o)) then []
                else filter (fun w => memb w (o_stops o) && negb (memb w (joins (o_trace o)))) (spawns (o_trace o));
     a_deadlock := o_deadlock o;
     a_sem_free := o_sem_free o |}.

Definition aobs_eqb (a b : aobs) : bool :=
  list_eqb (list_eqb cev_eqb) (a_threads a) (a_threads b)
  && list_eqb tev_eqb (a_rest a) (a_rest b)
  && Bool.eqb (a_raised a) (a_raised b)
  && list_eqb Bool.eqb (a_live a) (a_live b)
  && list_eqb Nat.eqb (a_stops a) (a_stops b)
  && Bool.eqb (a_deadlock a) (a_deadlock b)
  && Bool.eqb (a_sem_free a) (a_sem_free b).

Definition obs_eqb (a b : obs) : bool := aobs_eqb (alpha a) (alpha b).

Definition report := @report input obs model obs_eqb spec_okb findings.
Definition model_at := @model_at input obs model spec_okb.
