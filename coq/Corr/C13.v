(* C13 - what the model observes for an input, and the comparison with the implementation's
   observation.  Used by generated case shards. *)
From TT Require Import Lib.Base Model.Tfr Model.Concur Spec.C12 Spec.C13.

Definition model (i : input) : obs :=
  match i with
  | IClassic ci =>
      let c := crun ci in
      {| o_trace := k_log c; o_raised := k_raised c; o_live := k_live c; o_stops := k_stops c;
         o_deadlock := negb (call_done c);
         o_sem_free := match k_sem c with None => true | Some _ => false end |}
  | IStream si =>
      let c := srun si in
      {| o_trace := s_log c; o_raised := s_raised c; o_live := s_live c; o_stops := s_stops c;
         o_deadlock := negb (sall_done c); o_sem_free := true |}
  end.

Definition tev_eqb : tid * cev -> tid * cev -> bool := pair_eqb Nat.eqb cev_eqb.

Definition obs_eqb (a b : obs) : bool :=
  list_eqb tev_eqb (o_trace a) (o_trace b)
  && Bool.eqb (o_raised a) (o_raised b)
  && list_eqb Bool.eqb (o_live a) (o_live b)
  && list_eqb Nat.eqb (o_stops a) (o_stops b)
  && Bool.eqb (o_deadlock a) (o_deadlock b)
  && Bool.eqb (o_sem_free a) (o_sem_free b).

Definition report := @report input obs model obs_eqb spec_okb findings.
Definition model_at := @model_at input obs model spec_okb.
