(* C09 - what the model observes for a history, and the comparison with the
   implementation's observation.  Used by generated case shards. *)
From Coq Require Import String.
From TT Require Import Lib.Base Lib.Sort Lib.Bytestr Model.Mime Model.StreamRec Model.StreamConv Spec.C09.
Open Scope list_scope.

(* short constructors for the Gallina printer *)
Definition Es := @Ev string.
Definition CT := CType.
Definition D := Detail.

Definition model (i : input) : obs :=
  {| o_mid := mid_stream (hist i); o_fin := final_log (hist i) |}.

(* structural comparison of abstracted observations *)
Definition octype_eqb := option_eqb ctype_eqb.
Definition onat_eqb := option_eqb Nat.eqb.
Definition cev_tuple (e : cev) :=
  (e_id e, (e_route e, (e_status e, (e_tags e, (e_fname e, (e_fbytes e, (e_eof e, (e_mime e, e_ts e)))))))).
Definition cev_eqb (a b : cev) : bool :=
  pair_eqb onat_eqb (pair_eqb onat_eqb (pair_eqb (option_eqb status_eqb) (pair_eqb (option_eqb (list_eqb Nat.eqb))
    (pair_eqb onat_eqb (pair_eqb (option_eqb String.eqb) (pair_eqb Bool.eqb (pair_eqb octype_eqb onat_eqb)))))))
    (cev_tuple a) (cev_tuple b).
Definition afile_tuple (f : afile) :=
  (af_id f, (af_route f, (af_name f, (af_ct f, (af_bytes f, (af_closed f, af_ts f)))))).
Definition afile_eqb (a b : afile) : bool :=
  pair_eqb onat_eqb (pair_eqb onat_eqb (pair_eqb Nat.eqb (pair_eqb octype_eqb (pair_eqb String.eqb
    (pair_eqb Bool.eqb onat_eqb))))) (afile_tuple a) (afile_tuple b).
Definition aev_eqb (a b : aev) : bool :=
  match a, b with
  | AStartRun, AStartRun | AStopRun, AStopRun => true
  | ARaw e, ARaw f => cev_eqb e f
  | AFile e, AFile f => afile_eqb e f
  | _, _ => false
  end.
Definition cdetail_eqb : nat * (ctype * string) -> nat * (ctype * string) -> bool :=
  pair_eqb Nat.eqb (pair_eqb ctype_eqb String.eqb).
Definition clog_eqb (a b : clog) : bool :=
  match a, b with
  | LStartRun, LStartRun | LStopRun, LStopRun | LKeyError, LKeyError => true
  | LTime t, LTime u => Nat.eqb t u
  | LTags n g, LTags n' g' => list_eqb Nat.eqb n n' && list_eqb Nat.eqb g g'
  | LStartTest i, LStartTest j | LStopTest i, LStopTest j => Nat.eqb i j
  | LOutcome o i c d, LOutcome o' i' c' d' =>
      outcome_eqb o o' && Nat.eqb i i' && list_eqb Nat.eqb c c' && list_eqb cdetail_eqb d d'
  | _, _ => false
  end.

Definition aobs_eqb (a b : aobs) : bool :=
  list_eqb aev_eqb (a_mid a) (a_mid b) && list_eqb clog_eqb (a_fin a) (a_fin b).
Definition obs_eqb (a b : obs) : bool := aobs_eqb (alpha a) (alpha b).

Definition report := @report input obs model obs_eqb spec_okb findings.
Definition model_at := @model_at input obs model spec_okb.
