(* C08 - what the model observes for an input, and the comparison with the implementation's
   observation.  Used by generated case shards. *)
From TT Require Import Lib.Base Model.Adapters Spec.C08.

(* abbreviations used by the generated case files *)
Definition tc (k : nat) : test := {| tid := k; tk := TCase |}.
Definition th (k : nat) : test := {| tid := k; tk := THolder |}.

Definition model (i : input) : obs :=
  let r := run (stack i) (hist i) in
  {| o_leaves := fst r; o_raised := snd r |}.

(* The comparison forgets what the statement leaves open: the wording of a synthetic
   _StringException and of a skip reason (the statement constrains them relative to the input,
   which spec_okb checks), and the difference between addSuccess(test) and
   addSuccess(test, details={}) (doubles.ExtendedTestResult logs them alike). *)
Definition norm_errv (e : errv) : errv := match e with Str _ => Str [] | _ => e end.
Definition norm_call (c : call) : call :=
  match c with
  | AddErr k t (inl e) => AddErr k t (inl (norm_errv e))
  | AddSkip t (inl _) => AddSkip t (inl [])
  | AddOk KSuccess t (Some []) => AddOk KSuccess t None
  | _ => c
  end.
Definition norm_leaf (l : leaf_obs) : leaf_obs :=
  match l with OLog cs => OLog (map norm_call cs) | OCbs _ => l end.
Definition alpha (o : obs) : obs :=
  {| o_leaves := map norm_leaf (o_leaves o); o_raised := o_raised o |}.

Definition cb_eqb (a b : cb) : bool :=
  test_eqb (cb_test a) (cb_test b)
  && option_eqb Nat.eqb (cb_status a) (cb_status b)
  && option_eqb Nat.eqb (cb_start a) (cb_start b)
  && option_eqb Nat.eqb (cb_stop a) (cb_stop b)
  && tags_eqb (cb_tags a) (cb_tags b)
  && option_eqb details_eqb (cb_details a) (cb_details b).
Definition leaf_obs_eqb (a b : leaf_obs) : bool :=
  match a, b with
  | OLog x, OLog y => list_eqb call_eqb x y
  | OCbs x, OCbs y => list_eqb cb_eqb x y
  | _, _ => false
  end.
Definition raw_eqb (a b : obs) : bool :=
  list_eqb leaf_obs_eqb (o_leaves a) (o_leaves b)
  && list_eqb (pair_eqb Nat.eqb exn_eqb) (o_raised a) (o_raised b).
Definition obs_eqb (a b : obs) : bool := raw_eqb (alpha a) (alpha b).

Definition report := @report input obs model obs_eqb spec_okb findings.
Definition model_at := @model_at input obs model spec_okb.
