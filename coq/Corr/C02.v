(* C02 - what the model observes for an input (two runs of one instance), and the comparison. *)
From TT Require Import Lib.Base Gen.Handlers Model.Run Spec.Run Spec.C02.

Definition outs_of (t : list tev) : list outcome :=
  flat_map (fun e => match e with TOut o _ => [o] | _ => [] end) t.

(* a run starting from instance state s0: the observation and the state afterwards.  The harness
   clears its log and the result's event list before each run. *)
Definition observe (p : prog) (s0 : st) : runobs * st :=
  let '(s, _, oof) := run_from p (set_tr [] (set_log [] s0)) in
  ({| r_log := log s; r_left := if oof then 1 + length (stack s) else length (stack s);
      r_attrs := attrs s; r_outs := outs_of (tr s) |}, s).

Definition model (i : input) : obs :=
  let '(r1, s1) := observe (i_prog i) (init (i_prog i) (i_attrs i)) in
  let '(r2, _) := observe (i_prog i) s1 in
  {| o_first := r1; o_second := r2 |}.

(* what the statement pins down of an observation: per run the log, the leftovers and the namespaces of the
   patched objects as a mapping over the keys the harness uses (Model.Run.normal: Python fixes no order
   across objects); of the outcomes only whether the second run repeats the first (which outcome it is, is
   C03's subject) *)
Definition repeats (o : obs) : bool := list_eqb outcome_eqb (r_outs (o_second o)) (r_outs (o_first o)).
Definition alpha (o : obs) :=
  (r_log (o_first o), r_left (o_first o), normal (r_attrs (o_first o)),
   (r_log (o_second o), r_left (o_second o), normal (r_attrs (o_second o))), repeats o).
Definition runobs_eqb (a b : runobs) : bool :=
  list_eqb lev_eqb (r_log a) (r_log b) && Nat.eqb (r_left a) (r_left b)
  && list_eqb nn_eqb (normal (r_attrs a)) (normal (r_attrs b)).
Definition obs_eqb (a b : obs) : bool :=
  runobs_eqb (o_first a) (o_first b) && runobs_eqb (o_second a) (o_second b) && Bool.eqb (repeats a) (repeats b).

Definition report := @Base.report input obs model obs_eqb spec_okb findings.
Definition model_at := @Base.model_at input obs model spec_okb.
