(* C12 - what the model observes for an input, and the comparison with the implementation's
   observation.  Used by generated case shards. *)
From TT Require Import Lib.Base Model.Tfr Spec.C12.

Definition model (i : input) : obs :=
  let c := run (threads i) (sched i) in
  {| o_log := glog c;
     o_sem_free := match sem c with None => true | Some _ => false end;
     o_deadlock := negb (all_finished c) |}.

Definition ev_eqb : tid * gev -> tid * gev -> bool := pair_eqb Nat.eqb gev_eqb.

Definition obs_eqb (a b : obs) : bool :=
  list_eqb ev_eqb (o_log a) (o_log b)
  && Bool.eqb (o_sem_free a) (o_sem_free b)
  && Bool.eqb (o_deadlock a) (o_deadlock b).

Definition report := @report input obs model obs_eqb spec_okb findings.
Definition model_at := @model_at input obs model spec_okb.
