(* C12 - what the model observes for an input, and the comparison with the implementation's
   observation.  Used by generated case shards. *)
From TT Require Import Lib.Base Model.Tfr Spec.C12.

Definition model (i : input) : obs :=
  let c := run (threads i) (sched i) in
  {| o_log := glog c;
     o_sem_free := match sem c with None => true | Some _ => false end;
     o_deadlock := negb (all_finished c);
     o_wf := wf_flags (threads i) |}.

Definition ev_eqb : tid * gev -> tid * gev -> bool := pair_eqb Nat.eqb gev_eqb.

(* What is compared with the model.  The statement fixes the exact log of a thread only where that thread
   reports well-formed tests; for any other use (an outcome without startTest, startTestRun in the middle of
   the thread's own test, ...) it demands mutual exclusion, the section structure, release and no deadlock -
   which spec_okb judges on the implementation's observation itself - and leaves the contents, length and
   number of that thread's blocks open.  So: the global log (whose interleaving, under the deterministic
   scheduler, depends on how many operations every thread performs) is compared only when EVERY thread is
   well-formed; otherwise only the own parts of the well-formed threads (independent of the schedule). *)
Record aobs := { a_log : list (tid * gev); a_threads : list (list gev); a_sem_free : bool; a_deadlock : bool;
                 a_wf : list bool }.

Fixpoint own_logs (log : list (tid * gev)) (t : nat) (wf : list bool) : list (list gev) :=
  match wf with
  | [] => []
  | b :: r => (if b then proj t log else []) :: own_logs log (S t) r
  end.

Definition alpha (o : obs) : aobs :=
  {| a_log := if forallb (fun b => b) (o_wf o) then o_log o else [];
     a_threads := own_logs (o_log o) 0 (o_wf o);
     a_sem_free := o_sem_free o; a_deadlock := o_deadlock o; a_wf := o_wf o |}.

Definition aobs_eqb (a b : aobs) : bool :=
  list_eqb ev_eqb (a_log a) (a_log b)
  && list_eqb (list_eqb gev_eqb) (a_threads a) (a_threads b)
  && Bool.eqb (a_sem_free a) (a_sem_free b)
  && Bool.eqb (a_deadlock a) (a_deadlock b)
  && list_eqb Bool.eqb (a_wf a) (a_wf b).

Definition obs_eqb (a b : obs) : bool := aobs_eqb (alpha a) (alpha b).

Definition report := @report input obs model obs_eqb spec_okb findings.
Definition model_at := @model_at input obs model spec_okb.
