(* C16 - what the model observes for an input, and the comparison with the
   implementation's observation.  Used by generated case shards. *)
From Coq Require Import String.
From TT Require Import Lib.Base Lib.Sort Model.Utf8 Model.MimeCt Gen.Ctc16 Model.Content Spec.C16.

Definition w_init (data : list N) (pos : nat) (sizes : list nat) : world :=
  {| w_data := data; w_pos := pos; w_reads := 0; w_heap := []; w_sizes := sizes |}.
(* the harness overwrites the source between creation and iteration (its own accesses are not counted) *)
Definition set_source (w : world) (data : list N) (pos : nat) : world :=
  {| w_data := data; w_pos := pos; w_reads := w_reads w; w_heap := w_heap w; w_sizes := w_sizes w |}.
Definition w0 : world := w_init [] 0 [].    (* scenarios without a mutable source *)

Definition joined (r : res (list chunk) exn) : list N := match r with Ok cs => concat cs | Raised _ => [] end.

(* params in a canonical order (the harness sorts the dict items by key) *)
Definition canon_ct (ct : ctype) : ctype :=
  {| ct_type := ct_type ct; ct_sub := ct_sub ct;
     ct_params := isort (fun a b => str_leb (fst a) (fst b)) (ct_params ct) |}.

Fixpoint rle {A} (eqb : A -> A -> bool) (l : list A) : list (A * nat) :=
  match l with
  | [] => []
  | x :: r =>
      match rle eqb r with
      | (y, n) :: t => if eqb x y then (y, S n) :: t else (x, 1) :: (y, n) :: t
      | [] => [(x, 1)]
      end
  end.

Definition model_reader (r : reader_in) : obs :=
  let wa := w_init (r_data0 r) (r_pos0 r) (r_sizes r) in
  match content_from_source (r_kind r) None (r_chunk r) (r_buffer r) (r_seek r) wa with
  | (Raised e, wb) => OReader (Some e) (Nat.ltb 0 (w_reads wb)) (Raised e) false (Raised e) false
  | (Ok c, wb) =>
      let wc := set_source wb (r_data1 r) (r_pos1 r) in
      let (i1, wd) := iter_bytes c wc in
      let (i2, we) := iter_bytes c wd in
      OReader None (Nat.ltb 0 (w_reads wb)) i1 (Nat.ltb (w_reads wc) (w_reads wd)) i2 (Nat.ltb (w_reads wd) (w_reads we))
  end.

Definition model_snap (r : reader_in) : obs :=
  let wa := w_init (r_data0 r) (r_pos0 r) (r_sizes r) in
  match content_from_source (r_kind r) None (r_chunk r) false (r_seek r) wa with
  | (Raised e, _) => OSnap (Some e) false (Raised e) (Raised e) false (Raised e)     (* cannot happen: lazy *)
  | (Ok c, wb) =>
      match copy_content c wb with
      | (Raised e, _) => OSnap (Some e) false (Raised e) (Raised e) false (Raised e)
      | (Ok cp, wc) =>
          let wd := set_source wc (r_data1 r) (r_pos1 r) in
          let (c1, we) := iter_bytes cp wd in
          let (c2, wx) := iter_bytes cp we in
          let (og, _) := iter_bytes c wx in
          OSnap None (ct_eqb (c_type cp) (c_type c)) c1 c2 (Nat.ltb (w_reads wd) (w_reads wx)) og
      end
  end.

(* the harness mutates the source list (location 0) after the copy was made *)
Definition mutate (w : world) (l : loc) (v : list chunk) : world :=
  {| w_data := w_data w; w_pos := w_pos w; w_reads := w_reads w; w_heap := heap_set l v (w_heap w);
     w_sizes := w_sizes w |}.

Definition model_snaplist (r : snaplist_in) : obs :=
  let wa := {| w_data := []; w_pos := 0; w_reads := 0; w_heap := [sl_buf r]; w_sizes := [] |} in
  let c := {| c_type := UTF8_TEXT; c_src := if sl_tuple r then Stored (sl_buf r) else InList 0 |} in
  match copy_content c wa with
  | (Raised e, _) => OSnapList false (Raised e) (Raised e) (Raised e)          (* cannot happen *)
  | (Ok cp, wb) =>
      let wc := mutate wb 0 (apply_ops (sl_ops r) (sl_buf r)) in
      let (c1, wd) := iter_bytes cp wc in
      let (c2, we) := iter_bytes cp wd in
      let (og, _) := iter_bytes c we in
      OSnapList (ct_eqb (c_type cp) (c_type c)) c1 c2 og
  end.

Definition model_readerlist (buffer : bool) (r : snaplist_in) : obs :=
  let wa := {| w_data := []; w_pos := 0; w_reads := 0; w_heap := [sl_buf r]; w_sizes := [] |} in
  match content_from_reader (if sl_tuple r then Stored (sl_buf r) else InList 0) None buffer wa with
  | (Raised e, _) => OReaderList (Raised e) (Raised e)          (* cannot happen *)
  | (Ok c, wb) =>
      let wc := mutate wb 0 (apply_ops (sl_ops r) (sl_buf r)) in
      let (i1, wd) := iter_bytes c wc in
      let (i2, _) := iter_bytes c wd in
      OReaderList i1 i2
  end.

Definition model (i : input) : obs :=
  match i with
  | IText s =>
      let c := text_content s in
      OText (canon_ct (c_type c)) (joined (fst (iter_bytes c w0))) (fst (as_text c w0))
  | IJson d =>
      let c := json_content (list N) (fun x => x) d in
      OJson (canon_ct (c_type c)) (joined (fst (iter_bytes c w0)))
  | IChunks ct chunks =>
      let c := {| c_type := ct; c_src := Stored chunks |} in
      OChunks (joined (fst (iter_bytes c w0))) (fst (as_text c w0))
  | ISplits cs data =>
      OSplits (rle tres_eqb (map (fun s => fst (as_text {| c_type := text_ct cs; c_src := Stored s |} w0))
                                 (all_splits data)))
  | IReader r => model_reader r
  | ISnap r => model_snap r
  | ISnapList r => model_snaplist r
  | IReaderList b r => model_readerlist b r
  | IEq ta ca tb cb =>
      let a := {| c_type := ta; c_src := Stored ca |} in
      let b := {| c_type := tb; c_src := Stored cb |} in
      match fst (content_eq a b w0) with
      | Ok e => OEq e (negb e)
      | Raised _ => OEq false false          (* cannot happen for stored sources *)
      end
  | IMime ct =>
      OMime ct (make_content_type (render ct))
  | IHist ct chunks oracle ops => OHist (read_history ct chunks oracle ops)
  end.

(* ---------------- comparison ----------------
   Chunk lists are compared by what the statement pins down: the joined bytes
   and whether every chunk is non-empty (sizes are checked against chunk_size
   by spec_okb on the implementation's own observation).  A MIME round trip is
   compared by the content type that went in and WHETHER it came back (what a
   mangled content type looks like is not pinned down by the statement). *)
Definition alpha_b (r : bres) : res (list N * bool) exn :=
  match r with Ok cs => Ok (concat cs, forallb nonempty cs) | Raised e => Raised e end.
Definition bres_eqb (a b : bres) : bool :=
  res_eqb (pair_eqb bytes_eqb Bool.eqb) exn_eqb (alpha_b a) (alpha_b b).

Definition perr_eqb (a b : perr) : bool :=
  match a, b with OutOfModel, OutOfModel | ExceptionCantParse, ExceptionCantParse => true | _, _ => false end.

Definition hres_eqb (a b : hres) : bool :=
  match a, b with
  | RNew e, RNew f => option_eqb exn_eqb e f
  | RNoIter, RNoIter | RStepped, RStepped => true
  | RRead t, RRead u => tres_eqb t u
  | _, _ => false
  end.

Definition obs_eqb (a b : obs) : bool :=
  match a, b with
  | OText c1 b1 t1, OText c2 b2 t2 => ctype_eqb c1 c2 && bytes_eqb b1 b2 && tres_eqb t1 t2
  | OJson c1 b1, OJson c2 b2 => ctype_eqb c1 c2 && bytes_eqb b1 b2
  | OChunks b1 t1, OChunks b2 t2 => bytes_eqb b1 b2 && tres_eqb t1 t2
  | OSplits r1, OSplits r2 => list_eqb (pair_eqb tres_eqb Nat.eqb) r1 r2
  | OReader c1 a1 i1 x1 j1 y1, OReader c2 a2 i2 x2 j2 y2 =>
      option_eqb exn_eqb c1 c2 && Bool.eqb a1 a2 && bres_eqb i1 i2 && Bool.eqb x1 x2
      && bres_eqb j1 j2 && Bool.eqb y1 y2
  | OSnap c1 s1 i1 j1 a1 g1, OSnap c2 s2 i2 j2 a2 g2 =>
      option_eqb exn_eqb c1 c2 && Bool.eqb s1 s2 && bres_eqb i1 i2 && bres_eqb j1 j2
      && Bool.eqb a1 a2 && bres_eqb g1 g2
  | OSnapList s1 i1 j1 g1, OSnapList s2 i2 j2 g2 =>
      Bool.eqb s1 s2 && bres_eqb i1 i2 && bres_eqb j1 j2 && bres_eqb g1 g2
  | OReaderList i1 j1, OReaderList i2 j2 => bres_eqb i1 i2 && bres_eqb j1 j2
  | OEq e1 n1, OEq e2 n2 => Bool.eqb e1 e2 && Bool.eqb n1 n2
  | OMime c1 r1, OMime c2 r2 => ctype_eqb c1 c2 && Bool.eqb (survives c1 r1) (survives c2 r2)
  | OHist r1, OHist r2 => list_eqb hres_eqb r1 r2
  | _, _ => false
  end.

Definition report := @report input obs model obs_eqb spec_okb findings.
Definition model_at := @model_at input obs model spec_okb.

(* what obs_eqb compares: the observation with every chunk list replaced by
   (joined bytes, all chunks non-empty) *)
Definition ab := res (list N * bool) exn.
Inductive aobs :=
| AText (ct : ctype) (bytes : list N) (text : tres)
| AJson (ct : ctype) (bytes : list N)
| AChunks (bytes : list N) (text : tres)
| ASplits (runs : list (tres * nat))
| AReader (created : option exn) (rc : bool) (it1 : ab) (r1 : bool) (it2 : ab) (r2 : bool)
| ASnap (copied : option exn) (same : bool) (c1 c2 : ab) (ra : bool) (orig : ab)
| ASnapList (same : bool) (c1 c2 orig : ab)
| AReaderList (it1 it2 : ab)
| AEq (eq ne : bool)
| AMime (echo : ctype) (survived : bool)
| AHist (rs : list hres).

Definition alpha (o : obs) : aobs :=
  match o with
  | OText c b t => AText c b t
  | OJson c b => AJson c b
  | OChunks b t => AChunks b t
  | OSplits r => ASplits r
  | OReader c a i x j y => AReader c a (alpha_b i) x (alpha_b j) y
  | OSnap c s i j a g => ASnap c s (alpha_b i) (alpha_b j) a (alpha_b g)
  | OSnapList s i j g => ASnapList s (alpha_b i) (alpha_b j) (alpha_b g)
  | OReaderList i j => AReaderList (alpha_b i) (alpha_b j)
  | OEq e n => AEq e n
  | OMime c r => AMime c (survives c r)
  | OHist r => AHist r
  end.
