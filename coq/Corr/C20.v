(* C20 - what the model observes, and the comparison with the implementation. *)
From TT Require Import Lib.Base Model.Deferred Model.DeferredMatchers Spec.C20.

Fixpoint run_ops (ops : list op) (d : deferred) (lg : log) : list oobs * deferred * log :=
  match ops with
  | [] => ([], d, lg)
  | o :: r =>
      let '(out, d', lg') := step o d lg in
      let '(xs, d'', lg'') := run_ops r d' lg' in
      (mkO (state_of d) (d_called d) out (state_of d') (d_called d') (length lg' - length lg) :: xs, d'', lg'')
  end.

Definition model_hist (ops : list op) : hobs :=
  let '(xs, d, lg) := run_ops ops new_deferred [] in
  let eops := erase ops new_deferred [] in
  let '(_, de, lge) := run_ops eops new_deferred [] in
  mkH xs lg (unhandled d) eops lge (state_of de) (d_called de) (unhandled de).

Definition fired_stage (s : nat + nat) : stage :=
  match s with
  | inl v => StDeferred (fired_with (RVal v))
  | inr e => StDeferred (fired_with (RErr e))
  end.

Definition model_sync (s : nat + nat) : sobs :=
  mkS (direct_run_user s) (sync_run_user (fired_stage s)) [] [].

Definition model (i : input) : obs :=
  match i with
  | IHist ops => OHist (model_hist ops)
  | ISync _ s => OSync (model_sync s)
  end.

Definition oobs_eqb (a b : oobs) : bool :=
  dstate_eqb (p_before a) (p_before b) && Bool.eqb (p_cbefore a) (p_cbefore b)
  && opout_eqb (p_out a) (p_out b)
  && dstate_eqb (p_after a) (p_after b) && Bool.eqb (p_cafter a) (p_cafter b)
  && Nat.eqb (p_ran a) (p_ran b).

Definition hobs_eqb (a b : hobs) : bool :=
  list_eqb oobs_eqb (h_ops a) (h_ops b)
  && log_eqb (h_log a) (h_log b) && Bool.eqb (h_unhandled a) (h_unhandled b)
  && list_eqb op_eqb (h_eops a) (h_eops b)
  && log_eqb (h_elog a) (h_elog b) && dstate_eqb (h_efinal a) (h_efinal b)
  && Bool.eqb (h_ecalled a) (h_ecalled b) && Bool.eqb (h_eunhandled a) (h_eunhandled b).

(* What extract_result leaves in the Deferred is not pinned by the statement (the current code lets later
   callbacks see None; a passive extract_result is just as good).  So the comparison with the model stops at
   the first extract_result of a history: it keeps the operations before it with everything they showed, the
   state extract_result found and what it returned / raised, the values the recorders saw until then - and
   forgets what came after, the final state, the logging and the reference run.  (spec_okb still judges the
   whole observation of the implementation.) *)
Definition is_extract_out (x : oobs) : bool := match p_out x with OutExtract _ => true | _ => false end.
Fixpoint cut_ops (xs : list oobs) : list oobs * bool :=
  match xs with
  | [] => ([], false)
  | x :: r => if is_extract_out x then ([mkO (p_before x) (p_cbefore x) (p_out x) SUnfired false 0], true)
              else let '(r', b) := cut_ops r in (x :: r', b)
  end.
Definition ran_total (xs : list oobs) : nat := fold_right (fun x n => p_ran x + n) 0 xs.
Definition cut (h : hobs) : hobs :=
  match cut_ops (h_ops h) with
  | (_, false) => h
  | (xs, true) => mkH xs (firstn (ran_total xs) (h_log h)) false [] [] SUnfired false false
  end.

(* the event lists of the two whole-test runs are compared only with each other (the
   model of a whole test run belongs to C01-C03): alpha keeps "are they equal" *)
Definition sobs_alpha (o : sobs) : uret * uret * bool :=
  (s_direct o, s_fired o, list_eqb Nat.eqb (s_ev_direct o) (s_ev_fired o)).

Definition sobs_eqb (a b : sobs) : bool :=
  uret_eqb (s_direct a) (s_direct b) && uret_eqb (s_fired a) (s_fired b)
  && Bool.eqb (list_eqb Nat.eqb (s_ev_direct a) (s_ev_fired a)) (list_eqb Nat.eqb (s_ev_direct b) (s_ev_fired b)).

Definition obs_eqb (a b : obs) : bool :=
  match a, b with
  | OHist x, OHist y => hobs_eqb (cut x) (cut y)
  | OSync x, OSync y => sobs_eqb x y
  | _, _ => false
  end.

Inductive obs_a := AHist (h : hobs) | ASync (x : uret * uret * bool).
Definition alpha (o : obs) : obs_a :=
  match o with OHist h => AHist (cut h) | OSync s => ASync (sobs_alpha s) end.

Definition report := @report input obs model obs_eqb spec_okb findings.
Definition model_at := @model_at input obs model spec_okb.
