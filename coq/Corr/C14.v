(* C14 - what the model observes, and the comparison with the implementation. *)
From TT Require Import Lib.Base Model.AsyncRun Spec.C14.

Definition model (p : input) : obs :=
  let r := run p in
  mkObs (r_events r) (r_stop r) (r_raised r) (r_log r) (r_unrun r) (r_pending r)
        (list_eqb Nat.eqb (r_observers r) (initial_observers p)) (r_cleanups_left r).

(* what the statement pins down = the items of the property's observe_at (result event log with the stop
   request, stage log with virtual timestamps, getDelayedCalls(), observers before/after).  It is silent about what propagates out of run() (that is C01's
   KeyboardInterrupt clause) and about the cleanups that stay registered (after a cut nothing is claimed;
   otherwise the stage log already shows every cleanup running exactly once): alpha forgets both, so a
   change confined to them is not reported against C14 *)
Definition alpha (o : obs) : obs :=
  mkObs (o_events o) (o_stop o) None (o_log o) (o_unrun o) (o_pending o) (o_observers_same o) 0.

Definition obs_eqb (a b : obs) : bool :=
  list_eqb ev_eqb (o_events a) (o_events b)
  && Bool.eqb (o_stop a) (o_stop b)
  && log_eqb (o_log a) (o_log b)
  && Nat.eqb (o_unrun a) (o_unrun b)
  && Nat.eqb (o_pending a) (o_pending b)
  && Bool.eqb (o_observers_same a) (o_observers_same b).

Definition report := @report input obs model obs_eqb spec_okb findings.
Definition model_at := @model_at input obs model spec_okb.
