(* C18 - what the model observes for an input, and the comparison with the
   implementation's observation.  Used by generated case shards. *)
From TT Require Import Lib.Base Model.Router Spec.C18.

(* the calls sink k received, in order *)
Definition calls_for (ds : list delivery) (k : sink) : list call :=
  map snd (filter (fun d => Nat.eqb (fst d) k) ds).
Definition per_sink (n : nat) (ds : list delivery) : list (list call) := map (calls_for ds) (seq 0 n).

Definition to_obs (n : nat) (out : bool * list delivery) : step_obs :=
  {| s_raised := fst out; s_new := per_sink n (snd out) |}.

Definition model (i : input) : obs :=
  {| o_steps := map (to_obs (n_sinks i)) (run (init (fb i) (fb_ss i)) (ops i));
     o_round := flat_map (fun o => match o with Status via e => [e_route (roundtrip via e)] | _ => [] end) (ops i) |}.

Definition step_obs_eqb (a b : step_obs) : bool :=
  Bool.eqb (s_raised a) (s_raised b) && list_eqb (list_eqb call_eqb) (s_new a) (s_new b).

Definition obs_eqb (a b : obs) : bool :=
  list_eqb step_obs_eqb (o_steps a) (o_steps b) && list_eqb route_eqb (o_round a) (o_round b).

Definition report := @report input obs model obs_eqb spec_okb findings.
Definition model_at := @model_at input obs model spec_okb.
