(* C13 - proofs, part 3: ConcurrentTestSuite (the classic suite) on top of the thread-level lemmas of
   Proof/C12.v and the scheduler / queue lemmas of Proof/C13.v. *)
From TT Require Import Lib.Base Model.Tfr Model.Concur Spec.C12 Spec.C13 Corr.C13 Proof.C12 Proof.C13.

(* ====================================================================================== *)
(* 0. small facts                                                                           *)
(* ====================================================================================== *)
Definition stop_count (fl : list bool) (len : nat) : nat :=
  match fl with [] => len | _ :: _ => if existsb (fun b => b) fl then upto_first_true fl else len end.

Lemma repeat_false_snoc p : repeat false p ++ [false] = repeat false (S p).
Proof. induction p as [|p IH]; simpl; [reflexivity | rewrite IH; reflexivity]. Qed.
Lemma existsb_repeat_false p : existsb (fun b : bool => b) (repeat false p) = false.
Proof. induction p as [|p IH]; simpl; [reflexivity | exact IH]. Qed.
Lemma stop_count_false p len : stop_count (repeat false p) len = len.
Proof. destruct p; simpl; [reflexivity|]. rewrite existsb_repeat_false. reflexivity. Qed.
Lemma upto_repeat p : upto_first_true (repeat false p ++ [true]) = S p.
Proof. induction p as [|p IH]; simpl; [reflexivity | rewrite IH; reflexivity]. Qed.
Lemma stop_count_true p len : stop_count (repeat false p ++ [true]) len = S p.
Proof.
  unfold stop_count. destruct (repeat false p ++ [true]) as [|b l] eqn:E.
  - destruct p; discriminate.
  - rewrite <- E, existsb_app. simpl. rewrite orb_true_r. apply upto_repeat.
Qed.
Lemma stop_count_none fl len : existsb (fun b : bool => b) fl = false -> stop_count fl len = len.
Proof. intro H. unfold stop_count. destruct fl; [reflexivity|]. rewrite H. reflexivity. Qed.
Lemma forallb_firstn {A} (p : A -> bool) m l : forallb p l = true -> forallb p (firstn m l) = true.
Proof.
  revert m. induction l as [|x l IH]; intros [|m] H; simpl in *; try reflexivity.
  apply andb_true_iff in H as [H1 H2]. rewrite H1, (IH m H2). reflexivity.
Qed.
Lemma firstn_snoc_exact {A} (pre : list A) w rest : firstn (S (length pre)) (pre ++ w :: rest) = pre ++ [w].
Proof. induction pre as [|a pre IH]; simpl; [reflexivity | f_equal; exact IH]. Qed.

Lemma memb_In v l : memb v l = true <-> In v l.
Proof.
  unfold memb. rewrite existsb_exists. split.
  - intros (x & Hx & E). apply Nat.eqb_eq in E. subst. exact Hx.
  - intro H. exists v. split; [exact H | apply Nat.eqb_refl].
Qed.

Lemma finished_no_step th : finished th = true -> tstep th = None.
Proof. unfold finished, tstep. destruct (pc th); try discriminate. reflexivity. Qed.

Lemma proj_none t lg : Forall (fun e : tid * gev => fst e < t) lg -> proj t lg = [].
Proof.
  induction 1 as [|[u g] l He Hl IH]; [reflexivity|]. unfold proj in *. simpl in *.
  destruct (u =? t) eqn:E; [apply Nat.eqb_eq in E; lia | exact IH].
Qed.

Lemma proj_cg_snoc t tr u e :
  proj t (cg_log (tr ++ [(u, e)])) = proj t (cg_log tr) ++ match e with CG g => if u =? t then [g] else [] | _ => [] end.
Proof. rewrite cg_log_snoc. destruct e; rewrite ?app_nil_r; try reflexivity. apply proj_snoc. Qed.

Lemma remove_nat_length w l : length (remove_nat w l) <= length l.
Proof. unfold remove_nat. induction l as [|x l IH]; simpl; [lia|]. destruct (negb (x =? w)); simpl; lia. Qed.

(* ====================================================================================== *)
(* 1. what is known about one worker                                                        *)
(* ====================================================================================== *)
Definition wheld (sem : option tid) (w : nat) : bool := match sem with Some (S v) => v =? w | _ => false end.

Definition WOK (i : cinput) (sem : option tid) (tr : list (tid * cev)) (w : nat) (wk : cworker) : Prop :=
  (if wheld sem w then t_in (cw_th wk) else t_out (cw_th wk))
  /\ (cw_put wk = true -> finished (cw_th wk) = true)
  /\ fw w (putsq tr) = (if cw_put wk then [QToken w] else [])
  /\ exists s fl, nth_error (ci_suites i) w = Some (s, fl)
       /\ tpath (init_thread s fl (worker_fb (ci_base i))) (proj (S w) (cg_log tr)) (cw_th wk).

Lemma WOK_main i sem sem' tr e w wk :
  WOK i sem tr w wk -> wheld sem' w = wheld sem w -> (forall q, e <> CPut q) -> WOK i sem' (tr ++ [(0, e)]) w wk.
Proof.
  intros (H1 & H2 & H3 & s & fl & Hs & Hp) Hh Hne. unfold WOK. rewrite Hh.
  split; [exact H1|]. split; [exact H2|]. split.
  - rewrite putsq_snoc, fw_app. destruct e; simpl; rewrite ?app_nil_r; try exact H3. exfalso; eapply Hne; reflexivity.
  - exists s, fl. split; [exact Hs|]. rewrite proj_cg_snoc. destruct e; simpl; rewrite ?app_nil_r; exact Hp.
Qed.

Lemma WOK_other i sem sem' tr v e w wk :
  WOK i sem tr w wk -> v <> w -> wheld sem' w = wheld sem w ->
  match e with CG _ => True | CPut q => qowner q = v | _ => False end ->
  WOK i sem' (tr ++ [(S v, e)]) w wk.
Proof.
  intros (H1 & H2 & H3 & s & fl & Hs & Hp) Hne Hh He. unfold WOK. rewrite Hh.
  assert (Hvw : (v =? w) = false) by (apply Nat.eqb_neq; exact Hne).
  split; [exact H1|]. split; [exact H2|]. split.
  - rewrite putsq_snoc, fw_app. destruct e; try contradiction; simpl; rewrite ?app_nil_r; try exact H3.
    rewrite He, Hvw, app_nil_r. exact H3.
  - exists s, fl. split; [exact Hs|]. rewrite proj_cg_snoc. destruct e; try contradiction; simpl; rewrite ?Hvw, ?app_nil_r; exact Hp.
Qed.

Lemma enabledS_wheld_other s w e s' v : enabled s (S w) e = Some s' -> w <> v -> wheld s' v = wheld s v.
Proof.
  intros H Hne. assert (E : (w =? v) = false) by (apply Nat.eqb_neq; exact Hne).
  apply enabled_cases in H as [(_ & -> & ->)|[(_ & -> & ->)|(_ & -> & ->)]]; simpl; rewrite ?E; reflexivity.
Qed.

Lemma enabled0_wheld s e s' v : enabled s 0 e = Some s' -> wheld s' v = wheld s v.
Proof. intro H. apply enabled_cases in H as [(_ & -> & ->)|[(_ & -> & ->)|(_ & -> & ->)]]; reflexivity. Qed.

(* arithmetic of "how many sub-suites are started" *)
Lemma started_le k n mt : k <= n -> (forall m, mt = Some m -> k <= m) -> k <= started n mt.
Proof. intros Hkn Hmt. unfold started. destruct mt as [m|]; [specialize (Hmt m eq_refl); lia | exact Hkn]. Qed.
Lemma started_eq_mt k n : k <= n -> started n (Some k) = k.
Proof. intro H. unfold started. lia. Qed.
Lemma started_lt k n mt : k < n -> (forall m, mt = Some m -> k <= m) -> mt <> Some k -> k < started n mt.
Proof.
  intros Hkn Hmt Hne. unfold started. destruct mt as [m|]; [|exact Hkn].
  specialize (Hmt m eq_refl). assert (m <> k) by congruence. lia.
Qed.
Lemma started_all k n mt : k = n -> (forall m, mt = Some m -> k <= m) -> mt <> Some k ->
  started n mt = k /\ mt_raises n mt = false.
Proof.
  intros Hkn Hmt Hne. unfold started, mt_raises. destruct mt as [m|]; [|split; [lia | reflexivity]].
  specialize (Hmt m eq_refl). assert (m <> k) by congruence. split; [lia | apply Nat.leb_gt; lia].
Qed.
Lemma started_mt_bound j n mt m : j < started n mt -> mt = Some m -> S j <= m.
Proof. intros H ->. unfold started in H. lia. Qed.
Lemma started_lt_n j n mt : j < started n mt -> j < n.
Proof. unfold started. destruct mt; lia. Qed.

Definition cpend_join (c : cconf) : list nat := match k_main c with CMJoin w => [w] | _ => [] end.
Definition holds0 (c : cconf) : bool := match k_main c with CMStopCall _ | CMStopRel _ _ => true | _ => false end.

Ltac prj := cbn [k_sem k_log k_queue k_main k_unreaped k_workers k_gets k_mcalls k_raised k_stops k_live
                 cfinish cset_main cw_th cw_put].
Ltac rdc := unfold clog; rewrite ?putsq_snoc, ?gotten_snoc, ?spawns_snoc, ?joins_snoc, ?has_intr_snoc,
              ?status_raised_snoc, ?forallb_snoc, ?main_stops_snoc, ?cg_log_snoc; simpl; rewrite ?app_nil_r, ?orb_false_r.

(* ====================================================================================== *)
(* 2. the invariant of every reachable configuration                                         *)
(* ====================================================================================== *)
Section Classic.
  Variable i : cinput.
  Let n := length (ci_suites i).
  Local Notation mt := (ci_mt_raise i).
  Let K := started n mt.

  Definition cU (c : cconf) : list nat := unreaped_of K (joins (k_log c)).
  Definition craise_exp (tr : list (tid * cev)) : bool := mt_raises n mt || has_intr tr || status_raised tr.

  (* the part that does not depend on where main is *)
  Record CBase (c : cconf) : Prop := {
    cb_le : length (k_workers c) <= K;
    cb_spawns : spawns (k_log c) = seq 0 (length (k_workers c));
    cb_own : forallb (own_thread K) (k_log c) = true;
    cb_nost : status_raised (k_log c) = false;
    cb_semw : match k_sem c with Some (S w) => w < length (k_workers c) | _ => True end;
    cb_tids : Forall (fun e : tid * gev => fst e < S (length (k_workers c))) (cg_log (k_log c));
    cb_thr : forall w wk, nth_error (k_workers c) w = Some wk -> WOK i (k_sem c) (k_log c) w wk;
    cb_mon : mon (S K) None (cg_log (k_log c)) = Some (k_sem c);
    cb_fifo : gotten (k_log c) ++ map QToken (k_queue c) = putsq (k_log c);
    cb_qown : Forall (fun q => qowner q < length (k_workers c)) (putsq (k_log c)) }.

  Definition cphase (c : cconf) : Prop :=
    match k_main c with
    | CMSpawn j => j = length (k_workers c) /\ j < K /\ gotten (k_log c) = []
    | CMGet => length (k_workers c) = K /\ mt_raises n mt = false /\ k_unreaped c <> []
    | CMJoin w => length (k_workers c) = K /\ mt_raises n mt = false
    | CMStopAcq ws => length (k_workers c) = K /\ craise_exp (k_log c) = true /\ ws <> [] /\ k_stops c ++ ws = cU c
                      /\ main_stops (k_log c) = repeat false (length (k_stops c))
    | CMStopCall ws => length (k_workers c) = K /\ craise_exp (k_log c) = true /\
                       exists pre w rest, ws = w :: rest /\ k_stops c = pre ++ [w] /\ pre ++ ws = cU c
                       /\ main_stops (k_log c) = repeat false (length pre)
    | CMStopRel ws b => length (k_workers c) = K /\ craise_exp (k_log c) = true /\
                       exists pre w rest, ws = w :: rest /\ k_stops c = pre ++ [w] /\ pre ++ ws = cU c
                       /\ main_stops (k_log c) = repeat false (length pre) ++ [b]
    | CMDone => length (k_workers c) = K /\ k_raised c = craise_exp (k_log c) /\ length (k_live c) = K
                /\ (if k_raised c then k_stops c = firstn (stop_count (main_stops (k_log c)) (length (cU c))) (cU c)
                    else k_stops c = [] /\ forallb negb (k_live c) = true)
    end.

  Definition crunning (c : cconf) : Prop :=
    match k_main c with
    | CMSpawn _ | CMGet | CMJoin _ =>
        k_stops c = [] /\ has_intr (k_log c) = false /\ main_stops (k_log c) = []
        /\ k_unreaped c = unreaped_of (length (k_workers c)) (joins (k_log c))
    | _ => True
    end.

  Record CInv (c : cconf) : Prop := {
    cv_base : CBase c;
    cv_sem0 : k_sem c = Some 0 <-> holds0 c = true;
    cv_joins : map QToken (joins (k_log c) ++ cpend_join c) = gotten (k_log c);
    cv_phase : cphase c;
    cv_running : crunning c }.

  Lemma cbase_same c c' :
    k_sem c' = k_sem c -> k_log c' = k_log c -> k_queue c' = k_queue c -> k_workers c' = k_workers c ->
    CBase c -> CBase c'.
  Proof.
    intros H1 H2 H3 H4 [A B C D E F G H I J]. constructor; rewrite ?H1, ?H2, ?H3, ?H4; assumption.
  Qed.

  (* ---- a worker step ---- *)
  Lemma cbase_worker c w c' : CBase c -> cstep_worker c w = Some c' -> CBase c'.
  Proof.
    intros HB. unfold cstep_worker.
    destruct (nth_error (k_workers c) w) as [wk|] eqn:En; [|discriminate].
    assert (Hw : w < length (k_workers c)) by (apply nth_error_Some; congruence).
    pose proof HB as [Hle Hsp Hown Hns Hsw Htid Hthr Hmon Hfifo Hqo].
    destruct (Hthr w wk En) as (H1 & H2 & H3 & s & fl & Hs & Hp).
    destruct (tstep (cw_th wk)) as [[e th']|] eqn:Et.
    - destruct (enabled (k_sem c) (S w) e) as [s'|] eqn:Ee; [|discriminate]. intro H; injection H as <-.
      assert (Hnp : cw_put wk = false).
      { destruct (cw_put wk); [|reflexivity]. rewrite (finished_no_step _ (H2 eq_refl)) in Et. discriminate. }
      constructor; prj; rewrite ?length_upd.
      + exact Hle.
      + rdc. exact Hsp.
      + unfold clog. rewrite forallb_snoc, Hown. change (own_thread K (S w, CG e)) with (S w <=? K).
        apply Nat.leb_le. lia.
      + rdc. exact Hns.
      + apply enabled_cases in Ee as [(_ & _ & ->)|[(_ & _ & ->)|(_ & _ & ->)]]; try exact I; exact Hw.
      + rdc. apply Forall_app. split; [exact Htid|]. constructor; [simpl; lia | constructor].
      + intros v wkv Hv. destruct (Nat.eq_dec w v) as [<-|Hne].
        * rewrite (nth_upd_same _ _ _ _ En) in Hv. injection Hv as <-. unfold WOK. prj.
          split; [|split; [|split]].
          -- apply enabled_cases in Ee as [(-> & Es & ->)|[(-> & Es & ->)|([c0 [b0 ->]] & Es & ->)]];
               rewrite Es in H1; simpl in H1; simpl; rewrite ?Nat.eqb_refl in *.
             ++ destruct (tstep_out _ _ _ H1 Et) as [_ Hi]. exact Hi.
             ++ destruct (tstep_in _ _ _ H1 Et) as [[_ Ho]|[[c0 [b0 Hc]] _]]; [exact Ho | discriminate].
             ++ destruct (tstep_in _ _ _ H1 Et) as [[Hc _]|[_ Hi]]; [discriminate | exact Hi].
          -- rewrite Hnp. discriminate.
          -- rdc. exact H3.
          -- exists s, fl. split; [exact Hs|]. unfold clog. rewrite proj_cg_snoc, Nat.eqb_refl.
             econstructor; eauto.
        * rewrite nth_upd_other in Hv by exact Hne. apply (WOK_other i (k_sem c)); [apply Hthr; exact Hv | exact Hne | | exact I].
          eapply enabledS_wheld_other; eauto.
      + unfold clog. rewrite cg_log_snoc, mon_app, Hmon. cbn [mon]. rewrite Ee.
        replace (S w <? S K) with true by (symmetry; apply Nat.ltb_lt; lia). reflexivity.
      + rdc. exact Hfifo.
      + rdc. exact Hqo.
    - destruct (finished (cw_th wk)) eqn:Ef; [|discriminate]. destruct (cw_put wk) eqn:Epp; [discriminate|].
      simpl. intro H; injection H as <-.
      constructor; prj; rewrite ?length_upd.
      + exact Hle.
      + rdc. exact Hsp.
      + rdc. rewrite Hown. reflexivity.
      + rdc. exact Hns.
      + exact Hsw.
      + rdc. exact Htid.
      + intros v wkv Hv. destruct (Nat.eq_dec w v) as [<-|Hne].
        * rewrite (nth_upd_same _ _ _ _ En) in Hv. injection Hv as <-. unfold WOK. prj.
          split; [exact H1|]. split; [intros _; exact Ef|]. split.
          -- rdc. rewrite fw_app, H3. simpl. rewrite Nat.eqb_refl. reflexivity.
          -- exists s, fl. split; [exact Hs|]. unfold clog. rewrite proj_cg_snoc, app_nil_r. exact Hp.
        * rewrite nth_upd_other in Hv by exact Hne. apply (WOK_other i (k_sem c)); [apply Hthr; exact Hv | exact Hne | reflexivity | reflexivity].
      + rdc. exact Hmon.
      + rdc. rewrite map_app, app_assoc, Hfifo. reflexivity.
      + rdc. apply Forall_app. split; [exact Hqo|]. constructor; [exact Hw | constructor].
  Qed.

  Lemma cstep_worker_frame c w c' : cstep_worker c w = Some c' ->
    k_main c' = k_main c /\ length (k_workers c') = length (k_workers c)
    /\ gotten (k_log c') = gotten (k_log c) /\ joins (k_log c') = joins (k_log c)
    /\ has_intr (k_log c') = has_intr (k_log c) /\ status_raised (k_log c') = status_raised (k_log c)
    /\ main_stops (k_log c') = main_stops (k_log c)
    /\ k_stops c' = k_stops c /\ k_unreaped c' = k_unreaped c /\ k_raised c' = k_raised c /\ k_live c' = k_live c
    /\ (k_sem c' = Some 0 <-> k_sem c = Some 0).
  Proof.
    unfold cstep_worker. destruct (nth_error (k_workers c) w) as [wk|]; [|discriminate].
    destruct (tstep (cw_th wk)) as [[e th']|].
    - destruct (enabled (k_sem c) (S w) e) as [s'|] eqn:Ee; [|discriminate]. intro H; injection H as <-.
      prj. rewrite length_upd. rdc. repeat split; try reflexivity.
      + apply enabled_cases in Ee as [(_ & -> & ->)|[(_ & -> & ->)|(_ & -> & ->)]]; discriminate.
      + apply enabled_cases in Ee as [(_ & -> & ->)|[(_ & -> & ->)|(_ & -> & ->)]]; discriminate.
    - destruct (finished (cw_th wk) && negb (cw_put wk)); [|discriminate]. intro H; injection H as <-.
      prj. rewrite length_upd. rdc. repeat split; try reflexivity; auto.
  Qed.
  Lemma cphase_frame c c' :
    k_main c' = k_main c -> length (k_workers c') = length (k_workers c) ->
    gotten (k_log c') = gotten (k_log c) -> joins (k_log c') = joins (k_log c) ->
    has_intr (k_log c') = has_intr (k_log c) -> status_raised (k_log c') = status_raised (k_log c) ->
    main_stops (k_log c') = main_stops (k_log c) ->
    k_stops c' = k_stops c -> k_unreaped c' = k_unreaped c -> k_raised c' = k_raised c -> k_live c' = k_live c ->
    (cphase c -> cphase c') /\ (crunning c -> crunning c') /\ cpend_join c' = cpend_join c /\ holds0 c' = holds0 c.
  Proof.
    intros Hm Hl Hg Hj Hi Hs Hms Hst Hu Hr Hlv.
    unfold cphase, crunning, cpend_join, holds0, cU, craise_exp.
    rewrite Hm, ?Hl, ?Hg, ?Hj, ?Hi, ?Hs, ?Hms, ?Hst, ?Hu, ?Hr, ?Hlv. auto.
  Qed.

  Lemma cstep_worker_inv c w c' : CInv c -> cstep_worker c w = Some c' -> CInv c'.
  Proof.
    intros [HB H0 Hj Hp Hr] Hs.
    destruct (cstep_worker_frame c w c' Hs) as (F1 & F2 & F3 & F4 & F5 & F6 & F7 & F8 & F9 & F10 & F11 & F12).
    destruct (cphase_frame c c' F1 F2 F3 F4 F5 F6 F7 F8 F9 F10 F11) as (P1 & P2 & P3 & P4).
    constructor.
    - eapply cbase_worker; eauto.
    - rewrite P4, F12. exact H0.
    - rewrite F4, P3, F3. exact Hj.
    - auto.
    - auto.
  Qed.

  (* ---- main appends an event that is not a spawn ---- *)
  Lemma cbase_main_ev c c' e :
    CBase c -> k_log c' = k_log c ++ [(0, e)] -> k_workers c' = k_workers c ->
    own_thread K (0, e) = true ->
    match e with
    | CPut _ | CSpawn _ | CStatus _ _ _ _ _ _ => False
    | CG g => enabled (k_sem c) 0 g = Some (k_sem c') /\ k_queue c' = k_queue c
    | CGet q => k_sem c' = k_sem c /\ map QToken (k_queue c) = q :: map QToken (k_queue c')
    | _ => k_sem c' = k_sem c /\ k_queue c' = k_queue c
    end -> CBase c'.
  Proof.
    intros [Hle Hsp Hown Hns Hsw Htid Hthr Hmon Hfifo Hqo] El Ew Ho He.
    assert (Hwh : forall v, wheld (k_sem c') v = wheld (k_sem c) v).
    { intro v. destruct e; try contradiction; try (destruct He as [-> _]; reflexivity).
      destruct He as [He _]. eapply enabled0_wheld; eauto. }
    constructor; rewrite ?El, ?Ew.
    - exact Hle.
    - rewrite spawns_snoc. destruct e; try contradiction; rewrite app_nil_r; exact Hsp.
    - rewrite forallb_snoc, Hown, Ho. reflexivity.
    - rewrite status_raised_snoc, Hns. destruct e; try contradiction; reflexivity.
    - destruct e; try contradiction; try (destruct He as [-> _]; exact Hsw).
      destruct He as [He _]. apply enabled_cases in He as [(_ & _ & E)|[(_ & _ & E)|(_ & _ & E)]]; rewrite E; exact I.
    - rewrite cg_log_snoc. destruct e; try contradiction; rewrite ?app_nil_r; try exact Htid.
      apply Forall_app. split; [exact Htid|]. constructor; [simpl; lia | constructor].
    - intros v wkv Hv. apply (WOK_main i (k_sem c)); [apply Hthr; exact Hv | apply Hwh |].
      intros q Hq. subst e. contradiction.
    - rewrite cg_log_snoc. destruct e; try contradiction; rewrite ?app_nil_r; try (destruct He as [-> _]; exact Hmon).
      destruct He as [He _]. rewrite mon_app, Hmon. cbn [mon]. rewrite He. reflexivity.
    - rewrite gotten_snoc, putsq_snoc. destruct e; try contradiction; rewrite ?app_nil_r; try (destruct He as [_ ->]; exact Hfifo).
      destruct He as [_ He]. rewrite <- app_assoc. simpl. rewrite <- He. exact Hfifo.
    - rewrite putsq_snoc. destruct e; try contradiction; rewrite app_nil_r; exact Hqo.
  Qed.

  Lemma holds0_sem c : CInv c -> holds0 c = false -> k_sem c <> Some 0.
  Proof. intros HI Hh E. apply (cv_sem0 c HI) in E. congruence. Qed.

  (* ---- the except clause ---- *)
  Lemma cabort_inv c :
    CBase c -> k_sem c <> Some 0 -> map QToken (joins (k_log c)) = gotten (k_log c) ->
    length (k_workers c) = K -> craise_exp (k_log c) = true -> main_stops (k_log c) = [] -> k_stops c = [] ->
    k_unreaped c = cU c -> CInv (cabort c).
  Proof.
    intros HB Hs Hj HL Hr Hm Hst Hu. unfold cabort. destruct (k_unreaped c) as [|u us] eqn:Eu.
    - constructor.
      + eapply cbase_same; [| | | |exact HB]; reflexivity.
      + prj. unfold holds0. prj. split; [intro E; contradiction | discriminate].
      + prj. unfold cpend_join. prj. rewrite app_nil_r. exact Hj.
      + unfold cphase. prj. rewrite Hr, map_length. repeat split; try assumption.
        unfold cU. prj. fold (cU c). rewrite <- Hu, Hst. destruct (stop_count (main_stops (k_log c)) (length (@nil nat))); reflexivity.
      + unfold crunning. prj. exact I.
    - constructor.
      + eapply cbase_same; [| | | |exact HB]; reflexivity.
      + prj. unfold holds0. prj. split; [intro E; contradiction | discriminate].
      + prj. unfold cpend_join. prj. rewrite app_nil_r. exact Hj.
      + unfold cphase, cU. prj. fold (cU c). rewrite Hst, Hm, <- Hu. repeat split; try assumption. discriminate.
      + unfold crunning. prj. exact I.
  Qed.

  (* ---- after starting worker k-1 ---- *)
  Lemma cafter_spawn_inv c k :
    CBase c -> k_sem c <> Some 0 -> length (k_workers c) = k -> k <= n -> (forall m, mt = Some m -> k <= m) ->
    gotten (k_log c) = [] -> joins (k_log c) = [] -> has_intr (k_log c) = false -> main_stops (k_log c) = [] ->
    k_stops c = [] -> k_unreaped c = seq 0 k -> CInv (cafter_spawn i c k).
  Proof.
    intros HB Hs HL Hkn Hmt Hg Hj Hi Hm Hst Hu.
    assert (HK : k <= K) by (unfold K; apply started_le; assumption).
    unfold cafter_spawn.
    destruct (option_eqb Nat.eqb mt (Some k)) eqn:Emt.
    - apply (option_eqb_spec _ Nat.eqb_eq) in Emt.
      assert (EK : K = k) by (unfold K; rewrite Emt; apply started_eq_mt; exact Hkn).
      apply cabort_inv; try assumption.
      + rewrite Hj, Hg. reflexivity.
      + lia.
      + unfold craise_exp, mt_raises. rewrite Emt.
        replace (k <=? n) with true by (symmetry; apply Nat.leb_le; exact Hkn). reflexivity.
      + unfold cU. rewrite Hj, unreaped_of_nil, EK. exact Hu.
    - assert (Hne : mt <> Some k).
      { intro E. rewrite E in Emt. simpl in Emt. rewrite Nat.eqb_refl in Emt. discriminate. }
      destruct (k <? length (ci_suites i)) eqn:Elt.
      + apply Nat.ltb_lt in Elt. fold n in Elt.
        assert (HK' : k < K) by (unfold K; apply started_lt; assumption).
        constructor.
        * eapply cbase_same; [| | | |exact HB]; reflexivity.
        * prj. unfold holds0. prj. split; [intro E; contradiction | discriminate].
        * prj. unfold cpend_join. prj. rewrite Hj, Hg. reflexivity.
        * unfold cphase. prj. auto.
        * unfold crunning. prj. rewrite Hj, HL, unreaped_of_nil. auto.
      + apply Nat.ltb_ge in Elt. fold n in Elt. assert (Ekn : k = n) by lia.
        destruct (started_all k n mt Ekn Hmt Hne) as [EK Hnr]. fold K in EK.
        destruct (k_unreaped c) as [|u us] eqn:Eu.
        * assert (Hk0 : k = 0) by (rewrite <- (seq_length k 0), <- Hu; reflexivity).
          constructor.
          -- eapply cbase_same; [| | | |exact HB]; reflexivity.
          -- prj. unfold holds0. prj. split; [intro E; contradiction | discriminate].
          -- prj. unfold cpend_join. prj. rewrite Hj, Hg. reflexivity.
          -- unfold cphase, craise_exp. prj. rewrite Hnr, Hi, (cb_nost c HB), map_length.
             repeat split; try lia; try assumption.
             destruct (k_workers c); [reflexivity | simpl in HL; lia].
          -- unfold crunning. prj. exact I.
        * constructor.
          -- eapply cbase_same; [| | | |exact HB]; reflexivity.
          -- prj. unfold holds0. prj. split; [intro E; contradiction | discriminate].
          -- prj. unfold cpend_join. prj. rewrite Hj, Hg. reflexivity.
          -- unfold cphase. prj. repeat split; try lia; try assumption. rewrite Eu; discriminate.
          -- unfold crunning. prj. rewrite Hj, HL, unreaped_of_nil. repeat split; try assumption. rewrite Eu; exact Hu.
  Qed.

  Lemma cinit_inv : CInv (cinit i).
  Proof.
    unfold cinit. apply cafter_spawn_inv; prj; try reflexivity; try lia; try discriminate.
    constructor; prj.
    - simpl; lia.
    - reflexivity.
    - reflexivity.
    - reflexivity.
    - exact I.
    - constructor.
    - intros [|v0] wkv0 Hv0; discriminate.
    - reflexivity.
    - reflexivity.
    - constructor.
  Qed.

  (* ---- main: start the next worker ---- *)
  Lemma cstep_spawn_inv c j c' : CInv c -> k_main c = CMSpawn j -> cstep_main i c = Some c' -> CInv c'.
  Proof.
    intros HI Em. unfold cstep_main. rewrite Em.
    destruct (nth_error (ci_suites i) j) as [[s fl]|] eqn:Es; [|discriminate]. cbv zeta. intro H; injection H as <-.
    pose proof HI as [HB H0 Hj Hp Hr]. unfold cphase in Hp. unfold crunning in Hr. unfold cpend_join in Hj.
    rewrite Em in Hp, Hr, Hj.
    destruct Hp as (HjL & HjK & Hg). destruct Hr as (Hst & Hi & Hms & Hu).
    simpl in Hj. rewrite Hg, app_nil_r in Hj. apply map_eq_nil in Hj.
    assert (Hs0 : k_sem c <> Some 0) by (apply holds0_sem; [exact HI | unfold holds0; rewrite Em; reflexivity]).
    assert (Hjn : j < n) by (apply nth_error_Some; congruence).
    pose proof HB as [Hle Hsp Hown Hns Hsw Htid Hthr Hmon Hfifo Hqo].
    apply cafter_spawn_inv; prj.
    - constructor; prj; rewrite ?app_length; simpl length.
      + lia.
      + rdc. rewrite Hsp, <- HjL, Nat.add_1_r, seq_S. reflexivity.
      + unfold clog. rewrite forallb_snoc, Hown. simpl. apply Nat.ltb_lt. exact HjK.
      + rdc. exact Hns.
      + destruct (k_sem c) as [[|v]|]; try exact I. lia.
      + rdc. eapply Forall_impl; [|exact Htid]. simpl. intros; lia.
      + intros v wkv Hv. apply nth_error_snoc in Hv as [[Hlt Hv]|[-> ->]].
        * apply (WOK_main i (k_sem c)); [apply Hthr; exact Hv | reflexivity | discriminate].
        * unfold WOK. prj.
          assert (Hwh : wheld (k_sem c) (length (k_workers c)) = false).
          { unfold wheld. destruct (k_sem c) as [[|v]|]; try reflexivity. apply Nat.eqb_neq. lia. }
          rewrite Hwh. split; [apply init_thread_out|]. split; [discriminate|]. split.
          -- rdc. apply fw_lt_nil. exact Hqo.
          -- exists s, fl. split; [rewrite <- HjL; exact Es|]. unfold clog. rewrite proj_cg_snoc. simpl.
             rewrite app_nil_r, proj_none; [constructor | exact Htid].
      + rdc. exact Hmon.
      + rdc. exact Hfifo.
      + rdc. eapply Forall_impl; [|exact Hqo]. simpl. intros; lia.
    - exact Hs0.
    - rewrite app_length. simpl. lia.
    - lia.
    - intros m Hm. apply (started_mt_bound j n mt m HjK Hm).
    - rdc. exact Hg.
    - rdc. exact Hj.
    - rdc. exact Hi.
    - rdc. exact Hms.
    - exact Hst.
    - rewrite Hu, Hj, unreaped_of_nil, <- HjL, seq_S. reflexivity.
  Qed.

  (* ---- main: queue.get() ---- *)
  Lemma cstep_get_inv c c' : CInv c -> k_main c = CMGet -> cstep_main i c = Some c' -> CInv c'.
  Proof.
    intros HI Em. unfold cstep_main. rewrite Em. cbv zeta.
    pose proof HI as [HB H0 Hj Hp Hr]. unfold cphase in Hp. unfold crunning in Hr. unfold cpend_join in Hj.
    rewrite Em in Hp, Hr, Hj.
    destruct Hp as (HL & Hnr & Hune). destruct Hr as (Hst & Hi & Hms & Hu). simpl in Hj. rewrite app_nil_r in Hj.
    assert (Hs0 : k_sem c <> Some 0) by (apply holds0_sem; [exact HI | unfold holds0; rewrite Em; reflexivity]).
    destruct (option_eqb Nat.eqb (ci_get_intr i) (Some (k_gets c))).
    - intro H; injection H as <-.
      apply cabort_inv; prj.
      + eapply (cbase_main_ev c _ CGetIntr); [exact HB | reflexivity | reflexivity | reflexivity | simpl; auto].
      + exact Hs0.
      + rdc. exact Hj.
      + exact HL.
      + unfold craise_exp. rdc. rewrite !orb_true_r. reflexivity.
      + rdc. exact Hms.
      + exact Hst.
      + unfold cU. prj. rdc. rewrite Hu, HL. reflexivity.
    - destruct (k_queue c) as [|w q] eqn:Eq; [discriminate|]. intro H; injection H as <-.
      constructor.
      + eapply (cbase_main_ev c _ (CGet (QToken w))); [exact HB | reflexivity | reflexivity | reflexivity |].
        prj. split; [reflexivity|]. rewrite Eq. reflexivity.
      + prj. unfold holds0. prj. split; [intro E; contradiction | discriminate].
      + prj. unfold cpend_join. prj. rdc. rewrite map_app, Hj. reflexivity.
      + unfold cphase. prj. auto.
      + unfold crunning. prj. rdc. auto.
  Qed.

  Lemma join_bound c w : CBase c -> In (QToken w) (gotten (k_log c)) -> w < length (k_workers c).
  Proof.
    intros HB Hin. pose proof (cb_qown c HB) as Hq. rewrite <- (cb_fifo c HB) in Hq.
    apply Forall_app in Hq as [Hq _]. rewrite Forall_forall in Hq. apply (Hq _ Hin).
  Qed.

  Lemma token_put c v wk : CBase c -> nth_error (k_workers c) v = Some wk -> In (QToken v) (putsq (k_log c)) -> cw_done wk = true.
  Proof.
    intros HB Hn Hin. destruct (cb_thr c HB v wk Hn) as (_ & H2 & H3 & _).
    assert (Hf : In (QToken v) (fw v (putsq (k_log c)))) by (apply filter_In; split; [exact Hin | simpl; apply Nat.eqb_refl]).
    rewrite H3 in Hf. unfold cw_done. destruct (cw_put wk); [|contradiction]. rewrite (H2 eq_refl). reflexivity.
  Qed.

  Lemma put_token c v wk : CBase c -> nth_error (k_workers c) v = Some wk -> cw_put wk = true -> In (QToken v) (putsq (k_log c)).
  Proof.
    intros HB Hn Hp. destruct (cb_thr c HB v wk Hn) as (_ & _ & H3 & _). rewrite Hp in H3.
    assert (Hf : In (QToken v) (fw v (putsq (k_log c)))) by (rewrite H3; left; reflexivity).
    apply filter_In in Hf. apply Hf.
  Qed.

  Lemma all_joined_done c : CBase c -> map QToken (joins (k_log c)) = gotten (k_log c) ->
    unreaped_of (length (k_workers c)) (joins (k_log c)) = [] -> forallb cw_done (k_workers c) = true.
  Proof.
    intros HB Hj Hu. apply forallb_forall. intros wk Hin. apply In_nth_error in Hin as [v Hv].
    assert (Hvk : v < length (k_workers c)) by (apply nth_error_Some; congruence).
    pose proof (unreaped_nil_all _ _ Hu v Hvk) as Hm. apply memb_In in Hm.
    apply (token_put c v wk HB Hv). rewrite <- (cb_fifo c HB). apply in_or_app. left. rewrite <- Hj. apply in_map. exact Hm.
  Qed.

  (* ---- main: thread.join() ---- *)
  Lemma cstep_join_inv c w c' : CInv c -> k_main c = CMJoin w -> cstep_main i c = Some c' -> CInv c'.
  Proof.
    intros HI Em. unfold cstep_main. rewrite Em.
    destruct (nth_error (k_workers c) w) as [wk|] eqn:En; [|discriminate].
    destruct (cw_done wk) eqn:Ed; [|discriminate]. cbv zeta. intro H; injection H as <-.
    pose proof HI as [HB H0 Hj Hp Hr]. unfold cphase in Hp. unfold crunning in Hr. unfold cpend_join in Hj.
    rewrite Em in Hp, Hr, Hj.
    destruct Hp as (HL & Hnr). destruct Hr as (Hst & Hi & Hms & Hu). simpl in Hj.
    assert (Hw : w < length (k_workers c)) by (apply nth_error_Some; congruence).
    assert (HB1 : forall m r lv,
               CBase {| k_sem := k_sem c; k_log := clog c 0 (CJoin w); k_queue := k_queue c; k_main := m;
                        k_unreaped := remove_nat w (k_unreaped c); k_workers := k_workers c; k_gets := k_gets c;
                        k_mcalls := k_mcalls c; k_raised := r; k_stops := k_stops c; k_live := lv |}).
    { intros. eapply (cbase_main_ev c _ (CJoin w)); [exact HB | reflexivity | reflexivity | | simpl; auto].
      simpl. apply Nat.ltb_lt. lia. }
    assert (Hu1 : remove_nat w (k_unreaped c) = unreaped_of (length (k_workers c)) (joins (k_log c) ++ [w])).
    { rewrite Hu. apply unreaped_remove. }
    prj. destruct (remove_nat w (k_unreaped c)) as [|u us] eqn:Eu.
    - constructor.
      + eapply cbase_same; [| | | |exact (HB1 CMDone false [])]; reflexivity.
      + prj. unfold holds0. prj. split; [intro E | discriminate].
        exfalso. eapply holds0_sem; [exact HI | unfold holds0; rewrite Em; reflexivity | exact E].
      + prj. unfold cpend_join. prj. rdc. exact Hj.
      + unfold cphase, craise_exp. prj. rdc. rewrite Hnr, Hi, (cb_nost c HB), map_length.
        repeat split; try assumption.
        rewrite forallb_map'. apply forallb_forall. intros x Hx. rewrite negb_involutive.
        assert (Hall : forallb cw_done (k_workers c) = true).
        { apply (all_joined_done _ (HB1 CMDone false [])); prj.
          - rdc. exact Hj.
          - rdc. rewrite <- Hu1. reflexivity. }
        rewrite forallb_forall in Hall. apply Hall. exact Hx.
      + unfold crunning. prj. exact I.
    - constructor.
      + eapply cbase_same; [| | | |exact (HB1 CMGet false [])]; reflexivity.
      + prj. unfold holds0. prj. split; [intro E | discriminate].
        exfalso. eapply holds0_sem; [exact HI | unfold holds0; rewrite Em; reflexivity | exact E].
      + prj. unfold cpend_join. prj. rdc. exact Hj.
      + unfold cphase. prj. repeat split; try assumption. discriminate.
      + unfold crunning. prj. rdc. repeat split; try assumption.
  Qed.

  (* ---- main: the stop() calls of the except clause ---- *)
  Lemma cstep_acq_inv c ws c' : CInv c -> k_main c = CMStopAcq ws -> cstep_main i c = Some c' -> CInv c'.
  Proof.
    intros HI Em. unfold cstep_main. rewrite Em.
    destruct (k_sem c) eqn:Es; [discriminate|]. destruct ws as [|w rest]; [discriminate|]. intro H; injection H as <-.
    pose proof HI as [HB H0 Hj Hp Hr]. unfold cphase in Hp. unfold cpend_join in Hj. rewrite Em in Hp, Hj.
    destruct Hp as (HL & Hre & _ & Hsw & Hms). simpl in Hj. rewrite app_nil_r in Hj.
    constructor.
    - eapply (cbase_main_ev c _ (CG EAcq)); [exact HB | reflexivity | reflexivity | reflexivity |].
      prj. rewrite Es. simpl. auto.
    - prj. unfold holds0. prj. split; reflexivity.
    - prj. unfold cpend_join. prj. rdc. exact Hj.
    - unfold cphase, cU, craise_exp. prj. rdc. split; [exact HL|]. split; [exact Hre|].
      exists (k_stops c), w, rest. repeat split; assumption.
    - unfold crunning. prj. exact I.
  Qed.

  Lemma cstep_call_inv c ws c' : CInv c -> k_main c = CMStopCall ws -> cstep_main i c = Some c' -> CInv c'.
  Proof.
    intros HI Em. unfold cstep_main. rewrite Em. cbv zeta. intro H; injection H as <-.
    pose proof HI as [HB H0 Hj Hp Hr]. unfold cphase in Hp. unfold cpend_join in Hj. rewrite Em in Hp, Hj.
    destruct Hp as (HL & Hre & pre & w & rest & Ews & Hst & HU & Hms). simpl in Hj. rewrite app_nil_r in Hj.
    assert (Es : k_sem c = Some 0) by (apply H0; unfold holds0; rewrite Em; reflexivity).
    constructor.
    - eapply (cbase_main_ev c _ (CG (ECall (TGuard GStop) _))); [exact HB | reflexivity | reflexivity | reflexivity |].
      prj. rewrite Es. simpl. auto.
    - prj. unfold holds0. prj. rewrite Es. split; reflexivity.
    - prj. unfold cpend_join. prj. rdc. exact Hj.
    - unfold cphase, cU, craise_exp. prj. rdc. split; [exact HL|]. split; [exact Hre|].
      exists pre, w, rest. repeat split; try assumption. rewrite Hms. reflexivity.
    - unfold crunning. prj. exact I.
  Qed.

  Lemma cstep_rel_inv c ws b c' : CInv c -> k_main c = CMStopRel ws b -> cstep_main i c = Some c' -> CInv c'.
  Proof.
    intros HI Em. unfold cstep_main. rewrite Em. cbv zeta. intro H; injection H as <-.
    pose proof HI as [HB H0 Hj Hp Hr]. unfold cphase in Hp. unfold cpend_join in Hj. rewrite Em in Hp, Hj.
    destruct Hp as (HL & Hre & pre & w & rest & Ews & Hst & HU & Hms). simpl in Hj. rewrite app_nil_r in Hj.
    assert (Es : k_sem c = Some 0) by (apply H0; unfold holds0; rewrite Em; reflexivity).
    assert (HB1 : forall m r lv,
               CBase {| k_sem := None; k_log := clog c 0 (CG ERel); k_queue := k_queue c; k_main := m;
                        k_unreaped := k_unreaped c; k_workers := k_workers c; k_gets := k_gets c;
                        k_mcalls := k_mcalls c; k_raised := r; k_stops := k_stops c; k_live := lv |}).
    { intros. eapply (cbase_main_ev c _ (CG ERel)); [exact HB | reflexivity | reflexivity | reflexivity |].
      prj. rewrite Es. simpl. auto. }
    unfold cU in HU.
    assert (Hfin : (b = true \/ rest = []) ->
              CInv (cfinish {| k_sem := None; k_log := clog c 0 (CG ERel); k_queue := k_queue c; k_main := k_main c;
                               k_unreaped := k_unreaped c; k_workers := k_workers c; k_gets := k_gets c;
                               k_mcalls := k_mcalls c; k_raised := k_raised c; k_stops := k_stops c;
                               k_live := k_live c |} true)).
    { intro Hc. constructor.
      - eapply cbase_same; [| | | |exact (HB1 CMDone true [])]; reflexivity.
      - prj. unfold holds0. prj. split; discriminate.
      - prj. unfold cpend_join. prj. rdc. exact Hj.
      - unfold cphase, cU, craise_exp. prj. rdc. rewrite map_length.
        split; [exact HL|]. split; [symmetry; exact Hre|]. split; [exact HL|].
        rewrite Hms, Hst, <- HU, Ews.
        destruct Hc as [->| ->].
        + rewrite stop_count_true. symmetry. apply firstn_snoc_exact.
        + destruct b.
          * rewrite stop_count_true. symmetry. apply firstn_snoc_exact.
          * rewrite repeat_false_snoc, stop_count_false, firstn_all. reflexivity.
      - unfold crunning. prj. exact I. }
    subst ws. destruct b.
    - apply Hfin. left; reflexivity.
    - destruct rest as [|r rest'].
      + apply Hfin. right; reflexivity.
      + constructor.
        * eapply cbase_same; [| | | |exact (HB1 (CMStopAcq (r :: rest')) false [])]; reflexivity.
        * prj. unfold holds0. prj. split; discriminate.
        * prj. unfold cpend_join. prj. rdc. exact Hj.
        * unfold cphase, cU, craise_exp. prj. rdc. split; [exact HL|]. split; [exact Hre|].
          split; [discriminate|]. split.
          -- rewrite Hst, <- app_assoc. exact HU.
          -- rewrite Hms, Hst, app_length, repeat_false_snoc. simpl. rewrite Nat.add_1_r. reflexivity.
        * unfold crunning. prj. exact I.
  Qed.

  Lemma cstep_inv c t c' : CInv c -> cstep i c t = Some c' -> CInv c'.
  Proof.
    intros HI. destruct t as [|w]; simpl.
    - destruct (k_main c) eqn:Em.
      + eapply cstep_spawn_inv; eauto.
      + eapply cstep_get_inv; eauto.
      + eapply cstep_join_inv; eauto.
      + eapply cstep_acq_inv; eauto.
      + eapply cstep_call_inv; eauto.
      + eapply cstep_rel_inv; eauto.
      + unfold cstep_main. rewrite Em. discriminate.
    - eapply cstep_worker_inv; eauto.
  Qed.
  (* ---- every step decreases a measure ---- *)
  Definition wbound (sf : list rcall * list nat) : nat := call_bound * (length (fst sf) + length br_script) + 7.
  Definition csum_from (j : nat) : nat := fold_right (fun sf a => wbound sf + a) 0 (skipn j (ci_suites i)).
  Definition cmw (c : cconf) : nat :=
    match k_main c with
    | CMDone => 0
    | CMStopRel ws _ => 3 * length ws + 1
    | CMStopCall ws => 3 * length ws + 2
    | CMStopAcq ws => 3 * length ws + 3
    | CMGet => 5 + 3 * length (k_unreaped c)
    | CMJoin _ => 6 + 3 * length (k_unreaped c)
    | CMSpawn j => 6 + 3 * length (k_unreaped c) + csum_from j
    end.
  Definition wmeasure (wk : cworker) : nat := tmeasure (cw_th wk) + (if cw_put wk then 0 else 3).
  Definition wsum (l : list cworker) : nat := fold_right (fun wk a => wmeasure wk + a) 0 l.
  Definition cmeas (c : cconf) : nat := cmw c + 2 * length (k_queue c) + wsum (k_workers c).

  Lemma csum_from_nth j sf : nth_error (ci_suites i) j = Some sf -> csum_from j = wbound sf + csum_from (S j).
  Proof.
    unfold csum_from. generalize (ci_suites i). induction j as [|j IH]; intros [|x l] H; simpl in *; try discriminate.
    - injection H as ->. reflexivity.
    - apply IH. exact H.
  Qed.

  Lemma wsum_app a b : wsum (a ++ b) = wsum a + wsum b.
  Proof. induction a as [|x a IH]; simpl; [reflexivity | rewrite IH; lia]. Qed.

  Lemma wsum_upd l d : forall w wk wk', nth_error l w = Some wk -> wmeasure wk' + d <= wmeasure wk ->
    wsum (upd l w wk') + d <= wsum l.
  Proof.
    induction l as [|x l IH]; intros [|w] wk wk' H Hd; simpl in *; try discriminate.
    - injection H as ->. lia.
    - specialize (IH w wk wk' H Hd). lia.
  Qed.

  Lemma init_thread_measure s fl :
    tmeasure (init_thread s fl (worker_fb (ci_base i))) <= call_bound * (length s + length br_script).
  Proof.
    unfold init_thread. eapply Nat.le_trans; [apply norm_measure|].
    unfold tmeasure, worker_fb, call_bound. destruct (ci_base i); simpl; lia.
  Qed.

  Lemma cabort_meas c :
    cmw (cabort c) <= 3 * length (k_unreaped c) + 3 /\ k_queue (cabort c) = k_queue c /\ k_workers (cabort c) = k_workers c.
  Proof. unfold cabort. destruct (k_unreaped c) eqn:E; unfold cmw; prj; simpl; repeat split; lia. Qed.

  Lemma cafter_spawn_meas c k :
    cmw (cafter_spawn i c k) <= 6 + 3 * length (k_unreaped c) + csum_from k
    /\ k_queue (cafter_spawn i c k) = k_queue c /\ k_workers (cafter_spawn i c k) = k_workers c.
  Proof.
    unfold cafter_spawn. destruct (option_eqb Nat.eqb mt (Some k)).
    - destruct (cabort_meas c) as (A & B & C). repeat split; try assumption. lia.
    - destruct (k <? length (ci_suites i)).
      + unfold cmw; prj. repeat split; lia.
      + destruct (k_unreaped c) eqn:E; unfold cmw; prj; rewrite ?E; repeat split; simpl; lia.
  Qed.

  Lemma cstep_measure c t c' : cstep i c t = Some c' -> cmeas c' < cmeas c.
  Proof.
    destruct t as [|w]; simpl.
    - unfold cstep_main. destruct (k_main c) as [k| |w|ws|ws|ws b|] eqn:Em.
      + destruct (nth_error (ci_suites i) k) as [[s fl]|] eqn:Es; [|discriminate]. cbv zeta. intro H; injection H as <-.
        match goal with |- cmeas (cafter_spawn i ?c1 _) < _ => destruct (cafter_spawn_meas c1 (S k)) as (A & B & C) end.
        assert (Hc0 : cmw c = 6 + 3 * length (k_unreaped c) + csum_from k) by (unfold cmw; rewrite Em; reflexivity).
        unfold cmeas. rewrite B, C, Hc0, (csum_from_nth _ _ Es).
        set (X := cmw (cafter_spawn i _ _)) in *. clearbody X. revert A. prj. rewrite wsum_app, app_length. simpl length.
        pose proof (init_thread_measure s fl) as Hm. unfold wbound, wsum, wmeasure. prj. simpl fst. cbn [fold_right cw_th cw_put]. lia.
      + destruct (option_eqb Nat.eqb (ci_get_intr i) (Some (k_gets c))).
        * cbv zeta. intro H; injection H as <-.
          match goal with |- cmeas (cabort ?c1) < _ => destruct (cabort_meas c1) as (A & B & C) end.
          assert (Hc0 : cmw c = 5 + 3 * length (k_unreaped c)) by (unfold cmw; rewrite Em; reflexivity).
          unfold cmeas. rewrite B, C, Hc0. set (X := cmw (cabort _)) in *. clearbody X. revert A. prj. lia.
        * destruct (k_queue c) as [|w q] eqn:Eq; [discriminate|]. intro H; injection H as <-.
          unfold cmeas, cmw. prj. rewrite Em. rewrite Eq. simpl length. lia.
      + destruct (nth_error (k_workers c) w) as [wk|]; [|discriminate]. destruct (cw_done wk); [|discriminate].
        cbv zeta. intro H; injection H as <-. prj.
        pose proof (remove_nat_length w (k_unreaped c)) as Hl.
        destruct (remove_nat w (k_unreaped c)) as [|u us] eqn:E; unfold cmeas, cmw; prj; rewrite Em, ?E; simpl length in *; lia.
      + destruct (k_sem c); [discriminate|]. destruct ws as [|w rest]; [discriminate|]. intro H; injection H as <-.
        unfold cmeas, cmw. prj. rewrite Em. lia.
      + cbv zeta. intro H; injection H as <-. unfold cmeas, cmw. prj. rewrite Em. lia.
      + cbv zeta. intro H; injection H as <-.
        destruct b; [|destruct ws as [|x [|y l']]]; unfold cmeas, cmw; prj; rewrite Em; simpl length; lia.
      + discriminate.
    - unfold cstep_worker. destruct (nth_error (k_workers c) w) as [wk|] eqn:En; [|discriminate].
      destruct (tstep (cw_th wk)) as [[e th']|] eqn:Et.
      + destruct (enabled (k_sem c) (S w) e); [|discriminate]. intro H; injection H as <-.
        unfold cmeas. prj.
        match goal with |- cmw ?c1 + _ + _ < _ => assert (Hc : cmw c1 = cmw c) by reflexivity; rewrite Hc end.
        assert (Hs : wsum (upd (k_workers c) w {| cw_th := th'; cw_put := cw_put wk |}) + 1 <= wsum (k_workers c)).
        { eapply wsum_upd; [exact En|]. unfold wmeasure; prj. apply tstep_measure in Et. lia. }
        lia.
      + destruct (finished (cw_th wk) && negb (cw_put wk)) eqn:Ec; [|discriminate]. intro H; injection H as <-.
        apply andb_true_iff in Ec as [_ Ec]. apply negb_true_iff in Ec.
        unfold cmeas. prj.
        match goal with |- cmw ?c1 + _ + _ < _ => assert (Hc : cmw c1 = cmw c) by reflexivity; rewrite Hc end.
        assert (Hs : wsum (upd (k_workers c) w {| cw_th := cw_th wk; cw_put := true |}) + 3 <= wsum (k_workers c)).
        { eapply wsum_upd; [exact En|]. unfold wmeasure; prj. rewrite Ec. lia. }
        rewrite app_length. simpl length. lia.
  Qed.

  Lemma csum_le_fuel : 6 + csum_from 0 <= cfuel i.
  Proof.
    unfold csum_from, cfuel. simpl skipn. induction (ci_suites i) as [|sf l IH]; cbn [fold_right length]; [lia|].
    unfold wbound, call_bound, br_script in *. cbn [length] in *. lia.
  Qed.

  Lemma cinit_measure : cmeas (cinit i) <= cfuel i.
  Proof.
    unfold cinit.
    match goal with |- cmeas (cafter_spawn i ?c0 0) <= _ => destruct (cafter_spawn_meas c0 0) as (A & B & C) end.
    unfold cmeas. rewrite B, C. revert A. prj. simpl. intro A. pose proof csum_le_fuel. lia.
  Qed.

  (* ---- somebody can always move ---- *)
  Lemma clive c : CInv c -> call_done c = false -> exists t, t < cnthr c /\ cstep i c t <> None.
  Proof.
    intros HI Hnd. pose proof HI as [HB H0 Hj Hp Hr].
    pose proof HB as [Hle Hsp Hown Hns Hsw Htid Hthr Hmon Hfifo Hqo].
    destruct (k_sem c) as [[|w]|] eqn:Es.
    - (* main holds the semaphore *)
      exists 0. split; [unfold cnthr; lia|]. simpl. assert (Hh : holds0 c = true) by (apply H0; reflexivity).
      unfold holds0 in Hh. unfold cstep_main. destruct (k_main c); try discriminate; cbv zeta; discriminate.
    - (* worker w holds it *)
      destruct (nth_error (k_workers c) w) as [wk|] eqn:En; [|apply nth_error_None in En; lia].
      destruct (Hthr w wk En) as (H1 & _). simpl in H1. rewrite Nat.eqb_refl in H1.
      destruct (t_in_can_step _ H1) as (e & th' & Hst & Hne).
      exists (S w). split; [unfold cnthr; lia|]. simpl. unfold cstep_worker. rewrite En, Hst, Es.
      destruct e; simpl; rewrite ?Nat.eqb_refl; congruence.
    - (* it is free *)
      unfold call_done in Hnd. destruct (forallb cw_done (k_workers c)) eqn:Ew.
      + rewrite andb_true_r in Hnd. exists 0. split; [unfold cnthr; lia|]. simpl.
        unfold cmain_done in Hnd. unfold cstep_main.
        unfold cphase in Hp. unfold crunning in Hr. unfold cpend_join in Hj.
        destruct (k_main c) as [k| |w|ws|ws|ws b|] eqn:Em; try discriminate.
        * destruct Hp as (_ & HkK & _). apply started_lt_n in HkK.
          destruct (nth_error (ci_suites i) k) as [[s fl]|] eqn:E; [cbv zeta; discriminate|].
          apply nth_error_None in E. fold n in E. lia.
        * destruct (option_eqb Nat.eqb (ci_get_intr i) (Some (k_gets c))); [cbv zeta; discriminate|].
          destruct Hp as (HL & _ & Hune). destruct Hr as (_ & _ & _ & Hu).
          destruct (k_unreaped c) as [|u us] eqn:Eu; [contradiction|].
          assert (Hin : In u (unreaped_of (length (k_workers c)) (joins (k_log c)))) by (rewrite <- Hu; left; reflexivity).
          unfold unreaped_of in Hin. apply filter_In in Hin as [Hseq Hnot]. apply in_seq in Hseq.
          destruct (nth_error (k_workers c) u) as [wk|] eqn:En; [|apply nth_error_None in En; lia].
          rewrite forallb_forall in Ew. pose proof (Ew _ (nth_error_In _ _ En)) as Hd.
          unfold cw_done in Hd. apply andb_true_iff in Hd as [_ Hput].
          pose proof (put_token c u wk HB En Hput) as Hq. rewrite <- Hfifo in Hq.
          simpl in Hj. rewrite app_nil_r in Hj. rewrite <- Hj in Hq.
          apply in_app_or in Hq as [Hq|Hq].
          -- apply in_map_iff in Hq as (x & Hx & Hxin). injection Hx as ->. apply memb_In in Hxin.
             rewrite Hxin in Hnot. discriminate.
          -- destruct (k_queue c); [contradiction | discriminate].
        * assert (Hw : w < length (k_workers c)).
          { apply (join_bound c w HB). rewrite <- Hj. apply in_map. apply in_or_app. right. left. reflexivity. }
          destruct (nth_error (k_workers c) w) as [wk|] eqn:En; [|apply nth_error_None in En; lia].
          rewrite forallb_forall in Ew. rewrite (Ew _ (nth_error_In _ _ En)). cbv zeta. discriminate.
        * destruct Hp as (_ & _ & Hne & _). rewrite Es. destruct ws; [contradiction | discriminate].
      + destruct (forallb_false_nth _ _ Ew) as (w & wk & Hw & Hd). exists (S w). split.
        * unfold cnthr. assert (w < length (k_workers c)) by (apply nth_error_Some; congruence). lia.
        * simpl. unfold cstep_worker. rewrite Hw.
          destruct (Hthr w wk Hw) as (H1 & H2 & _). simpl in H1.
          destruct (finished (cw_th wk)) eqn:Ef.
          -- rewrite (finished_no_step _ Ef). unfold cw_done in Hd. rewrite Ef in Hd. simpl in Hd. rewrite Hd. simpl. discriminate.
          -- destruct (t_out_unfinished_acq _ H1 Ef) as [th' Hst]. rewrite Hst, Es. simpl. discriminate.
  Qed.

  Lemma crun_inv : CInv (crun i) /\ call_done (crun i) = true.
  Proof.
    unfold crun.
    destruct (gfold_P (cstep i) cnthr CInv cmeas cstep_inv (fun c t c' _ H => cstep_measure c t c' H)
                (ci_sched i) (cinit i) cinit_inv) as [H1 H2].
    apply (gdrain_done (cstep i) cnthr CInv cmeas call_done cstep_inv (fun c t c' _ H => cstep_measure c t c' H) clive).
    - exact H1.
    - pose proof cinit_measure. lia.
  Qed.
  (* ---- who was alive when run() ended had not been joined ---- *)
  Definition CLInv (c : cconf) : Prop :=
    k_main c = CMDone -> forall w b, nth_error (k_live c) w = Some b -> In w (joins (k_log c)) -> b = false.

  Lemma cabort_live c : k_main (cabort c) = CMDone ->
    k_live (cabort c) = map (fun w => negb (cw_done w)) (k_workers (cabort c)).
  Proof. unfold cabort. destruct (k_unreaped c); [reflexivity | discriminate]. Qed.

  Lemma cafter_spawn_live c k : k_main (cafter_spawn i c k) = CMDone ->
    k_live (cafter_spawn i c k) = map (fun w => negb (cw_done w)) (k_workers (cafter_spawn i c k)).
  Proof.
    unfold cafter_spawn. destruct (option_eqb Nat.eqb mt (Some k)); [apply cabort_live|].
    destruct (k <? length (ci_suites i)); [discriminate|]. destruct (k_unreaped c); [reflexivity | discriminate].
  Qed.

  Lemma cafter_spawn_log c k : k_log (cafter_spawn i c k) = k_log c.
  Proof.
    unfold cafter_spawn, cabort. destruct (option_eqb Nat.eqb mt (Some k)); [destruct (k_unreaped c); reflexivity|].
    destruct (k <? length (ci_suites i)); [reflexivity|]. destruct (k_unreaped c); reflexivity.
  Qed.

  Lemma cstep_live c t c' : cstep i c t = Some c' ->
    (k_main c = CMDone /\ k_main c' = CMDone /\ k_live c' = k_live c /\ joins (k_log c') = joins (k_log c))
    \/ (k_main c <> CMDone /\ (k_main c' = CMDone -> k_live c' = map (fun w => negb (cw_done w)) (k_workers c'))).
  Proof.
    destruct t as [|w]; simpl.
    - unfold cstep_main. destruct (k_main c) as [k| |w|ws|ws|ws b|] eqn:Em; cbv zeta; intro H.
      + right; split; [discriminate|].
        destruct (nth_error (ci_suites i) k) as [[s fl]|]; [|discriminate]. injection H as <-. apply cafter_spawn_live.
      + right; split; [discriminate|]. destruct (option_eqb Nat.eqb (ci_get_intr i) (Some (k_gets c))).
        * injection H as <-. apply cabort_live.
        * destruct (k_queue c); [discriminate|]. injection H as <-. discriminate.
      + right; split; [discriminate|]. destruct (nth_error (k_workers c) w) as [wk|]; [|discriminate].
        destruct (cw_done wk); [|discriminate]. injection H as <-. prj.
        destruct (remove_nat w (k_unreaped c)); [reflexivity | discriminate].
      + right; split; [discriminate|]. destruct (k_sem c); [discriminate|]. destruct ws; [discriminate|].
        injection H as <-. discriminate.
      + right; split; [discriminate|]. injection H as <-. discriminate.
      + right; split; [discriminate|]. injection H as <-. destruct b; [reflexivity|].
        destruct ws as [|x [|y l]]; try reflexivity. discriminate.
      + discriminate.
    - intro H. destruct (cstep_worker_frame c w c' H) as (F1 & _ & _ & F4 & _ & _ & _ & _ & _ & _ & F11 & _).
      destruct (k_main c) eqn:Em.
      all: try (right; split; [discriminate | rewrite F1; discriminate]).
      left. repeat split; assumption.
  Qed.

  Lemma clinv_step c t c' : CInv c -> CLInv c -> cstep i c t = Some c' -> CLInv c'.
  Proof.
    intros HI HL Hs. pose proof (cstep_inv c t c' HI Hs) as HI'.
    destruct (cstep_live c t c' Hs) as [(Hd & Hd' & El & Ej)|(Hnd & Hlive)].
    - intros _ w b Hn Hin. rewrite El in Hn. rewrite Ej in Hin. apply (HL Hd w b Hn Hin).
    - intros Hd w b Hn Hin. rewrite (Hlive Hd) in Hn.
      apply nth_error_map_inv in Hn as (wk & Hn & ->).
      pose proof (cv_joins c' HI') as Hjo. unfold cpend_join in Hjo. rewrite Hd, app_nil_r in Hjo.
      pose proof (cv_base c' HI') as HB'.
      rewrite (token_put c' w wk HB' Hn); [reflexivity|].
      rewrite <- (cb_fifo c' HB'). apply in_or_app. left. rewrite <- Hjo. apply in_map. exact Hin.
  Qed.

  Lemma cinit_linv : CLInv (cinit i).
  Proof. unfold CLInv, cinit. rewrite cafter_spawn_log. simpl. intros _ w b _ H. contradiction. Qed.

  Definition CInv2 (c : cconf) : Prop := CInv c /\ CLInv c.

  Lemma crun_inv2 : CInv2 (crun i) /\ call_done (crun i) = true.
  Proof.
    unfold crun.
    assert (St : forall c t c', CInv2 c -> cstep i c t = Some c' -> CInv2 c').
    { intros c t c' [H1 H2] Hs. split; [eapply cstep_inv; eauto | eapply clinv_step; eauto]. }
    destruct (gfold_P (cstep i) cnthr CInv2 cmeas St (fun c t c' _ H => cstep_measure c t c' H)
                (ci_sched i) (cinit i) (conj cinit_inv cinit_linv)) as [H1 H2].
    apply (gdrain_done (cstep i) cnthr CInv2 cmeas call_done St (fun c t c' _ H => cstep_measure c t c' H)
             (fun c H => clive c (proj1 H))).
    - exact H1.
    - pose proof cinit_measure. lia.
  Qed.
End Classic.

(* ====================================================================================== *)
(* 3. what a worker does when it runs alone: its script up to the first forwarder call that  *)
(*    raises, then the fallback scripts (the broken-runner ErrorHolder)                       *)
(* ====================================================================================== *)
Fixpoint pend (fl : list nat) (p : prog) (k : nat) : bool :=     (* does p end by raising *)
  match p with
  | PEnd => false
  | PRaise => true
  | PAcq r | PRel r | PLoc _ r => pend fl r k
  | PCall _ h r => if memb k fl then pend fl h (S k) else pend fl r (S k)
  end.

Fixpoint ltrace (fl : list nat) (s : list rcall) (f : fwd) (k : nat) : list gev * fwd * nat * bool :=
  match s with
  | [] => ([], f, k, false)
  | c :: r => let '(l, f', k') := ptrace fl (expand f c) f k in
              if pend fl (expand f c) k then (l, f', k', true)
              else let '(l2, f2, k2, b) := ltrace fl r f' k' in (l ++ l2, f2, k2, b)
  end.

Fixpoint rtrace (fl : list nat) (fbs : list (list rcall)) (f : fwd) (k : nat) : list gev :=
  match fbs with
  | [] => []
  | s :: r => let '(l, f', k', b) := ltrace fl s f k in if b then l ++ rtrace fl r f' k' else l
  end.

Definition ctrace (fl : list nat) (p : prog) (s : list rcall) (fbs : list (list rcall)) (f : fwd) (k : nat) : list gev :=
  let '(l, f', k') := ptrace fl p f k in
  if pend fl p k then l ++ rtrace fl fbs f' k'
  else let '(l2, f2, k2, b) := ltrace fl s f' k' in l ++ l2 ++ (if b then rtrace fl fbs f2 k2 else []).

Definition ttrace2 (th : thread) (fbs : list (list rcall)) : list gev :=
  ctrace (flt th) (pc th) (script th) fbs (Tfr.fw th) (ncall th).

Lemma pend_settle fl p : forall f k, pend fl (fst (settle p f)) k = pend fl p k.
Proof. induction p; intros f k; simpl; try reflexivity. apply IHp. Qed.

Lemma ctrace_settle fl p s fbs f k : ctrace fl p s fbs f k = ctrace fl (fst (settle p f)) s fbs (snd (settle p f)) k.
Proof. unfold ctrace. rewrite (ptrace_settle fl p f k), <- (pend_settle fl p f k). reflexivity. Qed.

Lemma ctrace_end fl s fbs f k :
  ctrace fl PEnd s fbs f k = (let '(l2, f2, k2, b) := ltrace fl s f k in l2 ++ (if b then rtrace fl fbs f2 k2 else [])).
Proof. reflexivity. Qed.
Lemma ctrace_raise fl s fbs f k : ctrace fl PRaise s fbs f k = rtrace fl fbs f k.
Proof. reflexivity. Qed.
Lemma ctrace_acq fl r s fbs f k : ctrace fl (PAcq r) s fbs f k = EAcq :: ctrace fl r s fbs f k.
Proof.
  unfold ctrace. simpl. destruct (ptrace fl r f k) as [[l f'] k']. destruct (pend fl r k); [reflexivity|].
  destruct (ltrace fl s f' k') as [[[l2 f2] k2] b]. reflexivity.
Qed.
Lemma ctrace_rel fl r s fbs f k : ctrace fl (PRel r) s fbs f k = ERel :: ctrace fl r s fbs f k.
Proof.
  unfold ctrace. simpl. destruct (ptrace fl r f k) as [[l f'] k']. destruct (pend fl r k); [reflexivity|].
  destruct (ltrace fl s f' k') as [[[l2 f2] k2] b]. reflexivity.
Qed.
Lemma ctrace_call fl c h r s fbs f k :
  ctrace fl (PCall c h r) s fbs f k = ECall c (memb k fl) :: ctrace fl (if memb k fl then h else r) s fbs f (S k).
Proof.
  unfold ctrace. simpl. destruct (memb k fl).
  - destruct (ptrace fl h f (S k)) as [[l f'] k']. destruct (pend fl h (S k)); [reflexivity|].
    destruct (ltrace fl s f' k') as [[[l2 f2] k2] b]. reflexivity.
  - destruct (ptrace fl r f (S k)) as [[l f'] k']. destruct (pend fl r (S k)); [reflexivity|].
    destruct (ltrace fl s f' k') as [[[l2 f2] k2] b]. reflexivity.
Qed.

Lemma ltrace_cons fl c r f k : ltrace fl (c :: r) f k =
  (let '(l, f', k') := ptrace fl (expand f c) f k in
   if pend fl (expand f c) k then (l, f', k', true)
   else let '(l2, f2, k2, b) := ltrace fl r f' k' in (l ++ l2, f2, k2, b)).
Proof. reflexivity. Qed.

Lemma load_ctrace fl fbs s : forall f k,
  let '(p', s', f') := load false s f in ctrace fl PEnd s fbs f k = ctrace fl p' s' fbs f' k.
Proof.
  induction s as [|c r IH]; intros f k.
  - reflexivity.
  - rewrite load_cons, ctrace_end, ltrace_cons.
    rewrite (ptrace_settle fl (expand f c) f k), <- (pend_settle fl (expand f c) f k).
    pose proof (settle_not_loc (expand f c) f) as Hl.
    destruct (settle (expand f c) f) as [p f1]. simpl fst in *; simpl snd in *.
    destruct p.
    + simpl. specialize (IH f1 k). destruct (load false r f1) as [[p' s'] f']. rewrite <- IH, ctrace_end.
      destruct (ltrace fl r f1 k) as [[[l2 f2] k2] b]. reflexivity.
    + reflexivity.
    + unfold ctrace. destruct (ptrace fl (PAcq p) f1 k) as [[l f''] k']. destruct (pend fl (PAcq p) k); [reflexivity|].
      destruct (ltrace fl r f'' k') as [[[l2 f2] k2] b]. rewrite <- app_assoc. reflexivity.
    + unfold ctrace. destruct (ptrace fl (PRel p) f1 k) as [[l f''] k']. destruct (pend fl (PRel p) k); [reflexivity|].
      destruct (ltrace fl r f'' k') as [[[l2 f2] k2] b]. rewrite <- app_assoc. reflexivity.
    + unfold ctrace. destruct (ptrace fl (PCall c0 p1 p2) f1 k) as [[l f''] k']. destruct (pend fl (PCall c0 p1 p2) k); [reflexivity|].
      destruct (ltrace fl r f'' k') as [[[l2 f2] k2] b]. rewrite <- app_assoc. reflexivity.
    + exfalso; eapply Hl; reflexivity.
Qed.

Lemma resume_ctrace fl fbs : forall f k,
  let '(p, s', f', fbs') := resume fbs f in rtrace fl fbs f k = ctrace fl p s' fbs' f' k.
Proof.
  induction fbs as [|s r IH]; intros f k.
  - reflexivity.
  - rewrite resume_cons. pose proof (load_ctrace fl r s f k) as HL.
    destruct (load false s f) as [[p s'] f'].
    assert (E : rtrace fl (s :: r) f k = ctrace fl PEnd s r f k).
    { rewrite ctrace_end. simpl. destruct (ltrace fl s f k) as [[[l2 f2] k2] b].
      destruct b; [reflexivity | rewrite app_nil_r; reflexivity]. }
    rewrite E, HL. destruct p; try reflexivity.
    specialize (IH f' k). destruct (resume r f') as [[[p0 s0] f0] fbs0]. rewrite ctrace_raise. exact IH.
Qed.

Lemma norm_ctrace th fbs : fb th = Some fbs ->
  exists fbs', fb (norm th) = Some fbs' /\ ttrace2 (norm th) fbs' = ttrace2 th fbs.
Proof.
  intro Hb. unfold ttrace2 at 2. rewrite ctrace_settle. unfold norm. rewrite Hb.
  pose proof (settle_not_loc (pc th) (Tfr.fw th)) as Hl.
  destruct (settle (pc th) (Tfr.fw th)) as [p f]. simpl fst in *; simpl snd in *.
  destruct p.
  - pose proof (load_ctrace (flt th) fbs (script th) f (ncall th)) as HL.
    destruct (load false (script th) f) as [[p' s'] f'].
    destruct p'; try (eexists; split; [reflexivity | unfold ttrace2; simpl; symmetry; exact HL]).
    pose proof (resume_ctrace (flt th) fbs f' (ncall th)) as HR.
    destruct (resume fbs f') as [[[p'' s''] f''] fbs']. eexists; split; [reflexivity|].
    unfold ttrace2; simpl. rewrite HL, ctrace_raise. symmetry; exact HR.
  - pose proof (resume_ctrace (flt th) fbs f (ncall th)) as HR.
    destruct (resume fbs f) as [[[p'' s''] f''] fbs']. eexists; split; [reflexivity|].
    unfold ttrace2; simpl. rewrite ctrace_raise. symmetry; exact HR.
  - eexists; split; reflexivity.
  - eexists; split; reflexivity.
  - eexists; split; reflexivity.
  - exfalso; eapply Hl; reflexivity.
Qed.

Lemma tstep_ctrace th fbs e th' : fb th = Some fbs -> tstep th = Some (e, th') ->
  exists fbs', fb th' = Some fbs' /\ ttrace2 th fbs = e :: ttrace2 th' fbs'.
Proof.
  intros Hb. unfold tstep. destruct (pc th) eqn:E; try discriminate; intro H; injection H as <- <-.
  - destruct (norm_ctrace (set_pc th p (ncall th)) fbs Hb) as (fbs' & Hf & Ht). exists fbs'. split; [exact Hf|].
    rewrite Ht. unfold ttrace2. simpl. rewrite E. apply ctrace_acq.
  - destruct (norm_ctrace (set_pc th p (ncall th)) fbs Hb) as (fbs' & Hf & Ht). exists fbs'. split; [exact Hf|].
    rewrite Ht. unfold ttrace2. simpl. rewrite E. apply ctrace_rel.
  - destruct (norm_ctrace (set_pc th (if faulty th then p1 else p2) (S (ncall th))) fbs Hb) as (fbs' & Hf & Ht).
    exists fbs'. split; [exact Hf|]. rewrite Ht. unfold ttrace2. simpl. rewrite E. unfold faulty. apply ctrace_call.
Qed.

Lemma tpath_ctrace a l b : tpath a l b -> forall fbs, fb a = Some fbs ->
  exists fbs', fb b = Some fbs' /\ ttrace2 a fbs = l ++ ttrace2 b fbs'.
Proof.
  induction 1 as [th|a l b e c Hp IH Hs]; intros fbs Hb.
  - exists fbs. split; [exact Hb | reflexivity].
  - destruct (IH fbs Hb) as (fb1 & Hb1 & E1). destruct (tstep_ctrace _ _ _ _ Hb1 Hs) as (fb2 & Hb2 & E2).
    exists fb2. split; [exact Hb2|]. rewrite E1, E2, <- app_assoc. reflexivity.
Qed.

Lemma finished_ctrace th fbs : tnf th -> finished th = true -> ttrace2 th fbs = [].
Proof.
  intros [_ Hs] Hf. unfold finished in Hf. unfold ttrace2. destruct (pc th) eqn:E; try discriminate.
  rewrite (Hs eq_refl). reflexivity.
Qed.

(* the whole of a finished worker's log *)
Lemma worker_log_complete s fl fbs lg th :
  tpath (init_thread s fl (Some fbs)) lg th -> tnf th -> finished th = true ->
  lg = ctrace fl PEnd s fbs fwd0 0.
Proof.
  intros Hp Hn Hf.
  destruct (norm_ctrace {| pc := PEnd; script := s; Tfr.fw := fwd0; ncall := 0; flt := fl; fb := Some fbs |} fbs eq_refl)
    as (fb0 & Hb0 & E0).
  destruct (tpath_ctrace _ _ _ Hp fb0 Hb0) as (fb1 & _ & E1).
  rewrite (finished_ctrace th fb1 Hn Hf), app_nil_r in E1. rewrite <- E1. unfold init_thread. rewrite E0. reflexivity.
Qed.

(* ---- without faults of the caller's result only a raise in the script ends a forwarder call badly ---- *)
Lemma pend_calls_then_nofault cs h r : forall k, pend [] (calls_then cs h r) k = pend [] r (k + length cs).
Proof.
  induction cs as [|c cs IH]; intro k; simpl; [rewrite Nat.add_0_r; reflexivity|].
  rewrite IH. f_equal. lia.
Qed.

Lemma pend_nofault f c k : c <> RRaise -> pend [] (expand f c) k = false.
Proof.
  intro Hne. destruct c as [a|tn tg|n|n|kd n|g|]; try reflexivity.
  - rewrite expand_outcome. simpl. rewrite pend_calls_then_nofault. reflexivity.
  - destruct g; reflexivity.
  - contradiction.
Qed.

Lemma strace_cons fl c r f k :
  strace fl (c :: r) f k = (let '(l, f', k') := ptrace fl (expand f c) f k in l ++ strace fl r f' k').
Proof. reflexivity. Qed.

Lemma ltrace_before_raise s : forall f k,
  exists f' k', ltrace [] s f k = (strace [] (fst (before_raise s)) f k, f', k', snd (before_raise s)).
Proof.
  induction s as [|c r IH]; intros f k.
  - exists f, k. reflexivity.
  - assert (G : c <> RRaise ->
               exists f' k', ltrace [] (c :: r) f k
                 = (strace [] (c :: fst (before_raise r)) f k, f', k', snd (before_raise r))).
    { intro Hne. rewrite ltrace_cons, strace_cons, (pend_nofault f c k Hne).
      destruct (ptrace [] (expand f c) f k) as [[l f1] k1].
      destruct (IH f1 k1) as (f' & k' & E). rewrite E. exists f', k'. reflexivity. }
    destruct c as [a|tn tg|n|n|kd n|g|];
      try (simpl before_raise; destruct (before_raise r) as [p b]; apply G; discriminate).
    exists f, k. reflexivity.
Qed.

(* ---- the broken-runner test ---- *)
Lemma before_raise_br : before_raise br_script = (br_script, false).
Proof. reflexivity. Qed.

Lemma br_trace f k : exists body, rtrace [] [br_script] f k = section body /\ br_body_okb body = true.
Proof.
  set (f2 := apply_lop LStartTest (apply_lop (LTags [] []) f)).
  assert (E : rtrace [] [br_script] f k =
              (let '(l, f', k') := ptrace [] (expand f2 (ROutcome KError br_id)) f2 k in l ++ [])).
  { change (rtrace [] [br_script] f k)
      with (let '(l, f', k', b) := ltrace [] br_script f k in if b then l ++ rtrace [] [] f' k' else l).
    destruct (ltrace_before_raise br_script f k) as (f' & k' & E). rewrite E, before_raise_br.
    simpl snd. simpl fst. cbv iota. reflexivity. }
  clearbody f2.
  destruct (ptrace_outcome [] f2 KError br_id k) as (f' & E2 & _). rewrite E2 in E. rewrite E, app_nil_r.
  rewrite cut_nofault. simpl fst.
  eexists. split; [reflexivity|].
  unfold replay. destruct (any_tags (f_global f2)), (any_tags (f_test f2)); reflexivity.
Qed.

Lemma skipn_length_app {A} (a b : list A) : skipn (length a) (a ++ b) = b.
Proof. induction a as [|x a IH]; simpl; [reflexivity | exact IH]. Qed.

Lemma gev_eqb_refl e : gev_eqb e e = true.
Proof. apply gev_eqb_spec. reflexivity. Qed.

(* the clause of the statement about one worker that is not hit by faults of the caller's result *)
Lemma classic_worker_clause base lg w s :
  lg = ctrace [] PEnd s (match worker_fb base with Some x => x | None => [] end) fwd0 0 ->
  forall full, proj (S w) full = lg -> classic_worker_okb base full w (s, []) = true.
Proof.
  intros E full Hproj. unfold classic_worker_okb. simpl fst; simpl snd.
  destruct (ltrace_before_raise s fwd0 0) as (f' & k' & El).
  destruct (before_raise s) as [pre raises] eqn:Eb. simpl fst in El; simpl snd in El.
  destruct (wf_script Out pre) eqn:Ew; [|reflexivity].
  rewrite Hproj, E, ctrace_end, El, (strace_expected [] pre Out fwd0 sst0 0 Ew rel0).
  unfold worker_fb. destruct raises; destruct base; cbn [andb negb].
  - simpl rtrace. rewrite app_nil_r. apply (list_eqb_spec _ gev_eqb_spec). reflexivity.
  - destruct (br_trace f' k') as (body & -> & Hb).
    rewrite (is_prefix_app _ gev_eqb_refl), skipn_length_app. simpl.
    rewrite rev_app_distr. simpl. rewrite rev_involutive. exact Hb.
  - rewrite app_nil_r. apply (list_eqb_spec _ gev_eqb_spec). reflexivity.
  - rewrite app_nil_r. apply (list_eqb_spec _ gev_eqb_spec). reflexivity.
Qed.

(* ====================================================================================== *)
(* 4. the classic model meets the statement                                                  *)
(* ====================================================================================== *)
Lemma bool_eqb_refl b : Bool.eqb b b = true.
Proof. destruct b; reflexivity. Qed.

Lemma done_sem_free i c : CInv i c -> call_done c = true -> k_sem c = None.
Proof.
  intros HI Hd. pose proof HI as [HB H0 Hj Hp Hr]. unfold call_done in Hd. apply andb_true_iff in Hd as [Hmd Hwd].
  unfold cmain_done in Hmd.
  destruct (k_sem c) as [[|w]|] eqn:Es; [| |reflexivity]; exfalso.
  - assert (Hh : holds0 c = true) by (apply H0; reflexivity). unfold holds0 in Hh. destruct (k_main c); discriminate.
  - pose proof (cb_semw i c HB) as Hw. rewrite Es in Hw.
    destruct (nth_error (k_workers c) w) as [wk|] eqn:En; [|apply nth_error_None in En; lia].
    destruct (cb_thr i c HB w wk En) as (H1 & _). rewrite Es in H1. simpl in H1. rewrite Nat.eqb_refl in H1.
    rewrite forallb_forall in Hwd. specialize (Hwd _ (nth_error_In _ _ En)). unfold cw_done in Hwd.
    apply andb_true_iff in Hwd as [Hf _]. destruct H1 as [Hwin _]. unfold finished in Hf.
    destruct (pc (cw_th wk)); simpl in *; discriminate.
Qed.

Theorem classic_meets_spec : forall i, spec_okb (IClassic i) (model (IClassic i)) = true.
Proof.
  intro i. destruct (crun_inv2 i) as [[HI HLv] Hd]. unfold spec_okb, model. set (c := crun i) in *.
  pose proof (done_sem_free i c HI Hd) as Hsem.
  pose proof HI as [HB H0 Hj Hp Hr]. pose proof HB as [Hle Hsp Hown Hns Hsw Htid Hthr Hmon Hfifo Hqo].
  pose proof Hd as Hd'. unfold call_done in Hd'. apply andb_true_iff in Hd' as [Hmd Hwd].
  unfold cmain_done in Hmd. unfold cphase in Hp. destruct (k_main c) eqn:Em; try discriminate.
  destruct Hp as (HL & Hre & Hlive & Hstops). unfold craise_exp in Hre.
  set (n := length (ci_suites i)) in *. set (K := started n (ci_mt_raise i)) in *.
  cbn [o_trace o_raised o_live o_stops o_deadlock o_sem_free].
  apply andb_true_iff; split; [apply andb_true_iff; split; [apply andb_true_iff; split|]|].
  - (* what is common to both suites *)
    unfold common_okb. cbn [o_trace o_raised o_live o_stops o_deadlock]. fold n. fold K.
    rewrite Hd, Hown, Hsp, HL. cbn [negb andb].
    rewrite (proj2 (list_eqb_spec _ Nat.eqb_eq _ _) eq_refl). cbn [andb].
    rewrite Hlive, Nat.eqb_refl. cbn [andb].
    rewrite <- Hre, bool_eqb_refl.
    destruct (k_raised c) eqn:Er; cbn [orb andb].
    + fold (unreaped_of K (joins (k_log c))). rewrite Hstops. unfold cU. fold n. fold K.
      apply andb_true_iff. split.
      * apply forallb_firstn. apply unreaped_lt.
      * destruct (existsb (fun b : bool => b) (main_stops (k_log c))) eqn:Ee; [reflexivity|].
        rewrite (stop_count_none _ _ Ee), firstn_all. simpl.
        apply forallb_idx_spec. intros w b Hn. simpl. destruct b; [|reflexivity]. simpl.
        assert (HwK' : w < K) by (rewrite <- Hlive; apply nth_error_Some; congruence).
        apply existsb_exists. exists w. split; [|apply Nat.eqb_refl].
        unfold unreaped_of. apply filter_In. split; [apply in_seq; lia|].
        destruct (memb w (joins (k_log c))) eqn:Em'; [|reflexivity]. exfalso.
        apply memb_In in Em'. specialize (HLv Em w true Hn Em'). discriminate.
    + destruct Hstops as [-> ->]. reflexivity.
  - rewrite Hsem. reflexivity.
  - apply mon_sectb. fold n. fold K. rewrite Hmon, Hsem. reflexivity.
  - fold n. fold K. apply forallb_idx_spec. intros w [s fl] Hn. simpl Nat.add.
    apply nth_error_firstn in Hn as [HwK Hn].
    destruct (nth_error (k_workers c) w) as [wk|] eqn:En; [|apply nth_error_None in En; lia].
    destruct (Hthr w wk En) as (H1 & H2 & H3 & s' & fl' & Hs' & Hpath).
    rewrite Hn in Hs'. injection Hs' as <- <-.
    rewrite Hsem in H1. simpl in H1. destruct H1 as [_ Hnf].
    rewrite forallb_forall in Hwd. specialize (Hwd _ (nth_error_In _ _ En)). unfold cw_done in Hwd.
    apply andb_true_iff in Hwd as [Hf _].
    destruct fl as [|x fl].
    + eapply classic_worker_clause; [|reflexivity].
      unfold worker_fb in *. destruct (ci_base i); apply (worker_log_complete s [] _ _ (cw_th wk)); assumption.
    + unfold classic_worker_okb. simpl fst; simpl snd. destruct (before_raise s). reflexivity.
Qed.

Theorem model_meets_spec : forall i, spec_okb i (model i) = true.
Proof. intros [ci|si]; [apply classic_meets_spec | apply stream_meets_spec]. Qed.
