(* C13 - proofs, part 3: ConcurrentTestSuite (the classic suite) on top of the thread-level lemmas of
   Proof/C12.v and the scheduler / queue lemmas of Proof/C13.v. *)
From TT Require Import Lib.Base Model.Tfr Model.Concur Spec.C12 Spec.C13 Corr.C13 Proof.C12 Proof.C13.

(* ====================================================================================== *)
(* 0. small facts                                                                           *)
(* ====================================================================================== *)
Definition stop_count (fl : list bool) (len : nat) : nat :=
  match fl with [] => len | _ :: _ => if existsb (fun b => b) fl then upto_first_true fl else len end.

Lemma repeat_false_snoc p : repeat false p ++ [false] = repeat false (S p).
Proof. induction p as [|p IH]; simpl; [reflexivity | rewrite IH; reflexivity]. Qed.
Lemma existsb_repeat_false p : existsb (fun b : bool => b) (repeat false p) = false.
Proof. induction p as [|p IH]; simpl; [reflexivity | exact IH]. Qed.
Lemma stop_count_false p len : stop_count (repeat false p) len = len.
Proof. destruct p; simpl; [reflexivity|]. rewrite existsb_repeat_false. reflexivity. Qed.
Lemma upto_repeat p : upto_first_true (repeat false p ++ [true]) = S p.
Proof. induction p as [|p IH]; simpl; [reflexivity | rewrite IH; reflexivity]. Qed.
Lemma stop_count_true p len : stop_count (repeat false p ++ [true]) len = S p.
Proof.
  unfold stop_count. destruct (repeat false p ++ [true]) as [|b l] eqn:E.
  - destruct p; discriminate.
  - rewrite <- E, existsb_app. simpl. rewrite orb_true_r. apply upto_repeat.
Qed.
Lemma firstn_snoc_exact {A} (pre : list A) w rest : firstn (S (length pre)) (pre ++ w :: rest) = pre ++ [w].
Proof. induction pre as [|a pre IH]; simpl; [reflexivity | f_equal; exact IH]. Qed.

Lemma memb_In v l : memb v l = true <-> In v l.
Proof.
  unfold memb. rewrite existsb_exists. split.
  - intros (x & Hx & E). apply Nat.eqb_eq in E. subst. exact Hx.
  - intro H. exists v. split; [exact H | apply Nat.eqb_refl].
Qed.

Lemma finished_no_step th : finished th = true -> tstep th = None.
Proof. unfold finished, tstep. destruct (pc th); try discriminate. reflexivity. Qed.

Lemma proj_none t lg : Forall (fun e : tid * gev => fst e < t) lg -> proj t lg = [].
Proof.
  induction 1 as [|[u g] l He Hl IH]; [reflexivity|]. unfold proj in *. simpl in *.
  destruct (u =? t) eqn:E; [apply Nat.eqb_eq in E; lia | exact IH].
Qed.

Lemma proj_cg_snoc t tr u e :
  proj t (cg_log (tr ++ [(u, e)])) = proj t (cg_log tr) ++ match e with CG g => if u =? t then [g] else [] | _ => [] end.
Proof. rewrite cg_log_snoc. destruct e; rewrite ?app_nil_r; try reflexivity. apply proj_snoc. Qed.

Lemma remove_nat_length w l : length (remove_nat w l) <= length l.
Proof. unfold remove_nat. induction l as [|x l IH]; simpl; [lia|]. destruct (negb (x =? w)); simpl; lia. Qed.

(* ====================================================================================== *)
(* 1. what is known about one worker                                                        *)
(* ====================================================================================== *)
Definition wheld (sem : option tid) (w : nat) : bool := match sem with Some (S v) => v =? w | _ => false end.

Definition WOK (i : cinput) (sem : option tid) (tr : list (tid * cev)) (w : nat) (wk : cworker) : Prop :=
  (if wheld sem w then t_in (cw_th wk) else t_out (cw_th wk))
  /\ (cw_put wk = true -> finished (cw_th wk) = true)
  /\ fw w (putsq tr) = (if cw_put wk then [QToken w] else [])
  /\ exists s fl, nth_error (ci_suites i) w = Some (s, fl)
       /\ tpath (init_thread s fl (worker_fb (ci_base i))) (proj (S w) (cg_log tr)) (cw_th wk).

Lemma WOK_main i sem sem' tr e w wk :
  WOK i sem tr w wk -> wheld sem' w = wheld sem w -> (forall q, e <> CPut q) -> WOK i sem' (tr ++ [(0, e)]) w wk.
Proof.
  intros (H1 & H2 & H3 & s & fl & Hs & Hp) Hh Hne. unfold WOK. rewrite Hh.
  split; [exact H1|]. split; [exact H2|]. split.
  - rewrite putsq_snoc, fw_app. destruct e; simpl; rewrite ?app_nil_r; try exact H3. exfalso; eapply Hne; reflexivity.
  - exists s, fl. split; [exact Hs|]. rewrite proj_cg_snoc. destruct e; simpl; rewrite ?app_nil_r; exact Hp.
Qed.

Lemma WOK_other i sem sem' tr v e w wk :
  WOK i sem tr w wk -> v <> w -> wheld sem' w = wheld sem w ->
  match e with CG _ => True | CPut q => qowner q = v | _ => False end ->
  WOK i sem' (tr ++ [(S v, e)]) w wk.
Proof.
  intros (H1 & H2 & H3 & s & fl & Hs & Hp) Hne Hh He. unfold WOK. rewrite Hh.
  assert (Hvw : (v =? w) = false) by (apply Nat.eqb_neq; exact Hne).
  split; [exact H1|]. split; [exact H2|]. split.
  - rewrite putsq_snoc, fw_app. destruct e; try contradiction; simpl; rewrite ?app_nil_r; try exact H3.
    rewrite He, Hvw, app_nil_r. exact H3.
  - exists s, fl. split; [exact Hs|]. rewrite proj_cg_snoc. destruct e; try contradiction; simpl; rewrite ?Hvw, ?app_nil_r; exact Hp.
Qed.

Lemma enabledS_wheld_other s w e s' v : enabled s (S w) e = Some s' -> w <> v -> wheld s' v = wheld s v.
Proof.
  intros H Hne. assert (E : (w =? v) = false) by (apply Nat.eqb_neq; exact Hne).
  apply enabled_cases in H as [(_ & -> & ->)|[(_ & -> & ->)|(_ & -> & ->)]]; simpl; rewrite ?E; reflexivity.
Qed.

Lemma enabled0_wheld s e s' v : enabled s 0 e = Some s' -> wheld s' v = wheld s v.
Proof. intro H. apply enabled_cases in H as [(_ & -> & ->)|[(_ & -> & ->)|(_ & -> & ->)]]; reflexivity. Qed.

Definition cpend_join (c : cconf) : list nat := match k_main c with CMJoin w => [w] | _ => [] end.
Definition holds0 (c : cconf) : bool := match k_main c with CMStopCall _ | CMStopRel _ _ => true | _ => false end.

Ltac prj := cbn [k_sem k_log k_queue k_main k_unreaped k_workers k_gets k_mcalls k_raised k_stops k_live
                 cfinish cset_main cw_th cw_put].
Ltac rdc := unfold clog; rewrite ?putsq_snoc, ?gotten_snoc, ?spawns_snoc, ?joins_snoc, ?has_intr_snoc,
              ?status_raised_snoc, ?forallb_snoc, ?main_stops_snoc, ?cg_log_snoc; simpl; rewrite ?app_nil_r, ?orb_false_r.

(* ====================================================================================== *)
(* 2. the invariant of every reachable configuration                                         *)
(* ====================================================================================== *)
Section Classic.
  Variable i : cinput.
  Let n := length (ci_suites i).
  Let mt := ci_mt_raise i.
  Let K := started n mt.

  Definition cU (c : cconf) : list nat := unreaped_of K (joins (k_log c)).
  Definition craise_exp (tr : list (tid * cev)) : bool := mt_raises n mt || has_intr tr || status_raised tr.

  (* the part that does not depend on where main is *)
  Record CBase (c : cconf) : Prop := {
    cb_le : length (k_workers c) <= K;
    cb_spawns : spawns (k_log c) = seq 0 (length (k_workers c));
    cb_own : forallb (own_thread K) (k_log c) = true;
    cb_nost : status_raised (k_log c) = false;
    cb_semw : match k_sem c with Some (S w) => w < length (k_workers c) | _ => True end;
    cb_tids : Forall (fun e : tid * gev => fst e < S (length (k_workers c))) (cg_log (k_log c));
    cb_thr : forall w wk, nth_error (k_workers c) w = Some wk -> WOK i (k_sem c) (k_log c) w wk;
    cb_mon : mon (S K) None (cg_log (k_log c)) = Some (k_sem c);
    cb_fifo : gotten (k_log c) ++ map QToken (k_queue c) = putsq (k_log c);
    cb_qown : Forall (fun q => qowner q < length (k_workers c)) (putsq (k_log c)) }.

  Definition cphase (c : cconf) : Prop :=
    match k_main c with
    | CMSpawn j => j = length (k_workers c) /\ j < K /\ gotten (k_log c) = []
    | CMGet => length (k_workers c) = K /\ mt_raises n mt = false /\ k_unreaped c <> []
    | CMJoin w => length (k_workers c) = K /\ mt_raises n mt = false
    | CMStopAcq ws => length (k_workers c) = K /\ craise_exp (k_log c) = true /\ ws <> [] /\ k_stops c ++ ws = cU c
                      /\ main_stops (k_log c) = repeat false (length (k_stops c))
    | CMStopCall ws => length (k_workers c) = K /\ craise_exp (k_log c) = true /\
                       exists pre w rest, ws = w :: rest /\ k_stops c = pre ++ [w] /\ pre ++ ws = cU c
                       /\ main_stops (k_log c) = repeat false (length pre)
    | CMStopRel ws b => length (k_workers c) = K /\ craise_exp (k_log c) = true /\
                       exists pre w rest, ws = w :: rest /\ k_stops c = pre ++ [w] /\ pre ++ ws = cU c
                       /\ main_stops (k_log c) = repeat false (length pre) ++ [b]
    | CMDone => length (k_workers c) = K /\ k_raised c = craise_exp (k_log c) /\ length (k_live c) = K
                /\ (if k_raised c then k_stops c = firstn (stop_count (main_stops (k_log c)) (length (cU c))) (cU c)
                    else k_stops c = [] /\ forallb negb (k_live c) = true)
    end.

  Definition crunning (c : cconf) : Prop :=
    match k_main c with
    | CMSpawn _ | CMGet | CMJoin _ =>
        k_stops c = [] /\ has_intr (k_log c) = false /\ main_stops (k_log c) = []
        /\ k_unreaped c = unreaped_of (length (k_workers c)) (joins (k_log c))
    | _ => True
    end.

  Record CInv (c : cconf) : Prop := {
    cv_base : CBase c;
    cv_sem0 : k_sem c = Some 0 <-> holds0 c = true;
    cv_joins : map QToken (joins (k_log c) ++ cpend_join c) = gotten (k_log c);
    cv_phase : cphase c;
    cv_running : crunning c }.

  Lemma cbase_same c c' :
    k_sem c' = k_sem c -> k_log c' = k_log c -> k_queue c' = k_queue c -> k_workers c' = k_workers c ->
    CBase c -> CBase c'.
  Proof.
    intros H1 H2 H3 H4 [A B C D E F G H I J]. constructor; rewrite ?H1, ?H2, ?H3, ?H4; assumption.
  Qed.

  (* ---- a worker step ---- *)
  Lemma cbase_worker c w c' : CBase c -> cstep_worker c w = Some c' -> CBase c'.
  Proof.
    intros HB. unfold cstep_worker.
    destruct (nth_error (k_workers c) w) as [wk|] eqn:En; [|discriminate].
    assert (Hw : w < length (k_workers c)) by (apply nth_error_Some; congruence).
    pose proof HB as [Hle Hsp Hown Hns Hsw Htid Hthr Hmon Hfifo Hqo].
    destruct (Hthr w wk En) as (H1 & H2 & H3 & s & fl & Hs & Hp).
    destruct (tstep (cw_th wk)) as [[e th']|] eqn:Et.
    - destruct (enabled (k_sem c) (S w) e) as [s'|] eqn:Ee; [|discriminate]. intro H; injection H as <-.
      assert (Hnp : cw_put wk = false).
      { destruct (cw_put wk); [|reflexivity]. rewrite (finished_no_step _ (H2 eq_refl)) in Et. discriminate. }
      constructor; prj; rewrite ?length_upd.
      + exact Hle.
      + rdc. exact Hsp.
      + unfold clog. rewrite forallb_snoc, Hown. change (own_thread K (S w, CG e)) with (S w <=? K).
        apply Nat.leb_le. lia.
      + rdc. exact Hns.
      + apply enabled_cases in Ee as [(_ & _ & ->)|[(_ & _ & ->)|(_ & _ & ->)]]; try exact I; exact Hw.
      + rdc. apply Forall_app. split; [exact Htid|]. constructor; [simpl; lia | constructor].
      + intros v wkv Hv. destruct (Nat.eq_dec w v) as [<-|Hne].
        * rewrite (nth_upd_same _ _ _ _ En) in Hv. injection Hv as <-. unfold WOK. prj.
          split; [|split; [|split]].
          -- apply enabled_cases in Ee as [(-> & Es & ->)|[(-> & Es & ->)|([c0 [b0 ->]] & Es & ->)]];
               rewrite Es in H1; simpl in H1; simpl; rewrite ?Nat.eqb_refl in *.
             ++ destruct (tstep_out _ _ _ H1 Et) as [_ Hi]. exact Hi.
             ++ destruct (tstep_in _ _ _ H1 Et) as [[_ Ho]|[[c0 [b0 Hc]] _]]; [exact Ho | discriminate].
             ++ destruct (tstep_in _ _ _ H1 Et) as [[Hc _]|[_ Hi]]; [discriminate | exact Hi].
          -- rewrite Hnp. discriminate.
          -- rdc. exact H3.
          -- exists s, fl. split; [exact Hs|]. unfold clog. rewrite proj_cg_snoc, Nat.eqb_refl.
             econstructor; eauto.
        * rewrite nth_upd_other in Hv by exact Hne. apply (WOK_other i (k_sem c)); [apply Hthr; exact Hv | exact Hne | | exact I].
          eapply enabledS_wheld_other; eauto.
      + unfold clog. rewrite cg_log_snoc, mon_app, Hmon. cbn [mon]. rewrite Ee.
        replace (S w <? S K) with true by (symmetry; apply Nat.ltb_lt; lia). reflexivity.
      + rdc. exact Hfifo.
      + rdc. exact Hqo.
    - destruct (finished (cw_th wk)) eqn:Ef; [|discriminate]. destruct (cw_put wk) eqn:Epp; [discriminate|].
      simpl. intro H; injection H as <-.
      constructor; prj; rewrite ?length_upd.
      + exact Hle.
      + rdc. exact Hsp.
      + rdc. rewrite Hown, Nat.eqb_refl. simpl. apply Nat.ltb_lt. lia.
      + rdc. exact Hns.
      + exact Hsw.
      + rdc. exact Htid.
      + intros v wkv Hv. destruct (Nat.eq_dec w v) as [<-|Hne].
        * rewrite (nth_upd_same _ _ _ _ En) in Hv. injection Hv as <-. unfold WOK. prj.
          split; [exact H1|]. split; [intros _; exact Ef|]. split.
          -- rdc. rewrite fw_app, H3. simpl. rewrite Nat.eqb_refl. reflexivity.
          -- exists s, fl. split; [exact Hs|]. unfold clog. rewrite proj_cg_snoc, app_nil_r. exact Hp.
        * rewrite nth_upd_other in Hv by exact Hne. apply (WOK_other i (k_sem c)); [apply Hthr; exact Hv | exact Hne | reflexivity | reflexivity].
      + rdc. exact Hmon.
      + rdc. rewrite map_app, app_assoc, Hfifo. reflexivity.
      + rdc. apply Forall_app. split; [exact Hqo|]. constructor; [exact Hw | constructor].
  Qed.

  Lemma cstep_worker_frame c w c' : cstep_worker c w = Some c' ->
    k_main c' = k_main c /\ length (k_workers c') = length (k_workers c)
    /\ gotten (k_log c') = gotten (k_log c) /\ joins (k_log c') = joins (k_log c)
    /\ has_intr (k_log c') = has_intr (k_log c) /\ status_raised (k_log c') = status_raised (k_log c)
    /\ main_stops (k_log c') = main_stops (k_log c)
    /\ k_stops c' = k_stops c /\ k_unreaped c' = k_unreaped c /\ k_raised c' = k_raised c /\ k_live c' = k_live c
    /\ (k_sem c' = Some 0 <-> k_sem c = Some 0).
  Proof.
    unfold cstep_worker. destruct (nth_error (k_workers c) w) as [wk|]; [|discriminate].
    destruct (tstep (cw_th wk)) as [[e th']|].
    - destruct (enabled (k_sem c) (S w) e) as [s'|] eqn:Ee; [|discriminate]. intro H; injection H as <-.
      prj. rewrite length_upd. rdc. repeat split; try reflexivity.
      + apply enabled_cases in Ee as [(_ & -> & ->)|[(_ & -> & ->)|(_ & -> & ->)]]; discriminate.
      + apply enabled_cases in Ee as [(_ & -> & ->)|[(_ & -> & ->)|(_ & -> & ->)]]; discriminate.
    - destruct (finished (cw_th wk) && negb (cw_put wk)); [|discriminate]. intro H; injection H as <-.
      prj. rewrite length_upd. rdc. repeat split; try reflexivity; auto.
  Qed.
End Classic.
