(* Lemmas behind Props/C11.v. *)
From TT Require Import Lib.Base Model.Router Model.StreamDecor Gen.Failfast Spec.C11 Corr.C11.

(* ---------- equality tests decide equality ---------- *)
Lemma onat_eqb_spec a b : onat_eqb a b = true <-> a = b.
Proof. apply option_eqb_spec. exact Nat.eqb_eq. Qed.
Lemma lnat_eqb_spec a b : lnat_eqb a b = true <-> a = b.
Proof. apply list_eqb_spec. exact Nat.eqb_eq. Qed.
Lemma olnat_eqb_spec a b : olnat_eqb a b = true <-> a = b.
Proof. apply option_eqb_spec. exact lnat_eqb_spec. Qed.
Lemma tsobj_eqb_spec a b : tsobj_eqb a b = true <-> a = b.
Proof.
  destruct a, b; simpl; try (split; discriminate); rewrite ?andb_true_iff, !Nat.eqb_eq.
  - split; [intros [-> ->]; reflexivity | intro H; injection H; auto].
  - split; [intros ->; reflexivity | intro H; injection H; auto].
  - split; [intros ->; reflexivity | intro H; injection H; auto].
Qed.
Lemma tsv_eqb_spec a b : tsv_eqb a b = true <-> a = b.
Proof.
  destruct a as [|x|], b as [|y|]; simpl; try (split; [reflexivity|reflexivity]); try (split; discriminate).
  rewrite tsobj_eqb_spec. split; [intros ->; reflexivity | intro H; injection H; auto].
Qed.
Lemma store_eqb_spec a b : store_eqb a b = true <-> a = b.
Proof. apply list_eqb_spec. exact lnat_eqb_spec. Qed.

Lemma oevent_eqb_spec a b : oevent_eqb a b = true <-> a = b.
Proof.
  destruct a as [a1 a2 a3 a4 a5 a6 a7 a8 a9 a10], b as [b1 b2 b3 b4 b5 b6 b7 b8 b9 b10].
  unfold oevent_eqb; simpl.
  rewrite !andb_true_iff, !onat_eqb_spec, !olnat_eqb_spec, !bool_eqb_spec, tsv_eqb_spec.
  split.
  - intros [[[[[[[[[-> ->] ->] ->] ->] ->] ->] ->] ->] ->]. reflexivity.
  - intro H; injection H; intros; subst. repeat split.
Qed.

Lemma entry_eqb_spec a b : entry_eqb a b = true <-> a = b.
Proof.
  destruct a as [| |x|], b as [| |y|]; simpl; try (split; [reflexivity|reflexivity]); try (split; discriminate).
  rewrite oevent_eqb_spec. split; [intros ->; reflexivity | intro H; injection H; auto].
Qed.

Lemma news_eqb_spec a b : list_eqb (list_eqb entry_eqb) a b = true <-> a = b.
Proof. apply list_eqb_spec. apply list_eqb_spec. exact entry_eqb_spec. Qed.

Lemma step_obs_eqb_spec a b : step_obs_eqb a b = true <-> a = b.
Proof.
  destruct a as [a1 a2 a3], b as [b1 b2 b3]. unfold step_obs_eqb; simpl.
  rewrite !andb_true_iff, bool_eqb_spec, news_eqb_spec, store_eqb_spec.
  split; [intros [[-> ->] ->]; reflexivity | intro H; injection H; auto].
Qed.

Theorem obs_eqb_spec a b : obs_eqb a b = true <-> a = b.
Proof.
  destruct a as [a1], b as [b1]. unfold obs_eqb; simpl.
  rewrite (list_eqb_spec _ step_obs_eqb_spec).
  split; [intros ->; reflexivity | intro H; injection H; auto].
Qed.

(* ---------- induction principle for the nested tree ---------- *)
Section node_ind'.
  Variable P : node -> Prop.
  Hypothesis HS : P Sink.
  Hypothesis HF : P FailFast.
  Hypothesis HC : forall ts, Forall P ts -> P (Copy ts).
  Hypothesis HT : forall a d ts, Forall P ts -> P (Tagger a d ts).
  Hypothesis HZ : forall t, P t -> P (Stamp t).
  Hypothesis HQ : forall c t, P t -> P (ToQueue c t).
  Fixpoint node_ind' (n : node) : P n :=
    let fix go (l : list node) : Forall P l :=
      match l with [] => Forall_nil _ | x :: r => Forall_cons x (node_ind' x) (go r) end in
    match n with
    | Sink => HS | FailFast => HF
    | Copy ts => HC ts (go ts)
    | Tagger a d ts => HT a d ts (go ts)
    | Stamp t => HZ t (node_ind' t)
    | ToQueue c t => HQ c t (node_ind' t)
    end.
End node_ind'.

(* ---------- sets of tags ---------- *)
Lemma mem_filter t p l : mem t (filter p l) = p t && mem t l.
Proof.
  induction l as [|x r IH]; simpl; [rewrite andb_false_r; reflexivity|].
  destruct (p x) eqn:Ex; simpl; rewrite IH.
  - destruct (Nat.eqb t x) eqn:E; simpl; [apply Nat.eqb_eq in E; subst; rewrite Ex; reflexivity|reflexivity].
  - destruct (Nat.eqb t x) eqn:E; simpl; [apply Nat.eqb_eq in E; subst; rewrite Ex; reflexivity|reflexivity].
Qed.

Lemma mem_In t l : mem t l = true <-> In t l.
Proof.
  induction l as [|x r IH]; simpl; [split; [discriminate|intros []]|].
  rewrite orb_true_iff, Nat.eqb_eq, IH. split; intros [H|H]; auto.
Qed.

Lemma mem_canon t p : mem t (canon p) = p t && Nat.ltb t tag_universe.
Proof.
  unfold canon. rewrite mem_filter. f_equal.
  destruct (Nat.ltb t tag_universe) eqn:E.
  - apply mem_In. apply in_seq. apply Nat.ltb_lt in E. lia.
  - destruct (mem t (seq 0 tag_universe)) eqn:M; [|reflexivity].
    apply mem_In in M. apply in_seq in M. apply Nat.ltb_ge in E. lia.
Qed.

Lemma canon_ext p q : (forall t, t < tag_universe -> p t = q t) -> canon p = canon q.
Proof. intro H. unfold canon. apply filter_ext_in. intros t Ht. apply in_seq in Ht. apply H. lia. Qed.

(* "tags added and discarded": the model's one pass equals union then difference *)
Lemma tagged_value_spec a d v : tagged_value a d v = set_diff (set_union v a) d.
Proof.
  unfold tagged_value, set_diff, set_union. apply canon_ext. intros t Ht.
  rewrite mem_canon. apply Nat.ltb_lt in Ht. rewrite Ht, andb_true_r. reflexivity.
Qed.

(* ---------- startTestRun / stopTestRun reach every sink once ---------- *)
Definition signal_at (r : rentry) (pk : path * leafkind) : list rentry :=
  match snd pk with LSink => [r] | LFail => [] end.

Lemma flat_map_signal r ts :
  Forall (fun n => signal n r = map (signal_at r) (leaves n)) ts ->
  flat_map (fun t => signal t r) ts = map (signal_at r) (flat_map leaves ts).
Proof.
  induction 1 as [|t ts Ht _ IH]; simpl; [reflexivity|]. rewrite map_app, Ht, IH. reflexivity.
Qed.

Lemma signal_spec r n : signal n r = map (signal_at r) (leaves n).
Proof.
  induction n as [| |ts IH|a d ts IH|t IH|c t IH] using node_ind'; simpl; try reflexivity.
  - rewrite map_map. simpl. apply flat_map_signal. exact IH.
  - rewrite map_map. simpl. apply flat_map_signal. exact IH.
  - rewrite map_map. exact IH.
  - rewrite map_map. exact IH.
Qed.

(* ---------- stores ---------- *)
Lemma nth_firstn_lt {A} (d : A) : forall n l k, k < n -> nth k (firstn n l) d = nth k l d.
Proof.
  induction n as [|n IH]; intros l k Hk; [lia|]. destruct l as [|x l]; simpl; [destruct k; reflexivity|].
  destruct k as [|k]; [reflexivity|]. apply IH. lia.
Qed.

Lemma firstn_app_le {A} n (l ext : list A) : n <= length l -> firstn n (l ++ ext) = firstn n l.
Proof. intro H. rewrite firstn_app. replace (n - length l) with 0 by lia. simpl. apply app_nil_r. Qed.

Lemma length_set_nth {A} (v : A) : forall st l, length (set_nth l v st) = length st.
Proof. induction st as [|x r IH]; intros [|l]; simpl; try reflexivity. rewrite IH. reflexivity. Qed.

Lemma nth_set_nth_neq {A} (v d : A) : forall st l k, k <> l -> nth k (set_nth l v st) d = nth k st d.
Proof.
  induction st as [|x r IH]; intros [|l] [|k] H; simpl; try reflexivity; try lia.
  apply IH. lia.
Qed.

Lemma firstn_set_nth {A} (v : A) : forall n st l, firstn n (set_nth l v st) = set_nth l v (firstn n st).
Proof.
  induction n as [|n IH]; intros [|x r] [|l]; simpl; try reflexivity. rewrite IH. reflexivity.
Qed.

(* ---------- the link between a reference in the model and the value-level state of the statement ---------- *)
(* nc: how many cells the caller owns *)
Inductive TagCorr (nc : nat) (st : store) : tagref -> tagstate -> Prop :=
| TC_orig r : ref_okb nc r = true -> TagCorr nc st r (Orig r)
| TC_none : TagCorr nc st TNone (Fresh [])
| TC_loc l v : v <> [] -> nc <= l -> l < length st -> nth l st [] = v -> TagCorr nc st (TLoc l) (Fresh v).

Lemma TagCorr_ext nc st ext r x : TagCorr nc st r x -> TagCorr nc (st ++ ext) r x.
Proof.
  intros [r0 H| |l v Hv H1 H2 H3]; constructor; try assumption.
  - rewrite app_length. lia.
  - rewrite app_nth1 by exact H2. exact H3.
Qed.

Lemma TagCorr_value nc st now r x :
  firstn nc st = now -> TagCorr nc st r x ->
  tags_or_empty st r = match x with Orig r0 => tags_or_empty now r0 | Fresh v => v end.
Proof.
  intros Hnow [r0 H| |l v Hv H1 H2 H3]; try reflexivity.
  - destruct r0 as [|v|l]; try reflexivity. simpl in H. apply Nat.ltb_lt in H.
    unfold tags_or_empty. simpl. rewrite <- Hnow, nth_firstn_lt by exact H. reflexivity.
  - unfold tags_or_empty. simpl. exact H3.
Qed.

(* an event with three fields replaced *)
Definition rebuild (e : event tagref) (r : tagref) (rt : route) (ts : tsv) : event tagref :=
  Evt (v_id e) (v_status e) r (v_runnable e) (v_file e) (v_bytes e) (v_eof e) (v_mime e) rt ts.

Definition ts_step (t : tsv) (s : pstep) : tsv := if is_stamp s then fill t else t.

(* what a leaf below the (relative) path p logs when e arrives at the top of p with tag state x *)
Definition LeafOut (nc : nat) (now st : store) (e : event tagref) (x : tagstate)
           (pk : path * leafkind) (out : list rentry) : Prop :=
  match snd pk with
  | LSink => exists r, out = [RSt (rebuild e r (fold_left route_step (fst pk) (v_route e))
                                          (fold_left ts_step (fst pk) (v_ts e)))]
                       /\ TagCorr nc st r (fold_left (tag_step now) (fst pk) x)
  | LFail => out = if fires (v_status e) then [RFired] else []
  end.

Lemma LeafOut_ext nc now st ext e x pk out : LeafOut nc now st e x pk out -> LeafOut nc now (st ++ ext) e x pk out.
Proof.
  unfold LeafOut. destruct (snd pk); [|auto]. intros [r [H1 H2]]. exists r. split; [exact H1|].
  apply TagCorr_ext. exact H2.
Qed.

Lemma Forall2_impl {A B} (P Q : A -> B -> Prop) l m : (forall a b, P a b -> Q a b) -> Forall2 P l m -> Forall2 Q l m.
Proof. intros H F. induction F; constructor; auto. Qed.

Lemma Forall2_map_l {A A' B} (f : A -> A') (P : A' -> B -> Prop) l m :
  Forall2 (fun a b => P (f a) b) l m -> Forall2 P (map f l) m.
Proof. induction 1; simpl; constructor; auto. Qed.

(* the targets of a copying decorator, one after the other, on a growing store *)
Lemma deliver_list_ok nc now ts :
  Forall (fun n => forall e st x, firstn nc st = now -> nc <= length st -> TagCorr nc st (v_tags e) x ->
            exists ext, snd (deliver n e st) = st ++ ext
                        /\ Forall2 (LeafOut nc now (st ++ ext) e x) (leaves n) (fst (deliver n e st))) ts ->
  forall e st x, firstn nc st = now -> nc <= length st -> TagCorr nc st (v_tags e) x ->
    exists ext, snd (deliver_list deliver ts e st) = st ++ ext
                /\ Forall2 (LeafOut nc now (st ++ ext) e x) (flat_map leaves ts) (fst (deliver_list deliver ts e st)).
Proof.
  induction 1 as [|t ts Ht _ IH]; intros e st x Hnow Hnc HT; simpl.
  - exists []. rewrite app_nil_r. split; [reflexivity|constructor].
  - destruct (Ht e st x Hnow Hnc HT) as [ext1 [E1 F1]].
    destruct (deliver t e st) as [o1 st1]. simpl in E1, F1. subst st1.
    destruct (IH e (st ++ ext1) x) as [ext2 [E2 F2]].
    + rewrite firstn_app_le by exact Hnc. exact Hnow.
    + rewrite app_length. lia.
    + apply TagCorr_ext. exact HT.
    + destruct (deliver_list deliver ts e (st ++ ext1)) as [o2 st2]. simpl in E2, F2. subst st2. simpl.
      exists (ext1 ++ ext2). rewrite app_assoc. split; [reflexivity|].
      apply Forall2_app; [|exact F2].
      eapply Forall2_impl; [|exact F1]. intros pk out. apply LeafOut_ext.
Qed.

Lemma rebuild_same e : rebuild e (v_tags e) (v_route e) (v_ts e) = e.
Proof. destruct e; reflexivity. Qed.

Lemma stamp_fill t : stamp t = fill t.
Proof. destruct t; reflexivity. Qed.

Theorem deliver_ok nc now n : forall e st x,
  firstn nc st = now -> nc <= length st -> TagCorr nc st (v_tags e) x ->
  exists ext, snd (deliver n e st) = st ++ ext
              /\ Forall2 (LeafOut nc now (st ++ ext) e x) (leaves n) (fst (deliver n e st)).
Proof.
  induction n as [| |ts IH|a d ts IH|t IH|c t IH] using node_ind'; intros e st x Hnow Hnc HT.
  - (* Sink *)
    exists []. rewrite app_nil_r. simpl. split; [reflexivity|]. constructor; [|constructor].
    unfold LeafOut. simpl. exists (v_tags e). rewrite rebuild_same. split; [reflexivity | exact HT].
  - (* StreamFailFast *)
    exists []. rewrite app_nil_r. simpl. split; [reflexivity|]. constructor; [|constructor]. reflexivity.
  - (* CopyStreamResult *)
    destruct (deliver_list_ok nc now ts IH e st x Hnow Hnc HT) as [ext [E F]].
    exists ext. simpl. split; [exact E|]. apply Forall2_map_l. exact F.
  - (* StreamTagger *)
    simpl deliver. set (v := tagged_value a d (tags_or_empty st (v_tags e))).
    set (e1 := with_tags e (match v with [] => TNone | _ => TLoc (length st) end)).
    assert (Hv : tag_step now x (PTag a d) = Fresh v).
    { simpl. f_equal. unfold v. rewrite tagged_value_spec, (TagCorr_value nc st now _ x Hnow HT). reflexivity. }
    destruct (deliver_list_ok nc now ts IH e1 (st ++ [v]) (Fresh v)) as [ext [E F]].
    + rewrite firstn_app_le by exact Hnc. exact Hnow.
    + rewrite app_length. lia.
    + unfold e1. simpl. destruct v as [|t0 v0] eqn:Ev; [constructor|].
      constructor; [discriminate | exact Hnc | rewrite app_length; simpl; lia | apply nth_middle].
    + exists ([v] ++ ext). rewrite app_assoc. split; [exact E|].
      apply Forall2_map_l. eapply Forall2_impl; [|exact F].
      intros [p k] out. unfold LeafOut, under. cbn [fst snd].
      change (fold_left (tag_step now) (PTag a d :: p) x)
        with (fold_left (tag_step now) p (tag_step now x (PTag a d))).
      rewrite Hv. destruct k; exact (fun H => H).
  - (* TimestampingStreamResult *)
    simpl deliver.
    destruct (IH (with_ts e (stamp (v_ts e))) st x Hnow Hnc HT) as [ext [E F]].
    exists ext. split; [exact E|]. simpl leaves. apply Forall2_map_l. eapply Forall2_impl; [|exact F].
    intros [p k] out. unfold LeafOut, under. cbn [fst snd].
    change (fold_left ts_step (PStamp :: p) (v_ts e)) with (fold_left ts_step p (fill (v_ts e))).
    rewrite <- stamp_fill. destruct k; exact (fun H => H).
  - (* StreamToQueue *)
    simpl deliver.
    destruct (IH (with_route e (route_code_opt c (v_route e))) st x Hnow Hnc HT) as [ext [E F]].
    exists ext. split; [exact E|]. simpl leaves. apply Forall2_map_l. eapply Forall2_impl; [|exact F].
    intros [p k] out. unfold LeafOut, under. cbn [fst snd]. destruct k; exact (fun H => H).
Qed.

(* ---------- no call writes a cell; cells allocated by a tagger keep their value to the end ---------- *)
Lemma deliver_list_appends ts :
  Forall (fun n => forall e st, exists ext, snd (deliver n e st) = st ++ ext) ts ->
  forall e st, exists ext, snd (deliver_list deliver ts e st) = st ++ ext.
Proof.
  induction 1 as [|t ts Ht _ IH]; intros e st; simpl.
  - exists []. rewrite app_nil_r. reflexivity.
  - destruct (Ht e st) as [ext1 E1]. destruct (deliver t e st) as [o1 st1]. simpl in E1. subst st1.
    destruct (IH e (st ++ ext1)) as [ext2 E2].
    destruct (deliver_list deliver ts e (st ++ ext1)) as [o2 st2]. simpl in E2. subst st2.
    exists (ext1 ++ ext2). simpl. rewrite app_assoc. reflexivity.
Qed.

Lemma deliver_appends n : forall e st, exists ext, snd (deliver n e st) = st ++ ext.
Proof.
  induction n as [| |ts IH|a d ts IH|t IH|c t IH] using node_ind'; intros e st; simpl.
  - exists []. rewrite app_nil_r. reflexivity.
  - exists []. rewrite app_nil_r. reflexivity.
  - apply deliver_list_appends. exact IH.
  - match goal with |- context [deliver_list deliver ts ?e1 ?st1] =>
      destruct (deliver_list_appends ts IH e1 st1) as [ext E] end.
    eexists. rewrite E, <- app_assoc. reflexivity.
  - apply IH.
  - apply IH.
Qed.

Theorem calls_only_allocate n o st : (forall l v, o <> OMutate l v) -> exists ext, snd (step n o st) = st ++ ext.
Proof.
  intro H. destruct o as [| |e|l v]; simpl.
  - exists []. rewrite app_nil_r. reflexivity.
  - exists []. rewrite app_nil_r. reflexivity.
  - apply deliver_appends.
  - exfalso. exact (H l v eq_refl).
Qed.

(* st2 is a later store: at least as long, and every non-caller cell of st still holds the same set *)
Definition Ext (nc : nat) (st st2 : store) : Prop :=
  length st <= length st2 /\ forall l, nc <= l -> l < length st -> nth l st2 [] = nth l st [].

Lemma Ext_refl nc st : Ext nc st st.
Proof. split; [lia | reflexivity]. Qed.

Lemma Ext_trans nc a b c : Ext nc a b -> Ext nc b c -> Ext nc a c.
Proof. intros [L1 H1] [L2 H2]. split; [lia|]. intros l Hl Hl'. rewrite H2 by lia. apply H1; lia. Qed.

Lemma Ext_app nc st ext : Ext nc st (st ++ ext).
Proof. split; [rewrite app_length; lia|]. intros l _ Hl. apply app_nth1. exact Hl. Qed.

Lemma step_Ext nc n o st : op_okb nc o = true -> Ext nc st (snd (step n o st)).
Proof.
  intro Hok. destruct o as [| |e|l v]; simpl; try apply Ext_refl.
  - destruct (deliver_appends n e st) as [ext E]. rewrite E. apply Ext_app.
  - simpl in Hok. apply Nat.ltb_lt in Hok. split; [rewrite length_set_nth; lia|].
    intros k Hk _. apply nth_set_nth_neq. lia.
Qed.

Lemma step_caller nc n o st : nc <= length st ->
  firstn nc (snd (step n o st)) = caller_step (firstn nc st) o.
Proof.
  intro Hnc. destruct o as [| |e|l v]; simpl; try reflexivity.
  - destruct (deliver_appends n e st) as [ext E]. rewrite E. apply firstn_app_le. exact Hnc.
  - apply firstn_set_nth.
Qed.

Lemma last_indep {A} (l : list A) : forall a d d', last (a :: l) d = last (a :: l) d'.
Proof. induction l as [|b l IH]; intros a d d'; [reflexivity|]. simpl in *. apply (IH b). Qed.

Lemma final_store_cons n o l st : final_store n (o :: l) st = final_store n l (snd (step n o st)).
Proof.
  unfold final_store. simpl. destruct (step n o st) as [out st'] eqn:E. simpl.
  destruct (run n l st') as [|x r] eqn:R; [reflexivity|].
  change (map snd (x :: r)) with (snd x :: map snd r). apply last_indep.
Qed.

Lemma final_Ext nc n : forall l st, forallb (op_okb nc) l = true -> Ext nc st (final_store n l st).
Proof.
  induction l as [|o l IH]; intros st H.
  - apply Ext_refl.
  - simpl in H. apply andb_true_iff in H as [H1 H2]. rewrite final_store_cons.
    eapply Ext_trans; [apply step_Ext; exact H1 | apply IH; exact H2].
Qed.

Lemma final_caller nc n : forall l st, nc <= length st ->
  firstn nc (final_store n l st) = caller_after (firstn nc st) l.
Proof.
  induction l as [|o l IH]; intros st Hnc; [reflexivity|].
  rewrite final_store_cons, IH.
  - rewrite step_caller by exact Hnc. reflexivity.
  - destruct o as [| |e|k v]; simpl; try exact Hnc.
    + destruct (deliver_appends n e st) as [ext E]. rewrite E, app_length. lia.
    + rewrite length_set_nth. exact Hnc.
Qed.

(* ---------- the table read from the live code: StreamFailFast reacts to 'fail' and 'uxsuccess' only ---------- *)
Lemma fires_spec s : fires s = is_failure s.
Proof.
  destruct s as [k|]; [|reflexivity]. unfold fires, is_failure, failfast_statuses, st_fail, st_uxsuccess. simpl.
  repeat match goal with |- context [Nat.eqb k ?n] => destruct (Nat.eqb k n) end; reflexivity.
Qed.

(* ---------- reading the logged references at the end of the run ---------- *)
Lemma resolve_tag nc st CUR FIN now r x :
  TagCorr nc st r x -> Ext nc st FIN -> firstn nc CUR = now ->
  deref (if own nc r then CUR else FIN) r = tag_finish now x.
Proof.
  intros [r0 H| |l v Hv H1 H2 H3] [_ HE] Hnow.
  - destruct r0 as [|v|l]; try reflexivity. unfold ref_okb in H. unfold own. rewrite H.
    apply Nat.ltb_lt in H. simpl. rewrite <- Hnow, nth_firstn_lt by exact H. reflexivity.
  - reflexivity.
  - unfold own. replace (Nat.ltb l nc) with false by (symmetry; apply Nat.ltb_ge; exact H1).
    simpl. rewrite HE by assumption. rewrite H3. destruct v; [exfalso; apply Hv; reflexivity | reflexivity].
Qed.

Lemma fill_fill t : fill (fill t) = fill t.
Proof. destruct t; reflexivity. Qed.

Lemma ts_fold p : forall t, fold_left ts_step p t = if existsb is_stamp p then fill t else t.
Proof.
  induction p as [|s p IH]; intro t; simpl; [reflexivity|]. rewrite IH. unfold ts_step.
  destruct (is_stamp s); simpl; [|reflexivity].
  destruct (existsb is_stamp p); [apply fill_fill | reflexivity].
Qed.

Lemma leaf_resolved nc now st CUR FIN e pk out :
  LeafOut nc now st e (Orig (v_tags e)) pk out -> Ext nc st FIN -> firstn nc CUR = now ->
  map (resolve nc CUR FIN) out = expect_new now (OStatus e) pk.
Proof.
  destruct pk as [p k]. unfold LeafOut, expect_new. simpl. destruct k.
  - intros [r [-> HT]] HE Hnow. simpl. unfold expect_event, with_tags, rebuild. simpl.
    rewrite (resolve_tag nc st CUR FIN now r _ HT HE Hnow), ts_fold. reflexivity.
  - intros -> _ _. rewrite fires_spec. destruct (is_failure (v_status e)); reflexivity.
Qed.

Lemma Forall2_map_eq {A B C} (f : B -> C) (g : A -> C) l m :
  Forall2 (fun a b => f b = g a) l m -> map f m = map g l.
Proof. induction 1; simpl; [reflexivity|]. f_equal; assumption. Qed.

Lemma step_new_ok nc now FIN n o st :
  firstn nc st = now -> nc <= length st -> op_okb nc o = true ->
  Ext nc (snd (step n o st)) FIN ->
  map (map (resolve nc (snd (step n o st)) FIN)) (fst (step n o st)) = map (expect_new now o) (leaves n).
Proof.
  intros Hnow Hnc Hok HE. destruct o as [| |e|l v]; simpl fst.
  - rewrite signal_spec, map_map. apply map_ext. intros [p []]; reflexivity.
  - rewrite signal_spec, map_map. apply map_ext. intros [p []]; reflexivity.
  - destruct (deliver_ok nc now n e st (Orig (v_tags e)) Hnow Hnc) as [ext [E F]].
    + constructor. simpl in Hok. apply andb_true_iff in Hok as [Hok _]. exact Hok.
    + simpl in HE. simpl snd. rewrite E in *. apply Forall2_map_eq. eapply Forall2_impl; [|exact F].
      intros pk out HL. eapply leaf_resolved; [exact HL | exact HE |].
      rewrite firstn_app_le by exact Hnc. exact Hnow.
  - unfold quiet. rewrite signal_spec, !map_map. apply map_ext. intros [p []]; reflexivity.
Qed.

Lemma caller_after_snoc c past o : caller_after c (past ++ [o]) = caller_step (caller_after c past) o.
Proof. unfold caller_after. rewrite fold_left_app. reflexivity. Qed.

Lemma run_ok i FIN :
  forall l past st,
    forallb (op_okb (length (caller i))) l = true ->
    firstn (length (caller i)) st = caller_after (caller i) past ->
    length (caller i) <= length st ->
    final_store (tree i) l st = FIN ->
    steps_okb i past l (map (to_obs (length (caller i)) FIN) (run (tree i) l st)) = true.
Proof.
  induction l as [|o l IH]; intros past st Hok Hnow Hnc HF; [reflexivity|].
  simpl in Hok. apply andb_true_iff in Hok as [Ho Hl].
  rewrite final_store_cons in HF.
  pose proof (step_new_ok _ _ FIN (tree i) o st Hnow Hnc Ho) as Hnew.
  pose proof (step_caller (length (caller i)) (tree i) o st Hnc) as Hcal.
  pose proof (step_Ext (length (caller i)) (tree i) o st Ho) as [HL _].
  pose proof (final_Ext (length (caller i)) (tree i) l (snd (step (tree i) o st)) Hl) as HE.
  rewrite HF in HE. specialize (Hnew HE).
  simpl run. destruct (step (tree i) o st) as [out st'] eqn:Es. simpl in *.
  apply andb_true_iff. split.
  - unfold step_okb, to_obs. simpl. apply andb_true_iff. split.
    + apply news_eqb_spec. exact Hnew.
    + apply store_eqb_spec. rewrite Hcal, Hnow. reflexivity.
  - apply IH; [exact Hl | | lia | exact HF].
    rewrite Hcal, Hnow, caller_after_snoc. reflexivity.
Qed.

Theorem model_meets_spec i : wf i -> spec_okb i (model i) = true.
Proof.
  intro Hwf. unfold spec_okb, model. simpl.
  apply (run_ok i (final_store (tree i) (ops i) (caller i))).
  - exact Hwf.
  - rewrite firstn_all. reflexivity.
  - lia.
  - reflexivity.
Qed.

(* ---------- the executable statement implies the readable one ---------- *)
Lemma step_okb_sound i past o so : step_okb i past o so = true -> Step_spec i past o so.
Proof.
  unfold step_okb, Step_spec. rewrite !andb_true_iff, negb_true_iff, news_eqb_spec, store_eqb_spec.
  intros [[H1 H2] H3]. auto.
Qed.

Lemma steps_okb_sound i : forall l past os,
  steps_okb i past l os = true ->
  length os = length l
  /\ forall k o so, nth_error l k = Some o -> nth_error os k = Some so -> Step_spec i (past ++ firstn k l) o so.
Proof.
  induction l as [|o l IH]; intros past [|so os]; simpl; try discriminate.
  - intros _. split; [reflexivity|]. intros [|k] ? ?; discriminate.
  - rewrite andb_true_iff. intros [H1 H2]. apply IH in H2 as [L H2]. split; [f_equal; exact L|].
    intros [|k] o' so' Ho Hso; simpl in *.
    + injection Ho as <-. injection Hso as <-. rewrite app_nil_r. apply step_okb_sound. exact H1.
    + specialize (H2 k o' so' Ho Hso). rewrite <- app_assoc in H2. exact H2.
Qed.

Theorem spec_okb_sound i o : spec_okb i o = true -> Spec i o.
Proof. unfold spec_okb, Spec. intro H. apply steps_okb_sound in H. exact H. Qed.

(* ---------- consequences, clause by clause ---------- *)
Lemma model_step i k o so : wf i ->
  nth_error (ops i) k = Some o -> nth_error (o_steps (model i)) k = Some so -> Step_spec i (firstn k (ops i)) o so.
Proof.
  intros Hwf Ho Hso. destruct (spec_okb_sound i (model i) (model_meets_spec i Hwf)) as [_ H]. exact (H k o so Ho Hso).
Qed.

(* every call reaches every sink exactly once, as the image of that call *)
Theorem once_in_order i : wf i -> forall k o so j pk,
  nth_error (ops i) k = Some o -> nth_error (o_steps (model i)) k = Some so ->
  nth_error (leaves (tree i)) j = Some pk ->
  let now := caller_after (caller i) (firstn k (ops i)) in
  nth_error (s_new so) j = Some (expect_new now o pk)
  /\ (snd pk = LSink -> (forall l v, o <> OMutate l v) -> length (expect_new now o pk) = 1).
Proof.
  intros Hwf k o so j pk Ho Hso Hpk now. destruct (model_step i k o so Hwf Ho Hso) as (_ & Hnew & _).
  split.
  - rewrite Hnew. fold now. rewrite nth_error_map, Hpk. reflexivity.
  - intros Hk Hm. unfold expect_new. rewrite Hk. destruct o as [| |e|l v]; try reflexivity.
    exfalso. exact (Hm l v eq_refl).
Qed.

(* a sink's log depends on its own path only *)
Theorem independent i1 i2 : wf i1 -> wf i2 -> caller i1 = caller i2 -> ops i1 = ops i2 ->
  forall j1 j2 pk, nth_error (leaves (tree i1)) j1 = Some pk -> nth_error (leaves (tree i2)) j2 = Some pk ->
  forall k so1 so2, nth_error (o_steps (model i1)) k = Some so1 -> nth_error (o_steps (model i2)) k = Some so2 ->
    nth_error (s_new so1) j1 = nth_error (s_new so2) j2.
Proof.
  intros W1 W2 Ec Eo j1 j2 pk H1 H2 k so1 so2 S1 S2.
  destruct (spec_okb_sound i1 (model i1) (model_meets_spec i1 W1)) as [L1 _].
  assert (Hk : k < length (ops i1)).
  { rewrite <- L1. apply nth_error_Some. rewrite S1. discriminate. }
  destruct (nth_error (ops i1) k) as [o|] eqn:Ho; [|apply nth_error_None in Ho; lia].
  destruct (once_in_order i1 W1 k o so1 j1 pk Ho S1 H1) as [R1 _].
  rewrite Eo in Ho. destruct (once_in_order i2 W2 k o so2 j2 pk Ho S2 H2) as [R2 _].
  rewrite R1, R2, Ec, Eo. reflexivity.
Qed.

(* only the decorator's own field changes *)
Definition queue_codes (p : path) : list seg := flat_map (fun s => match s with PQueue (Some c) => [c] | _ => [] end) p.
Definition taggers (p : path) : list (list tag * list tag) :=
  flat_map (fun s => match s with PTag a d => [(a, d)] | _ => [] end) p.
(* is tag t in the set after the taggers, given whether it was in before *)
Definition member_after (tg : list (list tag * list tag)) (t : tag) (b : bool) : bool :=
  fold_left (fun b ad => (b || mem t (fst ad)) && negb (mem t (snd ad))) tg b.

Lemma route_fold p : forall r, fold_left route_step p r = push_all (queue_codes p) r.
Proof.
  unfold push_all. induction p as [|s p IH]; intro r; simpl; [reflexivity|].
  rewrite IH. destruct s as [| | |[c|]]; simpl; reflexivity.
Qed.

(* queues without a routing code are transparent for the route code: with only such queues on the path the
   sink receives the caller's route code (None included) *)
Definition has_code (s : pstep) : bool := match s with PQueue (Some _) => true | _ => false end.
Lemma no_code_transparent now p e :
  existsb has_code p = false -> v_route (expect_event now p e) = v_route e.
Proof.
  intro H. unfold expect_event. simpl. rewrite route_fold.
  assert (Q : queue_codes p = []).
  { induction p as [|s p IH]; [reflexivity|]. simpl in H. apply orb_false_iff in H. destruct H as [Hs Hp].
    unfold queue_codes. simpl. fold (queue_codes p). rewrite (IH Hp).
    destruct s as [| | |[c|]]; simpl in *; try reflexivity. discriminate. }
  rewrite Q. reflexivity.
Qed.

Lemma tag_fold_notag now p : forall x, taggers p = [] -> fold_left (tag_step now) p x = x.
Proof.
  induction p as [|s p IH]; intros x H; simpl; [reflexivity|].
  destruct s; simpl in *; try (apply IH; exact H). discriminate.
Qed.

Definition state_value (now : store) (x : tagstate) : list tag :=
  match x with Orig r => tags_or_empty now r | Fresh v => v end.

Lemma mem_tag_step now x a d t : t < tag_universe ->
  mem t (state_value now (tag_step now x (PTag a d))) = (mem t (state_value now x) || mem t a) && negb (mem t d).
Proof.
  intro Ht. simpl. unfold set_diff, set_union. rewrite !mem_canon.
  apply Nat.ltb_lt in Ht. rewrite Ht, !andb_true_r. reflexivity.
Qed.

Lemma tag_fold_mem now t : t < tag_universe -> forall p x,
  mem t (state_value now (fold_left (tag_step now) p x)) = member_after (taggers p) t (mem t (state_value now x)).
Proof.
  intro Ht. induction p as [|s p IH]; intro x; [reflexivity|].
  simpl fold_left. rewrite IH. destruct s; try reflexivity.
  simpl taggers. unfold member_after. simpl fold_left. f_equal. apply mem_tag_step. exact Ht.
Qed.

Lemma tag_fold_fresh now p : forall x, taggers p <> [] -> exists v, fold_left (tag_step now) p x = Fresh v.
Proof.
  induction p as [|s p IH]; intros x H; [exfalso; apply H; reflexivity|].
  simpl fold_left. destruct s; simpl in H; try (apply IH; exact H).
  destruct (taggers p) eqn:E.
  - rewrite (tag_fold_notag now p _ E). simpl. eexists; reflexivity.
  - apply IH. discriminate.
Qed.

Lemma in_canon t p : In t (canon p) -> t < tag_universe.
Proof. unfold canon. intro H. apply filter_In in H as [H _]. apply in_seq in H. lia. Qed.

Lemma tag_fold_small now p : forall x, taggers p <> [] ->
  forall t, In t (state_value now (fold_left (tag_step now) p x)) -> t < tag_universe.
Proof.
  induction p as [|s p IH] using rev_ind; intros x H t; [exfalso; apply H; reflexivity|].
  rewrite fold_left_app. simpl. destruct s; simpl;
    try (unfold taggers in H; rewrite flat_map_app in H; simpl in H; rewrite app_nil_r in H; apply IH; exact H).
  unfold set_diff. apply in_canon.
Qed.

Theorem only_own_field now p e :
  let d := expect_event now p e in
  v_id d = v_id e /\ v_status d = v_status e /\ v_runnable d = v_runnable e /\ v_file d = v_file e
  /\ v_bytes d = v_bytes e /\ v_eof d = v_eof e /\ v_mime d = v_mime e
  (* route code: the codes of the StreamToQueue objects on the path, prefixed in turn *)
  /\ v_route d = push_all (queue_codes p) (v_route e)
  (* timestamp: a supplied one is kept; a missing one is filled iff a TimestampingStreamResult is on the path *)
  /\ (forall k, v_ts e = TsGiven k -> v_ts d = TsGiven k)
  /\ (v_ts e = TsNone -> v_ts d = if existsb is_stamp p then TsFilled else TsNone)
  (* tags: without a tagger the caller's own argument; with taggers exactly the tags added and not discarded *)
  /\ (taggers p = [] -> v_tags d = deref now (v_tags e))
  /\ (taggers p <> [] ->
      forall t, In t (match v_tags d with Some v => v | None => [] end)
                <-> t < tag_universe /\ member_after (taggers p) t (mem t (tags_or_empty now (v_tags e))) = true).
Proof.
  cbv zeta. unfold expect_event. simpl. repeat (split; [reflexivity|]).
  split; [apply route_fold|]. split; [|split; [|split]].
  - intros k ->. destruct (existsb is_stamp p); reflexivity.
  - intros ->. destruct (existsb is_stamp p); reflexivity.
  - intro H. rewrite (tag_fold_notag now p _ H). reflexivity.
  - intros H t.
    pose proof (tag_fold_mem now t) as Hm. pose proof (tag_fold_small now p (Orig (v_tags e)) H t) as Hs.
    destruct (tag_fold_fresh now p (Orig (v_tags e)) H) as [v Ev]. rewrite Ev in *. simpl in Hs.
    assert (Hv : match tag_finish now (Fresh v) with Some v0 => v0 | None => [] end = v) by (destruct v; reflexivity).
    rewrite Hv. split.
    + intro Hin. split; [apply Hs; exact Hin|].
      specialize (Hm (Hs Hin) p (Orig (v_tags e))). rewrite Ev in Hm. simpl in Hm. rewrite <- Hm. apply mem_In. exact Hin.
    + intros [Ht Hb]. specialize (Hm Ht p (Orig (v_tags e))). rewrite Ev in Hm. simpl in Hm.
      apply mem_In. rewrite Hm. exact Hb.
Qed.

(* the failure callback fires for 'fail' and 'uxsuccess' only (Gen/Failfast.v against the statement) *)
Theorem failfast_table : forall s, fires s = is_failure s.
Proof. exact fires_spec. Qed.

(* the caller's objects: no call changes them (whatever the tree), only the caller does *)
Theorem no_mutation i : wf i -> forall k o so,
  nth_error (ops i) k = Some o -> nth_error (o_steps (model i)) k = Some so ->
  s_caller so = caller_step (caller_after (caller i) (firstn k (ops i))) o
  /\ ((forall l v, o <> OMutate l v) -> s_caller so = caller_after (caller i) (firstn k (ops i))).
Proof.
  intros Hwf k o so Ho Hso. destruct (model_step i k o so Hwf Ho Hso) as (_ & _ & Hc).
  split; [exact Hc|]. intro H. rewrite Hc. destruct o as [| |e|l v]; try reflexivity.
  exfalso. exact (H l v eq_refl).
Qed.

(* ---------- the caller's tag argument enters only through its value at the time of the call ---------- *)
(* the status call by value: the tags argument replaced by what it denotes when the call is made *)
Definition by_value (now : store) (e : event tagref) : event otags := with_tags e (deref now (v_tags e)).

Definition SameVal (now1 now2 : store) (x1 x2 : tagstate) : Prop :=
  match x1, x2 with
  | Orig a, Orig b => deref now1 a = deref now2 b
  | Fresh v, Fresh w => v = w
  | _, _ => False
  end.

Lemma tag_fold_value now1 now2 p : forall x1 x2, SameVal now1 now2 x1 x2 ->
  tag_finish now1 (fold_left (tag_step now1) p x1) = tag_finish now2 (fold_left (tag_step now2) p x2).
Proof.
  induction p as [|s p IH]; intros x1 x2 H.
  - destruct x1 as [a|v], x2 as [b|w]; simpl in *; try contradiction; [exact H | subst; reflexivity].
  - simpl fold_left. apply IH. destruct s; simpl; try exact H.
    destruct x1 as [a|v], x2 as [b|w]; simpl in *; try contradiction.
    + unfold tags_or_empty. rewrite H. reflexivity.
    + subst. reflexivity.
Qed.

Theorem value_only now1 now2 p e1 e2 :
  by_value now1 e1 = by_value now2 e2 -> expect_event now1 p e1 = expect_event now2 p e2.
Proof.
  destruct e1 as [a1 a2 a3 a4 a5 a6 a7 a8 a9 a10], e2 as [b1 b2 b3 b4 b5 b6 b7 b8 b9 b10].
  unfold by_value, with_tags, expect_event. simpl. intro H. injection H as -> -> H -> -> -> -> -> -> ->.
  f_equal. apply tag_fold_value. exact H.
Qed.

(* two status calls - in two arbitrary trees, two arbitrary histories, passing whatever objects - that
   are equal by value reach two sinks below the same decorators as the same call *)
Theorem value_only_model i1 i2 : wf i1 -> wf i2 ->
  forall k1 k2 e1 e2 so1 so2 j1 j2 pk,
  nth_error (ops i1) k1 = Some (OStatus e1) -> nth_error (ops i2) k2 = Some (OStatus e2) ->
  nth_error (o_steps (model i1)) k1 = Some so1 -> nth_error (o_steps (model i2)) k2 = Some so2 ->
  nth_error (leaves (tree i1)) j1 = Some pk -> nth_error (leaves (tree i2)) j2 = Some pk ->
  by_value (caller_after (caller i1) (firstn k1 (ops i1))) e1 = by_value (caller_after (caller i2) (firstn k2 (ops i2))) e2 ->
  nth_error (s_new so1) j1 = nth_error (s_new so2) j2.
Proof.
  intros W1 W2 k1 k2 e1 e2 so1 so2 j1 j2 pk O1 O2 S1 S2 L1 L2 HV.
  destruct (once_in_order i1 W1 k1 _ so1 j1 pk O1 S1 L1) as [R1 _].
  destruct (once_in_order i2 W2 k2 _ so2 j2 pk O2 S2 L2) as [R2 _].
  rewrite R1, R2. f_equal. unfold expect_new. destruct (snd pk).
  - rewrite (value_only _ _ (fst pk) e1 e2 HV). reflexivity.
  - apply (f_equal v_status) in HV. destruct e1, e2; simpl in HV. simpl. rewrite HV. reflexivity.
Qed.

(* startTestRun / stopTestRun: every such call, wherever it stands in the history (first run or a later
   one, repeated, without a matching partner), reaches every sink as exactly that one entry and reaches a
   StreamFailFast leaf as nothing *)
Theorem start_stop_every_time i : wf i -> forall k o so j pk,
  (o = OStart \/ o = OStop) ->
  nth_error (ops i) k = Some o -> nth_error (o_steps (model i)) k = Some so ->
  nth_error (leaves (tree i)) j = Some pk ->
  nth_error (s_new so) j = Some (match snd pk, o with
                                 | LSink, OStart => [EStart] | LSink, OStop => [EStop] | _, _ => [] end).
Proof.
  intros Hwf k o so j pk Hkind Ho Hso Hpk.
  destruct (once_in_order i Hwf k o so j pk Ho Hso Hpk) as [R _]. rewrite R. f_equal.
  unfold expect_new. destruct Hkind as [-> | ->]; destruct (snd pk); reflexivity.
Qed.
