(* Lemmas behind Props/C19.v. *)
From Coq Require Import Permutation Sorted.
From TT Require Import Lib.Base Lib.Sort Model.Suites Spec.C19 Corr.C19.

(* ---------- induction principle for the nested tree ---------- *)
Section node_ind'.
  Variable P : node -> Prop.
  Hypothesis HC : forall i, P (Case i).
  Hypothesis HP : forall l, Forall P l -> P (Plain l).
  Hypothesis HU : forall s f l, Forall P l -> P (Custom s f l).
  Fixpoint node_ind' (n : node) : P n :=
    let fix go (l : list node) : Forall P l :=
      match l with [] => Forall_nil _ | x :: r => Forall_cons x (node_ind' x) (go r) end in
    match n with Case i => HC i | Plain l => HP l (go l) | Custom s f l => HU s f l (go l) end.
End node_ind'.

(* ---------- iterate_tests yields the leaves in suite order ---------- *)
Lemma go_paths_snd l : Forall (fun n => forall pre, map snd (paths_from pre n) = iterate n) l ->
  forall pre k, map snd (go_paths paths_from pre k l) = flat_map iterate l.
Proof.
  induction 1 as [|c r Hc _ IH]; intros pre k; simpl; [reflexivity|].
  rewrite map_app, Hc, IH. reflexivity.
Qed.

Lemma paths_from_snd n : forall pre, map snd (paths_from pre n) = iterate n.
Proof.
  induction n as [i | l IH | s f l IH] using node_ind'; intro pre; simpl;
    [reflexivity | apply go_paths_snd; exact IH | apply go_paths_snd; exact IH].
Qed.

Lemma iterate_leaves n : iterate n = leaves n.
Proof. unfold leaves, paths. symmetry. apply paths_from_snd. Qed.

(* ---------- filter_by_ids keeps exactly the chosen leaves, in place ---------- *)
Lemma go_paths_filter keep l :
  Forall (fun n => forall pre, paths_from pre (filter_ids keep n)
                               = filter (fun p => keep (snd p)) (paths_from pre n)) l ->
  forall pre k, go_paths paths_from pre k (map (filter_ids keep) l)
                = filter (fun p => keep (snd p)) (go_paths paths_from pre k l).
Proof.
  induction 1 as [|c r Hc _ IH]; intros pre k; simpl; [reflexivity|].
  rewrite filter_app, Hc, IH. reflexivity.
Qed.

Lemma paths_from_filter keep n : forall pre,
  paths_from pre (filter_ids keep n) = filter (fun p => keep (snd p)) (paths_from pre n).
Proof.
  induction n as [i | l IH | s f l IH] using node_ind'; intro pre; simpl.
  - destruct (keep i); reflexivity.
  - apply go_paths_filter; exact IH.
  - apply go_paths_filter; exact IH.
Qed.

Theorem filter_paths keep n :
  paths (filter_ids keep n) = filter (fun p => keep (snd p)) (paths n).
Proof. apply paths_from_filter. Qed.

Corollary filter_iterate keep n : iterate (filter_ids keep n) = filter keep (iterate n).
Proof.
  rewrite !iterate_leaves. unfold leaves. rewrite filter_paths.
  generalize (paths n). intro l. induction l as [|[p i] l IH]; simpl; [reflexivity|].
  destruct (keep i); simpl; congruence.
Qed.

(* ---------- duplicates ---------- *)
Lemma mem_In i l : mem i l = true <-> In i l.
Proof.
  induction l as [|x r IH]; simpl; [split; [discriminate|tauto]|].
  rewrite orb_true_iff, IH, Nat.eqb_eq. split; intros [H|H]; auto.
Qed.

Lemma has_dup_NoDup l : has_dup l = false <-> NoDup l.
Proof.
  induction l as [|x r IH]; simpl; [split; [constructor|reflexivity]|].
  rewrite orb_false_iff, IH. split.
  - intros [H1 H2]. constructor; [|exact H2]. intro Hin. apply mem_In in Hin. congruence.
  - intro H; inversion H; subst. split; [|assumption].
    destruct (mem x r) eqn:E; [apply mem_In in E; contradiction|reflexivity].
Qed.

Theorem sorted_raises_iff_dup u n :
  sorted_tests u n = Raised ValueError <-> ~ NoDup (iterate n).
Proof.
  unfold sorted_tests. destruct (has_dup (iterate n)) eqn:E.
  - split; [|reflexivity]. intros _ H. apply has_dup_NoDup in H. congruence.
  - split; [discriminate|]. intro H. exfalso. apply H. apply has_dup_NoDup. exact E.
Qed.

Theorem sorted_raises_only_ValueError u n e : sorted_tests u n = Raised e -> e = ValueError.
Proof. unfold sorted_tests. destruct (has_dup _); congruence. Qed.

(* ---------- sorting: permutation and order ---------- *)
Lemma item_leb_total a b : item_leb a b = true \/ item_leb b a = true.
Proof.
  destruct a as [[x|] ?], b as [[y|] ?]; unfold item_leb, key_leb; simpl; auto.
  destruct (Nat.leb x y) eqn:E; auto. right. apply Nat.leb_le. apply Nat.leb_gt in E. lia.
Qed.

Lemma top_leb_total a b : top_leb a b = true \/ top_leb b a = true.
Proof.
  destruct a as [[x|] ? ? ?], b as [[y|] ? ? ?]; unfold top_leb, key_leb; simpl; auto.
  destruct (Nat.leb x y) eqn:E; auto. right. apply Nat.leb_le. apply Nat.leb_gt in E. lia.
Qed.

Lemma perm_flat_map {A B} (f : A -> list B) l l' :
  Permutation l l' -> Permutation (flat_map f l) (flat_map f l').
Proof.
  induction 1; simpl; auto.
  - apply Permutation_app_head; assumption.
  - rewrite !app_assoc. apply Permutation_app_tail, Permutation_app_comm.
  - etransitivity; eauto.
Qed.

(* the ids below the items of a flattened tree are the ids of the tree *)
Lemma flat_map_flat_map {A B C} (f : A -> list B) (g : B -> list C) l :
  flat_map g (flat_map f l) = flat_map (fun x => flat_map g (f x)) l.
Proof. induction l as [|x l IH]; simpl; [reflexivity|]. rewrite flat_map_app, IH. reflexivity. Qed.

Lemma flat_map_map {A B C} (f : A -> B) (g : B -> list C) l :
  flat_map g (map f l) = flat_map (fun x => g (f x)) l.
Proof. induction l; simpl; congruence. Qed.

Lemma flat_map_ext_Forall {A B} (f g : A -> list B) l :
  Forall (fun x => f x = g x) l -> flat_map f l = flat_map g l.
Proof. induction 1; simpl; congruence. Qed.

Lemma perm_flat_map_Forall {A B} (f g : A -> list B) l :
  Forall (fun x => Permutation (f x) (g x)) l -> Permutation (flat_map f l) (flat_map g l).
Proof. induction 1; simpl; [constructor|]. apply Permutation_app; assumption. Qed.

Definition item_ids (it : item) : list id := iterate (snd it).

Lemma flatten_top_ids n : Permutation (flat_map item_ids (flatten_top n)) (iterate n).
Proof.
  induction n as [i | l IH | s f l IH] using node_ind'.
  - reflexivity.
  - simpl. rewrite flat_map_flat_map. apply perm_flat_map_Forall. exact IH.
  - simpl. rewrite app_nil_r. unfold item_ids; simpl. destruct s; [|reflexivity].
    simpl. rewrite flat_map_map.
    etransitivity; [apply perm_flat_map; symmetry; apply isort_perm|].
    rewrite flat_map_flat_map. apply perm_flat_map_Forall. exact IH.
Qed.

Lemma flatten_ids u n : Permutation (flat_map item_ids (flatten u n)) (iterate n).
Proof.
  destruct n as [i|l|s f l]; try apply flatten_top_ids.
  unfold flatten. destruct u; [|apply flatten_top_ids].
  simpl. rewrite flat_map_flat_map. apply perm_flat_map_Forall.
  apply Forall_forall. intros x _. apply flatten_top_ids.
Qed.

Theorem sorted_same_tests u n r :
  sorted_tests u n = Ok r -> Permutation (iterate r) (iterate n).
Proof.
  unfold sorted_tests. destruct (has_dup _); [discriminate|]. intro H; injection H as <-.
  simpl. rewrite flat_map_map.
  etransitivity; [apply perm_flat_map; symmetry; apply isort_perm|]. apply flatten_ids.
Qed.

Theorem sorted_members_perm u n r :
  sorted_tests u n = Ok r -> exists ms, r = Plain (map snd ms) /\ Permutation (flatten u n) ms
    /\ Sorted (fun a b => key_leb (fst a) (fst b) = true) ms.
Proof.
  unfold sorted_tests. destruct (has_dup _); [discriminate|]. intro H; injection H as <-.
  exists (sort_items (flatten u n)). split; [reflexivity|]. split; [apply isort_perm|].
  apply (isort_sorted item_leb item_leb_total).
Qed.

(* ---------- the model meets the executable statement ---------- *)
Definition top_of (it : item) : top :=
  match snd it with
  | Case i => {| t_key := fst it; t_case := true; t_sortable := false; t_ids := [i] |}
  | Plain l => {| t_key := fst it; t_case := false; t_sortable := false; t_ids := flat_map iterate l |}
  | Custom s f l => {| t_key := fst it; t_case := false; t_sortable := s; t_ids := flat_map iterate l |}
  end.

(* tops, read off the original tree, versus the items the code builds: same
   keys, same kinds; ids equal, or a permutation where the suite sorts itself *)
Definition top_rel (t : top) (it : item) : Prop :=
  t_key t = fst it /\ t_case t = fst (obs_member (snd it))
  /\ (if t_sortable t then Permutation (t_ids t) (iterate (snd it)) else t_ids t = iterate (snd it)).

Lemma Forall2_flat_map {A B C} (R : B -> C -> Prop) (f : A -> list B) (g : A -> list C) l :
  Forall (fun x => Forall2 R (f x) (g x)) l -> Forall2 R (flat_map f l) (flat_map g l).
Proof. induction 1; simpl; [constructor|]. apply Forall2_app; assumption. Qed.

Lemma tops_flatten_top n : Forall2 top_rel (tops n) (flatten_top n).
Proof.
  induction n as [i | l IH | s f l IH] using node_ind'.
  - simpl. constructor; [|constructor]. repeat split.
  - simpl. apply Forall2_flat_map. exact IH.
  - simpl. constructor; [|constructor]. unfold top_rel; simpl. split; [reflexivity|].
    destruct s; simpl; (split; [reflexivity|]); [|reflexivity].
    rewrite flat_map_map. symmetry.
    etransitivity; [apply perm_flat_map; symmetry; apply isort_perm|].
    rewrite flat_map_flat_map. apply perm_flat_map_Forall.
    apply Forall_forall. intros x _. apply flatten_top_ids.
Qed.

Lemma tops_flatten u n : Forall2 top_rel (tops_of u n) (flatten u n).
Proof.
  destruct n as [i|l|s f l]; try apply tops_flatten_top.
  unfold tops_of, flatten. destruct u; [|apply tops_flatten_top].
  apply Forall2_flat_map. apply Forall_forall. intros x _. apply tops_flatten_top.
Qed.

(* insertion sort acts alike on two lists related elementwise by a relation
   that preserves the comparison *)
Section SortRel.
  Context {A B : Type} (R : A -> B -> Prop) (la : A -> A -> bool) (lb : B -> B -> bool).
  Hypothesis Hleb : forall a a' b b', R a b -> R a' b' -> la a a' = lb b b'.

  Lemma insert_rel a b l m : R a b -> Forall2 R l m -> Forall2 R (insert la a l) (insert lb b m).
  Proof.
    intros Hab H. induction H as [|x y l m Hxy H IH]; simpl; [repeat constructor; exact Hab|].
    rewrite (Hleb x a y b Hxy Hab). destruct (lb y b).
    + constructor; [exact Hxy | exact IH].
    + constructor; [exact Hab | constructor; assumption].
  Qed.

  Lemma isort_rel l m : Forall2 R l m -> Forall2 R (isort la l) (isort lb m).
  Proof.
    unfold isort. assert (H0 : Forall2 R [] []) by constructor. revert H0.
    generalize (@nil A) (@nil B). intros acc acc' H0 H. revert acc acc' H0.
    induction H as [|x y l m Hxy H IH]; intros acc acc' H0; simpl; [exact H0|].
    apply IH. apply insert_rel; assumption.
  Qed.
End SortRel.

Lemma perm_eqb_of_perm a b : Permutation a b -> perm_eqb a b = true.
Proof.
  intro H. unfold perm_eqb. apply forallb_forall. intros x _. apply Nat.eqb_eq.
  unfold count. apply Permutation_count_occ. exact H.
Qed.

Lemma perm_of_perm_eqb a b : perm_eqb a b = true -> Permutation a b.
Proof.
  unfold perm_eqb. intro H. apply (Permutation_count_occ Nat.eq_dec). intro x.
  rewrite forallb_forall in H.
  destruct (in_dec Nat.eq_dec x (a ++ b)) as [Hin|Hnin].
  - apply Nat.eqb_eq. apply H. exact Hin.
  - assert (~ In x a /\ ~ In x b) as [Ha Hb] by (split; intro; apply Hnin; apply in_or_app; auto).
    rewrite (proj1 (count_occ_not_In Nat.eq_dec a x) Ha).
    rewrite (proj1 (count_occ_not_In Nat.eq_dec b x) Hb). reflexivity.
Qed.

Lemma nat_list_eqb_refl l : list_eqb Nat.eqb l l = true.
Proof. apply list_eqb_spec; [apply Nat.eqb_eq | reflexivity]. Qed.

Lemma member_ok_of_rel t it : top_rel t it -> member_ok t (obs_member (snd it)) = true.
Proof.
  intros (Hk & Hc & Hi). unfold member_ok. rewrite Hc. rewrite Bool.eqb_reflx. simpl.
  destruct (t_sortable t).
  - apply perm_eqb_of_perm. exact Hi.
  - rewrite Hi. apply nat_list_eqb_refl.
Qed.

Lemma forall2b_of_Forall2 {A B} (p : A -> B -> bool) l m :
  Forall2 (fun a b => p a b = true) l m -> forall2b p l m = true.
Proof. induction 1; simpl; [reflexivity|]. apply andb_true_iff; split; assumption. Qed.

Lemma Forall2_of_forall2b {A B} (p : A -> B -> bool) l m :
  forall2b p l m = true -> Forall2 (fun a b => p a b = true) l m.
Proof.
  revert m; induction l as [|a l IH]; intros [|b m]; simpl; intro H; try discriminate; [constructor|].
  apply andb_true_iff in H as [H1 H2]. constructor; auto.
Qed.

Lemma Forall2_map_r {A B C} (R : A -> C -> Prop) (f : B -> C) l m :
  Forall2 (fun a b => R a (f b)) l m -> Forall2 R l (map f m).
Proof. induction 1; simpl; constructor; assumption. Qed.

Lemma Forall2_impl {A B} (R S : A -> B -> Prop) l m :
  (forall a b, R a b -> S a b) -> Forall2 R l m -> Forall2 S l m.
Proof. intros H; induction 1; constructor; auto. Qed.

Theorem model_sorted_ok i : sorted_okb i (o_sorted (model i)) = true.
Proof.
  unfold sorted_okb, model; simpl. rewrite <- iterate_leaves. unfold sorted_tests.
  destruct (has_dup (iterate (tree i))); [reflexivity|].
  apply forall2b_of_Forall2. rewrite map_map. apply Forall2_map_r.
  eapply Forall2_impl; [apply member_ok_of_rel|].
  apply (isort_rel top_rel top_leb item_leb).
  - intros a a' b b' (Hk & _) (Hk' & _). unfold top_leb, item_leb. rewrite Hk, Hk'. reflexivity.
  - apply tops_flatten.
Qed.

Lemma path_eqb_spec p q : path_eqb p q = true <-> p = q.
Proof.
  apply pair_eqb_spec; [|apply Nat.eqb_eq]. apply list_eqb_spec. apply Nat.eqb_eq.
Qed.

Theorem model_meets_spec i : spec_okb i (model i) = true.
Proof.
  unfold spec_okb. rewrite model_sorted_ok. unfold model; simpl. unfold list_test.
  rewrite filter_paths, iterate_leaves, !nat_list_eqb_refl. simpl. rewrite !andb_true_r.
  apply list_eqb_spec; [apply path_eqb_spec | reflexivity].
Qed.

(* ---------- the executable statement means what the readable one says ---------- *)
Lemma sorted_okb_sound i o : sorted_okb i o = true -> Sorted_spec i o.
Proof.
  unfold sorted_okb, Sorted_spec. destruct (has_dup (leaves (tree i))).
  - destruct o as [ms|e]; simpl; [discriminate|]. destruct e; simpl; congruence.
  - destruct o as [ms|e]; [|discriminate]. intro H.
    exists ms, (isort top_leb (tops_of (unpack i) (tree i))). split; [reflexivity|].
    split; [apply isort_perm|]. split; [apply (isort_sorted top_leb top_leb_total)|].
    apply Forall2_of_forall2b in H. eapply Forall2_impl; [|exact H].
    intros t m Hm. unfold member_ok in Hm. apply andb_true_iff in Hm as [H1 H2].
    split; [apply bool_eqb_spec; exact H1|].
    destruct (t_sortable t); [apply perm_of_perm_eqb; exact H2|].
    apply list_eqb_spec in H2; [exact H2 | apply Nat.eqb_eq].
Qed.

Theorem spec_okb_sound i o : spec_okb i o = true -> Spec i o.
Proof.
  unfold spec_okb, Spec. intro H.
  apply andb_true_iff in H as [H H4]. apply andb_true_iff in H as [H H3]. apply andb_true_iff in H as [H1 H2].
  repeat split.
  - apply list_eqb_spec in H1; [exact H1 | apply Nat.eqb_eq].
  - apply list_eqb_spec in H2; [exact H2 | apply path_eqb_spec].
  - apply sorted_okb_sound; exact H3.
  - apply list_eqb_spec in H4; [exact H4 | apply Nat.eqb_eq].
Qed.

(* the comparison used by the correspondence is exact *)
Lemma member_eqb_spec a b : member_eqb a b = true <-> a = b.
Proof.
  apply pair_eqb_spec; [apply bool_eqb_spec|]. apply list_eqb_spec. apply Nat.eqb_eq.
Qed.

Lemma exn_eqb_spec a b : exn_eqb a b = true <-> a = b.
Proof. destruct a, b; simpl; split; congruence. Qed.

Theorem obs_eqb_spec a b : obs_eqb a b = true <-> a = b.
Proof.
  destruct a as [a1 a2 a3 a4], b as [b1 b2 b3 b4]. unfold obs_eqb; simpl.
  rewrite !andb_true_iff.
  rewrite (list_eqb_spec Nat.eqb Nat.eqb_eq a1 b1), (list_eqb_spec path_eqb path_eqb_spec a2 b2),
    (list_eqb_spec Nat.eqb Nat.eqb_eq a4 b4),
    (res_eqb_spec (list_eqb member_eqb) exn_eqb (list_eqb_spec member_eqb member_eqb_spec) exn_eqb_spec a3 b3).
  split; [intros [[[-> ->] ->] ->]; reflexivity | intro H; injection H as -> -> -> ->; auto].
Qed.
