(* Lemmas behind Props/C19.v. *)
From Coq Require Import Permutation Sorted.
From TT Require Import Lib.Base Lib.Sort Model.Suites Spec.C19 Corr.C19.

(* ---------- induction principle for the nested tree ---------- *)
Section node_ind'.
  Variable P : node -> Prop.
  Hypothesis HC : forall i, P (Case i).
  Hypothesis HP : forall l, Forall P l -> P (Plain l).
  Hypothesis HU : forall s f l, Forall P l -> P (Custom s f l).
  Fixpoint node_ind' (n : node) : P n :=
    let fix go (l : list node) : Forall P l :=
      match l with [] => Forall_nil _ | x :: r => Forall_cons x (node_ind' x) (go r) end in
    match n with Case i => HC i | Plain l => HP l (go l) | Custom s f l => HU s f l (go l) end.
End node_ind'.

(* ---------- iterate_tests yields the leaves in suite order ---------- *)
Lemma go_paths_snd l : Forall (fun n => forall pre, map snd (paths_from pre n) = iterate n) l ->
  forall pre k, map snd (go_paths paths_from pre k l) = flat_map iterate l.
Proof.
  induction 1 as [|c r Hc _ IH]; intros pre k; simpl; [reflexivity|].
  rewrite map_app, Hc, IH. reflexivity.
Qed.

Lemma paths_from_snd n : forall pre, map snd (paths_from pre n) = iterate n.
Proof.
  induction n as [i | l IH | s f l IH] using node_ind'; intro pre; simpl;
    [reflexivity | apply go_paths_snd; exact IH | apply go_paths_snd; exact IH].
Qed.

Lemma iterate_leaves n : iterate n = leaves n.
Proof. unfold leaves, paths. symmetry. apply paths_from_snd. Qed.

(* ---------- filter_by_ids keeps exactly the chosen leaves, in place ---------- *)
Lemma go_paths_filter keep l :
  Forall (fun n => forall pre, paths_from pre (filter_ids keep n)
                               = filter (fun p => keep (snd p)) (paths_from pre n)) l ->
  forall pre k, go_paths paths_from pre k (map (filter_ids keep) l)
                = filter (fun p => keep (snd p)) (go_paths paths_from pre k l).
Proof.
  induction 1 as [|c r Hc _ IH]; intros pre k; simpl; [reflexivity|].
  rewrite filter_app, Hc, IH. reflexivity.
Qed.

Lemma paths_from_filter keep n : forall pre,
  paths_from pre (filter_ids keep n) = filter (fun p => keep (snd p)) (paths_from pre n).
Proof.
  induction n as [i | l IH | s f l IH] using node_ind'; intro pre; simpl.
  - destruct (keep i); reflexivity.
  - apply go_paths_filter; exact IH.
  - apply go_paths_filter; exact IH.
Qed.

Theorem filter_paths keep n :
  paths (filter_ids keep n) = filter (fun p => keep (snd p)) (paths n).
Proof. apply paths_from_filter. Qed.

Corollary filter_iterate keep n : iterate (filter_ids keep n) = filter keep (iterate n).
Proof.
  rewrite !iterate_leaves. unfold leaves. rewrite filter_paths.
  generalize (paths n). intro l. induction l as [|[p i] l IH]; simpl; [reflexivity|].
  destruct (keep i); simpl; congruence.
Qed.

(* ---------- duplicates ---------- *)
Lemma mem_In i l : mem i l = true <-> In i l.
Proof.
  induction l as [|x r IH]; simpl; [split; [discriminate|tauto]|].
  rewrite orb_true_iff, IH, Nat.eqb_eq. split; intros [H|H]; auto.
Qed.

Lemma has_dup_NoDup l : has_dup l = false <-> NoDup l.
Proof.
  induction l as [|x r IH]; simpl; [split; [constructor|reflexivity]|].
  rewrite orb_false_iff, IH. split.
  - intros [H1 H2]. constructor; [|exact H2]. intro Hin. apply mem_In in Hin. congruence.
  - intro H; inversion H; subst. split; [|assumption].
    destruct (mem x r) eqn:E; [apply mem_In in E; contradiction|reflexivity].
Qed.

Theorem sorted_raises_iff_dup u n :
  sorted_tests u n = Raised ValueError <-> ~ NoDup (iterate n).
Proof.
  unfold sorted_tests. destruct (has_dup (iterate n)) eqn:E.
  - split; [|reflexivity]. intros _ H. apply has_dup_NoDup in H. congruence.
  - split; [discriminate|]. intro H. exfalso. apply H. apply has_dup_NoDup. exact E.
Qed.

Theorem sorted_raises_only_ValueError u n e : sorted_tests u n = Raised e -> e = ValueError.
Proof. unfold sorted_tests. destruct (has_dup _); congruence. Qed.

(* ---------- sorting: permutation and order ---------- *)
Lemma item_leb_total a b : item_leb a b = true \/ item_leb b a = true.
Proof.
  destruct a as [[x|] ?], b as [[y|] ?]; unfold item_leb, key_leb; simpl; auto.
  destruct (Nat.leb x y) eqn:E; auto. right. apply Nat.leb_le. apply Nat.leb_gt in E. lia.
Qed.

Lemma top_leb_total a b : top_leb a b = true \/ top_leb b a = true.
Proof.
  destruct a as [[x|] ? ? ?], b as [[y|] ? ? ?]; unfold top_leb, key_leb; simpl; auto.
  destruct (Nat.leb x y) eqn:E; auto. right. apply Nat.leb_le. apply Nat.leb_gt in E. lia.
Qed.

Lemma perm_flat_map {A B} (f : A -> list B) l l' :
  Permutation l l' -> Permutation (flat_map f l) (flat_map f l').
Proof.
  induction 1; simpl; auto.
  - apply Permutation_app_head; assumption.
  - rewrite !app_assoc. apply Permutation_app_tail, Permutation_app_comm.
  - etransitivity; eauto.
Qed.

(* the ids below the items of a flattened tree are the ids of the tree *)
Lemma flat_map_flat_map {A B C} (f : A -> list B) (g : B -> list C) l :
  flat_map g (flat_map f l) = flat_map (fun x => flat_map g (f x)) l.
Proof. induction l as [|x l IH]; simpl; [reflexivity|]. rewrite flat_map_app, IH. reflexivity. Qed.

Lemma flat_map_map {A B C} (f : A -> B) (g : B -> list C) l :
  flat_map g (map f l) = flat_map (fun x => g (f x)) l.
Proof. induction l; simpl; congruence. Qed.

Lemma flat_map_ext_Forall {A B} (f g : A -> list B) l :
  Forall (fun x => f x = g x) l -> flat_map f l = flat_map g l.
Proof. induction 1; simpl; congruence. Qed.

Lemma perm_flat_map_Forall {A B} (f g : A -> list B) l :
  Forall (fun x => Permutation (f x) (g x)) l -> Permutation (flat_map f l) (flat_map g l).
Proof. induction 1; simpl; [constructor|]. apply Permutation_app; assumption. Qed.

Definition item_ids (it : item) : list id := iterate (snd it).

Lemma flatten_top_ids n : Permutation (flat_map item_ids (flatten_top n)) (iterate n).
Proof.
  induction n as [i | l IH | s f l IH] using node_ind'.
  - reflexivity.
  - simpl. rewrite flat_map_flat_map. apply perm_flat_map_Forall. exact IH.
  - simpl. rewrite app_nil_r. unfold item_ids; simpl. destruct s; [|reflexivity].
    simpl. rewrite flat_map_map.
    etransitivity; [apply perm_flat_map; symmetry; apply isort_perm|].
    rewrite flat_map_flat_map. apply perm_flat_map_Forall. exact IH.
Qed.

Lemma flatten_ids u n : Permutation (flat_map item_ids (flatten u n)) (iterate n).
Proof.
  destruct n as [i|l|s f l]; try apply flatten_top_ids.
  unfold flatten. destruct u; [|apply flatten_top_ids].
  simpl. rewrite flat_map_flat_map. apply perm_flat_map_Forall.
  apply Forall_forall. intros x _. apply flatten_top_ids.
Qed.

Theorem sorted_same_tests u n r :
  sorted_tests u n = Ok r -> Permutation (iterate r) (iterate n).
Proof.
  unfold sorted_tests. destruct (has_dup _); [discriminate|]. intro H; injection H as <-.
  simpl. rewrite flat_map_map.
  etransitivity; [apply perm_flat_map; symmetry; apply isort_perm|]. apply flatten_ids.
Qed.

Theorem sorted_members_perm u n r :
  sorted_tests u n = Ok r -> exists ms, r = Plain (map snd ms) /\ Permutation (flatten u n) ms
    /\ Sorted (fun a b => key_leb (fst a) (fst b) = true) ms.
Proof.
  unfold sorted_tests. destruct (has_dup _); [discriminate|]. intro H; injection H as <-.
  exists (sort_items (flatten u n)). split; [reflexivity|]. split; [apply isort_perm|].
  apply (isort_sorted item_leb item_leb_total).
Qed.

(* ---------- the model meets the executable statement ---------- *)
Definition top_of (it : item) : top :=
  match snd it with
  | Case i => {| t_key := fst it; t_case := true; t_sortable := false; t_ids := [i] |}
  | Plain l => {| t_key := fst it; t_case := false; t_sortable := false; t_ids := flat_map iterate l |}
  | Custom s f l => {| t_key := fst it; t_case := false; t_sortable := s; t_ids := flat_map iterate l |}
  end.

(* tops, read off the original tree, versus the items the code builds: same
   keys, same kinds; ids equal, or a permutation where the suite sorts itself *)
Definition top_rel (t : top) (it : item) : Prop :=
  t_key t = fst it /\ t_case t = fst (obs_member (snd it))
  /\ (if t_sortable t then Permutation (t_ids t) (iterate (snd it)) else t_ids t = iterate (snd it)).

Lemma Forall2_flat_map {A B C} (R : B -> C -> Prop) (f : A -> list B) (g : A -> list C) l :
  Forall (fun x => Forall2 R (f x) (g x)) l -> Forall2 R (flat_map f l) (flat_map g l).
Proof. induction 1; simpl; [constructor|]. apply Forall2_app; assumption. Qed.

Lemma tops_flatten_top n : Forall2 top_rel (tops n) (flatten_top n).
Proof.
  induction n as [i | l IH | s f l IH] using node_ind'.
  - simpl. constructor; [|constructor]. repeat split.
  - simpl. apply Forall2_flat_map. exact IH.
  - simpl. constructor; [|constructor]. unfold top_rel; simpl. split; [reflexivity|].
    destruct s; simpl; (split; [reflexivity|]); [|reflexivity].
    rewrite flat_map_map. symmetry.
    etransitivity; [apply perm_flat_map; symmetry; apply isort_perm|].
    rewrite flat_map_flat_map. apply perm_flat_map_Forall.
    apply Forall_forall. intros x _. apply flatten_top_ids.
Qed.

Lemma tops_flatten u n : Forall2 top_rel (tops_of u n) (flatten u n).
Proof.
  destruct n as [i|l|s f l]; try apply tops_flatten_top.
  unfold tops_of, flatten. destruct u; [|apply tops_flatten_top].
  apply Forall2_flat_map. apply Forall_forall. intros x _. apply tops_flatten_top.
Qed.

(* insertion sort acts alike on two lists related elementwise by a relation
   that preserves the comparison *)
Section SortRel.
  Context {A B : Type} (R : A -> B -> Prop) (la : A -> A -> bool) (lb : B -> B -> bool).
  Hypothesis Hleb : forall a a' b b', R a b -> R a' b' -> la a a' = lb b b'.

  Lemma insert_rel a b l m : R a b -> Forall2 R l m -> Forall2 R (insert la a l) (insert lb b m).
  Proof.
    intros Hab H. induction H as [|x y l m Hxy H IH]; simpl; [repeat constructor; exact Hab|].
    rewrite (Hleb x a y b Hxy Hab). destruct (lb y b).
    + constructor; [exact Hxy | exact IH].
    + constructor; [exact Hab | constructor; assumption].
  Qed.

  Lemma isort_rel l m : Forall2 R l m -> Forall2 R (isort la l) (isort lb m).
  Proof.
    unfold isort. assert (H0 : Forall2 R [] []) by constructor. revert H0.
    generalize (@nil A) (@nil B). intros acc acc' H0 H. revert acc acc' H0.
    induction H as [|x y l m Hxy H IH]; intros acc acc' H0; simpl; [exact H0|].
    apply IH. apply insert_rel; assumption.
  Qed.
End SortRel.

Lemma perm_eqb_of_perm a b : Permutation a b -> perm_eqb a b = true.
Proof.
  intro H. unfold perm_eqb. apply forallb_forall. intros x _. apply Nat.eqb_eq.
  unfold count. apply Permutation_count_occ. exact H.
Qed.

Lemma perm_of_perm_eqb a b : perm_eqb a b = true -> Permutation a b.
Proof.
  unfold perm_eqb. intro H. apply (Permutation_count_occ Nat.eq_dec). intro x.
  rewrite forallb_forall in H.
  destruct (in_dec Nat.eq_dec x (a ++ b)) as [Hin|Hnin].
  - apply Nat.eqb_eq. apply H. exact Hin.
  - assert (~ In x a /\ ~ In x b) as [Ha Hb] by (split; intro; apply Hnin; apply in_or_app; auto).
    rewrite (proj1 (count_occ_not_In Nat.eq_dec a x) Ha).
    rewrite (proj1 (count_occ_not_In Nat.eq_dec b x) Hb). reflexivity.
Qed.

Lemma nat_list_eqb_refl l : list_eqb Nat.eqb l l = true.
Proof. apply list_eqb_spec; [apply Nat.eqb_eq | reflexivity]. Qed.

Lemma member_ok_of_rel t it : top_rel t it -> member_ok t (obs_member (snd it)) = true.
Proof.
  intros (Hk & Hc & Hi). unfold member_ok. rewrite Hc. rewrite Bool.eqb_reflx. simpl.
  destruct (t_sortable t).
  - apply perm_eqb_of_perm. exact Hi.
  - rewrite Hi. apply nat_list_eqb_refl.
Qed.

Lemma forall2b_of_Forall2 {A B} (p : A -> B -> bool) l m :
  Forall2 (fun a b => p a b = true) l m -> forall2b p l m = true.
Proof. induction 1; simpl; [reflexivity|]. apply andb_true_iff; split; assumption. Qed.

Lemma Forall2_of_forall2b {A B} (p : A -> B -> bool) l m :
  forall2b p l m = true -> Forall2 (fun a b => p a b = true) l m.
Proof.
  revert m; induction l as [|a l IH]; intros [|b m]; simpl; intro H; try discriminate; [constructor|].
  apply andb_true_iff in H as [H1 H2]. constructor; auto.
Qed.

Lemma Forall2_map_r {A B C} (R : A -> C -> Prop) (f : B -> C) l m :
  Forall2 (fun a b => R a (f b)) l m -> Forall2 R l (map f m).
Proof. induction 1; simpl; constructor; assumption. Qed.

Lemma Forall2_impl {A B} (R S : A -> B -> Prop) l m :
  (forall a b, R a b -> S a b) -> Forall2 R l m -> Forall2 S l m.
Proof. intros H; induction 1; constructor; auto. Qed.

Theorem model_sorted_ok i : sorted_okb i (o_sorted (model i)) = true.
Proof.
  unfold sorted_okb, model; simpl. rewrite <- iterate_leaves. unfold sorted_tests.
  destruct (has_dup (iterate (tree i))); [reflexivity|].
  apply forall2b_of_Forall2. rewrite map_map. apply Forall2_map_r.
  eapply Forall2_impl; [apply member_ok_of_rel|].
  apply (isort_rel top_rel top_leb item_leb).
  - intros a a' b b' (Hk & _) (Hk' & _). unfold top_leb, item_leb. rewrite Hk, Hk'. reflexivity.
  - apply tops_flatten.
Qed.

(* ---------- the list file: readlines/strip against "a line is one id" ---------- *)
Lemma blank_is_ws b : blank b = is_ws b.
Proof. unfold blank, is_ws. simpl. rewrite orb_false_r, !orb_assoc. reflexivity. Qed.

Lemma skip_blank_lstrip l : skip_blank l = lstrip l.
Proof. induction l as [|b r IH]; simpl; [reflexivity|]. rewrite blank_is_ws, IH. reflexivity. Qed.

Lemma forallb_blank_ws l : forallb blank l = forallb is_ws l.
Proof. induction l as [|b r IH]; simpl; [reflexivity|]. rewrite blank_is_ws, IH. reflexivity. Qed.

(* a line = its blank prefix ++ what lstrip leaves *)
Lemma lstrip_split l : exists w, l = w ++ lstrip l /\ forallb is_ws w = true.
Proof.
  induction l as [|b r (w & E & W)]; simpl.
  - exists []. split; reflexivity.
  - destruct (is_ws b) eqn:B.
    + exists (b :: w). simpl. rewrite B, W. split; [f_equal; exact E | reflexivity].
    + exists []. split; reflexivity.
Qed.

Lemma lstrip_ws_app w l : forallb is_ws w = true -> lstrip (w ++ l) = lstrip l.
Proof.
  induction w as [|b r IH]; simpl; [reflexivity|]. intro H. apply andb_true_iff in H as [B W].
  rewrite B. apply IH; exact W.
Qed.

Lemma lstrip_head b l : is_ws b = false -> lstrip (b :: l) = b :: l.
Proof. intro B. simpl. rewrite B. reflexivity. Qed.

Lemma lstrip_all_ws l : forallb is_ws l = true -> lstrip l = [].
Proof. intro H. rewrite <- (app_nil_r l). rewrite lstrip_ws_app; [reflexivity | exact H]. Qed.

Lemma forallb_rev {A} (p : A -> bool) l : forallb p (rev l) = forallb p l.
Proof.
  induction l as [|a r IH]; simpl; [reflexivity|].
  rewrite forallb_app, IH. simpl. rewrite andb_true_r. apply andb_comm.
Qed.

Definition ends_nonblank (nm : bytes) : bool :=
  match rev nm with [] => false | b :: _ => negb (is_ws b) end.

(* rstrip c = nm  iff  c is nm followed by blanks only (nm ending in a non-blank) *)
Lemma rstrip_eq_iff nm c : ends_nonblank nm = true ->
  (rstrip c = nm <-> exists rest, c = nm ++ rest /\ forallb is_ws rest = true).
Proof.
  unfold ends_nonblank, rstrip. intro N. split.
  - intro E. destruct (lstrip_split (rev c)) as (w & Ew & W).
    exists (rev w). split; [|rewrite forallb_rev; exact W].
    rewrite <- E. rewrite <- rev_app_distr, <- Ew, rev_involutive. reflexivity.
  - intros (rest & -> & W). rewrite rev_app_distr.
    rewrite lstrip_ws_app; [|rewrite forallb_rev; exact W].
    destruct (rev nm) as [|b r] eqn:R; [discriminate|].
    rewrite lstrip_head; [|destruct (is_ws b); [discriminate | reflexivity]].
    rewrite <- R. apply rev_involutive.
Qed.

Lemma after_prefix_iff p l rest : after_prefix p l = Some rest <-> l = p ++ rest.
Proof.
  revert l; induction p as [|a p IH]; intros l; simpl.
  - split; [intro H; injection H as ->; reflexivity | intros ->; reflexivity].
  - destruct l as [|b l]; [split; discriminate|].
    destruct (N.eqb a b) eqn:E.
    + apply N.eqb_eq in E as ->. rewrite IH. split; [intros ->; reflexivity | intro H; injection H as ->; reflexivity].
    + split; [discriminate|]. intro H. injection H as -> _. rewrite N.eqb_refl in E. discriminate.
Qed.

Lemma bytes_eqb_eq a b : bytes_eqb a b = true <-> a = b.
Proof. apply list_eqb_spec. apply N.eqb_eq. Qed.

Lemma bool_iff_eq (a b : bool) : (a = true <-> b = true) -> a = b.
Proof. destruct a, b; intros [H1 H2]; try reflexivity; [symmetry; apply H1 | apply H2]; reflexivity. Qed.

(* per line: strip gives nm exactly when the statement says the line lists nm *)
Lemma strip_line_lists nm line : ends_nonblank nm = true ->
  bytes_eqb nm (strip line) = line_lists nm line.
Proof.
  intro N. apply bool_iff_eq. rewrite bytes_eqb_eq. unfold strip, line_lists. rewrite skip_blank_lstrip.
  split.
  - intro E. symmetry in E. apply (rstrip_eq_iff nm _ N) in E as (rest & E & W).
    apply after_prefix_iff in E. rewrite E, forallb_blank_ws. exact W.
  - destruct (after_prefix nm (lstrip line)) as [rest|] eqn:E; [|discriminate].
    rewrite forallb_blank_ws. intro W. symmetry. apply (rstrip_eq_iff nm _ N).
    exists rest. split; [apply after_prefix_iff; exact E | exact W].
Qed.

Lemma strip_app_lf l : strip (l ++ [LF]) = strip l.
Proof.
  unfold strip. destruct (forallb is_ws l) eqn:W.
  - rewrite lstrip_ws_app by exact W. rewrite (lstrip_all_ws l W). reflexivity.
  - assert (H : lstrip (l ++ [LF]) = lstrip l ++ [LF]).
    { clear -W. induction l as [|b r IH]; simpl in *; [discriminate|].
      destruct (is_ws b); [apply IH; exact W | reflexivity]. }
    rewrite H. unfold rstrip. rewrite rev_app_distr. reflexivity.
Qed.

(* readlines f from the lines between line feeds: every line but the last gets its LF back,
   an empty last line disappears *)
Fixpoint relines (ls : list bytes) : list bytes :=
  match ls with
  | [] => []
  | l :: r => match r with
              | [] => match l with [] => [] | _ => [l] end
              | _ => (l ++ [LF]) :: relines r
              end
  end.

Lemma split_lf_nonempty f : split_lf f <> [].
Proof. destruct f as [|b r]; simpl; [discriminate|]. destruct (N.eqb b 10); [discriminate|].
  destruct (split_lf r); discriminate. Qed.

Lemma readlines_relines f : readlines f = relines (split_lf f).
Proof.
  induction f as [|b r IH]; [reflexivity|]. simpl. unfold LF.
  destruct (N.eqb b 10) eqn:E.
  - apply N.eqb_eq in E as ->. simpl. rewrite IH.
    destruct (split_lf r) eqn:S; [exfalso; exact (split_lf_nonempty r S) | reflexivity].
  - rewrite IH. destruct (split_lf r) as [|l ls] eqn:S; [exfalso; exact (split_lf_nonempty r S)|].
    simpl. destruct ls; [destruct l; reflexivity | reflexivity].
Qed.

Lemma memb_existsb nm ls : memb nm ls = existsb (bytes_eqb nm) ls.
Proof. induction ls as [|l r IH]; simpl; [reflexivity|]. rewrite IH. reflexivity. Qed.

Lemma nonblank_end_nonempty nm : ends_nonblank nm = true -> bytes_eqb nm [] = false.
Proof. destruct nm; [discriminate | reflexivity]. Qed.

Theorem load_ids_lists nm f : ends_nonblank nm = true -> memb nm (load_ids f) = file_lists f nm.
Proof.
  intro N. unfold load_ids, file_lists. rewrite readlines_relines, memb_existsb.
  induction (split_lf f) as [|l r IH]; [reflexivity|].
  simpl. destruct r as [|l' r'].
  - rewrite <- (strip_line_lists nm l N). destruct l as [|b l].
    + change (false = bytes_eqb nm [] || false). rewrite (nonblank_end_nonempty nm N). reflexivity.
    + reflexivity.
  - change (existsb (bytes_eqb nm) (map strip ((l ++ [LF]) :: relines (l' :: r')))
            = line_lists nm l || existsb (line_lists nm) (l' :: r')).
    simpl map. simpl existsb at 1. rewrite strip_app_lf, (strip_line_lists nm l N). f_equal. exact IH.
Qed.

Lemma wf_name_ends nm : wf_nameb nm = true -> ends_nonblank nm = true.
Proof.
  unfold wf_nameb, ends_nonblank. intro H. apply andb_true_iff in H as [H _]. apply andb_true_iff in H as [_ H].
  destruct (rev nm); [discriminate|]. rewrite <- blank_is_ws. exact H.
Qed.

Lemma in_load_list_listedb nms f : forallb wf_nameb nms = true ->
  forall i, in_load_list nms f i = listedb nms f i.
Proof.
  intros W i. unfold in_load_list, listedb. destruct (nth_error nms i) as [nm|] eqn:E; [|reflexivity].
  apply load_ids_lists. apply wf_name_ends. apply nth_error_In in E.
  rewrite forallb_forall in W. apply W; exact E.
Qed.

Lemma filter_ext_all {A} (p q : A -> bool) l : (forall a, p a = q a) -> filter p l = filter q l.
Proof. intro H. induction l as [|a r IH]; simpl; [reflexivity|]. rewrite H, IH. reflexivity. Qed.

(* --load-list f runs (and --list --load-list f prints) exactly the listed tests, in suite order *)
Theorem cli_load_runs nms f n : forallb wf_nameb nms = true ->
  cli_run (cli_load nms f n) = filter (listedb nms f) (leaves n)
  /\ cli_list (cli_load nms f n) = filter (listedb nms f) (leaves n)
  /\ paths (cli_load nms f n) = filter (fun p => listedb nms f (snd p)) (paths n).
Proof.
  intro W. unfold cli_run, cli_list, list_test, cli_load.
  rewrite filter_iterate, filter_paths, iterate_leaves.
  repeat split; apply filter_ext_all; intro a; apply in_load_list_listedb; exact W.
Qed.

(* ---------- split_lf really is "the lines of the file" ---------- *)
Lemma split_lf_join f : join_lf (split_lf f) = f.
Proof.
  induction f as [|b r IH]; [reflexivity|]. simpl.
  destruct (N.eqb b 10) eqn:E.
  - apply N.eqb_eq in E as ->. simpl.
    destruct (split_lf r) eqn:S; [exfalso; exact (split_lf_nonempty r S)|]. rewrite IH. reflexivity.
  - destruct (split_lf r) as [|l ls] eqn:S; [exfalso; exact (split_lf_nonempty r S)|].
    simpl in *. destruct ls; rewrite <- IH; reflexivity.
Qed.

Lemma split_lf_no_lf f : Forall (fun l => ~ In 10%N l) (split_lf f).
Proof.
  induction f as [|b r IH]; simpl.
  - constructor; [intros []|constructor].
  - destruct (N.eqb b 10) eqn:E.
    + constructor; [intros [] | exact IH].
    + destruct (split_lf r) as [|l ls]; [constructor; [|constructor]|].
      * intros [H|[]]. subst b. discriminate.
      * inversion IH as [|? ? Hl Hls]; subst. constructor; [|exact Hls].
        intros [H|H]; [subst b; discriminate | exact (Hl H)].
Qed.

(* the executable "file lists nm" against the readable one *)
Lemma line_lists_iff nm line : wf_nameb nm = true ->
  (line_lists nm line = true <->
   exists a b, line = a ++ nm ++ b /\ forallb blank a = true /\ forallb blank b = true).
Proof.
  intro W. unfold line_lists. rewrite skip_blank_lstrip. split.
  - destruct (after_prefix nm (lstrip line)) as [rest|] eqn:E; [|discriminate]. intro B.
    apply after_prefix_iff in E. destruct (lstrip_split line) as (w & Ew & Ww).
    exists w, rest. rewrite forallb_blank_ws. rewrite <- E. repeat split; assumption.
  - intros (a & b & -> & A & B). rewrite forallb_blank_ws in A.
    rewrite lstrip_ws_app by exact A.
    unfold wf_nameb in W. apply andb_true_iff in W as [W _]. apply andb_true_iff in W as [W _].
    destruct nm as [|c nm]; [discriminate|]. rewrite blank_is_ws in W.
    change ((c :: nm) ++ b) with (c :: nm ++ b). rewrite lstrip_head by (destruct (is_ws c); [discriminate|reflexivity]).
    change (c :: nm ++ b) with ((c :: nm) ++ b).
    assert (E : after_prefix (c :: nm) ((c :: nm) ++ b) = Some b) by (apply after_prefix_iff; reflexivity).
    rewrite E. exact B.
Qed.

Theorem file_lists_iff nm f : wf_nameb nm = true -> (file_lists f nm = true <-> Lists f nm).
Proof.
  intro W. unfold file_lists, Lists. rewrite existsb_exists. split.
  - intros (line & I & L). apply (line_lists_iff nm line W) in L as (a & b & E & A & B).
    exists line, a, b. repeat split; assumption.
  - intros (line & a & b & I & E & A & B). exists line. split; [exact I|].
    apply (line_lists_iff nm line W). exists a, b. repeat split; assumption.
Qed.

Theorem load_ids_iff nm f : wf_nameb nm = true -> (memb nm (load_ids f) = true <-> Lists f nm).
Proof. intro W. rewrite (load_ids_lists nm f (wf_name_ends nm W)). apply file_lists_iff; exact W. Qed.

(* `run --list > f; run --load-list f` selects every test *)
Definition list_output (nms : list bytes) (ids : list id) : bytes :=
  flat_map (fun i => nth i nms [] ++ [LF]) ids.

Lemma split_lf_line l r : ~ In 10%N l -> split_lf (l ++ 10%N :: r) = l :: split_lf r.
Proof.
  induction l as [|b l IH]; intro H; [reflexivity|]. simpl.
  destruct (N.eqb b 10) eqn:E; [apply N.eqb_eq in E; subst b; exfalso; apply H; left; reflexivity|].
  rewrite IH; [reflexivity|]. intro I. apply H. right. exact I.
Qed.

Lemma wf_name_no_lf nm : wf_nameb nm = true -> ~ In 10%N nm.
Proof.
  unfold wf_nameb. intro H. apply andb_true_iff in H as [_ H]. rewrite forallb_forall in H.
  intro I. specialize (H 10%N I). discriminate.
Qed.

Lemma line_lists_self nm : wf_nameb nm = true -> line_lists nm nm = true.
Proof.
  intro W. apply (line_lists_iff nm nm W). exists [], []. rewrite app_nil_r. repeat split.
Qed.

Theorem list_then_load_all nms n : forallb wf_nameb nms = true ->
  (forall i, In i (iterate n) -> i < length nms) ->
  cli_run (cli_load nms (list_output nms (cli_list n)) n) = iterate n.
Proof.
  intros W B. destruct (cli_load_runs nms (list_output nms (cli_list n)) n W) as (-> & _).
  unfold cli_list, list_test. rewrite <- iterate_leaves.
  assert (H : forall ids, (forall i, In i ids -> i < length nms) ->
                forall i, In i ids -> listedb nms (list_output nms ids) i = true).
  { intros ids Bi i I. unfold listedb.
    destruct (nth_error nms i) as [nm|] eqn:E; [|apply nth_error_None in E; specialize (Bi i I); lia].
    assert (Wn : wf_nameb nm = true) by (rewrite forallb_forall in W; apply W; eapply nth_error_In; exact E).
    unfold file_lists. apply existsb_exists. exists nm. split; [|apply line_lists_self; exact Wn].
    clear B. induction ids as [|j r IH]; [destruct I|].
    unfold list_output. simpl. fold (list_output nms r). rewrite <- app_assoc. simpl.
    assert (Wj : ~ In 10%N (nth j nms [])).
    { destruct (nth_error nms j) as [x|] eqn:Ej.
      - rewrite (nth_error_nth nms j [] Ej). apply wf_name_no_lf. rewrite forallb_forall in W. apply W.
        eapply nth_error_In; exact Ej.
      - apply nth_error_None in Ej. specialize (Bi j (or_introl eq_refl)). lia. }
    rewrite (split_lf_line _ _ Wj).
    destruct I as [->|I].
    - left. apply nth_error_nth. exact E.
    - right. apply IH; [intros k K; apply Bi; right; exact K | exact I]. }
  specialize (H (iterate n) B). revert H. generalize (listedb nms (list_output nms (iterate n))).
  clear B. intros p H. induction (iterate n) as [|a r IH]; [reflexivity|].
  simpl. rewrite (H a (or_introl eq_refl)). f_equal. apply IH. intros i I. apply H. right. exact I.
Qed.

Lemma group_eqb_spec p q : group_eqb p q = true <-> p = q.
Proof.
  apply pair_eqb_spec; [|apply Nat.eqb_eq]. apply list_eqb_spec. apply list_eqb_spec. apply Nat.eqb_eq.
Qed.

(* the suites enclosing the leaf at path p are exactly the nodes at the proper prefixes of p *)
Theorem enclosing_iff p q : In q (enclosing p) <-> exists r, r <> [] /\ p = q ++ r.
Proof.
  unfold enclosing. rewrite in_map_iff. split.
  - intros (k & <- & I). apply in_seq in I. exists (skipn k p). split.
    + intro E. pose proof (skipn_length k p) as L. rewrite E in L. simpl in L. lia.
    + symmetry. apply firstn_skipn.
  - intros (r & N & ->). exists (length q). split.
    + rewrite <- (Nat.add_0_r (length q)). rewrite firstn_app_2. simpl. apply app_nil_r.
    + apply in_seq. rewrite app_length. destruct r; [congruence|]. simpl. lia.
Qed.

Lemma enclosing_sorted p : map (@length nat) (enclosing p) = seq 0 (length p).
Proof.
  unfold enclosing. rewrite map_map. rewrite <- (map_id (seq 0 (length p))) at 2.
  apply map_ext_in. intros k I. apply in_seq in I. apply firstn_length_le. lia.
Qed.

(* filtering keeps order and grouping (and, in this model, even the slots) *)
Theorem filter_grouping keep n :
  map grouped (paths (filter_ids keep n)) = map grouped (filter (fun p => keep (snd p)) (paths n)).
Proof. rewrite filter_paths. reflexivity. Qed.

Theorem model_meets_spec i : wf i -> spec_okb i (model i) = true.
Proof.
  intro W. unfold spec_okb. rewrite model_sorted_ok. unfold model; simpl.
  destruct (cli_load_runs (names i) (file i) (tree i) W) as (-> & -> & _).
  unfold cli_list, list_test.
  rewrite filter_paths, iterate_leaves, !nat_list_eqb_refl. simpl. rewrite !andb_true_r.
  apply list_eqb_spec; [apply group_eqb_spec | reflexivity].
Qed.

(* ---------- the executable statement means what the readable one says ---------- *)
Lemma sorted_okb_sound i o : sorted_okb i o = true -> Sorted_spec i o.
Proof.
  unfold sorted_okb, Sorted_spec. destruct (has_dup (leaves (tree i))).
  - destruct o as [ms|e]; simpl; [discriminate|]. destruct e; simpl; congruence.
  - destruct o as [ms|e]; [|discriminate]. intro H.
    exists ms, (isort top_leb (tops_of (unpack i) (tree i))). split; [reflexivity|].
    split; [apply isort_perm|]. split; [apply (isort_sorted top_leb top_leb_total)|].
    apply Forall2_of_forall2b in H. eapply Forall2_impl; [|exact H].
    intros t m Hm. unfold member_ok in Hm. apply andb_true_iff in Hm as [H1 H2].
    split; [apply bool_eqb_spec; exact H1|].
    destruct (t_sortable t); [apply perm_of_perm_eqb; exact H2|].
    apply list_eqb_spec in H2; [exact H2 | apply Nat.eqb_eq].
Qed.

Theorem spec_okb_sound i o : spec_okb i o = true -> Spec i o.
Proof.
  unfold spec_okb, Spec. intro H.
  apply andb_true_iff in H as [H H7]. apply andb_true_iff in H as [H H6]. apply andb_true_iff in H as [H H5].
  apply andb_true_iff in H as [H H4]. apply andb_true_iff in H as [H H3]. apply andb_true_iff in H as [H1 H2].
  repeat split.
  - apply list_eqb_spec in H1; [exact H1 | apply Nat.eqb_eq].
  - apply list_eqb_spec in H2; [exact H2 | apply group_eqb_spec].
  - apply sorted_okb_sound; exact H3.
  - apply list_eqb_spec in H4; [exact H4 | apply Nat.eqb_eq].
  - apply list_eqb_spec in H5; [exact H5 | apply Nat.eqb_eq].
  - apply list_eqb_spec in H6; [exact H6 | apply Nat.eqb_eq].
  - apply list_eqb_spec in H7; [exact H7 | apply Nat.eqb_eq].
Qed.

(* the comparison used by the correspondence is exact *)
Lemma member_eqb_spec a b : member_eqb a b = true <-> a = b.
Proof.
  apply pair_eqb_spec; [apply bool_eqb_spec|]. apply list_eqb_spec. apply Nat.eqb_eq.
Qed.

Lemma exn_eqb_spec a b : exn_eqb a b = true <-> a = b.
Proof. destruct a, b; simpl; split; congruence. Qed.

Theorem obs_eqb_spec a b : obs_eqb a b = true <-> a = b.
Proof.
  destruct a as [a1 a2 a3 a4 a5 a6 a7], b as [b1 b2 b3 b4 b5 b6 b7]. unfold obs_eqb; simpl.
  rewrite !andb_true_iff.
  rewrite (list_eqb_spec Nat.eqb Nat.eqb_eq a1 b1), (list_eqb_spec group_eqb group_eqb_spec a2 b2),
    (list_eqb_spec Nat.eqb Nat.eqb_eq a4 b4), (list_eqb_spec Nat.eqb Nat.eqb_eq a5 b5),
    (list_eqb_spec Nat.eqb Nat.eqb_eq a6 b6), (list_eqb_spec Nat.eqb Nat.eqb_eq a7 b7),
    (res_eqb_spec (list_eqb member_eqb) exn_eqb (list_eqb_spec member_eqb member_eqb_spec) exn_eqb_spec a3 b3).
  split; [intros [[[[[[-> ->] ->] ->] ->] ->] ->]; reflexivity
         | intro H; injection H as -> -> -> -> -> -> ->; repeat split].
Qed.
