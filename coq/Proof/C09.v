(* Lemmas behind Props/C09.v. *)
From Coq Require Import String Ascii Permutation.
From TT Require Import Lib.Base Lib.Sort Lib.Bytestr Gen.Streamtabs Model.Mime Model.StreamRec Model.StreamConv.
From TT Require Import Spec.C10 Proof.C10.        (* the record lemmas of the receiving half *)
From TT Require Import Spec.C09 Corr.C09.         (* imported last: C09's input / obs / alpha / spec_okb are the ones meant *)
Open Scope list_scope.

(* ================= boolean equalities; the correspondence compares alpha ================= *)
Lemma str_eqb_spec a b : String.eqb a b = true <-> a = b.
Proof. apply String.eqb_eq. Qed.
Lemma param_eqb_spec a b : param_eqb a b = true <-> a = b.
Proof. apply pair_eqb_spec; exact str_eqb_spec. Qed.
Lemma ctype_eqb_spec a b : ctype_eqb a b = true <-> a = b.
Proof.
  unfold ctype_eqb. rewrite !andb_true_iff, !str_eqb_spec, (list_eqb_spec _ param_eqb_spec).
  destruct a, b; simpl. split; [intros [[-> ->] ->]; reflexivity | intro H; inversion H; auto].
Qed.
Lemma octype_eqb_spec a b : octype_eqb a b = true <-> a = b.
Proof. apply option_eqb_spec. exact ctype_eqb_spec. Qed.
Lemma onat_eqb_spec' a b : onat_eqb a b = true <-> a = b.
Proof. apply option_eqb_spec. exact Nat.eqb_eq. Qed.

Lemma cev_eqb_spec a b : cev_eqb a b = true <-> a = b.
Proof.
  unfold cev_eqb.
  rewrite (pair_eqb_spec _ _ onat_eqb_spec'
            (pair_eqb_spec _ _ onat_eqb_spec'
              (pair_eqb_spec _ _ (option_eqb_spec _ status_eqb_spec)
                (pair_eqb_spec _ _ (option_eqb_spec _ nats_eqb_spec)
                  (pair_eqb_spec _ _ onat_eqb_spec'
                    (pair_eqb_spec _ _ (option_eqb_spec _ str_eqb_spec)
                      (pair_eqb_spec _ _ bool_eqb_spec
                        (pair_eqb_spec _ _ octype_eqb_spec onat_eqb_spec')))))))).
  destruct a, b; unfold cev_tuple; simpl. split; intro H; inversion H; reflexivity.
Qed.
Lemma afile_eqb_spec a b : afile_eqb a b = true <-> a = b.
Proof.
  unfold afile_eqb.
  rewrite (pair_eqb_spec _ _ onat_eqb_spec'
            (pair_eqb_spec _ _ onat_eqb_spec'
              (pair_eqb_spec _ _ Nat.eqb_eq
                (pair_eqb_spec _ _ octype_eqb_spec
                  (pair_eqb_spec _ _ str_eqb_spec
                    (pair_eqb_spec _ _ bool_eqb_spec onat_eqb_spec')))))).
  destruct a, b; unfold afile_tuple; simpl. split; intro H; inversion H; reflexivity.
Qed.
Lemma aev_eqb_spec a b : aev_eqb a b = true <-> a = b.
Proof.
  destruct a, b; simpl; try (split; intro H; [discriminate | inversion H]); try (split; reflexivity).
  - rewrite cev_eqb_spec. split; [intros ->; reflexivity | intro H; inversion H; reflexivity].
  - rewrite afile_eqb_spec. split; [intros ->; reflexivity | intro H; inversion H; reflexivity].
Qed.
Lemma cdetail_eqb_spec a b : cdetail_eqb a b = true <-> a = b.
Proof. apply pair_eqb_spec; [exact Nat.eqb_eq|]. apply pair_eqb_spec; [exact ctype_eqb_spec | exact str_eqb_spec]. Qed.
Lemma clog_eqb_spec a b : clog_eqb a b = true <-> a = b.
Proof.
  destruct a, b; simpl; try (split; intro H; [discriminate | inversion H]); try (split; reflexivity).
  - rewrite Nat.eqb_eq. split; [intros ->; reflexivity | intro H; inversion H; reflexivity].
  - rewrite andb_true_iff, !nats_eqb_spec. split; [intros [-> ->]; reflexivity | intro H; inversion H; auto].
  - rewrite Nat.eqb_eq. split; [intros ->; reflexivity | intro H; inversion H; reflexivity].
  - rewrite !andb_true_iff, outcome_eqb_spec, Nat.eqb_eq, nats_eqb_spec, (list_eqb_spec _ cdetail_eqb_spec).
    split; [intros [[[-> ->] ->] ->]; reflexivity | intro H; inversion H; auto].
  - rewrite Nat.eqb_eq. split; [intros ->; reflexivity | intro H; inversion H; reflexivity].
Qed.

Theorem obs_eqb_spec a b : obs_eqb a b = true <-> alpha a = alpha b.
Proof.
  unfold obs_eqb, aobs_eqb. rewrite andb_true_iff, (list_eqb_spec _ aev_eqb_spec), (list_eqb_spec _ clog_eqb_spec).
  destruct (alpha a), (alpha b); simpl. split; [intros [-> ->]; reflexivity | intro H; inversion H; auto].
Qed.

(* ================= the mime round trip ================= *)
Open Scope string_scope.

Lemma has_char_app c a b : has_char c (a ++ b) = has_char c a || has_char c b.
Proof. induction a as [|x a IH]; simpl; [reflexivity|]. rewrite IH, orb_assoc. reflexivity. Qed.

Lemma all_chars_no c p s : (forall x, p x = true -> x <> c) -> all_chars p s = true -> has_char c s = false.
Proof.
  intros Hp. induction s as [|x s IH]; simpl; [reflexivity|]. intro H. apply andb_true_iff in H as [Hx Hs].
  rewrite IH by exact Hs. destruct (Ascii.eqb x c) eqn:E; [|reflexivity].
  apply Ascii.eqb_eq in E. exfalso. exact (Hp x Hx E).
Qed.

Lemma span_not_app c p q : has_char c p = false -> (q = "" \/ exists r, q = String c r) ->
  span_not c (p ++ q) = (p, q).
Proof.
  intros Hp Hq. induction p as [|x p IH]; simpl in *.
  - destruct Hq as [->|[r ->]]; simpl; [reflexivity|]. rewrite Ascii.eqb_refl. reflexivity.
  - apply orb_false_iff in Hp as [Hx Hp]. rewrite Hx, IH by exact Hp. reflexivity.
Qed.
Lemma span_not_none c s : has_char c s = false -> span_not c s = (s, "").
Proof. intro H. rewrite <- (sapp_nil_r s) at 1. apply span_not_app; [exact H | left; reflexivity]. Qed.

Lemma break_at_app c p q : has_char c p = false -> break_at c (p ++ String c q) = Some (p, q).
Proof.
  intros Hp. induction p as [|x p IH]; simpl in *.
  - rewrite Ascii.eqb_refl. reflexivity.
  - apply orb_false_iff in Hp as [Hx Hp]. rewrite Hx, IH by exact Hp. reflexivity.
Qed.

(* facts about the character classes, by enumeration of the 256 characters *)
Lemma tok_char_not c : tok_char c = true ->
  c <> ";"%char /\ c <> "/"%char /\ c <> "="%char /\ c <> " "%char.
Proof. destruct c as [[] [] [] [] [] [] [] []]; vm_compute; intro H; try discriminate H; repeat split; discriminate. Qed.
Lemma val_char_not c : val_char c = true -> c <> dq.
Proof. destruct c as [[] [] [] [] [] [] [] []]; vm_compute; intro H; try discriminate H; discriminate. Qed.

Lemma token_no s c : token s = true -> (forall x, tok_char x = true -> x <> c) -> has_char c s = false.
Proof.
  unfold token. intros H Hc. apply andb_true_iff in H as [_ H]. exact (all_chars_no c tok_char s Hc H).
Qed.
Lemma token_skip s r : token s = true -> skip_spaces (s ++ r) = s ++ r.
Proof.
  unfold token. destruct s as [|x s]; simpl; [discriminate|]. intro H. apply andb_true_iff in H as [Hx _].
  destruct (tok_char_not x Hx) as [_ [_ [_ Hsp]]].
  destruct (Ascii.eqb x " "%char) eqn:E; [apply Ascii.eqb_eq in E; contradiction | reflexivity].
Qed.

Definition wfp (kv : string * string) : Prop := wf_param kv = true.

Lemma render_item_tail kv t :
  render_item kv ++ t = fst kv ++ String "="%char (String dq (snd kv ++ String dq t)).
Proof. unfold render_item. rewrite sapp_assoc. simpl. rewrite sapp_assoc. reflexivity. Qed.

Lemma pparams_tail kvs : Forall wfp kvs -> forall fuel, List.length kvs < fuel ->
  pparams fuel (tail_of (map render_item kvs)) = kvs.
Proof.
  induction 1 as [|[k v] kvs Hkv _ IH]; intros fuel Hf.
  - destruct fuel; reflexivity.
  - destruct fuel as [|f]; [inversion Hf|]. cbn [map tail_of pparams]. rewrite Ascii.eqb_refl.
    cbn [skip_spaces]. rewrite Ascii.eqb_refl. rewrite render_item_tail. cbn [fst snd].
    unfold wfp, wf_param in Hkv. cbn [fst snd] in Hkv. rewrite !andb_true_iff in Hkv.
    destruct Hkv as [[[Hk Hv] _] _].
    rewrite token_skip by exact Hk.
    rewrite break_at_app by (apply (token_no k _ Hk); intros x Hx; apply (tok_char_not x Hx)).
    rewrite Ascii.eqb_refl.
    rewrite break_at_app by (apply (all_chars_no dq val_char v val_char_not Hv)).
    rewrite IH by (simpl in Hf; apply Nat.succ_lt_mono; exact Hf). reflexivity.
Qed.

Lemma slength_app a b : String.length (a ++ b) = String.length a + String.length b.
Proof. induction a as [|x a IH]; simpl; [reflexivity|]. rewrite IH. reflexivity. Qed.
Lemma tail_of_length items : List.length items <= String.length (tail_of items).
Proof.
  induction items as [|it r IH]; simpl; [apply Nat.le_refl|]. rewrite slength_app.
  apply le_n_S. apply Nat.le_trans with (String.length (tail_of r)); [exact IH|].
  apply Nat.le_trans with (String.length it + String.length (tail_of r)); [apply Nat.le_add_l | apply Nat.le_succ_diag_r].
Qed.
Lemma tail_of_shape items : tail_of items = "" \/ exists r, tail_of items = String ";"%char r.
Proof. destruct items; simpl; [left; reflexivity | right; eexists; reflexivity]. Qed.

Lemma cut_comma_wf kv : wfp kv -> cut_comma kv = kv.
Proof.
  unfold wfp, wf_param, cut_comma. destruct kv as [k v]; cbn [fst snd]. intro H.
  destruct (String.eqb k "charset"); [|reflexivity].
  rewrite !andb_true_iff in H. destruct H as [_ H]. apply negb_true_iff in H.
  rewrite span_not_none by exact H. reflexivity.
Qed.

(* sorting commutes with rendering *)
Definition item_leb (a b : string * string) : bool := String.leb (render_item a) (render_item b).
Lemma insert_map x l :
  insert String.leb (render_item x) (map render_item l) = map render_item (insert item_leb x l).
Proof.
  induction l as [|y l IH]; simpl; [reflexivity|]. unfold item_leb at 1.
  destruct (String.leb (render_item y) (render_item x)); simpl; [rewrite IH|]; reflexivity.
Qed.
Lemma isort_map l : isort String.leb (map render_item l) = map render_item (isort item_leb l).
Proof.
  unfold isort. change (@nil string) with (map render_item []). generalize (@nil (string * string)).
  induction l as [|x l IH]; intro acc; simpl; [reflexivity|]. rewrite insert_map. apply IH.
Qed.

Lemma forallb_Forall {A} (p : A -> bool) l : forallb p l = true <-> Forall (fun x => p x = true) l.
Proof. rewrite forallb_forall, Forall_forall. tauto. Qed.

(* C09_mime_roundtrip: parse (render ct) is ct with its parameters in rendered order *)
Theorem mime_roundtrip ct : wf_ct ct = true ->
  parse (render ct) = CType (ct_type ct) (ct_sub ct) (isort item_leb (ct_params ct)).
Proof.
  destruct ct as [t sub ps]. unfold wf_ct. cbn [ct_type ct_sub ct_params]. rewrite !andb_true_iff.
  intros [[[Ht Hs] Hp] _]. unfold render, parse. cbn [ct_type ct_sub ct_params].
  rewrite isort_map.
  assert (Hsorted : Forall wfp (isort item_leb ps)).
  { apply forallb_Forall in Hp. rewrite Forall_forall in *. intros kv Hin. apply Hp.
    apply Permutation_in with (l := isort item_leb ps); [apply Permutation_sym, isort_perm | exact Hin]. }
  set (tl := tail_of (map render_item (isort item_leb ps))).
  replace (t ++ String "/"%char (sub ++ tl)) with ((t ++ String "/"%char sub) ++ tl)
    by (rewrite sapp_assoc; reflexivity).
  rewrite span_not_app; [| |apply tail_of_shape].
  - rewrite break_at_app by (apply (token_no t _ Ht); intros x Hx; apply (tok_char_not x Hx)).
    f_equal. unfold tl. rewrite pparams_tail.
    + clear -Hsorted. induction Hsorted as [|kv l Hkv _ IH]; [reflexivity|]. simpl. rewrite cut_comma_wf, IH by exact Hkv. reflexivity.
    + exact Hsorted.
    + apply le_n_S. rewrite <- (map_length render_item). apply tail_of_length.
  - rewrite has_char_app. simpl.
    rewrite (token_no t _ Ht) by (intros x Hx; apply (tok_char_not x Hx)).
    rewrite (token_no sub _ Hs) by (intros x Hx; apply (tok_char_not x Hx)). reflexivity.
Qed.

(* ... which is the same ContentType (dict equality of the parameters) *)
Lemma distinct_NoDup l : distinct l = true -> NoDup l.
Proof.
  induction l as [|x l IH]; simpl; intro H; [constructor|]. apply andb_true_iff in H as [Hx Hl].
  constructor; [|exact (IH Hl)]. intro Hin. apply negb_true_iff in Hx.
  assert (E : existsb (String.eqb x) l = true) by (apply existsb_exists; exists x; split; [exact Hin | apply String.eqb_refl]).
  congruence.
Qed.
Lemma plookup_In k v ps : NoDup (map fst ps) -> In (k, v) ps -> plookup k ps = Some v.
Proof.
  induction ps as [|[k' v'] ps IH]; simpl; intros ND Hin; [contradiction|]. inversion ND as [|? ? Hn ND']; subst.
  destruct Hin as [Hin|Hin].
  - inversion Hin; subst. rewrite String.eqb_refl. reflexivity.
  - destruct (String.eqb k k') eqn:E; [|exact (IH ND' Hin)].
    apply String.eqb_eq in E. subst k'. exfalso. apply Hn. apply (in_map fst) in Hin. exact Hin.
Qed.
Lemma params_sub_perm a b : NoDup (map fst b) -> (forall kv, In kv a -> In kv b) -> params_sub a b = true.
Proof.
  intros ND Hsub. unfold params_sub. apply forallb_forall. intros [k v] Hin. cbn [fst snd].
  rewrite (plookup_In k v b ND (Hsub _ Hin)). simpl. apply String.eqb_refl.
Qed.
Lemma ct_same_perm t s a b : NoDup (map fst a) -> Permutation a b -> ct_same (CType t s a) (CType t s b) = true.
Proof.
  intros ND P. unfold ct_same. cbn [ct_type ct_sub ct_params]. rewrite !String.eqb_refl. cbn [andb].
  assert (NDb : NoDup (map fst b)) by (apply Permutation_NoDup with (l := map fst a); [apply Permutation_map; exact P | exact ND]).
  rewrite params_sub_perm; [|exact NDb | intros kv; apply Permutation_in; exact P].
  rewrite params_sub_perm; [reflexivity | exact ND | intros kv; apply Permutation_in; apply Permutation_sym; exact P].
Qed.

Theorem mime_roundtrip_same ct : wf_ct ct = true ->
  ct_same (parse (render ct)) ct = true /\ ct_same (norm_ct (parse (render ct))) ct = true.
Proof.
  intro H. rewrite (mime_roundtrip ct H). destruct ct as [t s ps]. cbn [ct_type ct_sub ct_params norm_ct].
  unfold wf_ct in H. cbn [ct_params] in H. rewrite !andb_true_iff in H. destruct H as [_ Hd].
  apply distinct_NoDup in Hd.
  assert (P1 : Permutation (isort item_leb ps) ps) by (apply Permutation_sym, isort_perm).
  assert (ND1 : NoDup (map fst (isort item_leb ps)))
    by (apply Permutation_NoDup with (l := map fst ps); [apply Permutation_map, Permutation_sym; exact P1 | exact Hd]).
  split.
  - apply ct_same_perm; assumption.
  - apply ct_same_perm.
    + apply Permutation_NoDup with (l := map fst (isort item_leb ps)); [apply Permutation_map, isort_perm | exact ND1].
    + apply Permutation_trans with (l' := isort item_leb ps); [apply Permutation_sym, isort_perm | exact P1].
Qed.
Close Scope string_scope.

(* ================= the look-ahead loop of _convert ================= *)
Definition file_e (i n : nat) (b : string) (eof : bool) (mime : string) (ts : option nat) : event string :=
  Ev (Some i) None None None (Some n) (Some b) eof (Some mime) ts.
Definition status_e (i : nat) (st : status) (tags : option (list nat)) (ts : option nat) : event string :=
  Ev (Some i) None (Some st) tags None None false None ts.

(* all chunks but the last, and the last; ([], "") when there is none *)
Definition split_last (cs : list string) : list string * string :=
  match rev cs with [] => ([], ""%string) | l :: ri => (rev ri, l) end.

Lemma split_last_spec cs :
  (cs = [] /\ split_last cs = ([], ""%string)) \/ cs = fst (split_last cs) ++ [snd (split_last cs)].
Proof.
  unfold split_last. destruct (rev cs) as [|l ri] eqn:E.
  - left. split; [|reflexivity]. destruct cs; [reflexivity|].
    apply (f_equal (@List.length string)) in E. rewrite rev_length in E. discriminate.
  - right. simpl. rewrite <- (rev_involutive cs), E. reflexivity.
Qed.

Section Loop.
  Variable emit : string -> bool -> mev.

  Lemma removelast_cons2 {A} (p c : A) r : removelast (p :: c :: r) = p :: removelast (c :: r).
  Proof. reflexivity. Qed.

  (* the invariant: everything but the pending chunk has been emitted with eof=False *)
  Lemma chunk_loop_inv cs : forall p out,
    chunk_loop emit (Some p) cs out
    = (Some (last cs p), out ++ map (fun c => emit c false) (removelast (p :: cs))).
  Proof.
    induction cs as [|c r IH]; intros p out.
    - simpl. rewrite app_nil_r. reflexivity.
    - simpl chunk_loop. rewrite IH. rewrite last_cons, removelast_cons2. simpl map. rewrite <- app_assoc. reflexivity.
  Qed.

  (* every chunk in order, eof exactly on the last; one empty eof chunk when there is none *)
  Theorem chunk_loop_spec cs :
    (let (pending, out) := chunk_loop emit None cs [] in
     out ++ [emit (match pending with Some p => p | None => ""%string end) true])
    = map (fun c => emit c false) (fst (split_last cs)) ++ [emit (snd (split_last cs)) true].
  Proof.
    destruct cs as [|c r]; [reflexivity|].
    change (chunk_loop emit None (c :: r) []) with (chunk_loop emit (Some c) r []). rewrite chunk_loop_inv.
    rewrite <- (last_cons r c c). cbn [app].
    destruct (split_last_spec (c :: r)) as [[H _]|H]; [discriminate|].
    rewrite H at 1 2. rewrite removelast_last, last_last. reflexivity.
  Qed.
End Loop.

Definition detail_events (i : nat) (ts : option nat) (d : detail) : list (event string) :=
  map (fun c => file_e i (d_name d) c false (render (d_ct d)) ts) (fst (split_last (d_chunks d)))
  ++ [file_e i (d_name d) (snd (split_last (d_chunks d))) true (render (d_ct d)) ts].

Lemma convert_detail_events i ts d : convert_detail i ts d = map MStatus (detail_events i ts d).
Proof.
  unfold convert_detail. rewrite chunk_loop_spec. unfold detail_events, file_ev.
  rewrite map_app, map_map. reflexivity.
Qed.

(* ================= alpha on the events of one detail ================= *)
Lemma group_detail i n mime ts init lst rest :
  group (map MStatus (map (fun c => file_e i n c false mime ts) init ++ [file_e i n lst true mime ts]) ++ rest)
  = AFile (AF (Some i) None n (canon_mime (Some mime)) (sjoin (init ++ [lst])) true ts) :: group rest.
Proof.
  induction init as [|c init IH].
  - simpl. rewrite sapp_nil_r. reflexivity.
  - cbn [map app]. cbn [map app] in IH.
    change (group (MStatus (file_e i n c false mime ts) :: ?X))
      with (match group X with
            | AFile f :: rest0 =>
                if same_file (AF (Some i) None n (canon_mime (Some mime)) c false ts) f
                then AFile (AF (Some i) None n (canon_mime (Some mime)) (c ++ af_bytes f)%string (af_closed f) ts) :: rest0
                else AFile (AF (Some i) None n (canon_mime (Some mime)) c false ts) :: AFile f :: rest0
            | g => AFile (AF (Some i) None n (canon_mime (Some mime)) c false ts) :: g
            end).
    rewrite IH. unfold same_file. cbn [af_id af_route af_name af_bytes af_closed option_eqb]. rewrite !Nat.eqb_refl.
    reflexivity.
Qed.

Lemma group_detail_events i ts d rest :
  group (map MStatus (detail_events i ts d) ++ rest)
  = AFile (AF (Some i) None (d_name d) (canon_mime (Some (render (d_ct d)))) (sjoin (d_chunks d)) true ts) :: group rest.
Proof.
  unfold detail_events. rewrite group_detail. do 2 f_equal.
  destruct (split_last_spec (d_chunks d)) as [[H1 H2]|H]; [rewrite H2, H1; reflexivity | rewrite <- H; reflexivity].
Qed.

Lemma group_details i ts ds rest :
  group (map MStatus (flat_map (detail_events i ts) ds) ++ rest)
  = map (fun d => AFile (AF (Some i) None (d_name d) (canon_mime (Some (render (d_ct d)))) (sjoin (d_chunks d)) true ts)) ds
    ++ group rest.
Proof.
  induction ds as [|d ds IH]; [reflexivity|]. cbn [flat_map map]. rewrite map_app, <- app_assoc.
  rewrite group_detail_events, IH. reflexivity.
Qed.

(* ================= facts about the live tables used by the converters ================= *)
Lemma word_table : forall k, word_of k = final_word k.
Proof. intros []; vm_compute; reflexivity. Qed.
Lemma final_word_final k : final (Some (final_word k)) = true.
Proof. destruct k; vm_compute; reflexivity. Qed.
Lemma final_none : final None = false.
Proof. vm_compute; reflexivity. Qed.
Lemma final_inprogress : final (Some Inprogress) = false.
Proof. vm_compute; reflexivity. Qed.
Lemma outcome_of_final_word k : outcome_of (final_word k) = Some (replayed k).
Proof. destruct k; vm_compute; reflexivity. Qed.

(* ================= the receiver on the events of one test ================= *)
Fixpoint s2e_tbl (tbl : list (key * crcd)) (ms : list mev) : list (key * crcd) :=
  match ms with
  | [] => tbl
  | m :: r => s2e_tbl (fst (s2e_step tbl m)) r
  end.
Lemma s2e_run_app tbl a b : s2e_run tbl (a ++ b) = s2e_run tbl a ++ s2e_run (s2e_tbl tbl a) b.
Proof.
  revert tbl; induction a as [|m a IH]; intro tbl; [reflexivity|].
  cbn [app s2e_run s2e_tbl]. rewrite IH, app_assoc. reflexivity.
Qed.
Lemma s2e_tbl_app tbl a b : s2e_tbl tbl (a ++ b) = s2e_tbl (s2e_tbl tbl a) b.
Proof. revert tbl; induction a as [|m a IH]; intro tbl; [reflexivity|]. cbn [app s2e_tbl]. apply IH. Qed.

(* an event of test i that neither completes it nor is dropped *)
Definition quiet (i : nat) (e : event string) : Prop :=
  e_id e = Some i /\ e_route e = None /\ e_status e = None.

Lemma key_refl i : key_eqb (i, @None nat) (i, None) = true.
Proof. unfold key_eqb. simpl. rewrite Nat.eqb_refl. reflexivity. Qed.

Lemma s2e_quiet_step i r e : quiet i e ->
  s2e_step [((i, None), r)] (MStatus e) = ([((i, None), upd parse_opt r e)], []).
Proof.
  intros [Hi [Hr Hs]]. unfold s2e_step, not_exists, step. rewrite Hs, Hi, Hr, final_none.
  cbn [get put]. rewrite key_refl. reflexivity.
Qed.
Lemma s2e_quiet i evs : forall r, Forall (quiet i) evs ->
  s2e_run [((i, None), r)] (map MStatus evs) = []
  /\ s2e_tbl [((i, None), r)] (map MStatus evs) = [((i, None), fold_left (upd parse_opt) evs r)].
Proof.
  induction evs as [|e evs IH]; intros r H; [split; reflexivity|].
  inversion H as [|? ? He Hevs]; subst. cbn [map s2e_run s2e_tbl fold_left].
  rewrite (s2e_quiet_step i r e He). cbn [fst snd app]. apply IH. exact Hevs.
Qed.
Lemma s2e_final_step i r k tags ts :
  s2e_step [((i, None), r)] (MStatus (status_e i (final_word k) tags ts))
  = ([], replay (upd parse_opt r (status_e i (final_word k) tags ts))).
Proof.
  unfold s2e_step, step, status_e. cbn [e_id e_route e_status].
  assert (Hne : not_exists (Ev (Some i) None (Some (final_word k)) tags None None false (@None string) ts) = true)
    by (destruct k; reflexivity).
  rewrite Hne, final_word_final. cbn [get del]. rewrite key_refl. cbn [fst snd flat_map]. rewrite app_nil_r. reflexivity.
Qed.
Definition rec0 (i t0 : nat) : crcd := Rcd i [] [] Inprogress (Some t0) (Some t0).
Lemma s2e_start_step i t0 :
  s2e_step [] (MStatus (status_e i Inprogress None (Some t0))) = ([((i, None), rec0 i t0)], []).
Proof.
  unfold s2e_step, step, status_e, not_exists. cbn [e_id e_route e_status]. rewrite final_inprogress. reflexivity.
Qed.

(* ---------- the record built from a block of file events followed by the final status ---------- *)
Lemma somes_none {A} (f : event string -> option A) evs : Forall (fun e => f e = None) evs -> somes f evs = [].
Proof. induction 1 as [|e evs He _ IH]; [reflexivity|]. unfold somes in *. cbn [flat_map]. rewrite He, IH. reflexivity. Qed.
Lemma somes_app {A} (f : event string -> option A) a b : somes f (a ++ b) = somes f a ++ somes f b.
Proof. unfold somes. apply flat_map_app. Qed.
Lemma chunks_app (a b : list (event string)) : chunks (a ++ b) = chunks a ++ chunks b.
Proof. apply somes_app. Qed.

Notation addc9 := (addc string ctype parse_opt).

Lemma fold_block evs i st tg ts (r0 : crcd) :
  Forall (fun e => e_tags e = None) evs -> Forall (fun e => e_status e = None) evs ->
  fold_left (upd parse_opt) (evs ++ [status_e i st (Some tg) ts]) r0
  = Rcd (r_id r0) tg (fold_left addc9 (chunks evs) (r_details r0)) st (r_first r0) ts.
Proof.
  intros Ht Hs. rewrite fold_upd.
  rewrite !somes_app, (somes_none e_tags evs Ht), (somes_none e_status evs Hs), chunks_app, map_app.
  cbn [map]. rewrite last_last. unfold chunks, somes, status_e. cbn. rewrite app_nil_r. reflexivity.
Qed.

(* the non-empty chunks a detail contributes *)
Definition ne_chunks (n : nat) (mime : string) (cs : list string) : list (chunk string) :=
  flat_map (fun c => if sempty c then [] else [((n, Some mime), c)]) cs.

Lemma chunks_files i n mime ts eof cs :
  chunks (map (fun c => file_e i n c eof mime ts) cs) = ne_chunks n mime cs.
Proof.
  induction cs as [|c cs IH]; [reflexivity|]. unfold chunks, somes in *. cbn [map flat_map]. rewrite IH.
  unfold chunk_of, file_e, ne_chunks. cbn [e_fname e_fbytes e_mime flat_map]. destruct (sempty c); reflexivity.
Qed.
Lemma ne_chunks_app n mime a b : ne_chunks n mime (a ++ b) = ne_chunks n mime a ++ ne_chunks n mime b.
Proof. apply flat_map_app. Qed.

Lemma chunks_detail i ts d : chunks (detail_events i ts d) = ne_chunks (d_name d) (render (d_ct d)) (d_chunks d).
Proof.
  unfold detail_events. rewrite chunks_app, chunks_files.
  change [file_e i (d_name d) (snd (split_last (d_chunks d))) true (render (d_ct d)) ts]
    with (map (fun c => file_e i (d_name d) c true (render (d_ct d)) ts) [snd (split_last (d_chunks d))]).
  rewrite chunks_files, <- ne_chunks_app.
  destruct (split_last_spec (d_chunks d)) as [[H1 H2]|H]; [rewrite H2, H1; reflexivity | rewrite <- H; reflexivity].
Qed.

Lemma add_bytes_end n m b acc (ct : ctype) old : ~ In n (map fst acc) ->
  add_bytes parse_opt n m b (acc ++ [(n, (ct, old))]) = acc ++ [(n, (ct, (old ++ b)%string))].
Proof.
  induction acc as [|[n' [ct' old']] acc IH]; simpl; intro H.
  - rewrite Nat.eqb_refl. reflexivity.
  - destruct (Nat.eqb n n') eqn:E; [apply Nat.eqb_eq in E; exfalso; apply H; left; symmetry; exact E|].
    rewrite IH; [reflexivity|]. intro; apply H; right; assumption.
Qed.

Lemma fold_more n mime cs : forall acc (ct : ctype) old, ~ In n (map fst acc) ->
  fold_left addc9 (ne_chunks n mime cs) (acc ++ [(n, (ct, old))]) = acc ++ [(n, (ct, (old ++ sjoin cs)%string))].
Proof.
  induction cs as [|c cs IH]; intros acc ct old H.
  - simpl. rewrite sapp_nil_r. reflexivity.
  - unfold ne_chunks. cbn [flat_map]. destruct (sempty c) eqn:E.
    + apply sempty_true in E. subst c. cbn [app]. fold (ne_chunks n mime cs). rewrite IH by exact H. reflexivity.
    + cbn [app fold_left]. unfold addc at 2. cbn [fst snd]. rewrite add_bytes_end by exact H.
      fold (ne_chunks n mime cs). rewrite IH by exact H. cbn [sjoin fold_right]. rewrite sapp_assoc. reflexivity.
Qed.

Definition model_detail (n : nat) (mime : string) (cs : list string) : list (nat * (ctype * string)) :=
  if sempty (sjoin cs) then [] else [(n, (parse_opt (Some mime), sjoin cs))].

Lemma fold_fresh n mime cs : forall acc, ~ In n (map fst acc) ->
  fold_left addc9 (ne_chunks n mime cs) acc = acc ++ model_detail n mime cs.
Proof.
  induction cs as [|c cs IH]; intros acc H.
  - unfold model_detail. simpl. rewrite app_nil_r. reflexivity.
  - unfold ne_chunks. cbn [flat_map]. destruct (sempty c) eqn:E.
    + pose proof E as E'. apply sempty_true in E'. subst c. cbn [app]. fold (ne_chunks n mime cs). rewrite IH by exact H.
      reflexivity.
    + cbn [app fold_left]. unfold addc at 2. cbn [fst snd]. rewrite (add_bytes_absent string ctype parse_opt) by exact H.
      fold (ne_chunks n mime cs). rewrite fold_more by exact H.
      unfold model_detail. cbn [sjoin fold_right]. rewrite sempty_app, E. reflexivity.
Qed.

Definition model_details (ds : list detail) : list (nat * (ctype * string)) :=
  flat_map (fun d => model_detail (d_name d) (render (d_ct d)) (d_chunks d)) ds.

Lemma model_detail_names n mime cs x : In x (map fst (model_detail n mime cs)) -> x = n.
Proof. unfold model_detail. destruct (sempty (sjoin cs)); simpl; [tauto | intros [<-|[]]; reflexivity]. Qed.

Lemma distinct_nats_cons x l : distinct_nats (x :: l) = true -> ~ In x l /\ distinct_nats l = true.
Proof.
  simpl. intro H. apply andb_true_iff in H as [Hx Hl]. split; [|exact Hl]. intro Hin. apply negb_true_iff in Hx.
  assert (E : existsb (Nat.eqb x) l = true) by (apply existsb_exists; exists x; split; [exact Hin | apply Nat.eqb_refl]).
  congruence.
Qed.

Lemma fold_details i ts ds : forall acc, distinct_nats (map d_name ds) = true ->
  (forall d, In d ds -> ~ In (d_name d) (map fst acc)) ->
  fold_left addc9 (chunks (flat_map (detail_events i ts) ds)) acc = acc ++ model_details ds.
Proof.
  induction ds as [|d ds IH]; intros acc Hd Hacc.
  - simpl. rewrite app_nil_r. reflexivity.
  - cbn [flat_map map] in *. apply distinct_nats_cons in Hd as [Hn Hd].
    rewrite chunks_app, fold_left_app, chunks_detail, fold_fresh by (apply Hacc; left; reflexivity).
    rewrite IH; [unfold model_details; cbn [flat_map]; rewrite app_assoc; reflexivity | exact Hd |].
    intros d' Hin. rewrite map_app, in_app_iff. intros [H|H].
    + exact (Hacc d' (or_intror Hin) H).
    + apply model_detail_names in H. apply Hn. rewrite <- H. apply in_map. exact Hin.
Qed.

(* ================= tag sets ================= *)
Definition same_set (a b : list nat) : Prop := forall x, In x a <-> In x b.

Lemma tinsert_In x s y : In y (tinsert x s) <-> y = x \/ In y s.
Proof.
  induction s as [|z s IH]; simpl; [intuition|].
  destruct (Nat.ltb x z); [simpl; intuition|].
  destruct (Nat.eqb x z) eqn:E; [apply Nat.eqb_eq in E; subst; simpl; intuition|].
  simpl. rewrite IH. intuition.
Qed.
Lemma tunion_In add : forall s y, In y (tunion s add) <-> In y s \/ In y add.
Proof.
  unfold tunion. induction add as [|x add IH]; intros s y; simpl; [tauto|].
  rewrite IH, tinsert_In. intuition.
Qed.
Lemma existsb_nat_In x l : existsb (Nat.eqb x) l = true <-> In x l.
Proof.
  rewrite existsb_exists. split.
  - intros [y [Hy E]]. apply Nat.eqb_eq in E. subst; exact Hy.
  - intro H. exists x. split; [exact H | apply Nat.eqb_refl].
Qed.
Lemma not_in_filter (g l : list nat) y :
  In y (filter (fun x => negb (existsb (Nat.eqb x) g)) l) <-> In y l /\ ~ In y g.
Proof.
  rewrite filter_In, negb_true_iff. split; intros [H1 H2]; (split; [exact H1|]).
  - intro Hin. apply existsb_nat_In in Hin. congruence.
  - destruct (existsb (Nat.eqb y) g) eqn:E; [|reflexivity]. apply existsb_nat_In in E. contradiction.
Qed.
Lemma change_tags_In c n g y : In y (change_tags c n g) <-> (In y c \/ In y n) /\ ~ In y g.
Proof. unfold change_tags, tdiff. rewrite not_in_filter, tunion_In. tauto. Qed.
Lemma apply_tags_In c n g y : In y (apply_tags c n g) <-> (In y c \/ In y n) /\ ~ In y g.
Proof. unfold apply_tags. rewrite not_in_filter, in_app_iff. tauto. Qed.
Lemma same_set_change a b n g : same_set a b -> same_set (change_tags a n g) (apply_tags b n g).
Proof. intros H x. rewrite change_tags_In, apply_tags_In, (H x). tauto. Qed.
Lemma same_set_refl a : same_set a a.
Proof. intro x; tauto. Qed.
Lemma same_set_sym a b : same_set a b -> same_set b a.
Proof. intros H x. symmetry. apply H. Qed.
Lemma set_eqb_same a b : same_set a b -> set_eqb a b = true.
Proof.
  intro H. unfold set_eqb. apply andb_true_iff. split; apply forallb_forall; intros x Hx; apply existsb_nat_In; apply H; exact Hx.
Qed.

(* ================= matching lists ================= *)
Lemma forall2b_app {A B} (p : A -> B -> bool) a c : forall b d,
  forall2b p a c = true -> forall2b p b d = true -> forall2b p (a ++ b) (c ++ d) = true.
Proof.
  revert c; induction a as [|x a IH]; intros [|y c] b d H1 H2; simpl in *; try discriminate; [exact H2|].
  apply andb_true_iff in H1 as [Hx Ha]. rewrite Hx. simpl. apply IH; assumption.
Qed.
Lemma forall2b_map {A B C} (p : A -> B -> bool) (f : C -> A) (g : C -> B) l :
  (forall x, In x l -> p (f x) (g x) = true) -> forall2b p (map f l) (map g l) = true.
Proof.
  induction l as [|x l IH]; intro H; simpl; [reflexivity|].
  rewrite H by (left; reflexivity). simpl. apply IH. intros y Hy. apply H. right; exact Hy.
Qed.
Lemma forall2b_Forall2 {A B} (p : A -> B -> bool) l : forall m,
  forall2b p l m = true -> Forall2 (fun a b => p a b = true) l m.
Proof.
  induction l as [|a l IH]; intros [|b m] H; simpl in H; try discriminate; [constructor|].
  apply andb_true_iff in H as [H1 H2]. constructor; [exact H1 | exact (IH m H2)].
Qed.

Lemma norm_log_app a b : norm_log (a ++ b) = norm_log a ++ norm_log b.
Proof. unfold norm_log, strip. rewrite filter_app, map_app. reflexivity. Qed.
Lemma norm_details_app a b : norm_details (a ++ b) = norm_details a ++ norm_details b.
Proof. apply map_app. Qed.

(* ---------- details survive: same name, same joined bytes, an equal content type ---------- *)
Lemma match_model_detail d : wf_ct (d_ct d) = true ->
  forall2b match_detail
    (if sempty (sjoin (d_chunks d)) then [] else [(d_name d, (d_ct d, sjoin (d_chunks d)))])
    (norm_details (model_detail (d_name d) (render (d_ct d)) (d_chunks d))) = true.
Proof.
  intro H. unfold model_detail. destruct (sempty (sjoin (d_chunks d))); [reflexivity|].
  cbn [norm_details map forall2b fst snd]. unfold match_detail. cbn [fst snd parse_opt].
  rewrite Nat.eqb_refl, String.eqb_refl. destruct (mime_roundtrip_same _ H) as [_ ->]. reflexivity.
Qed.
Lemma match_model_details ds : forallb (fun d => wf_ct (d_ct d)) ds = true ->
  forall2b match_detail (nonempty_details ds) (norm_details (model_details ds)) = true.
Proof.
  induction ds as [|d ds IH]; intro H; [reflexivity|]. cbn [forallb] in H. apply andb_true_iff in H as [Hd Hds].
  unfold nonempty_details, model_details. cbn [flat_map]. rewrite norm_details_app.
  apply forall2b_app; [apply match_model_detail; exact Hd | apply IH; exact Hds].
Qed.
Lemma reason_ct_same : ct_same (norm_ct (parse reason_mime)) reason_ct = true.
Proof. vm_compute. reflexivity. Qed.
Lemma match_model_reason b :
  forall2b match_detail (reason_detail (Some b)) (norm_details (model_detail reason_name reason_mime [b])) = true.
Proof.
  unfold reason_detail, model_detail. cbn [sjoin fold_right]. rewrite sapp_nil_r.
  destruct (sempty b); [reflexivity|]. cbn [norm_details map forall2b fst snd]. unfold match_detail. cbn [fst snd parse_opt].
  rewrite Nat.eqb_refl, String.eqb_refl, reason_ct_same. reflexivity.
Qed.

(* ================= one outcome ================= *)
Definition reason_events (i : nat) (r : option string) (ts : option nat) : list (event string) :=
  match r with Some b => [file_e i reason_name b true reason_mime ts] | None => [] end.
Definition outcome_events (s : e2s) (k : outcome) (i : nat) (ds : option (list detail)) (r : option string) :=
  flat_map (detail_events i (now_ts s)) (some_list ds) ++ reason_events i r (now_ts s)
  ++ [status_e i (final_word k) (Some (current_tags s)) (now_ts s)].

Lemma flat_map_convert i ts ds :
  flat_map (convert_detail i ts) ds = map MStatus (flat_map (detail_events i ts) ds).
Proof.
  induction ds as [|d ds IH]; [reflexivity|]. cbn [flat_map]. rewrite map_app, IH, convert_detail_events. reflexivity.
Qed.
Lemma convert_events s k i ds r : convert s k i ds r = map MStatus (outcome_events s k i ds r).
Proof.
  unfold convert, outcome_events. rewrite !map_app, word_table. f_equal.
  - destruct ds; [apply flat_map_convert | reflexivity].
  - f_equal. destruct r; reflexivity.
Qed.

Lemma quiet_detail_events i ts ds : Forall (quiet i) (flat_map (detail_events i ts) ds).
Proof.
  apply Forall_forall. intros e He. apply in_flat_map in He. destruct He as [d [_ He]].
  unfold detail_events in He. apply in_app_iff in He. destruct He as [He|[<-|[]]].
  - apply in_map_iff in He. destruct He as [c [<- _]]. repeat split.
  - repeat split.
Qed.
Lemma quiet_reason_events i r ts : Forall (quiet i) (reason_events i r ts).
Proof. destruct r; simpl; [constructor; [repeat split | constructor] | constructor]. Qed.
Lemma quiet_tags i evs : Forall (quiet i) evs -> Forall (fun e => e_status e = None) evs.
Proof. apply Forall_impl. intros e [_ [_ H]]. exact H. Qed.
Lemma files_no_tags i ts ds r :
  Forall (fun e : event string => e_tags e = None) (flat_map (detail_events i ts) ds ++ reason_events i r ts).
Proof.
  apply Forall_app. split.
  - apply Forall_forall. intros e He. apply in_flat_map in He. destruct He as [d [_ He]].
    unfold detail_events in He. apply in_app_iff in He. destruct He as [He|[<-|[]]]; [|reflexivity].
    apply in_map_iff in He. destruct He as [c [<- _]]. reflexivity.
  - destruct r; simpl; repeat constructor.
Qed.

(* the details of the record the receiver builds *)
Definition model_reason (r : option string) : list (nat * (ctype * string)) :=
  match r with Some b => model_detail reason_name reason_mime [b] | None => [] end.

Lemma outcome_details i ts k ds r : outcome_wf k ds r = true ->
  fold_left addc9 (chunks (flat_map (detail_events i ts) (some_list ds) ++ reason_events i r ts)) []
  = model_details (some_list ds) ++ model_reason r.
Proof.
  intro W. unfold outcome_wf in W. rewrite !andb_true_iff in W. destruct W as [[Wr _] Wd].
  rewrite chunks_app, fold_left_app.
  destruct r as [b|].
  - destruct ds as [l|]; [rewrite andb_false_r in Wr; discriminate|].
    cbn [some_list flat_map reason_events model_details model_reason app].
    change [file_e i reason_name b true reason_mime ts] with (map (fun c => file_e i reason_name c true reason_mime ts) [b]).
    rewrite chunks_files. change (chunks []) with (@nil (chunk string)). cbn [fold_left].
    rewrite fold_fresh by (simpl; tauto). reflexivity.
  - cbn [reason_events model_reason]. change (chunks []) with (@nil (chunk string)). cbn [fold_left]. rewrite app_nil_r.
    destruct ds as [l|]; [|reflexivity]. cbn [some_list]. apply andb_true_iff in Wd as [Wn _].
    rewrite fold_details; [reflexivity | exact Wn | intros d _ H; exact H].
Qed.

Lemma outcome_received i k ds r tt rt nw t0 : outcome_wf k ds r = true ->
  let s := E2S true [tt; rt] nw in
  let t1 := match nw with Some t => t | None => wall end in
  s2e_run [((i, None), rec0 i t0)] (convert s k i ds r)
  = replay (Rcd i tt (model_details (some_list ds) ++ model_reason r) (final_word k) (Some t0) (Some t1))
  /\ s2e_tbl [((i, None), rec0 i t0)] (convert s k i ds r) = [].
Proof.
  intros W s t1. rewrite convert_events. unfold outcome_events. rewrite app_assoc, map_app.
  set (files := flat_map (detail_events i (now_ts s)) (some_list ds) ++ reason_events i r (now_ts s)).
  assert (Q : Forall (quiet i) files)
    by (apply Forall_app; split; [apply quiet_detail_events | apply quiet_reason_events]).
  destruct (s2e_quiet i files (rec0 i t0) Q) as [Hrun Htbl].
  rewrite s2e_run_app, s2e_tbl_app, Hrun, Htbl. cbn [map s2e_run s2e_tbl app].
  rewrite s2e_final_step. cbn [fst snd]. rewrite app_nil_r.
  change (upd parse_opt (fold_left (upd parse_opt) files (rec0 i t0)) ?e)
    with (fold_left (upd parse_opt) [e] (fold_left (upd parse_opt) files (rec0 i t0))).
  rewrite <- fold_left_app.
  rewrite fold_block; [| subst files; apply files_no_tags | apply (quiet_tags i); exact Q].
  subst files. cbn [rec0 r_id r_details r_first]. rewrite (outcome_details i (now_ts s) k ds r W).
  split; reflexivity.
Qed.

(* ... and what the tap in the middle shows of it *)
Definition afile_of (i : nat) (ts : option nat) (d : detail) : aev :=
  AFile (AF (Some i) None (d_name d) (canon_mime (Some (render (d_ct d)))) (sjoin (d_chunks d)) true ts).

Lemma outcome_grouped s k i ds r Y :
  group (convert s k i ds r ++ Y)
  = map (afile_of i (now_ts s)) (some_list ds)
    ++ (match r with Some b => [AFile (AF (Some i) None reason_name (canon_mime (Some reason_mime)) b true (now_ts s))] | None => [] end)
    ++ ARaw (canon_ev (status_e i (final_word k) (Some (current_tags s)) (now_ts s))) :: group Y.
Proof.
  rewrite convert_events. unfold outcome_events. rewrite map_app, <- app_assoc, group_details. f_equal.
  rewrite map_app, <- app_assoc. destruct r as [b|]; reflexivity.
Qed.

Lemma match_files i t1 ds : forallb (fun d => wf_ct (d_ct d)) ds = true ->
  forall2b match_mid (map (fun d => XFile i (d_name d) (d_ct d) (sjoin (d_chunks d)) t1) ds)
                     (map (afile_of i (Some t1)) ds) = true.
Proof.
  intro H. apply forall2b_map. intros d Hd. rewrite forallb_forall in H. specialize (H d Hd).
  unfold afile_of, match_mid. cbn [af_id af_route af_name af_ct af_bytes af_closed af_ts canon_mime option_map option_eqb].
  rewrite !Nat.eqb_refl, String.eqb_refl. destruct (mime_roundtrip_same _ H) as [_ ->]. reflexivity.
Qed.

(* ================= the invariant along a well-formed history ================= *)
(* phase of the history / converter state / receiver's in-progress table / the specification's reading *)
Inductive R : phase -> e2s -> list (key * crcd) -> sstate -> Prop :=
| R_not rt rt' nw : same_set rt rt' ->                                  (* only time() and tags() calls so far *)
    R PNot (E2S false [rt] nw) [] (SS false rt' None nw 0)
| R_idle rt rt' nw st : same_set rt rt' -> R PIdle (E2S true [rt] nw) [] (SS true rt' None nw st)
| R_in i tt rt tt' rt' nw t0 : same_set tt tt' -> same_set rt rt' ->
    R (PIn i) (E2S true [tt; rt] nw) [((i, None), rec0 i t0)] (SS true rt' (Some tt') nw t0)
| R_done i tt rt tt' rt' nw st : same_set tt tt' -> same_set rt rt' ->
    R (PDone i) (E2S true [tt; rt] nw) [] (SS true rt' (Some tt') nw st)
| R_stopped s ss : R PStopped s [] ss.

Lemma status_eqb_refl s : status_eqb s s = true.
Proof. destruct s; reflexivity. Qed.
Lemma outcome_eqb_refl s : outcome_eqb s s = true.
Proof. destruct s; reflexivity. Qed.

Lemma outcome_wf_cts k ds r : outcome_wf k ds r = true -> forallb (fun d => wf_ct (d_ct d)) (some_list ds) = true.
Proof.
  unfold outcome_wf. rewrite !andb_true_iff. intros [_ H]. destruct ds as [l|]; [|reflexivity].
  apply andb_true_iff in H as [_ H]. exact H.
Qed.

Lemma outcome_mid_ok i k ds r tt tt' rt nw Y XM : outcome_wf k ds r = true -> same_set tt tt' ->
  let s := E2S true [tt; rt] nw in
  let t1 := match nw with Some t => t | None => wall end in
  forall2b match_mid XM (group Y) = true ->
  forall2b match_mid
    ((map (fun d => XFile i (d_name d) (d_ct d) (sjoin (d_chunks d)) t1) (some_list ds)
      ++ (match r with Some b => [XFile i reason_name reason_ct b t1] | None => [] end)
      ++ [XStatus i (final_word k) (Some tt') t1]) ++ XM)
    (group (convert s k i ds r ++ Y)) = true.
Proof.
  intros W Ht s t1 H. rewrite outcome_grouped. rewrite <- !app_assoc.
  apply forall2b_app; [apply match_files; exact (outcome_wf_cts k ds r W)|].
  apply forall2b_app.
  - destruct r as [b|]; [|reflexivity]. cbn [forall2b match_mid af_id af_route af_name af_ct af_bytes af_closed af_ts
      canon_mime option_map option_eqb now_ts now s].
    rewrite !Nat.eqb_refl, String.eqb_refl, reason_ct_same. reflexivity.
  - cbn [app forall2b]. rewrite H, andb_true_r. unfold match_mid, canon_ev, status_e.
    cbn [e_id e_route e_status e_tags e_fname e_ts option_eqb current_tags tagstack s now_ts now].
    rewrite !Nat.eqb_refl, status_eqb_refl, (set_eqb_same _ _ Ht). reflexivity.
Qed.

Lemma outcome_fin_ok i k ds r tt tt' rt nw t0 : outcome_wf k ds r = true -> same_set tt tt' ->
  let s := E2S true [tt; rt] nw in
  let t1 := match nw with Some t => t | None => wall end in
  forall2b match_fin
    [YTime t0; YStartTest i; YTime t1;
     YOutcome (replayed k) i tt' (nonempty_details (some_list ds) ++ reason_detail r); YStopTest i]
    (norm_log (s2e_run [((i, None), rec0 i t0)] (convert s k i ds r))) = true.
Proof.
  intros W Ht s t1. subst s t1. destruct (outcome_received i k ds r tt rt nw t0 W) as [-> _].
  unfold replay. cbn [r_status r_first r_last r_tags r_id r_details]. rewrite outcome_of_final_word.
  cbn [opt_time app norm_log strip filter is_tags negb map norm_lev forall2b match_fin].
  rewrite !Nat.eqb_refl, outcome_eqb_refl, (set_eqb_same _ _ (same_set_sym _ _ Ht)). cbn [andb].
  rewrite andb_true_r. rewrite norm_details_app.
  apply forall2b_app; [apply match_model_details; exact (outcome_wf_cts k ds r W)|].
  destruct r as [b|]; [apply match_model_reason | reflexivity].
Qed.

Lemma op_step p o q s tbl ss : R p s tbl ss -> wf_step p o = Some q ->
  (forall Y XM, forall2b match_mid XM (group Y) = true ->
                forall2b match_mid (fst (snd (sstep ss o)) ++ XM) (group (snd (e2s_step s o) ++ Y)) = true)
  /\ forall2b match_fin (snd (snd (sstep ss o))) (norm_log (s2e_run tbl (snd (e2s_step s o)))) = true
  /\ R q (fst (e2s_step s o)) (s2e_tbl tbl (snd (e2s_step s o))) (fst (sstep ss o)).
Proof.
  intros HR Hw. destruct HR as [ rt rt' nw Hrt | rt rt' nw st Hrt | i tt rt tt' rt' nw t0 Htt Hrt | i tt rt tt' rt' nw st Htt Hrt | s ss];
    destruct o as [ | | t | n g | j | j | k j ds r]; cbn [wf_step] in Hw; try discriminate Hw.
  - (* PNot, startTestRun: a time supplied before it is forgotten *)
    inversion Hw; subst q. repeat split.
    + intros Y XM H. cbn. exact H.
    + constructor. apply same_set_refl.
  - (* PNot, time: remembered *)
    inversion Hw; subst q. repeat split.
    + intros Y XM H. cbn. exact H.
    + constructor. exact Hrt.
  - (* PNot, tags: run-level tags *)
    inversion Hw; subst q. repeat split.
    + intros Y XM H. cbn. exact H.
    + constructor. apply same_set_change. exact Hrt.
  - (* PNot, startTest: the run starts itself and keeps the time supplied so far *)
    inversion Hw; subst q. repeat split.
    + intros Y XM H. cbn [sstep e2s_step ensure_started started start_run tagstack now fst snd app ss_started ss_now].
      unfold status_ev. cbn [group pure_file e_fname e_status e_tags app forall2b]. rewrite H, andb_true_r.
      unfold match_mid, canon_ev, now_ts, ss_ts. cbn. rewrite Nat.eqb_refl. destruct nw; cbn; rewrite ?Nat.eqb_refl; reflexivity.
    + cbn [e2s_step ensure_started started start_run tagstack now fst snd app s2e_tbl]. cbn [s2e_step fst].
      unfold status_ev, now_ts. cbn [now].
      fold (status_e j Inprogress None (Some (match nw with Some t => t | None => wall end))). rewrite s2e_start_step.
      cbn [fst s2e_tbl sstep ss_started ss_run_tags ss_now ss_ts current_tags tagstack]. constructor; exact Hrt.
  - (* PIdle, stopTestRun *)
    inversion Hw; subst q. repeat split.
    + intros Y XM H. cbn. exact H.
    + constructor.
  - (* PIdle, time *)
    inversion Hw; subst q. repeat split.
    + intros Y XM H. cbn. exact H.
    + constructor. exact Hrt.
  - (* PIdle, tags *)
    inversion Hw; subst q. repeat split.
    + intros Y XM H. cbn. exact H.
    + constructor. apply same_set_change. exact Hrt.
  - (* PIdle, startTest *)
    inversion Hw; subst q. repeat split.
    + intros Y XM H. cbn [sstep e2s_step ensure_started started fst snd app ss_started].
      unfold status_ev. cbn [group pure_file e_fname e_status e_tags app forall2b]. rewrite H, andb_true_r.
      unfold match_mid, canon_ev, now_ts, ss_ts. cbn. rewrite Nat.eqb_refl. destruct nw; cbn; rewrite ?Nat.eqb_refl; reflexivity.
    + cbn [e2s_step ensure_started started fst snd app s2e_tbl].
      unfold status_ev, now_ts. cbn [now].
      fold (status_e j Inprogress None (Some (match nw with Some t => t | None => wall end))). rewrite s2e_start_step.
      cbn [fst s2e_tbl sstep ss_started ss_run_tags ss_now ss_ts current_tags tagstack]. constructor; exact Hrt.
  - (* PIn, time *)
    inversion Hw; subst q. repeat split.
    + intros Y XM H. cbn. exact H.
    + constructor; assumption.
  - (* PIn, tags *)
    inversion Hw; subst q. repeat split.
    + intros Y XM H. cbn. exact H.
    + constructor; [apply same_set_change|]; assumption.
  - (* PIn, the outcome *)
    destruct (Nat.eqb i j) eqn:Eij; [|discriminate Hw]. destruct (outcome_wf k ds r) eqn:W; [|discriminate Hw].
    cbn [andb] in Hw. inversion Hw; subst q. apply Nat.eqb_eq in Eij. subst j.
    cbn [e2s_step ensure_started started fst snd app sstep ss_ts ss_now ss_current ss_test_tags ss_start].
    split; [|split].
    + intros Y XM H. apply (outcome_mid_ok i k ds r tt tt' rt nw Y XM W Htt H).
    + apply (outcome_fin_ok i k ds r tt tt' rt nw t0 W Htt).
    + destruct (outcome_received i k ds r tt rt nw t0 W) as [_ ->]. constructor; assumption.
  - (* PDone, time *)
    inversion Hw; subst q. repeat split.
    + intros Y XM H. cbn. exact H.
    + constructor; assumption.
  - (* PDone, tags *)
    inversion Hw; subst q. repeat split.
    + intros Y XM H. cbn. exact H.
    + constructor; [apply same_set_change|]; assumption.
  - (* PDone, stopTest *)
    destruct (Nat.eqb i j); [|discriminate Hw]. inversion Hw; subst q. repeat split.
    + intros Y XM H. cbn. exact H.
    + constructor. exact Hrt.
Qed.

Theorem history_ok : forall h p s tbl ss, R p s tbl ss -> wf_from p h = true ->
  forall2b match_mid (fst (expected ss h)) (group (e2s_run s h)) = true
  /\ forall2b match_fin (snd (expected ss h)) (norm_log (s2e_run tbl (e2s_run s h))) = true.
Proof.
  induction h as [|o h IH]; intros p s tbl ss HR Hw; [split; reflexivity|].
  cbn [wf_from] in Hw. destruct (wf_step p o) as [q|] eqn:Eq; [|discriminate Hw].
  destruct (op_step p o q s tbl ss HR Eq) as [Hmid [Hfin HR']].
  destruct (IH q _ _ _ HR' Hw) as [IHmid IHfin].
  cbn [expected e2s_run fst snd]. split.
  - apply Hmid. exact IHmid.
  - rewrite s2e_run_app, norm_log_app. apply forall2b_app; [exact Hfin | exact IHfin].
Qed.

Theorem model_meets_spec : forall i, wf i = true -> spec_okb i (model i) = true.
Proof.
  intros i W. unfold spec_okb. rewrite W. unfold alpha, model. cbn [o_mid o_fin a_mid a_fin].
  unfold final_log, mid_stream. destruct (history_ok (hist i) PNot e2s0 [] ss0 (R_not [] [] None (same_set_refl [])) W) as [-> ->]. reflexivity.
Qed.

Theorem spec_okb_sound : forall i o, spec_okb i o = true -> Spec i o.
Proof.
  intros i o H W. unfold spec_okb in H. rewrite W in H. apply andb_true_iff in H as [H1 H2].
  split; apply forall2b_Forall2; assumption.
Qed.

(* the two clauses of the statement separately, for every well-formed history *)
Theorem stream_wf : forall h, wf_from PNot h = true ->
  Forall2 (fun x a => match_mid x a = true) (fst (expected ss0 h)) (group (mid_stream h)).
Proof.
  intros h W. apply forall2b_Forall2. exact (proj1 (history_ok h PNot e2s0 [] ss0 (R_not [] [] None (same_set_refl [])) W)).
Qed.
Theorem roundtrip : forall h, wf_from PNot h = true ->
  Forall2 (fun y l => match_fin y l = true) (snd (expected ss0 h)) (norm_log (final_log h)).
Proof.
  intros h W. apply forall2b_Forall2. exact (proj2 (history_ok h PNot e2s0 [] ss0 (R_not [] [] None (same_set_refl [])) W)).
Qed.

(* ================= time() before the run is started ================= *)
(* any number of time() calls before the start leave only the last one behind, in the converter ... *)
Lemma e2s_run_times ts : forall s h,
  e2s_run s (map OTime ts ++ h) = e2s_run (E2S (started s) (tagstack s) (last (map Some ts) (now s))) h.
Proof.
  induction ts as [|t ts IH]; intros s h; [destruct s; reflexivity|].
  cbn [map app e2s_run e2s_step fst snd]. rewrite IH. cbn [started tagstack now]. rewrite last_cons. reflexivity.
Qed.
(* ... and in the reading of the history *)
Lemma expected_times ts : forall s h,
  expected s (map OTime ts ++ h)
  = expected (SS (ss_started s) (ss_run_tags s) (ss_test_tags s) (last (map Some ts) (ss_now s)) (ss_start s)) h.
Proof.
  induction ts as [|t ts IH]; intros s h; [destruct s; reflexivity|].
  cbn [map app expected sstep fst snd]. rewrite IH. cbn [ss_started ss_run_tags ss_test_tags ss_now ss_start].
  rewrite last_cons. destruct (expected _ h). reflexivity.
Qed.

(* time(t) then the implicit start: 'inprogress' carries t - sent and demanded;
   time(..) then an explicit startTestRun: the wall clock - sent and demanded *)
Theorem time_before_start ts t i h :
  (exists rest, mid_stream (map OTime ts ++ OTime t :: OStartTest i :: h)
                = MStartRun :: status_ev i Inprogress None (Some t) :: rest)
  /\ (exists xs, fst (expected ss0 (map OTime ts ++ OTime t :: OStartTest i :: h))
                 = XStartRun :: XStatus i Inprogress None t :: xs)
  /\ (exists rest, mid_stream (map OTime ts ++ OStartRun :: OStartTest i :: h)
                   = MStartRun :: status_ev i Inprogress None (Some wall) :: rest)
  /\ (exists xs, fst (expected ss0 (map OTime ts ++ OStartRun :: OStartTest i :: h))
                 = XStartRun :: XStatus i Inprogress None wall :: xs).
Proof.
  unfold mid_stream. rewrite !e2s_run_times, !expected_times. repeat split; eexists; cbn; reflexivity.
Qed.

(* ================= tags() before the run is started ================= *)
Definition tags_ops (chs : list (list nat * list nat)) : list op := map (fun c => OTags (fst c) (snd c)) chs.
(* what the calls make of the run-level tags: in the converter's TagContext ... *)
Definition tags_after (chs : list (list nat * list nat)) (c : list nat) : list nat :=
  fold_left (fun c ch => change_tags c (fst ch) (snd ch)) chs c.
(* ... and read off the history: added, then removed, call by call *)
Definition tags_wanted (chs : list (list nat * list nat)) (c : list nat) : list nat :=
  fold_left (fun c ch => apply_tags c (fst ch) (snd ch)) chs c.

Lemma e2s_run_tags chs : forall b c nw h,
  e2s_run (E2S b [c] nw) (tags_ops chs ++ h) = e2s_run (E2S b [tags_after chs c] nw) h.
Proof.
  induction chs as [|ch chs IH]; intros b c nw h; [reflexivity|].
  cbn [tags_ops map app e2s_run e2s_step tagstack started now fst snd]. apply IH.
Qed.
Lemma expected_tags chs : forall b c nw st h,
  expected (SS b c None nw st) (tags_ops chs ++ h) = expected (SS b (tags_wanted chs c) None nw st) h.
Proof.
  induction chs as [|ch chs IH]; intros b c nw st h; [reflexivity|].
  cbn [tags_ops map app expected sstep ss_test_tags ss_started ss_run_tags ss_now ss_start fst snd].
  fold (tags_ops chs). rewrite IH. cbn [tags_wanted fold_left]. destruct (expected _ h). reflexivity.
Qed.
Lemma tags_after_wanted chs : forall a b, same_set a b -> same_set (tags_after chs a) (tags_wanted chs b).
Proof.
  induction chs as [|ch chs IH]; intros a b H; [exact H|]. cbn [tags_after tags_wanted fold_left].
  apply IH. apply same_set_change. exact H.
Qed.

(* tags() calls, then a startTest that starts the run itself: the test's final status carries the tags those
   calls leave - sent and demanded; tags() calls, then an explicit startTestRun: no tags - sent and demanded *)
Theorem tags_before_start chs i h :
  (exists rest, mid_stream (tags_ops chs ++ OStartTest i :: OOutcome AddSuccess i None None :: h)
                = MStartRun :: status_ev i Inprogress None (Some wall)
                  :: status_ev i Success (Some (tags_after chs [])) (Some wall) :: rest)
  /\ (exists xs, fst (expected ss0 (tags_ops chs ++ OStartTest i :: OOutcome AddSuccess i None None :: h))
                 = XStartRun :: XStatus i Inprogress None wall
                   :: XStatus i Success (Some (tags_wanted chs [])) wall :: xs)
  /\ same_set (tags_after chs []) (tags_wanted chs [])
  /\ (exists rest, mid_stream (tags_ops chs ++ OStartRun :: OStartTest i :: OOutcome AddSuccess i None None :: h)
                   = MStartRun :: status_ev i Inprogress None (Some wall)
                     :: status_ev i Success (Some []) (Some wall) :: rest)
  /\ (exists xs, fst (expected ss0 (tags_ops chs ++ OStartRun :: OStartTest i :: OOutcome AddSuccess i None None :: h))
                 = XStartRun :: XStatus i Inprogress None wall :: XStatus i Success (Some []) wall :: xs).
Proof.
  unfold mid_stream, e2s0, ss0. rewrite !e2s_run_tags, !expected_tags.
  pose proof (tags_after_wanted chs [] [] (same_set_refl [])) as Hs. revert Hs.
  generalize (tags_after chs []) as ta, (tags_wanted chs []) as tw. intros ta tw Hs.
  split; [|split; [|split; [|split]]].
  - eexists. cbn [e2s_run e2s_step ensure_started started start_run tagstack now fst snd app current_tags convert now_ts].
    rewrite word_table. reflexivity.
  - eexists. cbn. reflexivity.
  - exact Hs.
  - eexists. cbn [e2s_run e2s_step ensure_started started start_run tagstack now fst snd app current_tags convert now_ts].
    rewrite word_table. reflexivity.
  - eexists. cbn. reflexivity.
Qed.
