(* C07 - the model meets the statement; the executable statement implies the readable one. *)
From Coq Require Import String Ascii.
From TT Require Import Lib.Base Lib.Sort Model.TextRepr Model.Assertions Spec.C07 Corr.C07
     Proof.C07Repr Proof.C07Names.
Local Open Scope string_scope.

(* ---------- subsequences ---------- *)
Inductive sub {A} : list A -> list A -> Prop :=
| sub_nil : sub [] []
| sub_skip x l' l : sub l' l -> sub l' (x :: l)
| sub_keep x l' l : sub l' l -> sub (x :: l') (x :: l).

Lemma sub_refl {A} (l : list A) : sub l l.
Proof. induction l; constructor; assumption. Qed.
Lemma sub_nil_l {A} (l : list A) : sub [] l.
Proof. induction l; constructor; assumption. Qed.
Lemma sub_app {A} (a' a b' b : list A) : sub a' a -> sub b' b -> sub (a' ++ b')%list (a ++ b)%list.
Proof. induction 1; simpl; intro Hb; [exact Hb|apply sub_skip; auto|apply sub_keep; auto]. Qed.
Lemma sub_in {A} (l' l : list A) x : sub l' l -> In x l' -> In x l.
Proof. induction 1; simpl; intro Hb; [exact Hb|right; auto|destruct Hb; [left; assumption|right; auto]]. Qed.
Lemma sub_map {A B} (f : A -> B) l' l : sub l' l -> sub (map f l') (map f l).
Proof. induction 1; simpl; [apply sub_nil|apply sub_skip; assumption|apply sub_keep; assumption]. Qed.
Lemma sub_flat_map {A B} (f : A -> list B) l' l : sub l' l -> sub (flat_map f l') (flat_map f l).
Proof.
  induction 1; simpl; [apply sub_nil| |].
  - apply (sub_app [] (f x)); [apply sub_nil_l|assumption].
  - apply sub_app; [apply sub_refl|assumption].
Qed.
Lemma sub_trans {A} (a b c : list A) : sub a b -> sub b c -> sub a c.
Proof.
  intros H1 H2. revert a H1. induction H2; intros a H1.
  - exact H1.
  - apply sub_skip. auto.
  - inversion H1; subst; [apply sub_skip; auto|apply sub_keep; auto].
Qed.
Lemma sub_nodup {A} (l' l : list A) : sub l' l -> NoDup l -> NoDup l'.
Proof.
  induction 1; intro ND; [constructor|inversion ND; auto|].
  inversion ND; subst. constructor; [|auto]. intro Hin. apply H2. eapply sub_in; eassumption.
Qed.

(* ---------- what a statement asks to attach ---------- *)
Definition requests_of_step (s : step) : list detail :=
  match s_kind s, s_mis s with
  | AssertThat, Some ds => ds
  | ExpectThat, Some ds => (ds ++ [("Failed expectation", 0)])%list
  | _, _ => []
  end.
(* the statements of one function that are executed: up to and including the first that raises *)
Fixpoint exec (steps : list step) : list step :=
  match steps with
  | [] => []
  | s :: r => if raises_step s then [s] else s :: exec r
  end.
(* what leaves the function: the exception of the first statement that raises (a MismatchError is an
   AssertionError) *)
Definition exc_of_step (s : step) : exck := match s_kind s with Raise e => e | _ => XFail end.
Fixpoint exc_of (steps : list step) : option exck :=
  match steps with
  | [] => None
  | s :: r => if raises_step s then Some (exc_of_step s) else exc_of r
  end.
Definition excs_of (cs : list (list step)) : list exck := flat_map (fun c => opt_list (exc_of c)) cs.
Definition expfail (s : step) : bool := is_expect (s_kind s) && is_some (s_mis s).

Lemma executed_exec steps : executed steps = exec steps.
Proof.
  unfold executed. induction steps as [|s r IH]; simpl; [reflexivity|].
  destruct (raises_step s); simpl; [reflexivity|]. rewrite IH. reflexivity.
Qed.

Lemma executed_all_exec p : executed_all p = flat_map exec (phases p).
Proof. unfold executed_all. apply flat_map_ext. intro a. apply executed_exec. Qed.

Lemma exec_sub steps : sub (exec steps) steps.
Proof.
  induction steps as [|s r IH]; simpl; [constructor|].
  destruct (raises_step s); [constructor; apply sub_nil_l|constructor; exact IH].
Qed.

Lemma exec_concat_sub cs : sub (flat_map exec cs) (List.concat cs).
Proof. induction cs as [|c r IH]; simpl; [constructor|]. apply sub_app; [apply exec_sub|exact IH]. Qed.

Lemma phases_sub p : sub (flat_map exec (phases p)) (all_steps p).
Proof.
  unfold phases, all_steps. destruct (setup_raises p); simpl.
  - apply sub_app; [apply exec_sub|]. apply (sub_app [] (p_body p)); [apply sub_nil_l|].
    apply (sub_app [] (p_teardown p)); [apply sub_nil_l|]. apply exec_concat_sub.
  - repeat (apply sub_app; [apply exec_sub|]). apply exec_concat_sub.
Qed.

(* ---------- which exception leaves a function ---------- *)
Lemma exc_of_is_some steps : is_some (exc_of steps) = existsb raises_step steps.
Proof.
  induction steps as [|s r IH]; simpl; [reflexivity|]. destruct (raises_step s); simpl; [reflexivity|exact IH].
Qed.

Lemma exc_of_is_some_exec steps : is_some (exc_of steps) = existsb raises_step (exec steps).
Proof.
  induction steps as [|s r IH]; simpl; [reflexivity|]. destruct (raises_step s) eqn:R; simpl; rewrite R; simpl;
    [reflexivity|exact IH].
Qed.

Lemma exc_of_fail steps : existsb (fun s => is_raise (s_kind s)) (exec steps) = false ->
  forall x, exc_of steps = Some x -> x = XFail.
Proof.
  induction steps as [|s r IH]; simpl; intros H x E; [discriminate|].
  destruct (raises_step s); simpl in H; apply orb_false_iff in H as [H1 H2].
  - injection E as <-. unfold exc_of_step. destruct (s_kind s); try reflexivity. discriminate.
  - apply IH; assumption.
Qed.

Lemma excs_of_nil cs : existsb raises_step (flat_map exec cs) = false -> excs_of cs = [].
Proof.
  induction cs as [|c r IH]; simpl; intro H; [reflexivity|].
  rewrite existsb_app in H. apply orb_false_iff in H as [H1 H2]. rewrite (IH H2), app_nil_r.
  rewrite <- exc_of_is_some_exec in H1. destruct (exc_of c); [discriminate|reflexivity].
Qed.

Lemma excs_of_nonempty cs : existsb raises_step (flat_map exec cs) = true -> excs_of cs <> [].
Proof.
  induction cs as [|c r IH]; simpl; intro H; [discriminate|].
  rewrite existsb_app in H. rewrite <- exc_of_is_some_exec in H.
  destruct (exc_of c); simpl in *; [discriminate|]. apply IH. exact H.
Qed.

Lemma excs_of_fail cs : existsb (fun s => is_raise (s_kind s)) (flat_map exec cs) = false ->
  Forall (fun x => x = XFail) (excs_of cs).
Proof.
  induction cs as [|c r IH]; simpl; intro H; [constructor|].
  rewrite existsb_app in H. apply orb_false_iff in H as [H1 H2]. apply Forall_app. split; [|apply IH; exact H2].
  destruct (exc_of c) as [x|] eqn:E; simpl; [|constructor]. constructor; [|constructor].
  apply (exc_of_fail c H1). exact E.
Qed.

(* the exception caught last decides *)
Lemma final_outcome_snoc l x : final_outcome (l ++ [x]) = outcome_of x.
Proof. unfold final_outcome. rewrite fold_left_app. reflexivity. Qed.

Lemma final_outcome_all_fail l : l <> [] -> Forall (fun x => x = XFail) l -> final_outcome l = Failure.
Proof.
  intros NE F. destruct (exists_last NE) as [l' [x ->]]. rewrite final_outcome_snoc.
  apply Forall_app in F as [_ F]. inversion F; subst. reflexivity.
Qed.

(* ---------- the invariant through one function ---------- *)
Lemma fold_add_inv ds : forall reqs l, Inv reqs l ->
  exists tail, fold_left add_unique ds (Some l) = Some (l ++ tail)%list /\ Inv (reqs ++ ds)%list (l ++ tail)%list.
Proof.
  induction ds as [|d ds IH]; intros reqs l I; cbn [fold_left].
  - exists []. rewrite !app_nil_r. split; [reflexivity|exact I].
  - destruct (add_unique_inv reqs l d I) as [l' [E I']].
    assert (exists x, l' = (l ++ [x])%list) as [x ->].
    { unfold add_unique in E. destruct (unique_name _ _); [|discriminate]. injection E as <-. eauto. }
    rewrite E. destruct (IH _ _ I') as [tail [E2 I2]].
    exists (x :: tail). rewrite <- !app_assoc in *. simpl in *. split; assumption.
Qed.

Definition mis_list (m : option (list detail)) : list detail := match m with Some ds => ds | None => [] end.

Lemma run_body_spec steps : forall st reqs l,
  t_details st = Some l -> Inv reqs l ->
  exists st2 tail,
    run_body st steps = (st2, exp_raised steps, exc_of steps)
    /\ t_forced st2 = t_forced st || existsb expfail (exec steps)
    /\ t_details st2 = Some (l ++ tail)%list
    /\ Inv (reqs ++ flat_map requests_of_step (exec steps))%list (l ++ tail)%list.
Proof.
  induction steps as [|s r IH]; intros st reqs l D I; simpl.
  - exists st, []. rewrite !app_nil_r, orb_false_r. auto.
  - unfold raises_step, requests_of_step, expfail, exc_of_step. destruct s as [k mis]. simpl.
    destruct k; simpl.
    + (* assertThat *)
      destruct mis as [ds|]; simpl.
      * destruct (fold_add_inv ds reqs l I) as [tail [E I2]]. rewrite D, E.
        eexists _, tail. rewrite app_nil_r. simpl. rewrite orb_false_r. auto.
      * destruct (IH st reqs l D I) as [st2 [tail [E [O [D2 I2]]]]]. rewrite E.
        exists st2, tail. auto.
    + (* expectThat *)
      destruct mis as [ds|]; simpl.
      * destruct (fold_add_inv ds reqs l I) as [tail [E I2]]. rewrite D, E.
        destruct (add_unique_inv _ _ ("Failed expectation", 0) I2) as [l' [E' I3]].
        assert (exists x, l' = ((l ++ tail) ++ [x])%list) as [x ->].
        { unfold add_unique in E'. destruct (unique_name _ _); [|discriminate]. injection E' as <-. eauto. }
        rewrite E'.
        destruct (IH {| t_details := Some ((l ++ tail) ++ [x])%list; t_forced := true |} _ _ eq_refl I3)
          as [st2 [tail2 [E2 [O [D2 I4]]]]].
        rewrite E2. exists st2, (tail ++ x :: tail2)%list. simpl in O.
        rewrite O, orb_true_r.
        rewrite <- !app_assoc in *. simpl in *. auto.
      * destruct (IH st reqs l D I) as [st2 [tail [E [O [D2 I2]]]]]. rewrite E.
        exists st2, tail. auto.
    + (* assert_that *)
      destruct mis as [ds|]; simpl.
      * exists st, []. rewrite !app_nil_r. simpl. rewrite orb_false_r. auto.
      * destruct (IH st reqs l D I) as [st2 [tail [E [O [D2 I2]]]]]. rewrite E.
        exists st2, tail. auto.
    + (* raise *)
      exists st, []. rewrite !app_nil_r. simpl. rewrite orb_false_r. auto.
Qed.

(* ---------- ... through a sequence of functions that all run ---------- *)
Lemma run_cleanups_spec cs : forall st reqs l,
  t_details st = Some l -> Inv reqs l ->
  exists st2 tail,
    run_cleanups st cs = (st2, map exp_raised cs, excs_of cs)
    /\ t_forced st2 = t_forced st || existsb expfail (flat_map exec cs)
    /\ t_details st2 = Some (l ++ tail)%list
    /\ Inv (reqs ++ flat_map requests_of_step (flat_map exec cs))%list (l ++ tail)%list.
Proof.
  induction cs as [|c r IH]; intros st reqs l D I; simpl.
  - exists st, []. rewrite !app_nil_r, orb_false_r. auto.
  - destruct (run_body_spec c st reqs l D I) as [st1 [tail1 [E1 [O1 [D1 I1]]]]]. rewrite E1.
    destruct (IH st1 _ _ D1 I1) as [st2 [tail2 [E2 [O2 [D2 I2]]]]]. rewrite E2.
    exists st2, (tail1 ++ tail2)%list. rewrite O2, O1, existsb_app, flat_map_app, orb_assoc.
    rewrite <- !app_assoc in *. auto.
Qed.

(* ---------- the test as a whole: setUp, then either the cleanups only or everything ---------- *)
Lemma run_body_shape steps : forall st, exists st2, run_body st steps = (st2, exp_raised steps, exc_of steps).
Proof.
  induction steps as [|s r IH]; intro st; simpl; [eauto|].
  unfold raises_step, exc_of_step. destruct s as [k mis]. simpl.
  destruct k, mis as [ds|]; simpl; eauto.
  - destruct (IH st) as [st2 E]. rewrite E. eauto.
  - match goal with |- context [run_body ?st' r] => destruct (IH st') as [st2 E] end. rewrite E. eauto.
  - destruct (IH st) as [st2 E]. rewrite E. eauto.
  - destruct (IH st) as [st2 E]. rewrite E. eauto.
Qed.

(* the upcall stands anywhere among the statements of setUp / tearDown: the base method leaves the details and
   force_failure alone, so the function is its statement list *)
Lemma run_body_app a : forall st b,
  run_body st (a ++ b) =
  let '(st1, l1, e1) := run_body st a in
  match e1 with
  | Some _ => (st1, l1, e1)
  | None => let '(st2, l2, e2) := run_body st1 b in (st2, (l1 ++ l2)%list, e2)
  end.
Proof.
  induction a as [|s r IH]; intros st b; simpl.
  - destruct (run_body st b) as [[st2 l2] e2]. reflexivity.
  - destruct s as [k mis]. simpl. destruct k, mis as [ds|]; simpl; try reflexivity;
      rewrite IH;
      match goal with |- context [run_body ?st' r] => destruct (run_body st' r) as [[st1 l1] [x|]] end;
      try reflexivity;
      match goal with |- context [run_body ?st' b] => destruct (run_body st' b) as [[st2 l2] e2] end; reflexivity.
Qed.

Lemma run_fn_body base st steps up : (forall x, base x = x) -> run_fn base st steps up = run_body st steps.
Proof.
  intro B. transitivity (run_body st (firstn up steps ++ skipn up steps)); [|rewrite firstn_skipn; reflexivity].
  unfold run_fn. rewrite run_body_app.
  destruct (run_body st (firstn up steps)) as [[st1 l1] [x|]]; [reflexivity|]. rewrite B. reflexivity.
Qed.

Theorem upcall_anywhere p u v :
  run_test {| p_pre := p_pre p; p_setup := p_setup p; p_setup_up := u; p_body := p_body p;
              p_teardown := p_teardown p; p_teardown_up := v; p_cleanups := p_cleanups p |} = run_test p.
Proof.
  unfold run_test. simpl. rewrite !(run_fn_body base_setup) by reflexivity.
  destruct (run_body _ (p_setup p)) as [[st1 l0] [x|]]; [reflexivity|].
  destruct (run_body st1 (p_body p)) as [[st2 l1] e1]. rewrite !(run_fn_body base_teardown) by reflexivity. reflexivity.
Qed.

Lemma run_test_unfold p :
  let '(st, ls, es) := run_cleanups {| t_details := Some (p_pre p); t_forced := false |} (phases p) in
  run_test p = {| r_raised := ls; r_after_ran := true;
                  r_outcome := final_outcome (es ++ (if t_forced st then [XFail] else []))%list;
                  r_details := t_details st |}.
Proof.
  unfold run_test, phases, setup_raises. rewrite run_fn_body by reflexivity. rewrite <- exc_of_is_some.
  destruct (run_body_shape (p_setup p) {| t_details := Some (p_pre p); t_forced := false |}) as [st1 E0].
  destruct (exc_of (p_setup p)) as [x|] eqn:X; simpl; rewrite E0, ?X.
  - destruct (run_cleanups st1 (rev (p_cleanups p))) as [[st4 ls] es]. simpl. reflexivity.
  - destruct (run_body_shape (p_body p) st1) as [st2 E1]. rewrite E1. rewrite run_fn_body by reflexivity.
    destruct (run_body_shape (p_teardown p) st2) as [st3 E2]. rewrite E2.
    destruct (run_cleanups st3 (rev (p_cleanups p))) as [[st4 ls] es]. simpl.
    rewrite <- !app_assoc. reflexivity.
Qed.

(* what the model reports: the exception caught last, the forced failure being raised after everything else *)
Definition model_outcome (p : prog) : outcome :=
  final_outcome (excs_of (phases p) ++ (if expect_failed p then [XFail] else []))%list.

Lemma inv_start pre : NoDup (map fst pre) -> Inv pre pre.
Proof.
  intro NDpre. split; [|exact NDpre]. unfold answers. clear. induction pre; constructor; [|assumption].
  split; [reflexivity|exists 0; reflexivity].
Qed.

Theorem run_test_spec (p : prog) : NoDup (map fst (p_pre p)) ->
  exists tail,
    run_test p = {| r_raised := map exp_raised (phases p); r_after_ran := true;
                    r_outcome := model_outcome p;
                    r_details := Some (p_pre p ++ tail)%list |}
    /\ Inv (p_pre p ++ flat_map requests_of_step (flat_map exec (phases p)))%list (p_pre p ++ tail)%list.
Proof.
  intro NDpre. pose proof (run_test_unfold p) as U.
  destruct (run_cleanups_spec (phases p) {| t_details := Some (p_pre p); t_forced := false |} _ _ eq_refl
              (inv_start _ NDpre)) as [st2 [tail [E [O [D2 I2]]]]].
  rewrite E in U. exists tail. split; [|exact I2]. rewrite U, D2. simpl in O.
  rewrite O. unfold model_outcome, expect_failed. rewrite executed_all_exec. reflexivity.
Qed.

(* the outcome the model reports is one the statement allows *)
Lemma model_outcome_ok p : outcome_okb p (model_outcome p) = true.
Proof.
  unfold outcome_okb, model_outcome. destruct (expect_failed p) eqn:EF.
  - rewrite final_outcome_snoc. reflexivity.
  - rewrite app_nil_r. unfold any_raise, explicit_raise. rewrite executed_all_exec.
    destruct (existsb raises_step (flat_map exec (phases p))) eqn:AR; simpl.
    + destruct (existsb (fun s => is_raise (s_kind s)) (flat_map exec (phases p))) eqn:ER; simpl; [reflexivity|].
      rewrite (final_outcome_all_fail _ (excs_of_nonempty _ AR) (excs_of_fail _ ER)). reflexivity.
    + rewrite (excs_of_nil _ AR). reflexivity.
Qed.

(* ---------- payload ---------- *)
Definition nz (d : detail) : bool := negb (Nat.eqb (snd d) 0).

Lemma answers_filter reqs ds : answers reqs ds -> answers (filter nz reqs) (filter nz ds).
Proof.
  induction 1 as [|req d reqs ds [E C] _ IH]; simpl; [constructor|].
  assert (Z : nz d = nz req) by (unfold nz; rewrite E; reflexivity). rewrite Z.
  destruct (nz req); [constructor; auto|exact IH].
Qed.

Lemma filter_nz_all l : ~ In 0 (map snd l) -> filter nz l = l.
Proof.
  induction l as [|d l IH]; simpl; intro H; [reflexivity|].
  unfold nz at 1. destruct (Nat.eqb (snd d) 0) eqn:E.
  - apply Nat.eqb_eq in E. exfalso. apply H. left. auto.
  - simpl. f_equal. apply IH. intro; apply H; right; assumption.
Qed.

Lemma filter_requests s : ~ In 0 (map snd (mis_list (s_mis s))) ->
  filter nz (requests_of_step s) = mis_details s.
Proof.
  unfold requests_of_step, mis_details. destruct s as [k mis]. simpl. intro H.
  destruct k, mis as [ds|]; simpl in *; try reflexivity.
  - apply filter_nz_all. exact H.
  - rewrite filter_app. simpl. rewrite app_nil_r. apply filter_nz_all. exact H.
Qed.

Lemma filter_flat_requests steps :
  ~ In 0 (map snd (flat_map (fun s => mis_list (s_mis s)) steps)) ->
  filter nz (flat_map requests_of_step steps) = flat_map mis_details steps.
Proof.
  induction steps as [|s r IH]; simpl; intro H; [reflexivity|].
  rewrite map_app in H. rewrite filter_app, filter_requests, IH; [reflexivity| |];
    intro X; apply H; apply in_or_app; auto.
Qed.

Lemma nodup_filter_fst (l : list detail) p : NoDup (map fst l) -> NoDup (map fst (filter p l)).
Proof.
  induction l as [|d l IH]; simpl; intro H; [constructor|]. inversion H; subst.
  destruct (p d); simpl; [|auto]. constructor; [|auto].
  intro Hin. apply H2. apply in_map_iff in Hin as [x [E Hx]]. apply filter_In in Hx as [Hx _].
  apply in_map_iff. eauto.
Qed.

(* ---------- the boolean checks ---------- *)
Lemma nodup_str_iff l : nodup_str l = true <-> NoDup l.
Proof.
  induction l as [|x l IH]; simpl; [split; [constructor|reflexivity]|].
  rewrite andb_true_iff, negb_true_iff, IH. split.
  - intros [H1 H2]. constructor; [|exact H2]. intro Hin. apply mem_str_in in Hin. congruence.
  - intro H. inversion H; subst. split; [|assumption].
    destruct (mem_str x l) eqn:E; [apply mem_str_in in E; contradiction|reflexivity].
Qed.

Lemma same_tokens_refl l : same_tokens l l = true.
Proof. unfold same_tokens. apply forallb_forall. intros x _. apply Nat.eqb_refl. Qed.

Lemma append_assoc' (a b c : string) : (a ++ b) ++ c = a ++ b ++ c.
Proof. induction a as [|x a IH]; simpl; [reflexivity|]. rewrite IH. reflexivity. Qed.

Lemma prefix_str_app p rest : prefix_str p (p ++ rest) = true.
Proof. induction p as [|a p IH]; simpl; [reflexivity|]. rewrite Ascii.eqb_refl. exact IH. Qed.

Lemma prefix_str_exists p : forall s, prefix_str p s = true -> exists rest, s = p ++ rest.
Proof.
  induction p as [|a p IH]; intros s H; simpl in *; [eauto|].
  destruct s as [|b s]; [discriminate|]. apply andb_true_iff in H as [E H].
  apply Ascii.eqb_eq in E. subst b. destruct (IH s H) as [rest ->]. eauto.
Qed.

Lemma derived_of_cand n base : IsCand n base -> derived n base = true.
Proof.
  intros [k ->]. unfold derived. destruct k as [|k]; simpl.
  - rewrite String.eqb_refl. reflexivity.
  - unfold suffixed. rewrite <- append_assoc', prefix_str_app. apply orb_true_r.
Qed.

Lemma derived_sound n base : derived n base = true -> Derived n base.
Proof.
  unfold derived, Derived. intro H. apply orb_true_iff in H as [H|H].
  - left. apply String.eqb_eq. exact H.
  - right. destruct (prefix_str_exists _ _ H) as [rest ->]. exists rest. apply append_assoc'.
Qed.

Lemma base_of_nodup w : NoDup (map snd w) -> forall b t, In (b, t) w -> base_of t w = Some b.
Proof.
  induction w as [|[n t'] w IH]; simpl; intros ND b t H; [contradiction|]. inversion ND; subst.
  destruct H as [H|H].
  - injection H as -> ->. rewrite Nat.eqb_refl. reflexivity.
  - destruct (Nat.eqb t t') eqn:E; [|apply IH; assumption].
    apply Nat.eqb_eq in E. subst t'. exfalso. apply H2. apply in_map_iff. exists (b, t). auto.
Qed.

Lemma detail_eqb_eq a b : detail_eqb a b = true <-> a = b.
Proof.
  unfold detail_eqb. rewrite andb_true_iff, String.eqb_eq, Nat.eqb_eq. destruct a, b; simpl.
  split; [intros [-> ->]; reflexivity|intro H; injection H as -> ->; auto].
Qed.

Lemma answers_snd w od : answers w od -> map snd od = map snd w.
Proof. induction 1 as [|a b w od [E _] _ IH]; simpl; [reflexivity|]. rewrite E, IH. reflexivity. Qed.

Lemma answers_in w od d : answers w od -> In d od -> exists b, In (b, snd d) w /\ IsCand (fst d) b.
Proof.
  induction 1 as [|a b w od [E C] _ IH]; simpl; intro H; [contradiction|].
  destruct H as [->|H].
  - exists (fst a). rewrite E. destruct a; simpl. auto.
  - destruct (IH H) as [b' [H1 H2]]. eauto.
Qed.

(* ---------- assertThat / expectThat / assert_that: the model meets the statement ---------- *)
Lemma list_list_bool_refl (l : list (list bool)) : list_eqb (list_eqb Bool.eqb) l l = true.
Proof. apply (list_eqb_spec _ (list_eqb_spec Bool.eqb bool_eqb_spec)). reflexivity. Qed.

Theorem test_meets_spec p : wf (ITest p) -> spec_okb (ITest p) (model (ITest p)) = true.
Proof.
  intros [ND [NZ NDpre]]. unfold model.
  destruct (run_test_spec p NDpre) as [tail [E [A ND2]]].
  rewrite E. simpl.
  unfold test_okb. simpl.
  rewrite list_list_bool_refl, (model_outcome_ok p). simpl.
  (* the payload details answer the wanted ones *)
  set (pre := p_pre p) in *. set (ex := flat_map exec (phases p)) in *.
  unfold all_details in ND, NZ. fold pre in ND, NZ.
  assert (NZpre : ~ In 0 (map snd pre)) by (intro X; apply NZ; rewrite map_app; apply in_or_app; auto).
  assert (SubF : sub (flat_map (fun s => mis_list (s_mis s)) ex)
                     (flat_map (fun s => match s_mis s with Some ds => ds | None => [] end) (all_steps p))).
  { apply (sub_flat_map (fun s => mis_list (s_mis s))). apply phases_sub. }
  assert (NZex : ~ In 0 (map snd (flat_map (fun s => mis_list (s_mis s)) ex))).
  { intro X. apply NZ. rewrite map_app. apply in_or_app. right.
    eapply sub_in; [apply sub_map; exact SubF|exact X]. }
  assert (W : filter nz (pre ++ flat_map requests_of_step ex) = wanted p).
  { unfold wanted. rewrite executed_all_exec, filter_app, (filter_nz_all pre NZpre), filter_flat_requests; auto. }
  pose proof (answers_filter _ _ A) as AF. rewrite W in AF. change (filter nz (pre ++ tail)) with (payload (pre ++ tail)) in AF.
  change (filter (fun d => negb (Nat.eqb (snd d) 0)) (pre ++ tail)) with (payload (pre ++ tail)).
  set (od := payload (pre ++ tail)) in *. set (w := wanted p) in *.
  assert (NDw : NoDup (map snd w)).
  { subst w. unfold wanted. rewrite executed_all_exec. fold pre ex.
    eapply sub_nodup; [|exact ND]. apply sub_map. apply sub_app; [apply sub_refl|].
    assert (forall l, sub (flat_map mis_details l) (flat_map (fun s => mis_list (s_mis s)) l)).
    { induction l as [|s l IHl]; simpl; [constructor|]. apply sub_app; [|exact IHl].
      unfold mis_details, mis_list. destruct (attaches (s_kind s)); [apply sub_refl|apply sub_nil_l]. }
    eapply sub_trans; [apply H|exact SubF]. }
  unfold details_okb. fold w.
  rewrite (answers_snd _ _ AF), same_tokens_refl. simpl.
  assert (NDod : NoDup (map fst od)) by (apply nodup_filter_fst; exact ND2).
  rewrite (proj2 (nodup_str_iff _) NDod). simpl.
  apply andb_true_iff. split.
  - apply forallb_forall. intros d Hd. destruct (answers_in _ _ _ AF Hd) as [b [Hin C]].
    rewrite (base_of_nodup w NDw b (snd d) Hin). apply derived_of_cand. exact C.
  - apply forallb_forall. intros d Hd. apply existsb_exists. exists d. split; [|apply detail_eqb_eq; reflexivity].
    subst od. unfold payload. rewrite filter_app. apply in_or_app. left.
    change (fun d0 : string * nat => negb (Nat.eqb (snd d0) 0)) with nz. rewrite (filter_nz_all pre NZpre). exact Hd.
Qed.

(* ---------- text_repr ---------- *)
Lemma memN_in c l : memN c l = true <-> In c l.
Proof.
  induction l as [|x l IH]; simpl; [split; [discriminate|contradiction]|].
  rewrite orb_true_iff, IH, N.eqb_eq. split; intros [H|H]; auto.
Qed.

Lemma res_eqb'_refl b l : res_eqb' (Some (b, l)) (Some (b, l)) = true.
Proof.
  simpl. rewrite (proj2 (list_eqb_spec N.eqb N.eqb_eq l l) eq_refl). destruct b; reflexivity.
Qed.

Theorem repr_meets_spec isb s ml np :
  wf (IRepr isb s ml np) -> agree (IRepr isb s ml np) = true ->
  spec_okb (IRepr isb s ml np) (model (IRepr isb s ml np)) = true.
Proof.
  intros V A. unfold model. rewrite A. simpl. unfold repr_okb. simpl.
  rewrite (tok_roundtrip isb (nonprint_of np) s ml V). apply res_eqb'_refl.
Qed.

(* ---------- the whole statement ---------- *)
Lemma okind_eqb_eq a b : okind_eqb a b = true <-> a = b.
Proof.
  destruct a, b; simpl; split; intro H; try discriminate; try reflexivity; try congruence.
  - apply Nat.eqb_eq in H. congruence.
  - injection H as ->. apply Nat.eqb_refl.
Qed.

(* the two models of text_repr always agree *)
Theorem agree_always i : agree i = true.
Proof.
  destruct i as [isb s ml np|name modelled hm|p]; simpl; try reflexivity.
  rewrite lit_eq_tok. apply (list_eqb_spec N.eqb N.eqb_eq). reflexivity.
Qed.

Theorem model_meets_spec i : wf i -> spec_okb i (model i) = true.
Proof.
  destruct i as [isb s ml np|name modelled hm|p]; intros W.
  - apply repr_meets_spec; [assumption|apply agree_always].
  - simpl in W. subst modelled. destruct hm; reflexivity.
  - apply test_meets_spec; assumption.
Qed.

(* text_repr's output evaluates back to the original text: the literal transliteration, every str / bytes,
   every multiline setting *)
Theorem lit_roundtrip isb nonprint s ml :
  Forall (valid isb) s -> eval_lit (text_repr_lit isb nonprint s ml) = Some (isb, s).
Proof. intro V. rewrite lit_eq_tok. apply tok_roundtrip. exact V. Qed.

(* statement k of a function raises iff it is assertThat / assert_that and its matcher mismatches, or it is a
   raise; expectThat never raises; nothing of the function is executed after a raise *)
Lemma exp_raised_nth steps : forall k b, nth_error (exp_raised steps) k = Some b ->
  exists s, nth_error steps k = Some s
            /\ b = match s_kind s with
                   | AssertThat | AssertThatFn => is_some (s_mis s)
                   | ExpectThat => false
                   | Raise _ => true
                   end
            /\ (b = true -> List.length (exp_raised steps) = S k).
Proof.
  induction steps as [|s r IH]; intros k b H; simpl in H; [destruct k; discriminate|].
  cbn [exp_raised]. fold (raises_step s). destruct (raises_step s) eqn:E.
  - destruct k as [|k]; simpl in H; [|destruct k; discriminate]. injection H as <-.
    exists s. simpl. auto.
  - destruct k as [|k]; simpl in H.
    + injection H as <-. exists s. simpl. repeat split; auto; discriminate.
    + destruct (IH k b H) as [s' [H1 [H2 H3]]]. exists s'. simpl.
      repeat split; auto; try (intro Hb; rewrite (H3 Hb); reflexivity).
Qed.

(* expectThat never raises, wherever it stands *)
Lemma expect_never_raises steps k s b :
  nth_error steps k = Some s -> s_kind s = ExpectThat -> nth_error (exp_raised steps) k = Some b -> b = false.
Proof.
  intros Hs Hk Hb. destruct (exp_raised_nth steps k b Hb) as [s' [H1 [H2 _]]].
  rewrite Hs in H1. injection H1 as <-. rewrite Hk in H2. exact H2.
Qed.

Lemma exp_raised_expect_only steps :
  existsb raises_step steps = false -> exp_raised steps = map (fun _ => false) steps /\ exec steps = steps.
Proof.
  induction steps as [|s r IH]; simpl; intro H; [auto|].
  apply orb_false_iff in H as [H1 H2]. rewrite H1. destruct (IH H2) as [-> ->]. auto.
Qed.

(* a mismatching expectThat, in whichever function that ran, makes the test a failure whatever else the test does *)
Theorem expect_forces_failure p : NoDup (map fst (p_pre p)) -> expect_failed p = true ->
  r_outcome (run_test p) = Failure /\ r_raised (run_test p) = map exp_raised (phases p).
Proof.
  intros ND EF. destruct (run_test_spec p ND) as [tail [E _]]. rewrite E. simpl. split; [|reflexivity].
  unfold model_outcome. rewrite EF. apply final_outcome_snoc.
Qed.

(* the former finding F21 (repaired by /repo 889980a): expectThat mismatches in setUp, setUp then skips *)
Definition witness_F21 : prog :=
  {| p_pre := []; p_setup := [{| s_kind := ExpectThat; s_mis := Some [("a", 1)] |}; {| s_kind := Raise XSkip; s_mis := None |}];
     p_setup_up := 0; p_body := []; p_teardown := []; p_teardown_up := 0; p_cleanups := [] |}.

(* ---------- the executable statement implies the readable one ---------- *)
Lemma count_nat_notin t l : ~ In t l -> count_nat t l = 0.
Proof.
  unfold count_nat. induction l as [|x l IH]; simpl; intro H; [reflexivity|].
  destruct (Nat.eqb t x) eqn:E; [apply Nat.eqb_eq in E; exfalso; apply H; auto|].
  apply IH. intro; apply H; auto.
Qed.

Lemma same_tokens_sound a b : same_tokens a b = true -> forall t, count_nat t a = count_nat t b.
Proof.
  unfold same_tokens. intros H t.
  destruct (in_dec Nat.eq_dec t (a ++ b)) as [Hin|Hout].
  - apply Nat.eqb_eq. apply (proj1 (forallb_forall _ _) H t Hin).
  - rewrite !count_nat_notin; [reflexivity| |]; intro X; apply Hout; apply in_or_app; auto.
Qed.

Lemma outcome_eqb_eq a b : outcome_eqb a b = true <-> a = b.
Proof. destruct a, b; simpl; split; intro H; try discriminate; try reflexivity. Qed.

Lemma outcome_okb_sound p oc : outcome_okb p oc = true -> OutcomeOk p oc.
Proof.
  unfold outcome_okb, OutcomeOk. intro H. destruct (expect_failed p).
  - split; [|split; discriminate]. intros _. destruct oc; try discriminate; auto.
  - split; [discriminate|]. destruct (any_raise p); simpl in H.
    + split; [discriminate|]. intros _ _ ER. rewrite ER in H. simpl in H. apply outcome_eqb_eq. exact H.
    + split; [|discriminate]. intros _ _. apply outcome_eqb_eq. exact H.
Qed.

Theorem spec_okb_sound i o : spec_okb i o = true -> Spec i o.
Proof.
  destruct i as [isb s ml np|name modelled hm|p], o as [out eb|kinds asserts|raised after oc od|];
    simpl; try discriminate.
  - unfold repr_okb. intro H. apply andb_true_iff in H as [-> H]. split; [reflexivity|].
    destruct (eval_lit out) as [[x l]|]; simpl in H; [|discriminate].
    apply andb_true_iff in H as [H1 H2]. apply (proj1 (bool_eqb_spec _ _)) in H1.
    apply (list_eqb_spec N.eqb N.eqb_eq) in H2. congruence.
  - intros H M. subst modelled. simpl in H. apply andb_true_iff in H as [H1 H2]. split.
    + apply (list_eqb_spec okind_eqb okind_eqb_eq). exact H1.
    + apply (list_eqb_spec Bool.eqb bool_eqb_spec). exact H2.
  - unfold test_okb, details_okb. intro H.
    repeat (apply andb_true_iff in H as [H ?]).
    apply (list_eqb_spec _ (list_eqb_spec Bool.eqb bool_eqb_spec)) in H.
    apply andb_true_iff in H0 as [H0 H6]. apply andb_true_iff in H0 as [H0 H5].
    apply andb_true_iff in H0 as [H3 H4].
    split; [exact H|]. split; [exact H2|]. split; [apply outcome_okb_sound; exact H1|].
    repeat split; auto.
    + apply same_tokens_sound. assumption.
    + apply nodup_str_iff. assumption.
    + intros n t Hin. pose proof (proj1 (forallb_forall _ _) H5 (n, t) Hin) as X. simpl in X.
      destruct (base_of t (wanted p)) as [base|]; [|discriminate].
      exists base. split; [reflexivity|apply derived_sound; exact X].
    + intros d Hd. pose proof (proj1 (forallb_forall _ _) H6 d Hd) as X.
      apply existsb_exists in X as [d' [Hin E]]. apply detail_eqb_eq in E. subst. exact Hin.
Qed.

(* ---------- the comparison of observations ---------- *)
Lemma map_tok_inj a b : map (fun t : nat => (EmptyString, t)) a = map (fun t => (EmptyString, t)) b -> a = b.
Proof.
  revert b; induction a as [|x a IH]; intros [|y b] H; simpl in H; try discriminate; [reflexivity|].
  injection H as -> H. f_equal. apply IH. exact H.
Qed.

Theorem obs_eqb_spec a b : obs_eqb a b = true <-> alpha a = alpha b.
Proof.
  destruct a as [x e|x xa|r a oc d|], b as [y f|y ya|r' a' oc' d'|]; simpl; split; intro H;
    try discriminate; try reflexivity.
  - apply andb_true_iff in H as [H1 H2]. apply (list_eqb_spec N.eqb N.eqb_eq) in H1.
    apply (proj1 (bool_eqb_spec _ _)) in H2. congruence.
  - injection H as -> ->. apply andb_true_iff. split; [apply (list_eqb_spec N.eqb N.eqb_eq)|apply bool_eqb_spec]; reflexivity.
  - apply andb_true_iff in H as [H1 H2]. apply (list_eqb_spec okind_eqb okind_eqb_eq) in H1.
    apply (list_eqb_spec Bool.eqb bool_eqb_spec) in H2. congruence.
  - injection H as -> ->. apply andb_true_iff.
    split; [apply (list_eqb_spec okind_eqb okind_eqb_eq)|apply (list_eqb_spec Bool.eqb bool_eqb_spec)]; reflexivity.
  - repeat (apply andb_true_iff in H as [H ?]).
    apply (list_eqb_spec _ (list_eqb_spec Bool.eqb bool_eqb_spec)) in H. apply (proj1 (bool_eqb_spec _ _)) in H2.
    apply outcome_eqb_eq in H1. apply (list_eqb_spec Nat.eqb Nat.eqb_eq) in H0. congruence.
  - injection H as -> -> -> H. apply map_tok_inj in H. rewrite H.
    rewrite list_list_bool_refl.
    rewrite (proj2 (bool_eqb_spec _ _) eq_refl), (proj2 (outcome_eqb_eq _ _) eq_refl).
    rewrite (proj2 (list_eqb_spec Nat.eqb Nat.eqb_eq _ _) eq_refl). reflexivity.
Qed.

(* text_repr_lit is repr whenever the multiline branch is not taken *)
Theorem lit_single_line isb nonprint s ml :
  Forall (valid isb) s -> match ml with Some b => b | None => memN NL s end = false ->
  eval_lit (text_repr_lit isb nonprint s ml) = Some (isb, s).
Proof. intros V H. unfold text_repr_lit. rewrite H. simpl. apply repr_roundtrip. exact V. Qed.

Theorem unique_fresh existing base :
  exists r, unique_name existing base = Some r /\ ~ In r existing /\ IsCand r base.
Proof.
  destruct (unique_name_total existing base) as [r E]. exists r. split; [exact E|].
  apply unique_name_fresh. exact E.
Qed.
