(* C07 proofs: placeholder *)
From TT Require Import Lib.Base Spec.C07 Corr.C07.
