(* C07 - the model meets the statement; the executable statement implies the readable one. *)
From Coq Require Import String Ascii.
From TT Require Import Lib.Base Lib.Sort Model.TextRepr Model.Assertions Spec.C07 Corr.C07
     Proof.C07Repr Proof.C07Names.
Local Open Scope string_scope.

(* ---------- subsequences ---------- *)
Inductive sub {A} : list A -> list A -> Prop :=
| sub_nil : sub [] []
| sub_skip x l' l : sub l' l -> sub l' (x :: l)
| sub_keep x l' l : sub l' l -> sub (x :: l') (x :: l).

Lemma sub_refl {A} (l : list A) : sub l l.
Proof. induction l; constructor; assumption. Qed.
Lemma sub_nil_l {A} (l : list A) : sub [] l.
Proof. induction l; constructor; assumption. Qed.
Lemma sub_app {A} (a' a b' b : list A) : sub a' a -> sub b' b -> sub (a' ++ b')%list (a ++ b)%list.
Proof. induction 1; simpl; intro Hb; [exact Hb|apply sub_skip; auto|apply sub_keep; auto]. Qed.
Lemma sub_in {A} (l' l : list A) x : sub l' l -> In x l' -> In x l.
Proof. induction 1; simpl; intro Hb; [exact Hb|right; auto|destruct Hb; [left; assumption|right; auto]]. Qed.
Lemma sub_map {A B} (f : A -> B) l' l : sub l' l -> sub (map f l') (map f l).
Proof. induction 1; simpl; [apply sub_nil|apply sub_skip; assumption|apply sub_keep; assumption]. Qed.
Lemma sub_flat_map {A B} (f : A -> list B) l' l : sub l' l -> sub (flat_map f l') (flat_map f l).
Proof.
  induction 1; simpl; [apply sub_nil| |].
  - apply (sub_app [] (f x)); [apply sub_nil_l|assumption].
  - apply sub_app; [apply sub_refl|assumption].
Qed.
Lemma sub_trans {A} (a b c : list A) : sub a b -> sub b c -> sub a c.
Proof.
  intros H1 H2. revert a H1. induction H2; intros a H1.
  - exact H1.
  - apply sub_skip. auto.
  - inversion H1; subst; [apply sub_skip; auto|apply sub_keep; auto].
Qed.
Lemma sub_nodup {A} (l' l : list A) : sub l' l -> NoDup l -> NoDup l'.
Proof.
  induction 1; intro ND; [constructor|inversion ND; auto|].
  inversion ND; subst. constructor; [|auto]. intro Hin. apply H2. eapply sub_in; eassumption.
Qed.

(* ---------- what a statement asks to attach ---------- *)
Definition requests_of_step (s : step) : list detail :=
  match s_kind s, s_mis s with
  | AssertThat, Some ds => ds
  | ExpectThat, Some ds => (ds ++ [("Failed expectation", 0)])%list
  | _, _ => []
  end.
(* the statements that are executed: up to and including the first that raises *)
Fixpoint exec (steps : list step) : list step :=
  match steps with
  | [] => []
  | s :: r => if raises_step s then [s] else s :: exec r
  end.

Lemma executed_exec steps : executed steps = exec steps.
Proof.
  unfold executed. induction steps as [|s r IH]; simpl; [reflexivity|].
  destruct (raises_step s); simpl; [reflexivity|]. rewrite IH. reflexivity.
Qed.

Lemma exec_sub steps : sub (exec steps) steps.
Proof.
  induction steps as [|s r IH]; simpl; [constructor|].
  destruct (raises_step s); [constructor; apply sub_nil_l|constructor; exact IH].
Qed.

(* ---------- the invariant through the body ---------- *)
Lemma fold_add_inv ds : forall reqs l, Inv reqs l ->
  exists tail, fold_left add_unique ds (Some l) = Some (l ++ tail)%list /\ Inv (reqs ++ ds)%list (l ++ tail)%list.
Proof.
  induction ds as [|d ds IH]; intros reqs l I; cbn [fold_left].
  - exists []. rewrite !app_nil_r. split; [reflexivity|exact I].
  - destruct (add_unique_inv reqs l d I) as [l' [E I']].
    assert (exists x, l' = (l ++ [x])%list) as [x ->].
    { unfold add_unique in E. destruct (unique_name _ _); [|discriminate]. injection E as <-. eauto. }
    rewrite E. destruct (IH _ _ I') as [tail [E2 I2]].
    exists (x :: tail). rewrite <- !app_assoc in *. simpl in *. split; assumption.
Qed.

Definition mis_list (m : option (list detail)) : list detail := match m with Some ds => ds | None => [] end.

Lemma run_body_spec steps : forall st reqs l,
  t_details st = Some l -> Inv reqs l ->
  exists st2 raised tail,
    run_body st steps = (st2, exp_raised steps, raised)
    /\ raised || t_forced st2 = t_forced st || existsb (fun s => is_some (s_mis s)) (exec steps)
    /\ t_details st2 = Some (l ++ tail)%list
    /\ Inv (reqs ++ flat_map requests_of_step (exec steps))%list (l ++ tail)%list.
Proof.
  induction steps as [|s r IH]; intros st reqs l D I; simpl.
  - exists st, false, []. rewrite !app_nil_r, orb_false_r. auto.
  - unfold raises_step, requests_of_step. destruct s as [k mis]. simpl.
    destruct k; simpl.
    + (* assertThat *)
      destruct mis as [ds|]; simpl.
      * destruct (fold_add_inv ds reqs l I) as [tail [E I2]]. rewrite D, E.
        eexists _, true, tail. rewrite app_nil_r. simpl. rewrite orb_true_r. auto.
      * destruct (IH st reqs l D I) as [st2 [raised [tail [E [O [D2 I2]]]]]]. rewrite E.
        exists st2, raised, tail. auto.
    + (* expectThat *)
      destruct mis as [ds|]; simpl.
      * destruct (fold_add_inv ds reqs l I) as [tail [E I2]]. rewrite D, E.
        destruct (add_unique_inv _ _ ("Failed expectation", 0) I2) as [l' [E' I3]].
        assert (exists x, l' = ((l ++ tail) ++ [x])%list) as [x ->].
        { unfold add_unique in E'. destruct (unique_name _ _); [|discriminate]. injection E' as <-. eauto. }
        rewrite E'.
        destruct (IH {| t_details := Some ((l ++ tail) ++ [x])%list; t_forced := true |} _ _ eq_refl I3)
          as [st2 [raised [tail2 [E2 [O [D2 I4]]]]]].
        rewrite E2. exists st2, raised, (tail ++ x :: tail2)%list. simpl in O.
        rewrite O, orb_true_r. simpl.
        rewrite <- !app_assoc in *. simpl in *. auto.
      * destruct (IH st reqs l D I) as [st2 [raised [tail [E [O [D2 I2]]]]]]. rewrite E.
        exists st2, raised, tail. auto.
    + (* assert_that *)
      destruct mis as [ds|]; simpl.
      * exists st, true, []. rewrite !app_nil_r. simpl. rewrite orb_true_r. auto.
      * destruct (IH st reqs l D I) as [st2 [raised [tail [E [O [D2 I2]]]]]]. rewrite E.
        exists st2, raised, tail. auto.
Qed.

(* ---------- payload ---------- *)
Definition nz (d : detail) : bool := negb (Nat.eqb (snd d) 0).

Lemma answers_filter reqs ds : answers reqs ds -> answers (filter nz reqs) (filter nz ds).
Proof.
  induction 1 as [|req d reqs ds [E C] _ IH]; simpl; [constructor|].
  assert (Z : nz d = nz req) by (unfold nz; rewrite E; reflexivity). rewrite Z.
  destruct (nz req); [constructor; auto|exact IH].
Qed.

Lemma filter_nz_all l : ~ In 0 (map snd l) -> filter nz l = l.
Proof.
  induction l as [|d l IH]; simpl; intro H; [reflexivity|].
  unfold nz at 1. destruct (Nat.eqb (snd d) 0) eqn:E.
  - apply Nat.eqb_eq in E. exfalso. apply H. left. auto.
  - simpl. f_equal. apply IH. intro; apply H; right; assumption.
Qed.

Lemma filter_requests s : ~ In 0 (map snd (mis_list (s_mis s))) ->
  filter nz (requests_of_step s) = mis_details s.
Proof.
  unfold requests_of_step, mis_details. destruct s as [k mis]. simpl. intro H.
  destruct k, mis as [ds|]; simpl in *; try reflexivity.
  - apply filter_nz_all. exact H.
  - rewrite filter_app. simpl. rewrite app_nil_r. apply filter_nz_all. exact H.
Qed.

Lemma filter_flat_requests steps :
  ~ In 0 (map snd (flat_map (fun s => mis_list (s_mis s)) steps)) ->
  filter nz (flat_map requests_of_step steps) = flat_map mis_details steps.
Proof.
  induction steps as [|s r IH]; simpl; intro H; [reflexivity|].
  rewrite map_app in H. rewrite filter_app, filter_requests, IH; [reflexivity| |];
    intro X; apply H; apply in_or_app; auto.
Qed.

Lemma nodup_filter_fst (l : list detail) p : NoDup (map fst l) -> NoDup (map fst (filter p l)).
Proof.
  induction l as [|d l IH]; simpl; intro H; [constructor|]. inversion H; subst.
  destruct (p d); simpl; [|auto]. constructor; [|auto].
  intro Hin. apply H2. apply in_map_iff in Hin as [x [E Hx]]. apply filter_In in Hx as [Hx _].
  apply in_map_iff. eauto.
Qed.

(* ---------- the boolean checks ---------- *)
Lemma nodup_str_iff l : nodup_str l = true <-> NoDup l.
Proof.
  induction l as [|x l IH]; simpl; [split; [constructor|reflexivity]|].
  rewrite andb_true_iff, negb_true_iff, IH. split.
  - intros [H1 H2]. constructor; [|exact H2]. intro Hin. apply mem_str_in in Hin. congruence.
  - intro H. inversion H; subst. split; [|assumption].
    destruct (mem_str x l) eqn:E; [apply mem_str_in in E; contradiction|reflexivity].
Qed.

Lemma same_tokens_refl l : same_tokens l l = true.
Proof. unfold same_tokens. apply forallb_forall. intros x _. apply Nat.eqb_refl. Qed.

Lemma append_assoc' (a b c : string) : (a ++ b) ++ c = a ++ b ++ c.
Proof. induction a as [|x a IH]; simpl; [reflexivity|]. rewrite IH. reflexivity. Qed.

Lemma prefix_str_app p rest : prefix_str p (p ++ rest) = true.
Proof. induction p as [|a p IH]; simpl; [reflexivity|]. rewrite Ascii.eqb_refl. exact IH. Qed.

Lemma prefix_str_exists p : forall s, prefix_str p s = true -> exists rest, s = p ++ rest.
Proof.
  induction p as [|a p IH]; intros s H; simpl in *; [eauto|].
  destruct s as [|b s]; [discriminate|]. apply andb_true_iff in H as [E H].
  apply Ascii.eqb_eq in E. subst b. destruct (IH s H) as [rest ->]. eauto.
Qed.

Lemma derived_of_cand n base : IsCand n base -> derived n base = true.
Proof.
  intros [k ->]. unfold derived. destruct k as [|k]; simpl.
  - rewrite String.eqb_refl. reflexivity.
  - unfold suffixed. rewrite <- append_assoc', prefix_str_app. apply orb_true_r.
Qed.

Lemma derived_sound n base : derived n base = true -> Derived n base.
Proof.
  unfold derived, Derived. intro H. apply orb_true_iff in H as [H|H].
  - left. apply String.eqb_eq. exact H.
  - right. destruct (prefix_str_exists _ _ H) as [rest ->]. exists rest. apply append_assoc'.
Qed.

Lemma base_of_nodup w : NoDup (map snd w) -> forall b t, In (b, t) w -> base_of t w = Some b.
Proof.
  induction w as [|[n t'] w IH]; simpl; intros ND b t H; [contradiction|]. inversion ND; subst.
  destruct H as [H|H].
  - injection H as -> ->. rewrite Nat.eqb_refl. reflexivity.
  - destruct (Nat.eqb t t') eqn:E; [|apply IH; assumption].
    apply Nat.eqb_eq in E. subst t'. exfalso. apply H2. apply in_map_iff. exists (b, t). auto.
Qed.

Lemma detail_eqb_eq a b : detail_eqb a b = true <-> a = b.
Proof.
  unfold detail_eqb. rewrite andb_true_iff, String.eqb_eq, Nat.eqb_eq. destruct a, b; simpl.
  split; [intros [-> ->]; reflexivity|intro H; injection H as -> ->; auto].
Qed.

Lemma answers_snd w od : answers w od -> map snd od = map snd w.
Proof. induction 1 as [|a b w od [E _] _ IH]; simpl; [reflexivity|]. rewrite E, IH. reflexivity. Qed.

Lemma answers_in w od d : answers w od -> In d od -> exists b, In (b, snd d) w /\ IsCand (fst d) b.
Proof.
  induction 1 as [|a b w od [E C] _ IH]; simpl; intro H; [contradiction|].
  destruct H as [->|H].
  - exists (fst a). rewrite E. destruct a; simpl. auto.
  - destruct (IH H) as [b' [H1 H2]]. eauto.
Qed.

(* ---------- assertThat / expectThat / assert_that: the model meets the statement ---------- *)
Theorem test_meets_spec pre steps : wf (ITest pre steps) -> spec_okb (ITest pre steps) (model (ITest pre steps)) = true.
Proof.
  intros [ND [NZ NDpre]]. unfold model, run_test.
  assert (I0 : Inv pre pre).
  { split; [|exact NDpre]. unfold answers. clear. induction pre; constructor; [|assumption].
    split; [reflexivity|exists 0; reflexivity]. }
  destruct (run_body_spec steps {| t_details := Some pre; t_forced := false |} pre pre eq_refl I0)
    as [st2 [raised [tail [E [O [D2 [A ND2]]]]]]].
  rewrite E. simpl. rewrite D2. simpl in O.
  unfold test_okb. simpl.
  rewrite (proj2 (list_eqb_spec Bool.eqb bool_eqb_spec _ _) eq_refl). simpl.
  unfold any_mismatch. rewrite executed_exec, O.
  assert (Hoc : outcome_eqb (if existsb (fun s => is_some (s_mis s)) (exec steps) then Failure else Success)
                            (if existsb (fun s => is_some (s_mis s)) (exec steps) then Failure else Success) = true)
    by (destruct (existsb _ _); reflexivity).
  rewrite Hoc. simpl.
  (* the payload details answer the wanted ones *)
  unfold all_details in ND, NZ.
  assert (NZpre : ~ In 0 (map snd pre)) by (intro X; apply NZ; rewrite map_app; apply in_or_app; auto).
  assert (SubF : sub (flat_map (fun s => mis_list (s_mis s)) (exec steps))
                     (flat_map (fun s => match s_mis s with Some ds => ds | None => [] end) steps)).
  { apply (sub_flat_map (fun s => mis_list (s_mis s))). apply exec_sub. }
  assert (NZex : ~ In 0 (map snd (flat_map (fun s => mis_list (s_mis s)) (exec steps)))).
  { intro X. apply NZ. rewrite map_app. apply in_or_app. right.
    eapply sub_in; [apply sub_map; exact SubF|exact X]. }
  assert (W : filter nz (pre ++ flat_map requests_of_step (exec steps)) = wanted pre steps).
  { unfold wanted. rewrite executed_exec, filter_app, (filter_nz_all pre NZpre), filter_flat_requests; auto. }
  pose proof (answers_filter _ _ A) as AF. rewrite W in AF. change (filter nz (pre ++ tail)) with (payload (pre ++ tail)) in AF.
  change (filter (fun d => negb (Nat.eqb (snd d) 0)) (pre ++ tail)) with (payload (pre ++ tail)).
  set (od := payload (pre ++ tail)) in *. set (w := wanted pre steps) in *.
  assert (NDw : NoDup (map snd w)).
  { subst w. unfold wanted. rewrite executed_exec.
    eapply sub_nodup; [|exact ND]. apply sub_map. apply sub_app; [apply sub_refl|].
    assert (forall l, sub (flat_map mis_details l) (flat_map (fun s => mis_list (s_mis s)) l)).
    { induction l as [|s l IHl]; simpl; [constructor|]. apply sub_app; [|exact IHl].
      unfold mis_details, mis_list. destruct (attaches (s_kind s)); [apply sub_refl|apply sub_nil_l]. }
    (* flat_map mis_details (exec steps) is a subsequence of the details of all steps *)
    eapply sub_trans; [apply H|exact SubF]. }
  unfold details_okb. fold w.
  rewrite (answers_snd _ _ AF), same_tokens_refl. simpl.
  assert (NDod : NoDup (map fst od)) by (apply nodup_filter_fst; exact ND2).
  rewrite (proj2 (nodup_str_iff _) NDod). simpl.
  apply andb_true_iff. split.
  - apply forallb_forall. intros d Hd. destruct (answers_in _ _ _ AF Hd) as [b [Hin C]].
    rewrite (base_of_nodup w NDw b (snd d) Hin). apply derived_of_cand. exact C.
  - apply forallb_forall. intros d Hd. apply existsb_exists. exists d. split; [|apply detail_eqb_eq; reflexivity].
    subst od. unfold payload. rewrite filter_app. apply in_or_app. left.
    change (fun d0 : string * nat => negb (Nat.eqb (snd d0) 0)) with nz. rewrite (filter_nz_all pre NZpre). exact Hd.
Qed.

(* ---------- text_repr ---------- *)
Lemma memN_in c l : memN c l = true <-> In c l.
Proof.
  induction l as [|x l IH]; simpl; [split; [discriminate|contradiction]|].
  rewrite orb_true_iff, IH, N.eqb_eq. split; intros [H|H]; auto.
Qed.

Lemma res_eqb'_refl b l : res_eqb' (Some (b, l)) (Some (b, l)) = true.
Proof.
  simpl. rewrite (proj2 (list_eqb_spec N.eqb N.eqb_eq l l) eq_refl). destruct b; reflexivity.
Qed.

Theorem repr_meets_spec isb s ml np :
  wf (IRepr isb s ml np) -> agree (IRepr isb s ml np) = true ->
  spec_okb (IRepr isb s ml np) (model (IRepr isb s ml np)) = true.
Proof.
  intros V A. unfold model. rewrite A. simpl. unfold repr_okb. simpl.
  rewrite (tok_roundtrip isb (nonprint_of np) s ml V). apply res_eqb'_refl.
Qed.

(* ---------- the whole statement ---------- *)
Theorem model_meets_spec i : wf i -> agree i = true -> spec_okb i (model i) = true.
Proof.
  destruct i as [isb s ml np|name modelled hm|pre steps]; intros W A.
  - apply repr_meets_spec; assumption.
  - simpl in W. subst modelled. simpl.
    apply (list_eqb_spec okind_eqb). 2: reflexivity.
    intros a b. destruct a, b; simpl; split; intro H; try discriminate; try reflexivity; try congruence.
    + apply Nat.eqb_eq in H. congruence.
    + injection H as ->. apply Nat.eqb_refl.
  - apply test_meets_spec. exact W.
Qed.

(* ---------- what the model does, in one statement ---------- *)
Theorem run_test_spec (pre : list detail) (steps : list step) : NoDup (map fst pre) ->
  exists tail,
    run_test pre steps = {| r_raised := exp_raised steps; r_after_ran := true;
                            r_outcome := if any_mismatch steps then Failure else Success;
                            r_details := Some (pre ++ tail)%list |}
    /\ Inv (pre ++ flat_map requests_of_step (exec steps))%list (pre ++ tail)%list.
Proof.
  intro NDpre.
  assert (I0 : Inv pre pre).
  { split; [|exact NDpre]. unfold answers. clear. induction pre; constructor; [|assumption].
    split; [reflexivity|exists 0; reflexivity]. }
  destruct (run_body_spec steps {| t_details := Some pre; t_forced := false |} pre pre eq_refl I0)
    as [st2 [raised [tail [E [O [D2 I2]]]]]].
  exists tail. split; [|exact I2]. unfold run_test. rewrite E. simpl in O.
  unfold any_mismatch. rewrite executed_exec, O, D2. reflexivity.
Qed.

(* statement k raises iff it is assertThat / assert_that and its matcher mismatches; expectThat never
   raises; nothing is executed after a raise *)
Lemma exp_raised_nth steps : forall k b, nth_error (exp_raised steps) k = Some b ->
  exists s, nth_error steps k = Some s /\ b = is_assert (s_kind s) && is_some (s_mis s)
            /\ (b = true -> List.length (exp_raised steps) = S k).
Proof.
  induction steps as [|s r IH]; intros k b H; simpl in H; [destruct k; discriminate|].
  cbn [exp_raised]. unfold raises_step in *. destruct (is_assert (s_kind s) && is_some (s_mis s)) eqn:E.
  - destruct k as [|k]; simpl in H; [|destruct k; discriminate]. injection H as <-.
    exists s. simpl. auto.
  - destruct k as [|k]; simpl in H.
    + injection H as <-. exists s. simpl. repeat split; auto; discriminate.
    + destruct (IH k b H) as [s' [H1 [H2 H3]]]. exists s'. simpl.
      repeat split; auto; try (intro Hb; rewrite (H3 Hb); reflexivity).
Qed.

Lemma exp_raised_expect_only steps :
  existsb raises_step steps = false -> exp_raised steps = map (fun _ => false) steps /\ exec steps = steps.
Proof.
  induction steps as [|s r IH]; simpl; intro H; [auto|].
  apply orb_false_iff in H as [H1 H2]. rewrite H1. destruct (IH H2) as [-> ->]. auto.
Qed.

(* ---------- the executable statement implies the readable one ---------- *)
Lemma count_nat_notin t l : ~ In t l -> count_nat t l = 0.
Proof.
  unfold count_nat. induction l as [|x l IH]; simpl; intro H; [reflexivity|].
  destruct (Nat.eqb t x) eqn:E; [apply Nat.eqb_eq in E; exfalso; apply H; auto|].
  apply IH. intro; apply H; auto.
Qed.

Lemma same_tokens_sound a b : same_tokens a b = true -> forall t, count_nat t a = count_nat t b.
Proof.
  unfold same_tokens. intros H t.
  destruct (in_dec Nat.eq_dec t (a ++ b)) as [Hin|Hout].
  - apply Nat.eqb_eq. apply (proj1 (forallb_forall _ _) H t Hin).
  - rewrite !count_nat_notin; [reflexivity| |]; intro X; apply Hout; apply in_or_app; auto.
Qed.

Lemma okind_eqb_eq a b : okind_eqb a b = true <-> a = b.
Proof.
  destruct a, b; simpl; split; intro H; try discriminate; try reflexivity; try congruence.
  - apply Nat.eqb_eq in H. congruence.
  - injection H as ->. apply Nat.eqb_refl.
Qed.

Lemma outcome_eqb_eq a b : outcome_eqb a b = true <-> a = b.
Proof. destruct a, b; simpl; split; intro H; try discriminate; try reflexivity. Qed.

Theorem spec_okb_sound i o : spec_okb i o = true -> Spec i o.
Proof.
  destruct i as [isb s ml np|name modelled hm|pre steps], o as [out eb|kinds|raised after oc od|];
    simpl; try discriminate.
  - unfold repr_okb. intro H. apply andb_true_iff in H as [-> H]. split; [reflexivity|].
    destruct (eval_lit out) as [[x l]|]; simpl in H; [|discriminate].
    apply andb_true_iff in H as [H1 H2]. apply (proj1 (bool_eqb_spec _ _)) in H1.
    apply (list_eqb_spec N.eqb N.eqb_eq) in H2. congruence.
  - intros H M. subst modelled. simpl in H. apply (list_eqb_spec okind_eqb okind_eqb_eq). exact H.
  - unfold test_okb, details_okb. intro H.
    repeat (apply andb_true_iff in H as [H ?]).
    apply (list_eqb_spec Bool.eqb bool_eqb_spec) in H. apply outcome_eqb_eq in H1.
    apply andb_true_iff in H0 as [H0 H6]. apply andb_true_iff in H0 as [H0 H5].
    apply andb_true_iff in H0 as [H3 H4].
    repeat split; auto.
    + apply same_tokens_sound. assumption.
    + apply nodup_str_iff. assumption.
    + intros n t Hin. pose proof (proj1 (forallb_forall _ _) H5 (n, t) Hin) as X. simpl in X.
      destruct (base_of t (wanted pre steps)) as [base|]; [|discriminate].
      exists base. split; [reflexivity|apply derived_sound; exact X].
    + intros d Hd. pose proof (proj1 (forallb_forall _ _) H6 d Hd) as X.
      apply existsb_exists in X as [d' [Hin E]]. apply detail_eqb_eq in E. subst. exact Hin.
Qed.

(* ---------- the comparison of observations ---------- *)
Lemma map_tok_inj a b : map (fun t : nat => (EmptyString, t)) a = map (fun t => (EmptyString, t)) b -> a = b.
Proof.
  revert b; induction a as [|x a IH]; intros [|y b] H; simpl in H; try discriminate; [reflexivity|].
  injection H as -> H. f_equal. apply IH. exact H.
Qed.

Theorem obs_eqb_spec a b : obs_eqb a b = true <-> alpha a = alpha b.
Proof.
  destruct a as [x e|x|r a oc d|], b as [y f|y|r' a' oc' d'|]; simpl; split; intro H;
    try discriminate; try reflexivity.
  - apply andb_true_iff in H as [H1 H2]. apply (list_eqb_spec N.eqb N.eqb_eq) in H1.
    apply (proj1 (bool_eqb_spec _ _)) in H2. congruence.
  - injection H as -> ->. apply andb_true_iff. split; [apply (list_eqb_spec N.eqb N.eqb_eq)|apply bool_eqb_spec]; reflexivity.
  - apply (list_eqb_spec okind_eqb okind_eqb_eq) in H. congruence.
  - injection H as ->. apply (list_eqb_spec okind_eqb okind_eqb_eq). reflexivity.
  - repeat (apply andb_true_iff in H as [H ?]).
    apply (list_eqb_spec Bool.eqb bool_eqb_spec) in H. apply (proj1 (bool_eqb_spec _ _)) in H2.
    apply outcome_eqb_eq in H1. apply (list_eqb_spec Nat.eqb Nat.eqb_eq) in H0. congruence.
  - injection H as -> -> -> H. apply map_tok_inj in H. rewrite H.
    rewrite (proj2 (list_eqb_spec Bool.eqb bool_eqb_spec _ _) eq_refl).
    rewrite (proj2 (bool_eqb_spec _ _) eq_refl), (proj2 (outcome_eqb_eq _ _) eq_refl).
    rewrite (proj2 (list_eqb_spec Nat.eqb Nat.eqb_eq _ _) eq_refl). reflexivity.
Qed.

(* text_repr_lit is repr whenever the multiline branch is not taken *)
Theorem lit_single_line isb nonprint s ml :
  Forall (valid isb) s -> match ml with Some b => b | None => memN NL s end = false ->
  eval_lit (text_repr_lit isb nonprint s ml) = Some (isb, s).
Proof. intros V H. unfold text_repr_lit. rewrite H. simpl. apply repr_roundtrip. exact V. Qed.

Theorem unique_fresh existing base :
  exists r, unique_name existing base = Some r /\ ~ In r existing /\ IsCand r base.
Proof.
  destruct (unique_name_total existing base) as [r E]. exists r. split; [exact E|].
  apply unique_name_fresh. exact E.
Qed.
