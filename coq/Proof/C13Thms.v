(* C13 - proofs, part 4: the comparison decides equality, the executable statement implies the readable
   one, and the named clauses for every reachable configuration (= after every schedule). *)
From TT Require Import Lib.Base Model.Tfr Model.Concur Spec.C12 Spec.C13 Corr.C13 Proof.C12 Proof.C13 Proof.C13Classic.

(* ====================================================================================== *)
(* 1. the comparison functions decide equality                                              *)
(* ====================================================================================== *)
Lemma tstamp_eqb_spec a b : tstamp_eqb a b = true <-> a = b.
Proof.
  destruct a, b; simpl; split; intro H; try discriminate; try reflexivity.
  - apply Nat.eqb_eq in H. subst. reflexivity.
  - injection H as ->. apply Nat.eqb_refl.
Qed.

Lemma rcode_eqb_spec a b : rcode_eqb a b = true <-> a = b.
Proof. apply pair_eqb_spec; apply option_eqb_spec; apply Nat.eqb_eq. Qed.

Lemma qitem_eqb_spec a b : qitem_eqb a b = true <-> a = b.
Proof.
  destruct a as [x|x|x|w i s o t], b as [y|y|y|w' i' s' o' t']; simpl; split; intro H; try discriminate.
  all: try (apply Nat.eqb_eq in H; subst; reflexivity).
  all: try (injection H as ->; apply Nat.eqb_refl).
  - apply andb_true_iff in H as [H H5]. apply andb_true_iff in H as [H H4]. apply andb_true_iff in H as [H H3].
    apply andb_true_iff in H as [H1 H2].
    apply Nat.eqb_eq in H1, H2, H3. apply rcode_eqb_spec in H4. apply tstamp_eqb_spec in H5.
    subst. reflexivity.
  - injection H as -> -> -> -> ->. rewrite !Nat.eqb_refl. simpl.
    rewrite (proj2 (rcode_eqb_spec _ _) eq_refl). apply tstamp_eqb_spec. reflexivity.
Qed.

Lemma cev_eqb_spec a b : cev_eqb a b = true <-> a = b.
Proof.
  destruct a, b; simpl; split; intro H; try discriminate; try reflexivity.
  all: try (apply gev_eqb_spec in H; subst; reflexivity).
  all: try (injection H as ->; apply gev_eqb_spec; reflexivity).
  all: try (apply qitem_eqb_spec in H; subst; reflexivity).
  all: try (injection H as ->; apply qitem_eqb_spec; reflexivity).
  all: try (apply Nat.eqb_eq in H; subst; reflexivity).
  all: try (injection H as ->; apply Nat.eqb_refl).
  - apply andb_true_iff in H as [H H6]. apply andb_true_iff in H as [H H5]. apply andb_true_iff in H as [H H4].
    apply andb_true_iff in H as [H H3]. apply andb_true_iff in H as [H1 H2].
    apply Nat.eqb_eq in H1, H2, H3. apply rcode_eqb_spec in H4.
    apply tstamp_eqb_spec in H5. apply (proj1 (bool_eqb_spec _ _)) in H6. subst. reflexivity.
  - injection H as -> -> -> -> -> ->. rewrite !Nat.eqb_refl. simpl.
    rewrite (proj2 (rcode_eqb_spec _ _) eq_refl). simpl.
    rewrite (proj2 (tstamp_eqb_spec _ _) eq_refl), (proj2 (bool_eqb_spec _ _) eq_refl). reflexivity.
Qed.

Lemma tev_eqb_spec a b : tev_eqb a b = true <-> a = b.
Proof. apply pair_eqb_spec; [apply Nat.eqb_eq | apply cev_eqb_spec]. Qed.

Lemma ev3_eqb_spec a b : ev3_eqb a b = true <-> a = b.
Proof.
  split; [|intros ->; apply ev3_eqb_refl].
  destruct a as [[[a1 a2] a3] a4], b as [[[b1 b2] b3] b4]. unfold ev3_eqb. simpl. intro H.
  apply andb_true_iff in H as [H H4]. apply andb_true_iff in H as [H H3]. apply andb_true_iff in H as [H1 H2].
  apply Nat.eqb_eq in H1, H2. apply rcode_eqb_spec in H3. apply tstamp_eqb_spec in H4. subst. reflexivity.
Qed.

Lemma dl_eqb_spec a b : dl_eqb a b = true <-> a = b.
Proof.
  destruct a as [x r], b as [y q]. unfold dl_eqb. simpl. rewrite andb_true_iff, ev3_eqb_spec, bool_eqb_spec.
  split; [intros [-> ->]; reflexivity | intro H; injection H as -> ->; auto].
Qed.

Lemma aobs_eqb_spec a b : aobs_eqb a b = true <-> a = b.
Proof.
  destruct a as [p1 t1 x1 r1 l1 s1 d1 f1], b as [p2 t2 x2 r2 l2 s2 d2 f2]; unfold aobs_eqb; simpl; split; intro H.
  - apply andb_true_iff in H as [H H8]. apply andb_true_iff in H as [H H7]. apply andb_true_iff in H as [H H6].
    apply andb_true_iff in H as [H H5]. apply andb_true_iff in H as [H H4]. apply andb_true_iff in H as [H H3].
    apply andb_true_iff in H as [H1 H2].
    apply (list_eqb_spec _ Nat.eqb_eq) in H1.
    apply (list_eqb_spec _ (pair_eqb_spec _ _ (list_eqb_spec _ gev_eqb_spec) (list_eqb_spec _ dl_eqb_spec))) in H2.
    apply (list_eqb_spec _ tev_eqb_spec) in H3.
    apply (proj1 (bool_eqb_spec _ _)) in H4. apply (list_eqb_spec _ bool_eqb_spec) in H5.
    apply (list_eqb_spec _ Nat.eqb_eq) in H6. apply (proj1 (bool_eqb_spec _ _)) in H7.
    apply (proj1 (bool_eqb_spec _ _)) in H8. subst. reflexivity.
  - injection H as -> -> -> -> -> -> -> ->. repeat (apply andb_true_iff; split).
    + apply (list_eqb_spec _ Nat.eqb_eq). reflexivity.
    + apply (list_eqb_spec _ (pair_eqb_spec _ _ (list_eqb_spec _ gev_eqb_spec) (list_eqb_spec _ dl_eqb_spec))). reflexivity.
    + apply (list_eqb_spec _ tev_eqb_spec). reflexivity.
    + apply bool_eqb_spec. reflexivity.
    + apply (list_eqb_spec _ bool_eqb_spec). reflexivity.
    + apply (list_eqb_spec _ Nat.eqb_eq). reflexivity.
    + apply bool_eqb_spec. reflexivity.
    + apply bool_eqb_spec. reflexivity.
Qed.

Lemma obs_eqb_spec a b : obs_eqb a b = true <-> alpha a = alpha b.
Proof. apply aobs_eqb_spec. Qed.

(* ====================================================================================== *)
(* 2. the executable statement implies the readable one                                      *)
(* ====================================================================================== *)
Lemma is_prefix_sound {A} (eqb : A -> A -> bool) (He : forall a b, eqb a b = true -> a = b) :
  forall a b, is_prefix eqb a b = true -> exists rest, a ++ rest = b.
Proof.
  induction a as [|x a IH]; intros b H; simpl in H.
  - exists b. reflexivity.
  - destruct b as [|y b]; [discriminate|]. apply andb_true_iff in H as [H1 H2]. apply He in H1. subst.
    destruct (IH b H2) as [r <-]. exists r. reflexivity.
Qed.

Lemma ev3_eqb_sound a b : ev3_eqb a b = true -> a = b.
Proof.
  destruct a as [[[a1 a2] a3] a4], b as [[[b1 b2] b3] b4]. unfold ev3_eqb. simpl. intro H.
  apply andb_true_iff in H as [H H4]. apply andb_true_iff in H as [H H3]. apply andb_true_iff in H as [H1 H2].
  apply Nat.eqb_eq in H1, H2. apply rcode_eqb_spec in H3. apply tstamp_eqb_spec in H4.
  subst. reflexivity.
Qed.

Lemma nth_error_firstn_lt {A} (l : list A) : forall k w x, w < k -> nth_error l w = Some x -> nth_error (firstn k l) w = Some x.
Proof.
  induction l as [|a l IH]; intros [|k] [|w] x Hlt H; simpl in *; try discriminate; try lia; auto.
  apply IH; [lia | exact H].
Qed.

Lemma common_sound n mt o : common_okb n mt o = true -> Common n mt o.
Proof.
  unfold common_okb, Common. intro H.
  apply andb_true_iff in H as [H H7]. apply andb_true_iff in H as [H H6]. apply andb_true_iff in H as [H H5].
  apply andb_true_iff in H as [H H4]. apply andb_true_iff in H as [H H3]. apply andb_true_iff in H as [H1 H2].
  apply (proj1 (bool_eqb_spec _ _)) in H6.
  split; [|split; [|split; [|split; [|split; [|split; [|split; [|split]]]]]]].
  - destruct (o_deadlock o); [discriminate | reflexivity].
  - intros e He. rewrite forallb_forall in H2. apply H2. exact He.
  - apply (list_eqb_spec _ Nat.eqb_eq). exact H3.
  - apply Nat.eqb_eq. exact H4.
  - intros Hr b Hb. rewrite Hr in H5. simpl in H5. rewrite forallb_forall in H5. specialize (H5 b Hb).
    destruct b; [discriminate | reflexivity].
  - split.
    + intro Hr. rewrite Hr in H6. symmetry in H6.
      apply orb_true_iff in H6 as [H6|H6]; [apply orb_true_iff in H6 as [H6|H6]|]; auto.
    + intro Hc. rewrite H6. destruct Hc as [ -> | [ -> | -> ] ]; simpl; rewrite ?orb_true_r; reflexivity.
  - intro Hr. rewrite Hr in H7. destruct (o_stops o); [reflexivity | discriminate].
  - intros Hr w Hw. rewrite Hr in H7. apply andb_true_iff in H7 as [H7 _]. rewrite forallb_forall in H7.
    apply Nat.ltb_lt. apply H7. exact Hw.
  - intros Hr Hnone w Hw. rewrite Hr in H7. apply andb_true_iff in H7 as [_ H7].
    apply orb_true_iff in H7 as [H7|H7].
    + apply existsb_exists in H7 as (b & Hb & ->). specialize (Hnone true Hb). discriminate.
    + rewrite forallb_idx_spec in H7. specialize (H7 w true Hw). simpl in H7.
      apply existsb_exists in H7 as (x & Hx & E). apply Nat.eqb_eq in E. subst. exact Hx.
Qed.

Lemma stream_worker_sound routes base raised tr w s :
  stream_worker_okb routes base raised tr w s = true -> StreamWorker routes base raised tr w s.
Proof.
  unfold stream_worker_okb, StreamWorker. intro H.
  apply andb_true_iff in H as [H H3]. apply andb_true_iff in H as [H1 H2]. split; [|split].
  - intros x Hx. rewrite forallb_forall in H1. apply H1. exact Hx.
  - apply (is_prefix_sound _ ev3_eqb_sound). exact H2.
  - intro Hr. rewrite Hr in H3. simpl in H3. apply Nat.eqb_eq in H3.
    destruct (is_prefix_sound _ ev3_eqb_sound _ _ H2) as [rest E]. rewrite <- E.
    destruct rest as [|x rest]; [rewrite app_nil_r; reflexivity|]. exfalso.
    apply (f_equal (@length _)) in E. rewrite app_length, map_length in E. simpl in E. lia.
Qed.

Lemma br_body_sound body : br_body_okb body = true -> BrokenRunnerBlock body.
Proof.
  unfold br_body_okb, BrokenRunnerBlock. intro H.
  repeat match goal with
         | H : (_ && _) = true |- _ => apply andb_true_iff in H as [? ?]
         | H : (_ =? _) = true |- _ => apply Nat.eqb_eq in H; subst
         | H : match ?x with _ => _ end = true |- _ => destruct x; try discriminate
         end.
  all: first [ (eexists _, _, []; split; [simpl; lia | reflexivity])
             | (eexists _, _, [_]; split; [simpl; lia | reflexivity])
             | (eexists _, _, [_; _]; split; [simpl; lia | reflexivity]) ].
Qed.

Lemma classic_worker_sound base lg w sf : classic_worker_okb base lg w sf = true -> ClassicWorker base lg w sf.
Proof.
  unfold classic_worker_okb, ClassicWorker. destruct (before_raise (fst sf)) as [pre raises]. simpl fst; simpl snd.
  intros H Hfl Hwf. rewrite Hfl, Hwf in H. destruct (raises && negb base).
  - apply andb_true_iff in H as [H1 H2].
    destruct (is_prefix_sound gev_eqb (fun a b => proj1 (gev_eqb_spec a b)) _ _ H1) as [rest E].
    rewrite <- E in H2. rewrite skipn_length_app in H2.
    destruct rest as [|e rest]; [discriminate|]. destruct e; try discriminate.
    destruct (rev rest) as [|e rbody] eqn:Er; [discriminate|]. destruct e; try discriminate.
    exists (rev rbody). split.
    + rewrite <- E. unfold section. do 2 f_equal. rewrite <- (rev_involutive rest), Er. reflexivity.
    + apply br_body_sound. exact H2.
  - apply (list_eqb_spec _ gev_eqb_spec). exact H.
Qed.

Theorem spec_okb_sound : forall i o, spec_okb i o = true -> Spec i o.
Proof.
  intros [ci|si] o H; unfold spec_okb in H; simpl.
  - apply andb_true_iff in H as [H H4]. apply andb_true_iff in H as [H H3]. apply andb_true_iff in H as [H1 H2].
    split; [apply common_sound; exact H1|]. split; [exact H2|]. split; [apply sectb_sections; exact H3|].
    intros w sf Hw Hn. apply classic_worker_sound. rewrite forallb_idx_spec in H4. apply (H4 w sf).
    apply nth_error_firstn_lt; assumption.
  - apply andb_true_iff in H as [H1 H2]. split; [apply common_sound; exact H1|].
    intros w s Hw Hn. apply stream_worker_sound. rewrite forallb_idx_spec in H2. apply (H2 w s).
    apply nth_error_firstn_lt; assumption.
Qed.

(* ====================================================================================== *)
(* 3. the named clauses, for every schedule                                                  *)
(* ====================================================================================== *)
(* the configuration after an arbitrary schedule (an entry naming a blocked or finished thread is a no-op) *)
Definition creach (i : cinput) (sched : list tid) : cconf := fold_left (gstep' (cstep i)) sched (cinit i).
Definition sreach (i : sinput) (sched : list tid) : sconf := fold_left (gstep' (sstep i)) sched (sinit i).

Lemma creach_inv i sched : CInv i (creach i sched).
Proof. apply (gsteps_P (cstep i) (CInv i) (cstep_inv i)). apply cinit_inv. Qed.
Lemma sreach_inv i sched : SInv i (sreach i sched).
Proof. apply (gsteps_P (sstep i) (SInv i) (sstep_inv i)). apply sinit_inv. Qed.

(* ---- each yielded sub-suite is started once, and thread w+1 runs sub-suite w and nothing else ---- *)
Theorem classic_each_once i sched : let c := creach i sched in
  spawns (k_log c) = seq 0 (length (k_workers c))
  /\ length (k_workers c) <= started (length (ci_suites i)) (ci_mt_raise i)
  /\ forall w wk, nth_error (k_workers c) w = Some wk ->
       exists s fl, nth_error (ci_suites i) w = Some (s, fl)
         /\ tpath (init_thread s fl (worker_fb (ci_base i))) (proj (S w) (cg_log (k_log c))) (cw_th wk).
Proof.
  simpl. destruct (creach_inv i sched) as [HB _ _ _ _]. split; [apply (cb_spawns i _ HB)|].
  split; [apply (cb_le i _ HB)|]. intros w wk Hn. destruct (cb_thr i _ HB w wk Hn) as (_ & _ & _ & H). exact H.
Qed.

Theorem stream_each_once i sched : let c := sreach i sched in
  spawns (s_log c) = seq 0 (length (s_workers c))
  /\ length (s_workers c) <= started (length (si_suites i)) (si_mt_raise i)
  /\ forall w todo, nth_error (s_workers c) w = Some todo ->
       exists s, nth_error (si_suites i) w = Some s /\ fw w (putsq (s_log c)) ++ todo = worker_puts (sroute i w) w (si_base i) s.
Proof.
  simpl. pose proof (sreach_inv i sched) as HI. split; [apply (sv_spawns i _ HI)|]. split; [apply (sv_le i _ HI)|].
  apply (sv_workers i _ HI).
Qed.

(* ---- run() returns normally only when every worker has finished ---- *)
Theorem classic_returns_after_all i sched : let c := creach i sched in
  k_main c = CMDone -> k_raised c = false ->
  length (k_live c) = started (length (ci_suites i)) (ci_mt_raise i) /\ forallb negb (k_live c) = true.
Proof.
  simpl. intros Em Hr. pose proof (cv_phase i _ (creach_inv i sched)) as Hp. unfold cphase in Hp.
  rewrite Em, Hr in Hp. destruct Hp as (_ & _ & Hl & _ & Hf). split; assumption.
Qed.

Theorem stream_returns_after_all i sched : let c := sreach i sched in
  s_main c = SMDone -> s_raised c = false ->
  length (s_live c) = started (length (si_suites i)) (si_mt_raise i) /\ forallb negb (s_live c) = true.
Proof.
  simpl. intros Em Hr. pose proof (sv_phase i _ (sreach_inv i sched)) as Hp. rewrite Em in Hp.
  destruct Hp as (_ & _ & Hl & _ & Hf). split; [exact Hl | apply (Hf Hr)].
Qed.

(* ---- delivery ---- *)
(* classic: at every moment the part of the caller's-result log made by worker w is a prefix of what w
   does when it runs alone (ctrace: its script up to the first forwarder call that raises, then the
   broken-runner fallback) - all of it once w has finished; the schedule has no influence on it *)
Theorem classic_delivery i sched w wk : let c := creach i sched in
  nth_error (k_workers c) w = Some wk ->
  exists s fl fbs rest, nth_error (ci_suites i) w = Some (s, fl) /\ worker_fb (ci_base i) = Some fbs
     /\ proj (S w) (cg_log (k_log c)) ++ rest = ctrace fl PEnd s fbs fwd0 0
     /\ (finished (cw_th wk) = true -> rest = []).
Proof.
  simpl. intro Hn. destruct (creach_inv i sched) as [HB _ _ _ _].
  destruct (cb_thr i _ HB w wk Hn) as (H1 & _ & _ & s & fl & Hs & Hp).
  assert (Hfb : exists fbs, worker_fb (ci_base i) = Some fbs) by (unfold worker_fb; destruct (ci_base i); eauto).
  destruct Hfb as [fbs Hfb]. rewrite Hfb in Hp.
  destruct (norm_ctrace {| pc := PEnd; script := s; Tfr.fw := fwd0; ncall := 0; flt := fl; fb := Some fbs |} fbs eq_refl)
    as (fb0 & Hb0 & E0).
  destruct (tpath_ctrace _ _ _ Hp fb0 Hb0) as (fb1 & _ & E1).
  exists s, fl, fbs, (ttrace2 (cw_th wk) fb1). split; [exact Hs|]. split; [exact Hfb|]. split.
  - rewrite <- E1. unfold init_thread. rewrite E0. reflexivity.
  - intro Hf. apply finished_ctrace; [|exact Hf]. destruct (wheld _ w); [|apply H1].
    destruct H1 as [Hw _]. unfold finished in Hf. destruct (pc (cw_th wk)); simpl in *; discriminate.
Qed.

(* classic: one test at a time - the caller's-result log is a sequence of single-owner sections *)
Theorem classic_one_at_a_time i sched : let c := creach i sched in
  let K := started (length (ci_suites i)) (ci_mt_raise i) in
  exists secs tail, cg_log (k_log c) = flat_map render secs ++ tail
     /\ Forall (sec_ok (S K)) secs /\ open_tail (S K) (k_sem c) tail.
Proof.
  simpl. destruct (creach_inv i sched) as [HB _ _ _ _]. apply (proj1 (mon_sections _ _)). apply (cb_mon i _ HB).
Qed.

(* what a worker's log is when the caller's result does not raise *)
Theorem classic_worker_meaning s fbs : wf_script Out (fst (before_raise s)) = true ->
  let pre := fst (before_raise s) in
  (snd (before_raise s) = false -> ctrace [] PEnd s fbs fwd0 0 = expected [] pre sst0 0)
  /\ (snd (before_raise s) = true -> ctrace [] PEnd s [] fwd0 0 = expected [] pre sst0 0)
  /\ (snd (before_raise s) = true ->
        exists body, ctrace [] PEnd s [br_script] fwd0 0 = expected [] pre sst0 0 ++ section body
                     /\ BrokenRunnerBlock body).
Proof.
  intro Hw. simpl. destruct (ltrace_before_raise s fwd0 0) as (f' & k' & E).
  rewrite <- (strace_expected [] _ Out fwd0 sst0 0 Hw rel0).
  split; [|split]; intro Hb; rewrite ctrace_end, E, Hb; cbn [fst snd].
  - apply app_nil_r.
  - apply app_nil_r.
  - destruct (br_trace f' k') as (body & -> & Hbody). exists body. split; [reflexivity | apply br_body_sound; exact Hbody].
Qed.

(* stream: at every moment what main has passed to the caller's result for worker w is a prefix of what w
   emits, each event with w's route code and a timestamp; all of it when run() has returned normally *)
Theorem stream_delivery i sched w s : let c := sreach i sched in
  nth_error (si_suites i) w = Some s -> w < length (s_workers c) ->
  (forall x, In x (delivered w (s_log c)) -> has_ts (snd (fst x)) = true)
  /\ exists rest, map to3 (delivered w (s_log c)) ++ rest = ev_of (emits (sroute i w) w (si_base i) s)
       /\ (s_main c = SMDone -> s_raised c = false -> rest = []).
Proof.
  simpl. intros Hs Hw. pose proof (sreach_inv i sched) as HI. set (c := sreach i sched) in *.
  destruct (nth_error (s_workers c) w) as [todo|] eqn:En; [|apply nth_error_None in En; lia].
  destruct (sv_workers i c HI w todo En) as (s' & Hs' & E). rewrite Hs in Hs'. injection Hs' as <-.
  assert (Hrest : map to3 (delivered w (s_log c))
                  ++ (ev_of (fw w (pend_status c)) ++ ev_of (fw w (s_queue c)) ++ ev_of todo)
                  = ev_of (emits (sroute i w) w (si_base i) s)).
  { rewrite app_assoc, (sv_deliv i c HI w), <- ev_of_worker_puts, <- E, ev_of_app, <- (sv_fifo i c HI w), fw_app,
      ev_of_app, <- app_assoc. reflexivity. }
  split.
  - intros x Hx. pose proof (prefix_has_ts _ _ _ Hrest (emits_has_ts (sroute i w) w (si_base i) s)) as Ht.
    rewrite forallb_forall in Ht. apply Ht. exact Hx.
  - exists (ev_of (fw w (pend_status c)) ++ ev_of (fw w (s_queue c)) ++ ev_of todo). split.
    + exact Hrest.
    + intros Em Hr. pose proof (sv_phase i c HI) as Hp. rewrite Em in Hp. destruct Hp as (_ & _ & _ & HwK & Hnr).
      destruct (Hnr Hr) as [_ Hun].
      pose proof (sv_joins i c HI) as Hjo. unfold pend_join in Hjo. rewrite Em in Hjo. simpl in Hjo. rewrite app_nil_r in Hjo.
      assert (Hm : memb w (joins (s_log c)) = true) by (eapply unreaped_nil_all; [exact Hun | lia]).
      rewrite Hjo in Hm. apply stopsq_in in Hm.
      assert (Htodo : todo = []) by (eapply popped_done; eauto).
      subst todo. rewrite app_nil_r in E.
      assert (Hq : fw w (s_queue c) = []).
      { apply (stop_is_last (sroute i w) w (si_base i) s (fw w (gotten (s_log c)))).
        - rewrite <- fw_app, (sv_fifo i c HI w). exact E.
        - apply filter_In. split; [exact Hm | simpl; apply Nat.eqb_refl]. }
      unfold pend_status. rewrite Em, Hq. reflexivity.
Qed.

(* ---- a broken runner (stream): what worker w puts on the queue when its run() raises ---- *)
Theorem stream_broken_runner rt w pre rest : (forall x, In x pre -> x <> SRaise) ->
  emits rt w false (pre ++ SRaise :: rest)
    = emits rt w false pre ++ [QStatus w br_id st_inprogress (rt, None) TNow; QStatus w br_id st_fail (rt, None) TNow]
  /\ emits rt w true (pre ++ SRaise :: rest) = emits rt w true pre.
Proof.
  induction pre as [|[id st own a|] pre IH]; intro H; simpl.
  - split; reflexivity.
  - destruct IH as [I1 I2]; [intros x Hx; apply H; right; exact Hx|]. rewrite I1, I2. split; reflexivity.
  - exfalso. apply (H SRaise); [left; reflexivity | reflexivity].
Qed.

(* ---- abort ---- *)
Theorem classic_abort i sched : let c := creach i sched in k_main c = CMDone ->
  k_raised c = craise_exp i (k_log c)
  /\ (k_raised c = true -> k_stops c = firstn (stops_expected (main_stops (k_log c)) (length (cU i c))) (cU i c))
  /\ (k_raised c = false -> k_stops c = []).
Proof.
  simpl. intro Em. pose proof (cv_phase i _ (creach_inv i sched)) as Hp. unfold cphase in Hp. rewrite Em in Hp.
  destruct Hp as (_ & Hr & _ & Hs). split; [exact Hr|]. split; intro E; rewrite E in Hs.
  - rewrite Hs. unfold stop_count, stops_expected. destruct (main_stops _); reflexivity.
  - apply Hs.
Qed.

Theorem stream_abort i sched : let c := sreach i sched in s_main c = SMDone ->
  s_raised c = raise_expected i (s_log c)
  /\ s_stops c = (if s_raised c
                  then unreaped_of (started (length (si_suites i)) (si_mt_raise i)) (joins (s_log c)) else []).
Proof.
  simpl. intro Em. pose proof (sv_phase i _ (sreach_inv i sched)) as Hp. rewrite Em in Hp.
  destruct Hp as (Hr & Hs & _). split; assumption.
Qed.

(* ---- termination ---- *)
Theorem classic_no_deadlock i sched : let c := creach i sched in
  call_done c = false -> exists t, t < cnthr c /\ cstep i c t <> None.
Proof. simpl. apply clive. apply creach_inv. Qed.

Theorem stream_no_deadlock i sched : let c := sreach i sched in
  sall_done c = false -> exists t, t < snthr c /\ sstep i c t <> None.
Proof. simpl. apply slive. apply sreach_inv. Qed.

Theorem classic_terminates i :
  call_done (crun i) = true /\ k_sem (crun i) = None /\ exists s, crun i = creach i s.
Proof.
  destruct (crun_inv i) as [HI Hd]. split; [exact Hd|]. split; [apply (done_sem_free i _ HI Hd)|].
  unfold crun, creach. destruct (gfold_is_schedule (cstep i) cnthr (ci_sched i) (cinit i)) as [s1 E1].
  destruct (gdrain_is_schedule (cstep i) cnthr (cfuel i) (fold_left (gsched_step (cstep i) cnthr) (ci_sched i) (cinit i)))
    as [s2 E2].
  exists (s1 ++ s2). rewrite fold_left_app, <- E1. exact E2.
Qed.

Theorem stream_terminates i : sall_done (srun i) = true /\ exists s, srun i = sreach i s.
Proof.
  destruct (srun_inv i) as [HI Hd]. split; [exact Hd|].
  unfold srun, sreach. destruct (gfold_is_schedule (sstep i) snthr (si_sched i) (sinit i)) as [s1 E1].
  destruct (gdrain_is_schedule (sstep i) snthr (sfuel i) (fold_left (gsched_step (sstep i) snthr) (si_sched i) (sinit i)))
    as [s2 E2].
  exists (s1 ++ s2). rewrite fold_left_app, <- E1. exact E2.
Qed.
