(* C08 - proofs (under construction) *)
From TT Require Import Lib.Base Model.Adapters Spec.C08 Corr.C08.
