(* C08 - proofs.  Part 1: the boolean equalities decide equality; the comparison of
   observations decides equality of their abstractions. *)
From Coq Require Import Permutation.
From TT Require Import Lib.Base Lib.Sort Model.Adapters Spec.C08 Corr.C08.

(* ================= boolean equalities ================= *)
Lemma nat_eqb_spec a b : (a =? b) = true <-> a = b.
Proof. apply Nat.eqb_eq. Qed.

Lemma text_eqb_spec a b : text_eqb a b = true <-> a = b.
Proof. apply list_eqb_spec. exact nat_eqb_spec. Qed.

Lemma errv_eqb_spec a b : errv_eqb a b = true <-> a = b.
Proof.
  destruct a, b; simpl; split; intro H; try discriminate; try reflexivity.
  - apply Nat.eqb_eq in H. congruence.
  - injection H as ->. apply Nat.eqb_refl.
  - apply text_eqb_spec in H. congruence.
  - injection H as ->. apply text_eqb_spec. reflexivity.
Qed.

Lemma dkind_eqb_spec a b : dkind_eqb a b = true <-> a = b.
Proof.
  destruct a, b; simpl; split; intro H; try discriminate.
  - apply text_eqb_spec in H. congruence.
  - injection H as ->. apply text_eqb_spec. reflexivity.
  - apply (list_eqb_spec _ nat_eqb_spec) in H. congruence.
  - injection H as ->. apply (list_eqb_spec _ nat_eqb_spec). reflexivity.
  - apply errv_eqb_spec in H. congruence.
  - injection H as ->. apply errv_eqb_spec. reflexivity.
Qed.

Lemma detail_eqb_spec a b : detail_eqb a b = true <-> a = b.
Proof. apply pair_eqb_spec. exact nat_eqb_spec. exact dkind_eqb_spec. Qed.

Lemma details_eqb_spec a b : details_eqb a b = true <-> a = b.
Proof. apply list_eqb_spec. exact detail_eqb_spec. Qed.

Lemma tkind_eqb_spec a b : tkind_eqb a b = true <-> a = b.
Proof. destruct a, b; simpl; split; congruence. Qed.

Lemma test_eqb_spec a b : test_eqb a b = true <-> a = b.
Proof.
  destruct a as [i k], b as [j l]; unfold test_eqb; simpl; split; intro H.
  - apply andb_true_iff in H as [H1 H2]. apply Nat.eqb_eq in H1. apply tkind_eqb_spec in H2. congruence.
  - injection H as -> ->. rewrite Nat.eqb_refl. apply tkind_eqb_spec. reflexivity.
Qed.

Lemma ekind_eqb_spec a b : ekind_eqb a b = true <-> a = b.
Proof. destruct a, b; simpl; split; congruence. Qed.
Lemma okind_eqb_spec a b : okind_eqb a b = true <-> a = b.
Proof. destruct a, b; simpl; split; congruence. Qed.
Lemma exn_eqb_spec a b : exn_eqb a b = true <-> a = b.
Proof. destruct a, b; simpl; split; congruence. Qed.

Lemma sum_eqb_spec {A B} (ea : A -> A -> bool) (eb : B -> B -> bool) :
  (forall a b, ea a b = true <-> a = b) -> (forall a b, eb a b = true <-> a = b) ->
  forall x y, sum_eqb ea eb x y = true <-> x = y.
Proof.
  intros HA HB [a|b] [a'|b']; simpl; split; intro H; try discriminate.
  - apply HA in H. congruence.
  - injection H as ->. apply HA. reflexivity.
  - apply HB in H. congruence.
  - injection H as ->. apply HB. reflexivity.
Qed.

Lemma tags_eqb_spec a b : tags_eqb a b = true <-> a = b.
Proof. apply list_eqb_spec. exact nat_eqb_spec. Qed.

Lemma text_eqb_refl a : text_eqb a a = true. Proof. apply text_eqb_spec; reflexivity. Qed.
Lemma errv_eqb_refl a : errv_eqb a a = true. Proof. apply errv_eqb_spec; reflexivity. Qed.
Lemma details_eqb_refl a : details_eqb a a = true. Proof. apply details_eqb_spec; reflexivity. Qed.
Lemma test_eqb_refl a : test_eqb a a = true. Proof. apply test_eqb_spec; reflexivity. Qed.
Lemma ekind_eqb_refl a : ekind_eqb a a = true. Proof. apply ekind_eqb_spec; reflexivity. Qed.
Lemma okind_eqb_refl a : okind_eqb a a = true. Proof. apply okind_eqb_spec; reflexivity. Qed.
Lemma tags_eqb_refl a : tags_eqb a a = true. Proof. apply tags_eqb_spec; reflexivity. Qed.
Lemma opt_nat_eqb_refl a : option_eqb Nat.eqb a a = true.
Proof. apply (option_eqb_spec _ nat_eqb_spec); reflexivity. Qed.
Lemma opt_details_eqb_refl a : option_eqb details_eqb a a = true.
Proof. apply (option_eqb_spec _ details_eqb_spec); reflexivity. Qed.

Ltac split_andb H :=
  repeat match type of H with
         | (_ && _) = true => let H1 := fresh H in apply andb_true_iff in H as [H H1]
         end.

Lemma call_eqb_spec a b : call_eqb a b = true <-> a = b.
Proof.
  split.
  - destruct a, b; simpl; intro H; try discriminate; try reflexivity; split_andb H.
    + apply tags_eqb_spec in H, H0. congruence.
    + apply Nat.eqb_eq in H. congruence.
    + apply Nat.eqb_eq in H, H0. congruence.
    + apply test_eqb_spec in H. congruence.
    + apply test_eqb_spec in H. congruence.
    + apply ekind_eqb_spec in H. apply test_eqb_spec in H1.
      apply (sum_eqb_spec _ _ errv_eqb_spec details_eqb_spec) in H0. congruence.
    + apply test_eqb_spec in H. apply (sum_eqb_spec _ _ text_eqb_spec details_eqb_spec) in H0. congruence.
    + apply okind_eqb_spec in H. apply test_eqb_spec in H1.
      apply (option_eqb_spec _ details_eqb_spec) in H0. congruence.
  - intros <-. destruct a; simpl;
      rewrite ?tags_eqb_refl, ?Nat.eqb_refl, ?test_eqb_refl, ?ekind_eqb_refl, ?okind_eqb_refl; simpl;
      try reflexivity.
    + apply (sum_eqb_spec _ _ errv_eqb_spec details_eqb_spec). reflexivity.
    + apply (sum_eqb_spec _ _ text_eqb_spec details_eqb_spec). reflexivity.
    + apply (option_eqb_spec _ details_eqb_spec). reflexivity.
Qed.

Lemma cb_eqb_spec a b : cb_eqb a b = true <-> a = b.
Proof.
  destruct a as [t1 s1 a1 z1 g1 d1], b as [t2 s2 a2 z2 g2 d2]; unfold cb_eqb; simpl; split; intro H.
  - split_andb H.
    apply test_eqb_spec in H. apply (option_eqb_spec _ nat_eqb_spec) in H4, H3, H2.
    apply tags_eqb_spec in H1. apply (option_eqb_spec _ details_eqb_spec) in H0. congruence.
  - injection H as -> -> -> -> -> ->.
    rewrite test_eqb_refl, !opt_nat_eqb_refl, tags_eqb_refl, opt_details_eqb_refl. reflexivity.
Qed.

Lemma leaf_obs_eqb_spec a b : leaf_obs_eqb a b = true <-> a = b.
Proof.
  destruct a, b; simpl; split; intro H; try discriminate.
  - apply (list_eqb_spec _ call_eqb_spec) in H. congruence.
  - injection H as ->. apply (list_eqb_spec _ call_eqb_spec). reflexivity.
  - apply (list_eqb_spec _ cb_eqb_spec) in H. congruence.
  - injection H as ->. apply (list_eqb_spec _ cb_eqb_spec). reflexivity.
Qed.

Lemma raw_eqb_spec a b : raw_eqb a b = true <-> a = b.
Proof.
  destruct a as [l1 r1], b as [l2 r2]; unfold raw_eqb; simpl; split; intro H.
  - apply andb_true_iff in H as [H1 H2].
    apply (list_eqb_spec _ leaf_obs_eqb_spec) in H1.
    apply (list_eqb_spec _ (pair_eqb_spec _ _ nat_eqb_spec exn_eqb_spec)) in H2. congruence.
  - injection H as -> ->. apply andb_true_iff; split.
    + apply (list_eqb_spec _ leaf_obs_eqb_spec). reflexivity.
    + apply (list_eqb_spec _ (pair_eqb_spec _ _ nat_eqb_spec exn_eqb_spec)). reflexivity.
Qed.

Lemma obs_eqb_spec a b : obs_eqb a b = true <-> alpha a = alpha b.
Proof. unfold obs_eqb. apply raw_eqb_spec. Qed.

(* ================= substrings and _details_to_str ================= *)
Lemma prefixb_app p b : prefixb p (p ++ b) = true.
Proof. induction p as [|x p IH]; simpl; [reflexivity|]. rewrite Nat.eqb_refl. exact IH. Qed.

Lemma substringb_intro p a b : substringb p (a ++ p ++ b) = true.
Proof.
  induction a as [|x a IH]; simpl.
  - destruct (p ++ b) eqn:E; simpl.
    + destruct p; [reflexivity|discriminate].
    + rewrite <- E. rewrite prefixb_app. reflexivity.
  - rewrite IH. apply orb_true_r.
Qed.

Lemma prefixb_sound p s : prefixb p s = true -> exists b, s = p ++ b.
Proof.
  revert s; induction p as [|x p IH]; intros s H; simpl in *.
  - exists s; reflexivity.
  - destruct s as [|y s]; [discriminate|].
    apply andb_true_iff in H as [H1 H2]. apply Nat.eqb_eq in H1; subst y.
    destruct (IH _ H2) as [b ->]. exists b; reflexivity.
Qed.

Lemma substringb_sound p s : substringb p s = true -> Substring p s.
Proof.
  induction s as [|y s IH]; simpl; intro H.
  - rewrite orb_false_r in H. destruct (prefixb_sound _ _ H) as [b E]. exists [], b. exact E.
  - apply orb_true_iff in H as [H|H].
    + destruct (prefixb_sound _ _ H) as [b E]. exists [], b. exact E.
    + destruct (IH H) as (a & b & ->). exists (y :: a), b. reflexivity.
Qed.

Lemma substringb_complete p s : Substring p s -> substringb p s = true.
Proof. intros (a & b & ->). apply substringb_intro. Qed.

Lemma Substring_refl p : Substring p p.
Proof. exists [], []. simpl. rewrite app_nil_r. reflexivity. Qed.

Lemma Substring_wrap p x a b : Substring p x -> Substring p (a ++ x ++ b).
Proof.
  intros (u & v & ->). exists (a ++ u), (v ++ b). rewrite <- !app_assoc. reflexivity.
Qed.

Lemma Substring_app_r p x a : Substring p x -> Substring p (a ++ x).
Proof. intro H. rewrite <- (app_nil_r x). apply Substring_wrap. exact H. Qed.

Lemma Substring_app_l p x b : Substring p x -> Substring p (x ++ b).
Proof. intro H. apply (Substring_wrap p x [] b H). Qed.

Lemma Substring_join p x sep l : In x l -> Substring p x -> Substring p (join sep l).
Proof.
  induction l as [|y l IH]; intros Hin Hs; [destruct Hin|].
  destruct l as [|z l].
  - destruct Hin as [->|[]]. exact Hs.
  - change (join sep (y :: z :: l)) with (y ++ sep ++ join sep (z :: l)).
    destruct Hin as [->|Hin].
    + apply Substring_app_l. exact Hs.
    + apply Substring_app_r. apply Substring_app_r. apply IH; assumption.
Qed.

Lemma format_attachment_contains n t : Substring t (format_attachment n t).
Proof.
  unfold format_attachment. destruct (existsb (Nat.eqb nl) t).
  - exists (name_text n ++ t_open ++ [nl]), ([nl] ++ t_close ++ [nl]). rewrite <- !app_assoc. reflexivity.
  - exists (name_text n ++ t_open), t_close. rewrite <- !app_assoc. reflexivity.
Qed.

Lemma nodupb_NoDup l : nodupb l = true -> NoDup l.
Proof.
  induction l as [|x l IH]; simpl; intro H; [constructor|].
  apply andb_true_iff in H as [H1 H2]. constructor; [|apply IH; exact H2].
  intro Hin. apply negb_true_iff in H1.
  assert (existsb (Nat.eqb x) l = true); [|congruence].
  apply existsb_exists. exists x. split; [exact Hin|apply Nat.eqb_refl].
Qed.

(* what the scan of _details_to_str keeps of a text attachment that is not blank *)
Lemma d2s_scan_keeps special ds n t :
  NoDup (map fst ds) -> In (n, DText t) ds -> strip t <> [] ->
  let '(bin, emp, txt, sp) := d2s_scan special ds in
  if option_eqb Nat.eqb (Some n) special
  then sp = Some (strip t ++ [nl])
  else In (format_attachment n (strip t)) txt.
Proof.
  induction ds as [|[m k] r IH]; intros Hnd Hin Hne; [destruct Hin|].
  simpl in Hnd. inversion Hnd as [|? ? Hnotin Hnd']; subst.
  simpl. destruct (d2s_scan special r) as [[[bin emp] txt] sp] eqn:E.
  destruct Hin as [Heq|Hin].
  - injection Heq as -> ->. simpl.
    destruct (strip t) eqn:Es; [congruence|]. rewrite <- Es.
    destruct (option_eqb Nat.eqb (Some n) special); [reflexivity|left; reflexivity].
  - specialize (IH Hnd' Hin Hne).
    assert (Hmn : m <> n).
    { intro; subst m. apply Hnotin. change n with (fst (n, DText t)). apply in_map. exact Hin. }
    destruct (dtext k) as [tk|]; [|exact IH].
    destruct (strip tk) eqn:Etk; [exact IH|]. rewrite <- Etk.
    destruct (option_eqb Nat.eqb (Some m) special) eqn:Em.
    + destruct (option_eqb Nat.eqb (Some n) special) eqn:En; [|exact IH].
      exfalso. destruct special as [s|]; simpl in Em, En; [|discriminate].
      apply Nat.eqb_eq in Em, En. congruence.
    + destruct (option_eqb Nat.eqb (Some n) special); [exact IH|right; exact IH].
Qed.

(* the text _details_to_str makes contains every text attachment that is not blank *)
Lemma details_to_str_contains ds special :
  NoDup (map fst ds) -> ContainsAll ds (details_to_str ds special).
Proof.
  intros Hnd n t Hin Hne. unfold details_to_str.
  pose proof (isort_perm detail_leb ds) as Hp.
  assert (Hnd' : NoDup (map fst (isort detail_leb ds))).
  { eapply Permutation_NoDup; [apply Permutation_map; exact Hp|exact Hnd]. }
  assert (Hin' : In (n, DText t) (isort detail_leb ds)) by (eapply Permutation_in; eassumption).
  pose proof (d2s_scan_keeps special _ n t Hnd' Hin' Hne) as K.
  destruct (d2s_scan special (isort detail_leb ds)) as [[[bin emp] txt] sp].
  set (txt1 := if negb (is_nil txt) && negb (ends_nl (last txt [])) then txt ++ [[]] else txt).
  set (txt2 := match sp with Some s => txt1 ++ [s] | None => txt1 end).
  assert (H1 : forall x, In x txt -> In x txt2).
  { intros x Hx. assert (In x txt1).
    { unfold txt1. destruct (negb (is_nil txt) && negb (ends_nl (last txt []))); [apply in_or_app; left|]; exact Hx. }
    unfold txt2. destruct sp; [apply in_or_app; left|]; assumption. }
  assert (Hsub : exists x, In x txt2 /\ Substring (strip t) x).
  { destruct (option_eqb Nat.eqb (Some n) special).
    - subst sp. exists (strip t ++ [nl]). split.
      + unfold txt2. apply in_or_app. right. left. reflexivity.
      + apply Substring_app_l. apply Substring_refl.
    - exists (format_attachment n (strip t)). split; [apply H1; exact K|apply format_attachment_contains]. }
  destruct Hsub as (x & Hx & Hs).
  do 3 apply Substring_app_r. eapply Substring_join; eassumption.
Qed.

Lemma contains_all_spec d s : contains_all d s = true <-> ContainsAll d s.
Proof.
  unfold contains_all, ContainsAll. rewrite forallb_forall. split.
  - intros H n t Hin Hne. specialize (H _ Hin). simpl in H.
    apply orb_true_iff in H as [H|H].
    + destruct (strip t); [congruence|discriminate].
    + apply substringb_sound. exact H.
  - intros H [n k] Hin. simpl. destruct k as [t| |]; try reflexivity.
    destruct (strip t) eqn:E; [reflexivity|]. rewrite <- E. simpl.
    apply substringb_complete. apply H with n; [exact Hin|congruence].
Qed.
